(** C27 — proofs about the browser-persistence event-loop machine of C27/Model.v.

    Outline: a conformant step ([step] + [conf_ev]) is first put in a clean relational form
    ([cstep]); an invariant [Inv] of conformant runs is proved component by component
    (queue well-formedness with waiter counting, typing of the data in flight, the order of the
    pipeline of puts, the manifest task / transaction protocol, the chain of manifests, landed
    commits); the theorems of Props/C27.v follow from [Inv]. *)
From Coq Require Import List NArith Bool Lia Arith.
From SL Require Import C27.Model.
Import ListNotations.
Open Scope N_scope.

(** * Concrete schedules *)

(** init, fully persisted (the same list is conformant for both values of [fixed]) *)
Definition sched_init : list ev := [EInit; ERun PMan; EReq 0%nat; EDone 0%nat; ERun PMan; EApiPoll].

Definition sched_finish (p : path) : list ev := [EReq 0%nat; EDone 0%nat; ERun p].

Definition commit_paths (sg : N) : list path := PWal :: seg_files sg ++ [PMan].

(** one add + commit of segment [sg], every task polled in FIFO order, every transaction
    completed in creation order, then the commit promise polled *)
Definition sched_commit (sg d : N) : list ev :=
  [EAdd d; ECommit] ++ map ERun (commit_paths sg) ++ flat_map sched_finish (commit_paths sg) ++ [EApiPoll].

Definition sched_one : list ev := sched_init ++ sched_commit 0 0.
Definition sched_two : list ev := sched_init ++ sched_commit 0 0 ++ sched_commit 1 1.

(** the manifest task polled before the segment-file tasks (not FIFO) *)
Definition sched_any_order : list ev :=
  sched_init ++ [EAdd 0; ECommit; ERun PMan; EReq 0%nat; EDone 0%nat].

(** conformant, unrepaired code: the commit promise resolves while the manifest transaction is
    finished but not durable *)
Definition sched_early : list ev :=
  sched_init ++ [EAdd 0; ECommit] ++ map ERun (commit_paths 0) ++
  flat_map sched_finish (PWal :: seg_files 0) ++ [EReq 0%nat; ERun PMan; EApiPoll].

Lemma any_order_refuted : forall fixed, exists evs s,
  run fixed st0 evs = Some s /\ reload (idb s) = None.
Proof.
  intros fixed. exists sched_any_order.
  destruct fixed.
  - destruct (run true st0 sched_any_order) as [s|] eqn:Hrun.
    + exists s. split; [reflexivity|].
      revert Hrun. vm_compute. intros Hrun. injection Hrun as <-. reflexivity.
    + revert Hrun. vm_compute. discriminate.
  - destruct (run false st0 sched_any_order) as [s|] eqn:Hrun.
    + exists s. split; [reflexivity|].
      revert Hrun. vm_compute. intros Hrun. injection Hrun as <-. reflexivity.
    + revert Hrun. vm_compute. discriminate.
Qed.

Lemma resolved_before_durable_refuted : exists evs s m r,
  run false st0 evs = Some s /\ conf_run false st0 evs = true /\
  In r (resolvedc s) /\ reload (idb s) = Some m /\ ~ incl r m.
Proof.
  exists sched_early.
  destruct (run false st0 sched_early) as [s|] eqn:Hrun.
  - exists s, [], [0]. split; [reflexivity|].
    revert Hrun. vm_compute. intros Hrun. injection Hrun as <-.
    split; [reflexivity|]. split; [left; reflexivity|]. split; [reflexivity|].
    intros Hincl. apply (Hincl 0). left; reflexivity.
  - revert Hrun. vm_compute. discriminate.
Qed.

(* ------------------------------------------------------------------ *)
(** * Paths *)

Lemma path_eqb_eq : forall a b, path_eqb a b = true <-> a = b.
Proof.
  intros a b; split.
  - destruct a as [| |s k], b as [| |s' k']; cbn; intros H; try discriminate; try reflexivity.
    apply andb_true_iff in H. destruct H as [H1 H2].
    apply N.eqb_eq in H1. apply N.eqb_eq in H2. subst. reflexivity.
  - intros <-. destruct a as [| |s k]; cbn; try reflexivity.
    rewrite !N.eqb_refl. reflexivity.
Qed.

Lemma path_eqb_refl : forall a, path_eqb a a = true.
Proof. intros a. apply path_eqb_eq. reflexivity. Qed.

Lemma path_eqb_neq : forall a b, path_eqb a b = false <-> a <> b.
Proof.
  intros a b. split.
  - intros H E. apply path_eqb_eq in E. congruence.
  - intros H. destruct (path_eqb a b) eqn:E; [apply path_eqb_eq in E; contradiction|reflexivity].
Qed.

Lemma path_eq_dec : forall a b : path, {a = b} + {a <> b}.
Proof.
  intros a b. destruct (path_eqb a b) eqn:E.
  - left. apply path_eqb_eq. exact E.
  - right. apply path_eqb_neq. exact E.
Qed.

Ltac peq a b :=
  let E := fresh "E" in
  destruct (path_eqb a b) eqn:E;
  [apply path_eqb_eq in E; try subst | apply path_eqb_neq in E].

(** * The queue as an association list *)

Definition qkeys (q : list (path * qent)) : list path := map fst q.

Lemma qlookup_qset : forall p e q p',
  qlookup p' (qset p e q) = if path_eqb p' p then Some e else qlookup p' q.
Proof.
  intros p e q p'. induction q as [|[p0 e0] q IH]; cbn.
  - reflexivity.
  - peq p p0.
    + cbn. destruct (path_eqb p' p0); reflexivity.
    + cbn. peq p' p0.
      * assert (Hn : path_eqb p0 p = false) by (apply path_eqb_neq; congruence).
        rewrite Hn. reflexivity.
      * exact IH.
Qed.

Lemma qlookup_snoc : forall p e q p',
  qlookup p' (q ++ [(p, e)]) =
  match qlookup p' q with Some x => Some x | None => if path_eqb p' p then Some e else None end.
Proof.
  intros p e q p'. induction q as [|[p0 e0] q IH]; cbn.
  - reflexivity.
  - destruct (path_eqb p' p0); [reflexivity|exact IH].
Qed.

Lemma qlookup_qdel_other : forall p q p', p' <> p -> qlookup p' (qdel p q) = qlookup p' q.
Proof.
  intros p q p' Hne. induction q as [|[p0 e0] q IH]; cbn.
  - reflexivity.
  - peq p p0.
    + assert (Hn : path_eqb p' p0 = false) by (apply path_eqb_neq; exact Hne).
      rewrite Hn. reflexivity.
    + cbn. destruct (path_eqb p' p0); [reflexivity|exact IH].
Qed.

Lemma qlookup_In : forall p q e, qlookup p q = Some e -> In (p, e) q.
Proof.
  intros p q e. induction q as [|[p0 e0] q IH]; cbn; intros H.
  - discriminate.
  - peq p p0.
    + injection H as <-. left; reflexivity.
    + right. apply IH. exact H.
Qed.

Lemma qlookup_keys : forall p q e, qlookup p q = Some e -> In p (qkeys q).
Proof.
  intros p q e H. apply qlookup_In in H. unfold qkeys.
  change p with (fst (p, e)). apply in_map. exact H.
Qed.

Lemma qlookup_none_keys : forall p q, qlookup p q = None <-> ~ In p (qkeys q).
Proof.
  intros p q. induction q as [|[p0 e0] q IH]; cbn.
  - split; [intros _ []|reflexivity].
  - peq p p0.
    + split; [discriminate|]. intros H. exfalso. apply H. left; reflexivity.
    + rewrite IH. split.
      * intros H [H1|H1]; [congruence|contradiction].
      * intros H H1. apply H. right. exact H1.
Qed.

Lemma In_qset : forall x p e q, In x (qset p e q) -> x = (p, e) \/ In x q.
Proof.
  intros x p e q. induction q as [|[p0 e0] q IH]; cbn.
  - intros [H|[]]. left; congruence.
  - peq p p0; cbn.
    + intros [H|H]; [left; congruence|right; right; exact H].
    + intros [H|H]; [right; left; exact H|].
      destruct (IH H) as [H1|H1]; [left; exact H1|right; right; exact H1].
Qed.

Lemma In_qdel : forall x p q, In x (qdel p q) -> In x q.
Proof.
  intros x p q. induction q as [|[p0 e0] q IH]; cbn.
  - intros [].
  - peq p p0; cbn.
    + intros H; right; exact H.
    + intros [H|H]; [left; exact H|right; apply IH; exact H].
Qed.

Lemma qsplit : forall p q e, qlookup p q = Some e ->
  exists q1 q2, q = q1 ++ (p, e) :: q2 /\
    (forall e', qset p e' q = q1 ++ (p, e') :: q2) /\ qdel p q = q1 ++ q2.
Proof.
  intros p q e. induction q as [|[p0 e0] q IH]; cbn; intros H.
  - discriminate.
  - peq p p0.
    + injection H as <-. exists [], q. cbn. repeat split; reflexivity.
    + destruct (IH H) as (q1 & q2 & H1 & H2 & H3).
      exists ((p0, e0) :: q1), q2. cbn. repeat split.
      * rewrite H1 at 1. reflexivity.
      * intros e'. rewrite H2. reflexivity.
      * rewrite H3. reflexivity.
Qed.

Lemma qkeys_qset_some : forall p e q e0, qlookup p q = Some e0 -> qkeys (qset p e q) = qkeys q.
Proof.
  intros p e q e0 H. destruct (qsplit _ _ _ H) as (q1 & q2 & H1 & H2 & _).
  rewrite H2. subst q. unfold qkeys. rewrite !map_app. reflexivity.
Qed.

Lemma qkeys_qdel : forall p q p', In p' (qkeys (qdel p q)) -> In p' (qkeys q).
Proof.
  intros p q p' H. unfold qkeys in *. apply in_map_iff in H. destruct H as ([a b] & H1 & H2).
  apply In_qdel in H2. apply in_map_iff. exists (a, b). split; assumption.
Qed.

(** * The durable store *)

Definition keys (d : list (path * content)) : list path := map fst d.

Lemma ilookup_iput : forall p c d p',
  ilookup p' (iput p c d) = if path_eqb p' p then Some c else ilookup p' d.
Proof.
  intros p c d p'. induction d as [|[p0 c0] d IH]; cbn.
  - reflexivity.
  - peq p p0.
    + cbn. destruct (path_eqb p' p0); reflexivity.
    + cbn. peq p' p0.
      * assert (Hn : path_eqb p0 p = false) by (apply path_eqb_neq; congruence).
        rewrite Hn. reflexivity.
      * exact IH.
Qed.

Lemma ilookup_keys : forall p d, ilookup p d <> None <-> In p (keys d).
Proof.
  intros p d. induction d as [|[p0 c0] d IH]; cbn.
  - split; [congruence|intros []].
  - peq p p0.
    + split; [intros _; left; reflexivity|discriminate].
    + rewrite IH. split; [intros H; right; exact H|intros [H|H]; [congruence|exact H]].
Qed.

Lemma has_path_keys : forall d p, has_path d p = true <-> In p (keys d).
Proof.
  intros d p. rewrite <- ilookup_keys. unfold has_path.
  destruct (ilookup p d); split; congruence.
Qed.

Lemma keys_iput : forall p c d p', In p' (keys (iput p c d)) <-> p' = p \/ In p' (keys d).
Proof.
  intros p c d p'. rewrite <- !ilookup_keys. rewrite ilookup_iput.
  peq p' p.
  - split; [intros _; left; reflexivity|discriminate].
  - split; [intros H; right; exact H|intros [H|H]; [congruence|exact H]].
Qed.

(** * Counting occurrences: disjointness and duplicate-freeness as arithmetic *)

Definition cnt (l : list N) (r : N) : nat := count_occ N.eq_dec l r.

Lemma cnt_app : forall l1 l2 r, cnt (l1 ++ l2) r = (cnt l1 r + cnt l2 r)%nat.
Proof. intros. unfold cnt. apply count_occ_app. Qed.

Lemma cnt_nil : forall r, cnt [] r = 0%nat.
Proof. reflexivity. Qed.

Lemma cnt_In : forall l r, In r l <-> (cnt l r > 0)%nat.
Proof. intros. unfold cnt. apply count_occ_In. Qed.

Lemma cnt_not_In : forall l r, ~ In r l <-> cnt l r = 0%nat.
Proof. intros. unfold cnt. apply count_occ_not_In. Qed.

Lemma cnt_one_same : forall r, cnt [r] r = 1%nat.
Proof. intros. unfold cnt. cbn. destruct (N.eq_dec r r); congruence. Qed.

Lemma cnt_one_other : forall r r', r <> r' -> cnt [r] r' = 0%nat.
Proof. intros. unfold cnt. cbn. destruct (N.eq_dec r r'); congruence. Qed.

(** * remove_path under FIFO *)

Lemma remove_path_head : forall p l, remove_path p (p :: l) = Some l.
Proof. intros. cbn. rewrite path_eqb_refl. reflexivity. Qed.

(** * all_in *)

Lemma all_in_spec : forall l res, all_in l res = true <-> incl l res.
Proof.
  intros l res. unfold all_in. rewrite forallb_forall. unfold incl. split.
  - intros H r Hr. specialize (H r Hr). apply existsb_exists in H.
    destruct H as (x & Hx & Heq). apply N.eqb_eq in Heq. subst. exact Hx.
  - intros H r Hr. apply existsb_exists. exists r. split; [apply H; exact Hr|apply N.eqb_refl].
Qed.


(* ------------------------------------------------------------------ *)
Arguments schedule : simpl never.
Arguments schedule_all : simpl never.
Arguments wake : simpl never.
Arguments loop_top : simpl never.
Arguments seg_files : simpl never.

(** * A clean view of conformant steps *)

(** the machine fields replaced, the API fields kept *)
Definition with_m (s : st) (q : list (path * qent)) (rq : list path) (tx : list txn)
    (d : list (path * content)) (res : list N) : st :=
  {| queue := q; runq := rq; txs := tx; idb := d; nrid := nrid s; resolved := res;
     pend := pend s; loaded := loaded s; ready := ready s; man := man s; nseg := nseg s;
     segdocs := segdocs s; cur := cur s; started := started s; resolvedc := resolvedc s;
     awaiting := awaiting s |}.

Definition woken_ent (e : qent) (ws : list N) : qent :=
  {| q_pend := q_pend e; q_wait := q_wait e; q_task := TWoken ws |}.

Definition await_ent (e : qent) : qent :=
  {| q_pend := None; q_wait := []; q_task := TAwait (q_wait e) |}.

Definition newtx (p : path) (c : content) : txn := {| x_path := p; x_data := c; x_done := false |}.
Definition donetx (x : txn) : txn := {| x_path := x_path x; x_data := x_data x; x_done := true |}.

Definition wakeif (b : bool) (p : path) (s : st) : st := if b then wake p s else s.

Lemma wakeif_cases : forall b p s,
  (wakeif b p s = s /\
     (b = false \/ qlookup p (queue s) = None \/
      exists e, qlookup p (queue s) = Some e /\ forall ws, q_task e <> TAwait ws)) \/
  (b = true /\ exists e ws, qlookup p (queue s) = Some e /\ q_task e = TAwait ws /\
     wakeif b p s = with_m s (qset p (woken_ent e ws) (queue s)) (runq s ++ [p]) (txs s) (idb s) (resolved s)).
Proof.
  intros b p s. destruct b; cbn.
  - unfold wake. destruct (qlookup p (queue s)) as [e|] eqn:Hl.
    + destruct (q_task e) as [|ws|ws] eqn:Ht.
      * left. split; [reflexivity|]. right; right. exists e. split; [reflexivity|].
        intros ws; congruence.
      * right. split; [reflexivity|]. exists e, ws. split; [reflexivity|]. split; [exact Ht|reflexivity].
      * left. split; [reflexivity|]. right; right. exists e. split; [reflexivity|].
        intros ws'; congruence.
    + left. split; [reflexivity|]. right; left; reflexivity.
  - left. split; [reflexivity|]. left; reflexivity.
Qed.

Definition commit_list (sg : N) (m' : list N) : list (path * content) :=
  map (fun p => (p, CSeg)) (seg_files sg) ++ [(PMan, CMan m'); (PWal, CWal); (PWal, CWal)].

Inductive cstep (fixed : bool) (s : st) : st -> Prop :=
| CInit : forall s1, loaded s = false -> s1 = schedule PMan (CMan []) s ->
    cstep fixed s
      ({| queue := queue s1; runq := runq s1; txs := txs s1; idb := idb s1; nrid := nrid s1;
          resolved := resolved s1; pend := []; loaded := true; ready := false; man := [];
          nseg := nseg s1; segdocs := segdocs s1; cur := cur s1; started := started s1;
          resolvedc := resolvedc s1; awaiting := Some (pend s1, AInit) |})
| CAdd : forall d s1, ready s = true -> s1 = schedule PWal CWal s ->
    cstep fixed s
      ({| queue := queue s1; runq := runq s1; txs := txs s1; idb := idb s1; nrid := nrid s1;
          resolved := resolved s1; pend := pend s1; loaded := loaded s1; ready := ready s1;
          man := man s1; nseg := nseg s1; segdocs := segdocs s1; cur := cur s1 ++ [d];
          started := started s1; resolvedc := resolvedc s1; awaiting := awaiting s1 |})
| CCommit0 : ready s = true -> awaiting s = None -> cur s = [] ->
    cstep fixed s
      {| queue := queue s; runq := runq s; txs := txs s; idb := idb s; nrid := nrid s;
         resolved := resolved s; pend := []; loaded := loaded s; ready := ready s;
         man := man s; nseg := nseg s; segdocs := segdocs s; cur := [];
         started := started s ++ [man s]; resolvedc := resolvedc s;
         awaiting := Some (pend s, ACommit (man s)) |}
| CCommit : forall sg m' s1, ready s = true -> awaiting s = None -> cur s <> [] ->
    sg = nseg s -> m' = man s ++ [sg] -> s1 = schedule_all (commit_list sg m') s ->
    cstep fixed s
      ({| queue := queue s1; runq := runq s1; txs := txs s1; idb := idb s1; nrid := nrid s1;
          resolved := resolved s1; pend := []; loaded := loaded s1; ready := ready s1;
          man := m'; nseg := sg + 1; segdocs := segdocs s1 ++ [(sg, cur s)]; cur := [];
          started := started s1 ++ [m']; resolvedc := resolvedc s1;
          awaiting := Some (pend s1, ACommit m') |})
| CPollSame : cstep fixed s s
| CPoll : forall rids k, awaiting s = Some (rids, k) -> incl rids (resolved s) ->
    cstep fixed s
      {| queue := queue s; runq := runq s; txs := txs s; idb := idb s; nrid := nrid s;
         resolved := resolved s; pend := pend s; loaded := loaded s;
         ready := true; man := man s; nseg := nseg s; segdocs := segdocs s; cur := cur s;
         started := started s;
         resolvedc := match k with AInit => resolvedc s | ACommit m => resolvedc s ++ [m] end;
         awaiting := None |}
| CRunFresh : forall p rq e c, runq s = p :: rq -> qlookup p (queue s) = Some e ->
    q_task e = TFresh -> q_pend e = Some c ->
    cstep fixed s
      (with_m s (qset p (await_ent e) (queue s)) rq (txs s ++ [newtx p c]) (idb s) (resolved s))
| CRunWokenSome : forall p rq e ws c, runq s = p :: rq -> qlookup p (queue s) = Some e ->
    q_task e = TWoken ws -> q_pend e = Some c ->
    cstep fixed s
      (with_m s (qset p (await_ent e) (queue s)) rq (txs s ++ [newtx p c]) (idb s) (resolved s ++ ws))
| CRunWokenNone : forall p rq e ws, runq s = p :: rq -> qlookup p (queue s) = Some e ->
    q_task e = TWoken ws -> q_pend e = None ->
    cstep fixed s
      (with_m s (qdel p (queue s)) rq (txs s) (idb s) (resolved s ++ ws))
| CReq : forall x t, txs s = x :: t -> x_done x = false ->
    cstep fixed s
      (wakeif (negb fixed) (x_path x)
         (with_m s (queue s) (runq s) (donetx x :: t) (idb s) (resolved s)))
| CDone : forall x t, txs s = x :: t -> x_done x = true ->
    cstep fixed s
      (wakeif fixed (x_path x)
         (with_m s (queue s) (runq s) t (iput (x_path x) (x_data x) (idb s)) (resolved s))).

Lemma step_cstep : forall fixed s e s',
  step fixed s e = Some s' -> conf_ev s e = true -> cstep fixed s s'.
Proof.
  intros fixed s e s' Hstep Hconf. destruct e as [|d| | |p|i|i]; unfold step in Hstep.
  - destruct (loaded s) eqn:Hl; [discriminate|]. injection Hstep as <-.
    apply (CInit fixed s _ Hl eq_refl).
  - destruct (negb (ready s)) eqn:Hr; [discriminate|]. apply negb_false_iff in Hr.
    injection Hstep as <-. apply (CAdd fixed s d _ Hr eq_refl).
  - destruct (negb (ready s)) eqn:Hr; [discriminate|]. apply negb_false_iff in Hr.
    destruct (awaiting s) as [a|] eqn:Ha; [discriminate|].
    destruct (cur s) as [|d0 cs] eqn:Hc.
    + injection Hstep as <-. apply (CCommit0 fixed s Hr Ha Hc).
    + injection Hstep as <-.
      assert (Hne : cur s <> []) by (rewrite Hc; discriminate).
      rewrite <- Hc. apply (CCommit fixed s _ _ _ Hr Ha Hne eq_refl eq_refl eq_refl).
  - destruct (awaiting s) as [[rids k]|] eqn:Ha.
    + destruct (all_in rids (resolved s)) eqn:Hall.
      * injection Hstep as <-. apply all_in_spec in Hall.
        apply (CPoll fixed s rids k Ha Hall).
      * injection Hstep as <-. apply CPollSame.
    + injection Hstep as <-. apply CPollSame.
  - cbn in Hconf. destruct (runq s) as [|q rq] eqn:Hrq; [discriminate|].
    apply path_eqb_eq in Hconf. subst q.
    rewrite remove_path_head in Hstep.
    destruct (qlookup p (queue s)) as [e|] eqn:Hl; [|discriminate].
    destruct (q_task e) as [|ws|ws] eqn:Ht.
    + destruct (q_pend e) as [c|] eqn:Hp; [|discriminate]. injection Hstep as <-.
      unfold loop_top. rewrite Hp. apply (CRunFresh fixed s p rq e c Hrq Hl Ht Hp).
    + discriminate.
    + injection Hstep as <-. unfold loop_top. destruct (q_pend e) as [c|] eqn:Hp.
      * apply (CRunWokenSome fixed s p rq e ws c Hrq Hl Ht Hp).
      * apply (CRunWokenNone fixed s p rq e ws Hrq Hl Ht Hp).
  - cbn in Hconf. apply Nat.eqb_eq in Hconf. subst i.
    destruct (txs s) as [|x t] eqn:Htx; cbn in Hstep; [discriminate|].
    destruct (x_done x) eqn:Hd; [discriminate|]. injection Hstep as <-.
    replace (if fixed then _ else _) with
      (wakeif (negb fixed) (x_path x)
         (with_m s (queue s) (runq s) (donetx x :: t) (idb s) (resolved s))).
    + apply (CReq fixed s x t Htx Hd).
    + destruct fixed; reflexivity.
  - cbn in Hconf. apply Nat.eqb_eq in Hconf. subst i.
    destruct (txs s) as [|x t] eqn:Htx; cbn in Hstep; [discriminate|].
    destruct (x_done x) eqn:Hd; cbn in Hstep; [|discriminate]. injection Hstep as <-.
    replace (if fixed then _ else _) with
      (wakeif fixed (x_path x)
         (with_m s (queue s) (runq s) t (iput (x_path x) (x_data x) (idb s)) (resolved s))).
    + apply (CDone fixed s x t Htx Hd).
    + destruct fixed; reflexivity.
Qed.

Ltac prj := cbv zeta;
  cbn [queue runq txs idb nrid resolved pend loaded ready man nseg segdocs cur started resolvedc
       awaiting with_m].
Ltac prj_in H := cbv zeta in H;
  cbn [queue runq txs idb nrid resolved pend loaded ready man nseg segdocs cur started resolvedc
       awaiting with_m] in H.
Ltac prj_all := cbv zeta in *;
  cbn [queue runq txs idb nrid resolved pend loaded ready man nseg segdocs cur started resolvedc
       awaiting with_m] in *.

Ltac cinv Hc :=
  destruct Hc as
    [ s1 Hld Hs1
    | d s1 Hrd Hs1
    | Hrd Haw Hcur
    | sg m' s1 Hrd Haw Hcur Hsg Hm' Hs1
    |
    | rids k Haw Hall
    | p rq e c Hrq Hlk Ht Hp
    | p rq e ws c Hrq Hlk Ht Hp
    | p rq e ws Hrq Hlk Ht Hp
    | x t Htx Hd
    | x t Htx Hd ].


(* ------------------------------------------------------------------ *)
(** * Vocabulary of the invariant *)

Definition tws (t : tstate) : list N :=
  match t with TFresh => [] | TAwait ws => ws | TWoken ws => ws end.
Definition waiters (e : qent) : list N := q_wait e ++ tws (q_task e).
Definition wl (q : list (path * qent)) : list N := flat_map (fun pe => waiters (snd pe)) q.

(** what a runnable task will put when polled, if it is at the top of its loop *)
Definition fd (q : list (path * qent)) (p : path) : list (path * content) :=
  match qlookup p q with
  | Some e => match q_task e, q_pend e with TFresh, Some c => [(p, c)] | _, _ => [] end
  | None => []
  end.
Definition txd (x : txn) : path * content := (x_path x, x_data x).
(** the puts in the order in which a conformant platform makes them durable *)
Definition pipe (s : st) : list (path * content) :=
  map txd (txs s) ++ flat_map (fd (queue s)) (runq s).

Definition need (pc : path * content) : list path :=
  match fst pc with
  | PMan => match snd pc with CMan m => flat_map seg_files m | _ => [] end
  | _ => []
  end.

Fixpoint ordered (have : list path) (l : list (path * content)) : Prop :=
  match l with
  | [] => True
  | pc :: l' => incl (need pc) have /\ ordered (fst pc :: have) l'
  end.

Definition okd (S : list (list N)) (p : path) (c : content) : Prop :=
  match p with
  | PMan => exists m, c = CMan m /\ In m ([] :: S)
  | PWal => c = CWal
  | PSeg _ _ => c = CSeg
  end.

Definition Ewf (e : qent) : Prop :=
  waiters e <> [] /\ (q_pend e <> None -> q_wait e <> []) /\ (q_task e = TFresh -> q_pend e <> None).

Definition active (fixed : bool) (x : txn) : bool :=
  match x_path x with PMan => fixed || negb (x_done x) | _ => false end.
Definition amt (fixed : bool) (s : st) : list content := map x_data (filter (active fixed) (txs s)).

Definition dman (s : st) (m : list N) : Prop :=
  exists m', ilookup PMan (idb s) = Some (CMan m') /\ incl m m'.
Definition landed (fixed : bool) (s : st) (m : list N) : Prop :=
  dman s m \/
  (fixed = false /\ exists x m', In x (txs s) /\ x_path x = PMan /\ x_done x = true /\
                                 x_data x = CMan m' /\ incl m m').

Definition mstate (fixed : bool) (s : st) : Prop :=
  match qlookup PMan (queue s) with
  | None => amt fixed s = [] /\ (loaded s = true -> landed fixed s (man s))
  | Some e =>
      match q_task e with
      | TFresh => amt fixed s = [] /\ q_pend e = Some (CMan (man s))
      | TAwait _ => q_pend e = None /\ amt fixed s = [CMan (man s)]
      | TWoken _ => q_pend e = None /\ amt fixed s = [] /\ landed fixed s (man s)
      end
  end.

Definition imans (d : list (path * content)) : list (list N) :=
  match ilookup PMan d with Some (CMan m) => [m] | _ => [] end.
Definition tman (x : txn) : list (list N) :=
  match x_path x, x_data x with PMan, CMan m => [m] | _, _ => [] end.
Definition ML (s : st) : list (list N) := imans (idb s) ++ flat_map tman (txs s) ++ [man s].
Fixpoint chain (l : list (list N)) : Prop :=
  match l with
  | [] => True
  | a :: l' => (forall b, In b l' -> incl a b) /\ chain l'
  end.

(** invariants of the queue that every [schedule] preserves *)
Record QI (s : st) : Prop := {
  q_keys : NoDup (qkeys (queue s));
  q_nodup : NoDup (runq s);
  q_rq : forall p, In p (runq s) ->
           exists e, qlookup p (queue s) = Some e /\ forall ws, q_task e <> TAwait ws;
  q_ewf : forall p e, In (p, e) (queue s) -> Ewf e;
  q_w1 : forall r, (cnt (wl (queue s)) r + cnt (resolved s) r <= 1)%nat;
  q_w2 : forall r, In r (wl (queue s)) \/ In r (resolved s) -> r < nrid s
}.

Definition TQ (S : list (list N)) (s : st) : Prop :=
  forall p e c, In (p, e) (queue s) -> q_pend e = Some c -> okd S p c.

Definition PC (s : st) : Prop :=
  forall e, qlookup PMan (queue s) = Some e -> incl (waiters e) (pend s).

(** * Small list facts *)

Lemma NoDup_snoc : forall (A : Type) (l : list A) (a : A), NoDup l -> ~ In a l -> NoDup (l ++ [a]).
Proof.
  intros A l a Hnd Hni. induction l as [|b l IH]; cbn.
  - constructor; [intros []|constructor].
  - inversion Hnd as [|b' l' Hb Hl]; subst. constructor.
    + intros Hin. apply in_app_or in Hin. destruct Hin as [Hin|[Hin|[]]].
      * contradiction.
      * subst. apply Hni. left; reflexivity.
    + apply IH; [exact Hl|]. intros Hin. apply Hni. right; exact Hin.
Qed.

Lemma qlookup_qdel_same : forall p q, NoDup (qkeys q) -> qlookup p (qdel p q) = None.
Proof.
  intros p q Hnd. destruct (qlookup p q) as [e|] eqn:Hl.
  - destruct (qsplit _ _ _ Hl) as (q1 & q2 & H1 & _ & H3). rewrite H3. subst q.
    unfold qkeys in Hnd. rewrite map_app in Hnd. cbn [map fst] in Hnd.
    apply NoDup_remove_2 in Hnd. apply qlookup_none_keys. unfold qkeys. rewrite map_app. exact Hnd.
  - apply qlookup_none_keys. intros Hin. apply qkeys_qdel in Hin.
    apply qlookup_none_keys in Hl. contradiction.
Qed.

Lemma qkeys_qdel_nodup : forall p q, NoDup (qkeys q) -> NoDup (qkeys (qdel p q)).
Proof.
  intros p q Hnd. destruct (qlookup p q) as [e|] eqn:Hl.
  - destruct (qsplit _ _ _ Hl) as (q1 & q2 & H1 & _ & H3). rewrite H3. subst q.
    unfold qkeys in *. rewrite map_app in *. cbn [map fst] in Hnd.
    apply NoDup_remove_1 in Hnd. exact Hnd.
  - assert (H : qdel p q = q).
    { apply qlookup_none_keys in Hl. clear Hnd. induction q as [|[p0 e0] q IH]; cbn in *; [reflexivity|].
      peq p p0.
      - exfalso. apply Hl. left; reflexivity.
      - rewrite IH; [reflexivity|]. intros Hin. apply Hl. right; exact Hin. }
    rewrite H. exact Hnd.
Qed.

Lemma flat_map_ext_in : forall (A B : Type) (f g : A -> list B) (l : list A),
  (forall a, In a l -> f a = g a) -> flat_map f l = flat_map g l.
Proof.
  intros A B f g l H. induction l as [|a l IH]; cbn.
  - reflexivity.
  - rewrite (H a (or_introl eq_refl)). rewrite IH; [reflexivity|].
    intros b Hb. apply H. right; exact Hb.
Qed.

(** * Waiter counting *)

Lemma cnt_waiters : forall e r, cnt (waiters e) r = (cnt (q_wait e) r + cnt (tws (q_task e)) r)%nat.
Proof. intros. unfold waiters. apply cnt_app. Qed.

Lemma wl_app : forall q1 q2, wl (q1 ++ q2) = wl q1 ++ wl q2.
Proof. intros. unfold wl. apply flat_map_app. Qed.

Lemma cnt_wl_split : forall q1 p e q2 r,
  cnt (wl (q1 ++ (p, e) :: q2)) r = (cnt (wl q1) r + cnt (waiters e) r + cnt (wl q2) r)%nat.
Proof.
  intros. rewrite wl_app. rewrite cnt_app. change (wl ((p, e) :: q2)) with (waiters e ++ wl q2).
  rewrite cnt_app. lia.
Qed.

Lemma cnt_wl_qset : forall p q e e' r, qlookup p q = Some e ->
  (cnt (wl (qset p e' q)) r + cnt (waiters e) r = cnt (wl q) r + cnt (waiters e') r)%nat.
Proof.
  intros p q e e' r H. destruct (qsplit _ _ _ H) as (q1 & q2 & H1 & H2 & _).
  rewrite H2. subst q. rewrite !cnt_wl_split. lia.
Qed.

Lemma cnt_wl_qdel : forall p q e r, qlookup p q = Some e ->
  (cnt (wl (qdel p q)) r + cnt (waiters e) r = cnt (wl q) r)%nat.
Proof.
  intros p q e r H. destruct (qsplit _ _ _ H) as (q1 & q2 & H1 & _ & H3).
  rewrite H3. subst q. rewrite cnt_wl_split. rewrite wl_app, cnt_app. lia.
Qed.

Lemma cnt_wl_snoc : forall q p e r, cnt (wl (q ++ [(p, e)])) r = (cnt (wl q) r + cnt (waiters e) r)%nat.
Proof.
  intros. rewrite wl_app, cnt_app. change (wl [(p, e)]) with (waiters e ++ []).
  rewrite app_nil_r. reflexivity.
Qed.

(** * [schedule] *)

Definition fresh_ent (c : content) (r : N) : qent :=
  {| q_pend := Some c; q_wait := [r]; q_task := TFresh |}.
Definition coalesced_ent (c : content) (r : N) (e : qent) : qent :=
  {| q_pend := Some c; q_wait := q_wait e ++ [r]; q_task := q_task e |}.

Lemma schedule_queue_none : forall p c s, qlookup p (queue s) = None ->
  queue (schedule p c s) = queue s ++ [(p, fresh_ent c (nrid s))] /\
  runq (schedule p c s) = runq s ++ [p].
Proof. intros p c s H. unfold schedule. rewrite H. split; reflexivity. Qed.

Lemma schedule_queue_some : forall p c s e, qlookup p (queue s) = Some e ->
  queue (schedule p c s) = qset p (coalesced_ent c (nrid s) e) (queue s) /\
  runq (schedule p c s) = runq s.
Proof. intros p c s e H. unfold schedule. rewrite H. split; reflexivity. Qed.

Lemma schedule_nrid : forall p c s, nrid (schedule p c s) = nrid s + 1.
Proof. intros. unfold schedule. destruct (qlookup p (queue s)); reflexivity. Qed.
Lemma schedule_pend : forall p c s, pend (schedule p c s) = pend s ++ [nrid s].
Proof. intros. unfold schedule. destruct (qlookup p (queue s)); reflexivity. Qed.
Lemma schedule_txs : forall p c s, txs (schedule p c s) = txs s.
Proof. intros. unfold schedule. destruct (qlookup p (queue s)); reflexivity. Qed.
Lemma schedule_idb : forall p c s, idb (schedule p c s) = idb s.
Proof. intros. unfold schedule. destruct (qlookup p (queue s)); reflexivity. Qed.
Lemma schedule_resolved : forall p c s, resolved (schedule p c s) = resolved s.
Proof. intros. unfold schedule. destruct (qlookup p (queue s)); reflexivity. Qed.
Lemma schedule_loaded : forall p c s, loaded (schedule p c s) = loaded s.
Proof. intros. unfold schedule. destruct (qlookup p (queue s)); reflexivity. Qed.
Lemma schedule_ready : forall p c s, ready (schedule p c s) = ready s.
Proof. intros. unfold schedule. destruct (qlookup p (queue s)); reflexivity. Qed.
Lemma schedule_man : forall p c s, man (schedule p c s) = man s.
Proof. intros. unfold schedule. destruct (qlookup p (queue s)); reflexivity. Qed.
Lemma schedule_nseg : forall p c s, nseg (schedule p c s) = nseg s.
Proof. intros. unfold schedule. destruct (qlookup p (queue s)); reflexivity. Qed.
Lemma schedule_segdocs : forall p c s, segdocs (schedule p c s) = segdocs s.
Proof. intros. unfold schedule. destruct (qlookup p (queue s)); reflexivity. Qed.
Lemma schedule_cur : forall p c s, cur (schedule p c s) = cur s.
Proof. intros. unfold schedule. destruct (qlookup p (queue s)); reflexivity. Qed.
Lemma schedule_started : forall p c s, started (schedule p c s) = started s.
Proof. intros. unfold schedule. destruct (qlookup p (queue s)); reflexivity. Qed.
Lemma schedule_resolvedc : forall p c s, resolvedc (schedule p c s) = resolvedc s.
Proof. intros. unfold schedule. destruct (qlookup p (queue s)); reflexivity. Qed.
Lemma schedule_awaiting : forall p c s, awaiting (schedule p c s) = awaiting s.
Proof. intros. unfold schedule. destruct (qlookup p (queue s)); reflexivity. Qed.

#[export] Hint Rewrite schedule_txs schedule_idb schedule_resolved schedule_loaded schedule_ready
  schedule_man schedule_nseg schedule_segdocs schedule_cur schedule_started schedule_resolvedc
  schedule_awaiting : schedf.

Lemma qlookup_schedule_other : forall p c s p', p' <> p ->
  qlookup p' (queue (schedule p c s)) = qlookup p' (queue s).
Proof.
  intros p c s p' Hne. assert (Hn : path_eqb p' p = false) by (apply path_eqb_neq; exact Hne).
  destruct (qlookup p (queue s)) as [e|] eqn:Hl.
  - destruct (schedule_queue_some p c s e Hl) as [Hq _]. rewrite Hq, qlookup_qset, Hn. reflexivity.
  - destruct (schedule_queue_none p c s Hl) as [Hq _]. rewrite Hq, qlookup_snoc, Hn.
    destruct (qlookup p' (queue s)); reflexivity.
Qed.

Lemma qlookup_schedule_fresh : forall p c s, qlookup p (queue s) = None ->
  qlookup p (queue (schedule p c s)) = Some (fresh_ent c (nrid s)).
Proof.
  intros p c s Hl. destruct (schedule_queue_none p c s Hl) as [Hq _].
  rewrite Hq, qlookup_snoc, Hl, path_eqb_refl. reflexivity.
Qed.

Lemma qkeys_schedule : forall p c s p',
  In p' (qkeys (queue (schedule p c s))) -> p' = p \/ In p' (qkeys (queue s)).
Proof.
  intros p c s p' H. destruct (qlookup p (queue s)) as [e|] eqn:Hl.
  - destruct (schedule_queue_some p c s e Hl) as [Hq _]. rewrite Hq in H.
    rewrite (qkeys_qset_some _ _ _ _ Hl) in H. right; exact H.
  - destruct (schedule_queue_none p c s Hl) as [Hq _]. rewrite Hq in H.
    unfold qkeys in H. rewrite map_app in H. apply in_app_or in H.
    destruct H as [H|[H|[]]]; [right; exact H|left; symmetry; exact H].
Qed.

Lemma cnt_wl_schedule : forall p c s r,
  cnt (wl (queue (schedule p c s))) r = (cnt (wl (queue s)) r + cnt [nrid s] r)%nat.
Proof.
  intros p c s r. destruct (qlookup p (queue s)) as [e|] eqn:Hl.
  - destruct (schedule_queue_some p c s e Hl) as [Hq _]. rewrite Hq.
    pose proof (cnt_wl_qset p (queue s) e (coalesced_ent c (nrid s) e) r Hl) as H.
    rewrite !cnt_waiters in H. cbn [coalesced_ent q_wait q_task] in H. rewrite cnt_app in H. lia.
  - destruct (schedule_queue_none p c s Hl) as [Hq _]. rewrite Hq.
    rewrite cnt_wl_snoc. rewrite cnt_waiters. cbn [fresh_ent q_wait q_task tws].
    rewrite cnt_nil. lia.
Qed.

Lemma QI_schedule : forall p c s, QI s -> QI (schedule p c s).
Proof.
  intros p c s [Hk Hnd Hrq Hewf Hw1 Hw2].
  assert (Hfresh : cnt (wl (queue s)) (nrid s) = 0%nat /\ cnt (resolved s) (nrid s) = 0%nat).
  { split; apply cnt_not_In; intros Hin.
    - specialize (Hw2 (nrid s) (or_introl Hin)). lia.
    - specialize (Hw2 (nrid s) (or_intror Hin)). lia. }
  destruct Hfresh as [Hf1 Hf2].
  constructor.
  - destruct (qlookup p (queue s)) as [e|] eqn:Hl.
    + destruct (schedule_queue_some p c s e Hl) as [Hq _]. rewrite Hq.
      rewrite (qkeys_qset_some _ _ _ _ Hl). exact Hk.
    + destruct (schedule_queue_none p c s Hl) as [Hq _]. rewrite Hq.
      unfold qkeys. rewrite map_app. cbn [map fst]. apply NoDup_snoc; [exact Hk|].
      apply qlookup_none_keys. exact Hl.
  - destruct (qlookup p (queue s)) as [e|] eqn:Hl.
    + destruct (schedule_queue_some p c s e Hl) as [_ Hr]. rewrite Hr. exact Hnd.
    + destruct (schedule_queue_none p c s Hl) as [_ Hr]. rewrite Hr.
      apply NoDup_snoc; [exact Hnd|]. intros Hin. destruct (Hrq p Hin) as (e & He & _). congruence.
  - intros p' Hin. destruct (qlookup p (queue s)) as [e|] eqn:Hl.
    + destruct (schedule_queue_some p c s e Hl) as [Hq Hr]. rewrite Hr in Hin. rewrite Hq.
      rewrite qlookup_qset. peq p' p.
      * destruct (Hrq p Hin) as (e1 & He1 & Ht). rewrite Hl in He1. injection He1 as <-.
        eexists. split; [reflexivity|]. exact Ht.
      * apply Hrq. exact Hin.
    + destruct (schedule_queue_none p c s Hl) as [Hq Hr]. rewrite Hr in Hin. rewrite Hq.
      rewrite qlookup_snoc. apply in_app_or in Hin. destruct Hin as [Hin|[Hin|[]]].
      * destruct (Hrq p' Hin) as (e1 & He1 & Ht). rewrite He1. exists e1. split; [reflexivity|exact Ht].
      * subst p'. rewrite Hl, path_eqb_refl. eexists. split; [reflexivity|].
        intros ws. cbn. discriminate.
  - intros p' e' Hin. destruct (qlookup p (queue s)) as [e|] eqn:Hl.
    + destruct (schedule_queue_some p c s e Hl) as [Hq _]. rewrite Hq in Hin.
      apply In_qset in Hin. destruct Hin as [Hin|Hin]; [|apply (Hewf p' e' Hin)].
      injection Hin as -> ->. apply qlookup_In in Hl. destruct (Hewf p e Hl) as (H1 & H2 & H3).
      unfold Ewf, waiters. cbn [coalesced_ent q_pend q_wait q_task]. repeat split.
      * intros H. apply app_eq_nil in H. destruct H as [H _].
        apply app_eq_nil in H. destruct H as [_ H]. discriminate.
      * intros _ H. apply app_eq_nil in H. destruct H as [_ H]. discriminate.
      * intros _. discriminate.
    + destruct (schedule_queue_none p c s Hl) as [Hq _]. rewrite Hq in Hin.
      apply in_app_or in Hin. destruct Hin as [Hin|[Hin|[]]]; [apply (Hewf p' e' Hin)|].
      injection Hin as <- <-. unfold Ewf, waiters. cbn [fresh_ent q_pend q_wait q_task]. repeat split.
      * cbn. discriminate.
      * intros _. discriminate.
      * intros _. discriminate.
  - intros r. rewrite cnt_wl_schedule, schedule_resolved. specialize (Hw1 r).
    destruct (N.eq_dec (nrid s) r) as [<-|Hne].
    + rewrite cnt_one_same. lia.
    + rewrite (cnt_one_other _ _ Hne). lia.
  - intros r Hr. rewrite schedule_resolved in Hr.
    assert (H : In r (wl (queue s)) \/ In r (resolved s) \/ r = nrid s).
    { destruct Hr as [Hr|Hr]; [|right; left; exact Hr].
      apply cnt_In in Hr. rewrite cnt_wl_schedule in Hr.
      destruct (N.eq_dec (nrid s) r) as [<-|Hne]; [right; right; reflexivity|].
      rewrite (cnt_one_other _ _ Hne) in Hr. left. apply cnt_In. lia. }
    rewrite schedule_nrid.
    destruct H as [H|[H|H]].
    + specialize (Hw2 r (or_introl H)). lia.
    + specialize (Hw2 r (or_intror H)). lia.
    + lia.
Qed.

Lemma TQ_schedule : forall S p c s, TQ S s -> okd S p c -> TQ S (schedule p c s).
Proof.
  intros S p c s Htq Hok p' e' c' Hin Hp.
  destruct (qlookup p (queue s)) as [e|] eqn:Hl.
  - destruct (schedule_queue_some p c s e Hl) as [Hq _]. rewrite Hq in Hin.
    apply In_qset in Hin. destruct Hin as [Hin|Hin]; [|apply (Htq p' e' c' Hin Hp)].
    injection Hin as -> ->. cbn in Hp. injection Hp as <-. exact Hok.
  - destruct (schedule_queue_none p c s Hl) as [Hq _]. rewrite Hq in Hin.
    apply in_app_or in Hin. destruct Hin as [Hin|[Hin|[]]]; [apply (Htq p' e' c' Hin Hp)|].
    injection Hin as <- <-. cbn in Hp. injection Hp as <-. exact Hok.
Qed.

Lemma PC_schedule : forall p c s, PC s -> PC (schedule p c s).
Proof.
  intros p c s Hpc e' Hl'. rewrite schedule_pend.
  destruct (path_eq_dec PMan p) as [<-|Hne].
  - destruct (qlookup PMan (queue s)) as [e|] eqn:Hl.
    + destruct (schedule_queue_some PMan c s e Hl) as [Hq _]. rewrite Hq in Hl'.
      rewrite qlookup_qset, path_eqb_refl in Hl'. injection Hl' as <-.
      specialize (Hpc e Hl). unfold waiters in *. cbn [coalesced_ent q_wait q_task].
      intros r Hr. apply in_app_or in Hr. destruct Hr as [Hr|Hr].
      * apply in_app_or in Hr. destruct Hr as [Hr|Hr].
        -- apply in_or_app. left. apply Hpc. apply in_or_app. left; exact Hr.
        -- apply in_or_app. right; exact Hr.
      * apply in_or_app. left. apply Hpc. apply in_or_app. right; exact Hr.
    + rewrite (qlookup_schedule_fresh PMan c s Hl) in Hl'. injection Hl' as <-.
      unfold waiters. cbn [fresh_ent q_wait q_task tws]. rewrite app_nil_r.
      intros r Hr. apply in_or_app. right; exact Hr.
  - rewrite (qlookup_schedule_other p c s PMan Hne) in Hl'.
    intros r Hr. apply in_or_app. left. apply (Hpc e' Hl'). exact Hr.
Qed.

(** [fd] only reads the entry of its path *)
Lemma fd_ext : forall q q' p, qlookup p q' = qlookup p q -> fd q' p = fd q p.
Proof. intros q q' p H. unfold fd. rewrite H. reflexivity. Qed.

Lemma okd_other_eq : forall S p c c', p <> PMan -> okd S p c -> okd S p c' -> c = c'.
Proof. intros S p c c' Hne H1 H2. destruct p; cbn in *; congruence. Qed.

Lemma pipe_schedule_none : forall p c s, QI s -> qlookup p (queue s) = None ->
  pipe (schedule p c s) = pipe s ++ [(p, c)].
Proof.
  intros p c s Hqi Hl. unfold pipe. rewrite schedule_txs.
  destruct (schedule_queue_none p c s Hl) as [Hq Hr]. rewrite Hr, Hq.
  rewrite flat_map_app. rewrite <- app_assoc. f_equal. f_equal.
  - apply flat_map_ext_in. intros p' Hin. apply fd_ext.
    destruct (q_rq s Hqi p' Hin) as (e & He & _). rewrite qlookup_snoc, He. reflexivity.
  - cbn [flat_map]. rewrite app_nil_r. unfold fd. rewrite qlookup_snoc, Hl, path_eqb_refl.
    reflexivity.
Qed.

Lemma pipe_schedule_some : forall S p c s e, QI s -> TQ S s -> okd S p c -> p <> PMan ->
  qlookup p (queue s) = Some e -> pipe (schedule p c s) = pipe s.
Proof.
  intros S p c s e Hqi Htq Hok Hne Hl. unfold pipe. rewrite schedule_txs.
  destruct (schedule_queue_some p c s e Hl) as [Hq Hr]. rewrite Hr, Hq. f_equal.
  apply flat_map_ext_in. intros p' Hin. unfold fd. rewrite qlookup_qset.
  peq p' p; [|reflexivity].
  rewrite Hl. cbn [coalesced_ent q_task q_pend].
  destruct (q_task e) eqn:Ht; try reflexivity.
  pose proof (qlookup_In _ _ _ Hl) as HIn.
  destruct (q_ewf s Hqi p e HIn) as (_ & _ & H3).
  destruct (q_pend e) as [c0|] eqn:Hp; [|exfalso; apply (H3 Ht); reflexivity].
  rewrite (okd_other_eq S p c c0 Hne Hok (Htq p e c0 HIn Hp)). reflexivity.
Qed.

(** * [schedule_all] *)

Lemma schedule_all_app : forall l1 l2 s, schedule_all (l1 ++ l2) s = schedule_all l2 (schedule_all l1 s).
Proof.
  intros l1. induction l1 as [|[p c] l1 IH]; intros l2 s.
  - reflexivity.
  - cbn [app]. unfold schedule_all; fold schedule_all. apply IH.
Qed.

Lemma schedule_all_cons : forall p c l s, schedule_all ((p, c) :: l) s = schedule_all l (schedule p c s).
Proof. reflexivity. Qed.
Lemma schedule_all_nil : forall s, schedule_all [] s = s.
Proof. reflexivity. Qed.

Ltac sa_ind l s :=
  revert s; induction l as [|[? ?] l IH]; intros s;
  [rewrite schedule_all_nil|rewrite schedule_all_cons].

Lemma schedule_all_txs : forall l s, txs (schedule_all l s) = txs s.
Proof. intros l s. sa_ind l s; [reflexivity|]. rewrite IH. apply schedule_txs. Qed.
Lemma schedule_all_idb : forall l s, idb (schedule_all l s) = idb s.
Proof. intros l s. sa_ind l s; [reflexivity|]. rewrite IH. apply schedule_idb. Qed.
Lemma schedule_all_resolved : forall l s, resolved (schedule_all l s) = resolved s.
Proof. intros l s. sa_ind l s; [reflexivity|]. rewrite IH. apply schedule_resolved. Qed.
Lemma schedule_all_loaded : forall l s, loaded (schedule_all l s) = loaded s.
Proof. intros l s. sa_ind l s; [reflexivity|]. rewrite IH. apply schedule_loaded. Qed.
Lemma schedule_all_ready : forall l s, ready (schedule_all l s) = ready s.
Proof. intros l s. sa_ind l s; [reflexivity|]. rewrite IH. apply schedule_ready. Qed.
Lemma schedule_all_man : forall l s, man (schedule_all l s) = man s.
Proof. intros l s. sa_ind l s; [reflexivity|]. rewrite IH. apply schedule_man. Qed.
Lemma schedule_all_nseg : forall l s, nseg (schedule_all l s) = nseg s.
Proof. intros l s. sa_ind l s; [reflexivity|]. rewrite IH. apply schedule_nseg. Qed.
Lemma schedule_all_segdocs : forall l s, segdocs (schedule_all l s) = segdocs s.
Proof. intros l s. sa_ind l s; [reflexivity|]. rewrite IH. apply schedule_segdocs. Qed.
Lemma schedule_all_cur : forall l s, cur (schedule_all l s) = cur s.
Proof. intros l s. sa_ind l s; [reflexivity|]. rewrite IH. apply schedule_cur. Qed.
Lemma schedule_all_started : forall l s, started (schedule_all l s) = started s.
Proof. intros l s. sa_ind l s; [reflexivity|]. rewrite IH. apply schedule_started. Qed.
Lemma schedule_all_resolvedc : forall l s, resolvedc (schedule_all l s) = resolvedc s.
Proof. intros l s. sa_ind l s; [reflexivity|]. rewrite IH. apply schedule_resolvedc. Qed.
Lemma schedule_all_awaiting : forall l s, awaiting (schedule_all l s) = awaiting s.
Proof. intros l s. sa_ind l s; [reflexivity|]. rewrite IH. apply schedule_awaiting. Qed.

#[export] Hint Rewrite schedule_all_txs schedule_all_idb schedule_all_resolved schedule_all_loaded
  schedule_all_ready schedule_all_man schedule_all_nseg schedule_all_segdocs schedule_all_cur
  schedule_all_started schedule_all_resolvedc schedule_all_awaiting : schedf.

Lemma QI_schedule_all : forall l s, QI s -> QI (schedule_all l s).
Proof.
  intros l s. sa_ind l s; intros H; [exact H|]. apply IH. apply QI_schedule. exact H.
Qed.

Lemma TQ_schedule_all : forall S l s, TQ S s -> (forall p c, In (p, c) l -> okd S p c) ->
  TQ S (schedule_all l s).
Proof.
  intros S l s. sa_ind l s; intros H Hok; [exact H|]. apply IH.
  - apply TQ_schedule; [exact H|]. apply Hok. left; reflexivity.
  - intros p' c' Hin. apply Hok. right; exact Hin.
Qed.

Lemma PC_schedule_all : forall l s, PC s -> PC (schedule_all l s).
Proof.
  intros l s. sa_ind l s; intros H; [exact H|]. apply IH. apply PC_schedule. exact H.
Qed.

Lemma qkeys_schedule_all : forall l s p',
  In p' (qkeys (queue (schedule_all l s))) -> In p' (map fst l) \/ In p' (qkeys (queue s)).
Proof.
  intros l s. sa_ind l s; intros p' H; [right; exact H|].
  destruct (IH _ _ H) as [H1|H1]; [left; right; exact H1|].
  apply qkeys_schedule in H1. destruct H1 as [H1|H1]; [left; left; symmetry; exact H1|right; exact H1].
Qed.

Lemma qlookup_schedule_all_other : forall l s p', ~ In p' (map fst l) ->
  qlookup p' (queue (schedule_all l s)) = qlookup p' (queue s).
Proof.
  intros l s. sa_ind l s; intros p' Hni; [reflexivity|].
  rewrite IH.
  - apply qlookup_schedule_other. intros ->. apply Hni. left; reflexivity.
  - intros Hin. apply Hni. right; exact Hin.
Qed.

(** scheduling paths that have no entry appends them to the pipeline *)
Lemma pipe_schedule_all_fresh : forall l s, QI s -> NoDup (map fst l) ->
  (forall p, In p (map fst l) -> qlookup p (queue s) = None) ->
  pipe (schedule_all l s) = pipe s ++ l.
Proof.
  intros l s. sa_ind l s; intros Hqi Hnd Hnone; [rewrite app_nil_r; reflexivity|].
  cbn [map fst] in Hnd. inversion Hnd as [|p0 l0 Hni Hnd']; subst.
  rewrite IH.
  - rewrite pipe_schedule_none; [|exact Hqi|apply Hnone; left; reflexivity].
    rewrite <- app_assoc. reflexivity.
  - apply QI_schedule. exact Hqi.
  - exact Hnd'.
  - intros p' Hin. rewrite qlookup_schedule_other.
    + apply Hnone. right; exact Hin.
    + intros ->. contradiction.
Qed.


(* ------------------------------------------------------------------ *)
(** * [wake] *)

Lemma wakeif_txs : forall b p s, txs (wakeif b p s) = txs s.
Proof. intros [|] p s; [|reflexivity]. cbn. unfold wake. destruct (qlookup p (queue s)) as [e|]; [destruct (q_task e)|]; reflexivity. Qed.
Lemma wakeif_idb : forall b p s, idb (wakeif b p s) = idb s.
Proof. intros [|] p s; [|reflexivity]. cbn. unfold wake. destruct (qlookup p (queue s)) as [e|]; [destruct (q_task e)|]; reflexivity. Qed.
Lemma wakeif_nrid : forall b p s, nrid (wakeif b p s) = nrid s.
Proof. intros [|] p s; [|reflexivity]. cbn. unfold wake. destruct (qlookup p (queue s)) as [e|]; [destruct (q_task e)|]; reflexivity. Qed.
Lemma wakeif_resolved : forall b p s, resolved (wakeif b p s) = resolved s.
Proof. intros [|] p s; [|reflexivity]. cbn. unfold wake. destruct (qlookup p (queue s)) as [e|]; [destruct (q_task e)|]; reflexivity. Qed.
Lemma wakeif_pend : forall b p s, pend (wakeif b p s) = pend s.
Proof. intros [|] p s; [|reflexivity]. cbn. unfold wake. destruct (qlookup p (queue s)) as [e|]; [destruct (q_task e)|]; reflexivity. Qed.
Lemma wakeif_loaded : forall b p s, loaded (wakeif b p s) = loaded s.
Proof. intros [|] p s; [|reflexivity]. cbn. unfold wake. destruct (qlookup p (queue s)) as [e|]; [destruct (q_task e)|]; reflexivity. Qed.
Lemma wakeif_ready : forall b p s, ready (wakeif b p s) = ready s.
Proof. intros [|] p s; [|reflexivity]. cbn. unfold wake. destruct (qlookup p (queue s)) as [e|]; [destruct (q_task e)|]; reflexivity. Qed.
Lemma wakeif_man : forall b p s, man (wakeif b p s) = man s.
Proof. intros [|] p s; [|reflexivity]. cbn. unfold wake. destruct (qlookup p (queue s)) as [e|]; [destruct (q_task e)|]; reflexivity. Qed.
Lemma wakeif_nseg : forall b p s, nseg (wakeif b p s) = nseg s.
Proof. intros [|] p s; [|reflexivity]. cbn. unfold wake. destruct (qlookup p (queue s)) as [e|]; [destruct (q_task e)|]; reflexivity. Qed.
Lemma wakeif_segdocs : forall b p s, segdocs (wakeif b p s) = segdocs s.
Proof. intros [|] p s; [|reflexivity]. cbn. unfold wake. destruct (qlookup p (queue s)) as [e|]; [destruct (q_task e)|]; reflexivity. Qed.
Lemma wakeif_cur : forall b p s, cur (wakeif b p s) = cur s.
Proof. intros [|] p s; [|reflexivity]. cbn. unfold wake. destruct (qlookup p (queue s)) as [e|]; [destruct (q_task e)|]; reflexivity. Qed.
Lemma wakeif_started : forall b p s, started (wakeif b p s) = started s.
Proof. intros [|] p s; [|reflexivity]. cbn. unfold wake. destruct (qlookup p (queue s)) as [e|]; [destruct (q_task e)|]; reflexivity. Qed.
Lemma wakeif_resolvedc : forall b p s, resolvedc (wakeif b p s) = resolvedc s.
Proof. intros [|] p s; [|reflexivity]. cbn. unfold wake. destruct (qlookup p (queue s)) as [e|]; [destruct (q_task e)|]; reflexivity. Qed.
Lemma wakeif_awaiting : forall b p s, awaiting (wakeif b p s) = awaiting s.
Proof. intros [|] p s; [|reflexivity]. cbn. unfold wake. destruct (qlookup p (queue s)) as [e|]; [destruct (q_task e)|]; reflexivity. Qed.

#[export] Hint Rewrite wakeif_txs wakeif_idb wakeif_nrid wakeif_resolved wakeif_pend wakeif_loaded
  wakeif_ready wakeif_man wakeif_nseg wakeif_segdocs wakeif_cur wakeif_started wakeif_resolvedc
  wakeif_awaiting : schedf.

(** the entry of another path is untouched; the woken entry only changes its task state *)
Lemma qlookup_wakeif_other : forall b p s p', p' <> p ->
  qlookup p' (queue (wakeif b p s)) = qlookup p' (queue s).
Proof.
  intros b p s p' Hne. destruct (wakeif_cases b p s) as [[H _]|(_ & e & ws & _ & _ & H)]; rewrite H.
  - reflexivity.
  - cbn [with_m queue]. rewrite qlookup_qset.
    assert (Hn : path_eqb p' p = false) by (apply path_eqb_neq; exact Hne). rewrite Hn. reflexivity.
Qed.

Lemma qkeys_wakeif : forall b p s, qkeys (queue (wakeif b p s)) = qkeys (queue s).
Proof.
  intros b p s. destruct (wakeif_cases b p s) as [[H _]|(_ & e & ws & Hl & _ & H)]; rewrite H.
  - reflexivity.
  - cbn [with_m queue]. apply (qkeys_qset_some _ _ _ _ Hl).
Qed.

Lemma fd_wakeif : forall b p s p', fd (queue (wakeif b p s)) p' = fd (queue s) p'.
Proof.
  intros b p s p'. destruct (wakeif_cases b p s) as [[H _]|(_ & e & ws & Hl & Ht & H)]; rewrite H.
  - reflexivity.
  - cbn [with_m queue]. unfold fd. rewrite qlookup_qset. peq p' p; [|reflexivity].
    rewrite Hl, Ht. reflexivity.
Qed.

Lemma pipe_wakeif : forall b p s, QI s -> pipe (wakeif b p s) = pipe s.
Proof.
  intros b p s Hqi. unfold pipe. rewrite wakeif_txs. f_equal.
  destruct (wakeif_cases b p s) as [[H _]|(_ & e & ws & Hl & Ht & H)].
  - rewrite H. reflexivity.
  - transitivity (flat_map (fd (queue s)) (runq (wakeif b p s))).
    + apply flat_map_ext_in. intros p' _. apply fd_wakeif.
    + rewrite H. cbn [with_m runq]. rewrite flat_map_app. cbn [flat_map].
      unfold fd at 2. rewrite Hl, Ht. rewrite !app_nil_r. reflexivity.
Qed.

(** * Queue well-formedness is preserved *)

Lemma QI_ext : forall s s', queue s' = queue s -> runq s' = runq s -> resolved s' = resolved s ->
  nrid s' = nrid s -> QI s -> QI s'.
Proof.
  intros s s' H1 H2 H3 H4 [Hk Hnd Hrq Hewf Hw1 Hw2].
  constructor; rewrite ?H1, ?H2, ?H3, ?H4; assumption.
Qed.

Lemma QI_wakeif : forall b p s, QI s -> QI (wakeif b p s).
Proof.
  intros b p s Hqi. destruct (wakeif_cases b p s) as [[H _]|(_ & e & ws & Hl & Ht & H)]; rewrite H.
  - exact Hqi.
  - destruct Hqi as [Hk Hnd Hrq Hewf Hw1 Hw2]. constructor; cbn [with_m queue runq resolved nrid].
    + rewrite (qkeys_qset_some _ _ _ _ Hl). exact Hk.
    + apply NoDup_snoc; [exact Hnd|]. intros Hin. destruct (Hrq p Hin) as (e1 & He1 & Hn).
      rewrite Hl in He1. injection He1 as <-. apply (Hn ws Ht).
    + intros p' Hin. rewrite qlookup_qset. peq p' p.
      * eexists. split; [reflexivity|]. intros ws'. cbn. discriminate.
      * apply in_app_or in Hin. destruct Hin as [Hin|[Hin|[]]]; [apply Hrq; exact Hin|congruence].
    + intros p' e' Hin. apply In_qset in Hin. destruct Hin as [Hin|Hin]; [|apply (Hewf p' e' Hin)].
      injection Hin as -> ->. destruct (Hewf p e (qlookup_In _ _ _ Hl)) as (H1 & H2 & H3).
      unfold Ewf, waiters in *. cbn [woken_ent q_pend q_wait q_task tws]. rewrite Ht in H1. cbn [tws] in H1.
      repeat split; [exact H1|exact H2|discriminate].
    + intros r. specialize (Hw1 r).
      pose proof (cnt_wl_qset p (queue s) e (woken_ent e ws) r Hl) as Hc.
      rewrite !cnt_waiters in Hc. cbn [woken_ent q_wait q_task tws] in Hc. rewrite Ht in Hc.
      cbn [tws] in Hc. lia.
    + intros r Hr. apply Hw2. destruct Hr as [Hr|Hr]; [left|right; exact Hr].
      apply cnt_In in Hr. apply cnt_In.
      pose proof (cnt_wl_qset p (queue s) e (woken_ent e ws) r Hl) as Hc.
      rewrite !cnt_waiters in Hc. cbn [woken_ent q_wait q_task tws] in Hc. rewrite Ht in Hc.
      cbn [tws] in Hc. lia.
Qed.

(** polling the head task at the top of its loop with a pending snapshot *)
Lemma QI_run_some : forall s p rq e c ws tx d,
  QI s -> runq s = p :: rq -> qlookup p (queue s) = Some e -> tws (q_task e) = ws ->
  (forall ws', q_task e <> TAwait ws') -> q_pend e = Some c ->
  QI (with_m s (qset p (await_ent e) (queue s)) rq tx d (resolved s ++ ws)).
Proof.
  intros s p rq e c ws tx d [Hk Hnd Hrq Hewf Hw1 Hw2] Hr Hl Hws Hna Hp.
  rewrite Hr in Hnd, Hrq. inversion Hnd as [|p0 l0 Hni Hnd']; subst p0 l0.
  assert (Hcnt : forall r, (cnt (wl (qset p (await_ent e) (queue s))) r + cnt ws r = cnt (wl (queue s)) r)%nat).
  { intros r. pose proof (cnt_wl_qset p (queue s) e (await_ent e) r Hl) as Hc.
    rewrite !cnt_waiters in Hc. cbn [await_ent q_wait q_task tws] in Hc. rewrite Hws in Hc.
    rewrite cnt_nil in Hc. lia. }
  constructor; cbn [with_m queue runq resolved nrid].
  - rewrite (qkeys_qset_some _ _ _ _ Hl). exact Hk.
  - exact Hnd'.
  - intros p' Hin. rewrite qlookup_qset.
    assert (Hne : p' <> p) by (intros ->; contradiction).
    apply path_eqb_neq in Hne. rewrite Hne. apply Hrq. right; exact Hin.
  - intros p' e' Hin. apply In_qset in Hin. destruct Hin as [Hin|Hin]; [|apply (Hewf p' e' Hin)].
    injection Hin as -> ->. destruct (Hewf p e (qlookup_In _ _ _ Hl)) as (H1 & H2 & H3).
    unfold Ewf, waiters. cbn [await_ent q_pend q_wait q_task tws app]. repeat split.
    + apply H2. congruence.
    + intros Hc; congruence.
    + discriminate.
  - intros r. specialize (Hw1 r). specialize (Hcnt r). rewrite cnt_app. lia.
  - intros r Hin. apply Hw2. specialize (Hcnt r).
    destruct Hin as [Hin|Hin].
    + left. apply cnt_In in Hin. apply cnt_In. lia.
    + apply in_app_or in Hin. destruct Hin as [Hin|Hin]; [right; exact Hin|].
      left. apply cnt_In in Hin. apply cnt_In. lia.
Qed.

Lemma QI_run_none : forall s p rq e ws tx d,
  QI s -> runq s = p :: rq -> qlookup p (queue s) = Some e -> q_task e = TWoken ws ->
  QI (with_m s (qdel p (queue s)) rq tx d (resolved s ++ ws)).
Proof.
  intros s p rq e ws tx d [Hk Hnd Hrq Hewf Hw1 Hw2] Hr Hl Ht.
  rewrite Hr in Hnd, Hrq. inversion Hnd as [|p0 l0 Hni Hnd']; subst p0 l0.
  assert (Hcnt : forall r, (cnt (wl (qdel p (queue s))) r + cnt (q_wait e) r + cnt ws r = cnt (wl (queue s)) r)%nat).
  { intros r. pose proof (cnt_wl_qdel p (queue s) e r Hl) as Hc.
    rewrite !cnt_waiters in Hc. rewrite Ht in Hc. cbn [tws] in Hc. lia. }
  constructor; cbn [with_m queue runq resolved nrid].
  - apply qkeys_qdel_nodup. exact Hk.
  - exact Hnd'.
  - intros p' Hin. assert (Hne : p' <> p) by (intros ->; contradiction).
    rewrite (qlookup_qdel_other _ _ _ Hne). apply Hrq. right; exact Hin.
  - intros p' e' Hin. apply In_qdel in Hin. apply (Hewf p' e' Hin).
  - intros r. specialize (Hw1 r). specialize (Hcnt r). rewrite cnt_app. lia.
  - intros r Hin. apply Hw2. specialize (Hcnt r).
    destruct Hin as [Hin|Hin].
    + left. apply cnt_In in Hin. apply cnt_In. lia.
    + apply in_app_or in Hin. destruct Hin as [Hin|Hin]; [right; exact Hin|].
      left. apply cnt_In in Hin. apply cnt_In. lia.
Qed.

Lemma QI_step : forall fixed s s', cstep fixed s s' -> QI s -> QI s'.
Proof.
  intros fixed s s' Hc Hqi. cinv Hc.
  - apply (QI_ext s1); try (prj; reflexivity). subst s1. apply QI_schedule. exact Hqi.
  - apply (QI_ext s1); try (prj; reflexivity). subst s1. apply QI_schedule. exact Hqi.
  - apply (QI_ext s); try (prj; reflexivity). exact Hqi.
  - apply (QI_ext s1); try (prj; reflexivity). subst s1. apply QI_schedule_all. exact Hqi.
  - exact Hqi.
  - apply (QI_ext s); try (prj; reflexivity). exact Hqi.
  - apply (QI_ext (with_m s (qset p (await_ent e) (queue s)) rq (txs s ++ [newtx p c]) (idb s) (resolved s ++ []))).
    + reflexivity.
    + reflexivity.
    + prj. symmetry. apply app_nil_r.
    + reflexivity.
    + apply (QI_run_some s p rq e c); try assumption.
      * rewrite Ht; reflexivity.
      * intros ws'. rewrite Ht. discriminate.
  - apply (QI_run_some s p rq e c); try assumption.
    + rewrite Ht; reflexivity.
    + intros ws'. rewrite Ht. discriminate.
  - apply (QI_run_none s p rq e ws); assumption.
  - apply QI_wakeif. apply (QI_ext s); try (prj; reflexivity). exact Hqi.
  - apply QI_wakeif. apply (QI_ext s); try (prj; reflexivity). exact Hqi.
Qed.

(** * Before init nothing happened *)

Lemma st0_step : forall fixed s s', cstep fixed s s' ->
  (loaded s = false -> s = st0) -> loaded s' = false -> s' = st0.
Proof.
  intros fixed s s' Hc H0 Hl. cinv Hc; prj_in Hl; try subst s1; autorewrite with schedf in Hl; prj_in Hl;
    try discriminate;
    try (specialize (H0 Hl); subst s; cbn [st0 ready awaiting runq txs] in *; congruence).
Qed.

(** * Only the oldest transaction can have its request finished *)

Lemma txdone_step : forall fixed s s', cstep fixed s s' ->
  Forall (fun x => x_done x = false) (tl (txs s)) -> Forall (fun x => x_done x = false) (tl (txs s')).
Proof.
  intros fixed s s' Hc H. cinv Hc; prj; try subst s1; autorewrite with schedf; prj;
    try exact H.
  - destruct (txs s) as [|a t]; cbn in *; [constructor|].
    apply Forall_app. split; [exact H|]. constructor; [reflexivity|constructor].
  - destruct (txs s) as [|a t]; cbn in *; [constructor|].
    apply Forall_app. split; [exact H|]. constructor; [reflexivity|constructor].
  - rewrite Htx in H. exact H.
  - rewrite Htx in H. cbn in H. destruct t as [|a t]; cbn; [constructor|].
    inversion H; assumption.
Qed.

(** * Segment ids of queued files are below [nseg] *)

Lemma seg_step : forall fixed s s', cstep fixed s s' ->
  (forall sg k, In (PSeg sg k) (qkeys (queue s)) -> sg < nseg s) ->
  forall sg k, In (PSeg sg k) (qkeys (queue s')) -> sg < nseg s'.
Proof.
  intros fixed s s' Hc H sg0 k0 Hin. cinv Hc; prj_all; try subst s1;
    autorewrite with schedf in *; prj_all.
  - apply qkeys_schedule in Hin. destruct Hin as [Hin|Hin]; [discriminate|apply (H sg0 k0 Hin)].
  - apply qkeys_schedule in Hin. destruct Hin as [Hin|Hin]; [discriminate|apply (H sg0 k0 Hin)].
  - apply (H sg0 k0 Hin).
  - apply qkeys_schedule_all in Hin. destruct Hin as [Hin|Hin].
    + unfold commit_list in Hin. rewrite map_app, map_map in Hin. cbn [map fst] in Hin.
      apply in_app_or in Hin. destruct Hin as [Hin|Hin].
      * unfold seg_files in Hin. rewrite map_map in Hin. apply in_map_iff in Hin.
        destruct Hin as (k1 & Heq & _). cbn in Heq. injection Heq as <- _. lia.
      * cbn in Hin. destruct Hin as [Hin|[Hin|[Hin|[]]]]; discriminate.
    + specialize (H sg0 k0 Hin). lia.
  - apply (H sg0 k0 Hin).
  - apply (H sg0 k0 Hin).
  - rewrite (qkeys_qset_some _ _ _ _ Hlk) in Hin. apply (H sg0 k0 Hin).
  - rewrite (qkeys_qset_some _ _ _ _ Hlk) in Hin. apply (H sg0 k0 Hin).
  - apply qkeys_qdel in Hin. apply (H sg0 k0 Hin).
  - rewrite qkeys_wakeif in Hin. apply (H sg0 k0 Hin).
  - rewrite qkeys_wakeif in Hin. apply (H sg0 k0 Hin).
Qed.


(* ------------------------------------------------------------------ *)
(** * The manifest task is finished when the awaited promise resolves *)

Lemma qlookup_wakeif : forall b p s p' e', qlookup p' (queue (wakeif b p s)) = Some e' ->
  exists e, qlookup p' (queue s) = Some e /\ waiters e' = waiters e /\ q_pend e' = q_pend e /\
            q_wait e' = q_wait e.
Proof.
  intros b p s p' e' H. destruct (wakeif_cases b p s) as [[Hw _]|(_ & e & ws & Hl & Ht & Hw)];
    rewrite Hw in H.
  - exists e'. repeat split; try reflexivity. exact H.
  - cbn [with_m queue] in H. rewrite qlookup_qset in H. peq p' p.
    + injection H as <-. exists e. split; [exact Hl|]. unfold waiters. cbn [woken_ent q_wait q_task q_pend tws].
      rewrite Ht. cbn [tws]. repeat split; reflexivity.
    + exists e'. repeat split; try reflexivity. exact H.
Qed.

Lemma waiters_in_wl : forall p e q r, In (p, e) q -> In r (waiters e) -> In r (wl q).
Proof.
  intros p e q r Hin Hr. unfold wl. apply in_flat_map. exists (p, e). split; [exact Hin|exact Hr].
Qed.

Definition ManAw (s : st) : Prop :=
  forall e, qlookup PMan (queue s) = Some e ->
    exists rids k, awaiting s = Some (rids, k) /\ incl (waiters e) rids.

Lemma no_man_when_resolved : forall s rids k, QI s -> ManAw s ->
  awaiting s = Some (rids, k) -> incl rids (resolved s) -> qlookup PMan (queue s) = None.
Proof.
  intros s rids k Hqi Hma Haw Hall. destruct (qlookup PMan (queue s)) as [e|] eqn:Hl; [|reflexivity].
  exfalso. destruct (Hma e Hl) as (rids' & k' & Haw' & Hincl). rewrite Haw in Haw'.
  injection Haw' as <- <-. pose proof (qlookup_In _ _ _ Hl) as HIn.
  destruct (q_ewf s Hqi PMan e HIn) as (Hne & _ & _).
  destruct (waiters e) as [|r ws] eqn:Hw; [congruence|].
  assert (Hr : In r (waiters e)) by (rewrite Hw; left; reflexivity).
  assert (H1 : In r (wl (queue s))) by (apply (waiters_in_wl PMan e); assumption).
  assert (H2 : In r (resolved s)).
  { apply Hall. apply Hincl. left; reflexivity. }
  apply cnt_In in H1. apply cnt_In in H2. pose proof (q_w1 s Hqi r). lia.
Qed.

Lemma no_man_when_idle : forall s, ManAw s -> awaiting s = None -> qlookup PMan (queue s) = None.
Proof.
  intros s Hma Haw. destruct (qlookup PMan (queue s)) as [e|] eqn:Hl; [|reflexivity].
  destruct (Hma e Hl) as (rids & k & Haw' & _). congruence.
Qed.

Lemma PC_of_none : forall s, qlookup PMan (queue s) = None -> PC s.
Proof. intros s H e He. congruence. Qed.

Lemma manaw_step : forall fixed s s', cstep fixed s s' -> QI s ->
  (loaded s = false -> s = st0) -> ManAw s -> ManAw s'.
Proof.
  intros fixed s s' Hc Hqi H0 Hma e' Hl'. cinv Hc; prj_all.
  - assert (Hpc : PC s1).
    { subst s1. apply PC_schedule. apply PC_of_none. rewrite (H0 Hld). reflexivity. }
    eexists _, _. split; [reflexivity|]. apply Hpc. exact Hl'.
  - subst s1. autorewrite with schedf. rewrite qlookup_schedule_other in Hl' by discriminate.
    apply Hma. exact Hl'.
  - rewrite (no_man_when_idle s Hma Haw) in Hl'. discriminate.
  - assert (Hpc : PC s1).
    { subst s1. apply PC_schedule_all. apply PC_of_none. apply (no_man_when_idle s Hma Haw). }
    eexists _, _. split; [reflexivity|]. apply Hpc. exact Hl'.
  - apply Hma. exact Hl'.
  - rewrite (no_man_when_resolved s rids k Hqi Hma Haw Hall) in Hl'. discriminate.
  - rewrite qlookup_qset in Hl'. peq PMan p.
    + injection Hl' as <-. destruct (Hma e Hlk) as (rids & k & Haw & Hincl).
      exists rids, k. split; [exact Haw|]. intros r Hr. apply Hincl.
      unfold waiters in *. cbn [await_ent q_wait q_task tws app] in Hr.
      apply in_or_app. left; exact Hr.
    + apply Hma. exact Hl'.
  - rewrite qlookup_qset in Hl'. peq PMan p.
    + injection Hl' as <-. destruct (Hma e Hlk) as (rids & k & Haw & Hincl).
      exists rids, k. split; [exact Haw|]. intros r Hr. apply Hincl.
      unfold waiters in *. cbn [await_ent q_wait q_task tws app] in Hr.
      apply in_or_app. left; exact Hr.
    + apply Hma. exact Hl'.
  - peq PMan p.
    + rewrite qlookup_qdel_same in Hl' by (apply (q_keys s Hqi)). discriminate.
    + rewrite qlookup_qdel_other in Hl' by exact E. apply Hma. exact Hl'.
  - autorewrite with schedf. prj. apply qlookup_wakeif in Hl'. destruct Hl' as (e & He & Hw & _).
    prj_in He. rewrite Hw. apply Hma. exact He.
  - autorewrite with schedf. prj. apply qlookup_wakeif in Hl'. destruct Hl' as (e & He & Hw & _).
    prj_in He. rewrite Hw. apply Hma. exact He.
Qed.

(** * Typing of the data in flight *)

Lemma okd_mono : forall S S' p c, incl S S' -> okd S p c -> okd S' p c.
Proof.
  intros S S' p c Hincl H. destruct p; cbn in *; try exact H.
  destruct H as (m & Hc & [Hm|Hm]); exists m; (split; [exact Hc|]).
  - left; exact Hm.
  - right. apply Hincl. exact Hm.
Qed.

Lemma TQ_mono : forall S S' s, incl S S' -> TQ S s -> TQ S' s.
Proof. intros S S' s Hincl H p e c Hin Hp. apply (okd_mono S S' p c Hincl). apply (H p e c Hin Hp). Qed.

Lemma TQ_ext : forall S s s', queue s' = queue s -> TQ S s -> TQ S s'.
Proof. intros S s s' Hq H p e c Hin Hp. rewrite Hq in Hin. apply (H p e c Hin Hp). Qed.

Lemma TQ_wakeif : forall S b p s, TQ S s -> TQ S (wakeif b p s).
Proof.
  intros S b p s H. destruct (wakeif_cases b p s) as [[Hw _]|(_ & e & ws & Hl & Ht & Hw)]; rewrite Hw.
  - exact H.
  - intros p' e' c Hin Hp. cbn [with_m queue] in Hin. apply In_qset in Hin.
    destruct Hin as [Hin|Hin]; [|apply (H p' e' c Hin Hp)].
    injection Hin as -> ->. cbn [woken_ent q_pend] in Hp.
    apply (H p e c (qlookup_In _ _ _ Hl) Hp).
Qed.

Lemma incl_snoc : forall (A : Type) (l : list A) (a : A), incl l (l ++ [a]).
Proof. intros A l a x Hx. apply in_or_app. left; exact Hx. Qed.

Lemma commit_list_okd : forall S sg m' p c, In (p, c) (commit_list sg m') -> okd (S ++ [m']) p c.
Proof.
  intros S sg m' p c Hin. unfold commit_list in Hin. apply in_app_or in Hin. destruct Hin as [Hin|Hin].
  - apply in_map_iff in Hin. destruct Hin as (p0 & Heq & Hp0). injection Heq as <- <-.
    unfold seg_files in Hp0. apply in_map_iff in Hp0. destruct Hp0 as (k & <- & _). reflexivity.
  - destruct Hin as [Hin|[Hin|[Hin|[]]]]; injection Hin as <- <-; cbn.
    + exists m'. split; [reflexivity|]. right. apply in_or_app. right. left; reflexivity.
    + reflexivity.
    + reflexivity.
Qed.

Lemma tyq_step : forall fixed s s', cstep fixed s s' -> TQ (started s) s -> TQ (started s') s'.
Proof.
  intros fixed s s' Hc H. cinv Hc; prj.
  - apply (TQ_ext _ s1); [reflexivity|]. subst s1. autorewrite with schedf.
    apply TQ_schedule; [exact H|]. cbn. exists []. split; [reflexivity|left; reflexivity].
  - apply (TQ_ext _ s1); [reflexivity|]. subst s1. autorewrite with schedf.
    apply TQ_schedule; [exact H|]. reflexivity.
  - apply (TQ_ext _ s); [reflexivity|]. apply (TQ_mono (started s)); [apply incl_snoc|exact H].
  - apply (TQ_ext _ s1); [reflexivity|]. subst s1. autorewrite with schedf.
    apply TQ_schedule_all.
    + apply (TQ_mono (started s)); [apply incl_snoc|exact H].
    + intros p c Hin. apply (commit_list_okd _ sg). exact Hin.
  - exact H.
  - apply (TQ_ext _ s); [reflexivity|]. exact H.
  - intros p' e' c' Hin Hp'. prj_in Hin. apply In_qset in Hin.
    destruct Hin as [Hin|Hin]; [|apply (H p' e' c' Hin Hp')].
    injection Hin as -> ->. cbn in Hp'. discriminate.
  - intros p' e' c' Hin Hp'. prj_in Hin. apply In_qset in Hin.
    destruct Hin as [Hin|Hin]; [|apply (H p' e' c' Hin Hp')].
    injection Hin as -> ->. cbn in Hp'. discriminate.
  - intros p' e' c' Hin Hp'. prj_in Hin. apply In_qdel in Hin. apply (H p' e' c' Hin Hp').
  - autorewrite with schedf. prj. apply TQ_wakeif. apply (TQ_ext _ s); [reflexivity|]. exact H.
  - autorewrite with schedf. prj. apply TQ_wakeif. apply (TQ_ext _ s); [reflexivity|]. exact H.
Qed.

Definition TX (s : st) : Prop := forall x, In x (txs s) -> okd (started s) (x_path x) (x_data x).
Definition TI (s : st) : Prop := forall p c, ilookup p (idb s) = Some c -> okd (started s) p c.

Lemma tytx_step : forall fixed s s', cstep fixed s s' -> TQ (started s) s -> TX s -> TX s'.
Proof.
  intros fixed s s' Hc Hq H x0 Hin. cinv Hc; prj_all; try subst s1; autorewrite with schedf in *; prj_all.
  - apply (H x0 Hin).
  - apply (H x0 Hin).
  - apply (okd_mono (started s)); [apply incl_snoc|]. apply (H x0 Hin).
  - apply (okd_mono (started s)); [apply incl_snoc|]. apply (H x0 Hin).
  - apply (H x0 Hin).
  - apply (H x0 Hin).
  - apply in_app_or in Hin. destruct Hin as [Hin|[Hin|[]]]; [apply (H x0 Hin)|].
    subst x0. cbn. apply (Hq p e c (qlookup_In _ _ _ Hlk) Hp).
  - apply in_app_or in Hin. destruct Hin as [Hin|[Hin|[]]]; [apply (H x0 Hin)|].
    subst x0. cbn. apply (Hq p e c (qlookup_In _ _ _ Hlk) Hp).
  - apply (H x0 Hin).
  - destruct Hin as [Hin|Hin].
    + subst x0. cbn. apply (H x). rewrite Htx. left; reflexivity.
    + apply (H x0). rewrite Htx. right; exact Hin.
  - apply (H x0). rewrite Htx. right; exact Hin.
Qed.

Lemma tyidb_step : forall fixed s s', cstep fixed s s' -> TX s -> TI s -> TI s'.
Proof.
  intros fixed s s' Hc Hx H p0 c0 Hl. cinv Hc; prj_all; try subst s1; autorewrite with schedf in *; prj_all;
    try (apply (H p0 c0 Hl)).
  - apply (okd_mono (started s)); [apply incl_snoc|]. apply (H p0 c0 Hl).
  - apply (okd_mono (started s)); [apply incl_snoc|]. apply (H p0 c0 Hl).
  - rewrite ilookup_iput in Hl. peq p0 (x_path x).
    + injection Hl as <-. apply (Hx x). rewrite Htx. left; reflexivity.
    + apply (H p0 c0 Hl).
Qed.

Definition AW (s : st) : Prop := forall rids m, awaiting s = Some (rids, ACommit m) -> m = man s.

Lemma aw_step : forall fixed s s', cstep fixed s s' -> AW s -> AW s'.
Proof.
  intros fixed s s' Hc H rids0 m0 Ha. cinv Hc; prj_all; try subst s1; autorewrite with schedf in *; prj_all;
    try (apply (H rids0 m0 Ha)); try discriminate.
  - injection Ha as _ <-. reflexivity.
  - injection Ha as _ <-. reflexivity.
Qed.


(* ------------------------------------------------------------------ *)
(** * Ordered pipelines *)

Lemma ordered_mono : forall l K K', incl K K' -> ordered K l -> ordered K' l.
Proof.
  intros l. induction l as [|pc l IH]; intros K K' Hincl H; cbn in *; [exact I|].
  destruct H as [H1 H2]. split.
  - intros q Hq. apply Hincl. apply H1. exact Hq.
  - apply (IH (fst pc :: K)); [|exact H2]. intros q [Hq|Hq]; [left; exact Hq|right; apply Hincl; exact Hq].
Qed.

Lemma ordered_free_app : forall w l K, (forall pc, In pc w -> need pc = []) -> ordered K l -> ordered K (w ++ l).
Proof.
  intros w. induction w as [|pc w IH]; intros l K Hw H; cbn; [exact H|]. split.
  - rewrite (Hw pc (or_introl eq_refl)). intros q [].
  - apply IH.
    + intros pc' Hin. apply Hw. right; exact Hin.
    + apply (ordered_mono l K); [|exact H]. intros q Hq. right; exact Hq.
Qed.

Lemma ordered_insert : forall l1 w l2 K, (forall pc, In pc w -> need pc = []) ->
  ordered K (l1 ++ l2) -> ordered K (l1 ++ w ++ l2).
Proof.
  intros l1. induction l1 as [|pc l1 IH]; intros w l2 K Hw H; cbn in *.
  - apply ordered_free_app; assumption.
  - destruct H as [H1 H2]. split; [exact H1|]. apply IH; assumption.
Qed.

Lemma ordered_snoc : forall l K pc, ordered K l -> incl (need pc) (K ++ map fst l) -> ordered K (l ++ [pc]).
Proof.
  intros l. induction l as [|a l IH]; intros K pc H Hn; cbn in *.
  - split; [|exact I]. rewrite app_nil_r in Hn. exact Hn.
  - destruct H as [H1 H2]. split; [exact H1|]. apply IH; [exact H2|].
    intros q Hq. specialize (Hn q Hq). apply in_app_or in Hn. cbn.
    destruct Hn as [Hn|[Hn|Hn]].
    + right. apply in_or_app. left; exact Hn.
    + left; exact Hn.
    + right. apply in_or_app. right; exact Hn.
Qed.

Lemma need_other : forall p c, p <> PMan -> need (p, c) = [].
Proof. intros p c H. unfold need. cbn. destruct p; congruence. Qed.

(** * How a step changes the pipeline *)

Lemma pipe_ext : forall s s', txs s' = txs s -> queue s' = queue s -> runq s' = runq s -> pipe s' = pipe s.
Proof. intros s s' H1 H2 H3. unfold pipe. rewrite H1, H2, H3. reflexivity. Qed.

(** a manifest entry that was polled has no pending snapshot *)
Definition MQ (s : st) : Prop :=
  forall e, qlookup PMan (queue s) = Some e -> q_task e = TFresh \/ q_pend e = None.

Lemma pipe_schedule_wal : forall S s, QI s -> TQ S s ->
  exists w, pipe (schedule PWal CWal s) = pipe s ++ w /\ forall pc, In pc w -> need pc = [].
Proof.
  intros S s Hqi Htq. destruct (qlookup PWal (queue s)) as [e|] eqn:Hl.
  - exists []. rewrite app_nil_r. split; [|intros pc []].
    apply (pipe_schedule_some S PWal CWal s e); try assumption; [reflexivity|discriminate].
  - exists [(PWal, CWal)]. split; [apply pipe_schedule_none; assumption|].
    intros pc [<-|[]]. reflexivity.
Qed.

Lemma seg_files_nodup : forall sg, NoDup (seg_files sg).
Proof.
  intros sg. unfold seg_files, kinds. cbn [map].
  repeat (constructor; [cbn; intros H; repeat (destruct H as [H|H]; [discriminate|]); exact H|]).
  constructor.
Qed.

Lemma seg_list_fst : forall sg, map fst (map (fun p => (p, CSeg)) (seg_files sg)) = seg_files sg.
Proof. intros sg. rewrite map_map. cbn. apply map_id. Qed.

Lemma seg_list_need : forall sg pc, In pc (map (fun p => (p, CSeg)) (seg_files sg)) -> need pc = [].
Proof.
  intros sg pc Hin. apply in_map_iff in Hin. destruct Hin as (p & <- & Hp).
  unfold seg_files in Hp. apply in_map_iff in Hp. destruct Hp as (k & <- & _). reflexivity.
Qed.

Definition SegOk (s : st) : Prop := forall sg k, In (PSeg sg k) (qkeys (queue s)) -> sg < nseg s.

Lemma pipe_commit : forall S s sg m', QI s -> SegOk s -> ManAw s -> awaiting s = None ->
  TQ S s -> sg = nseg s -> (forall p c, In (p, c) (commit_list sg m') -> okd S p c) ->
  exists w, pipe (schedule_all (commit_list sg m') s) =
            pipe s ++ map (fun p => (p, CSeg)) (seg_files sg) ++ (PMan, CMan m') :: w /\
            forall pc, In pc w -> need pc = [].
Proof.
  intros S s sg m' Hqi Hseg Hma Haw Htq Hsg Hok. unfold commit_list in *.
  rewrite schedule_all_app.
  set (segL := map (fun p => (p, CSeg)) (seg_files sg)) in *.
  set (sA := schedule_all segL s).
  assert (HqA : QI sA) by (apply QI_schedule_all; exact Hqi).
  assert (HtA : TQ S sA).
  { apply TQ_schedule_all; [exact Htq|]. intros p c Hin. apply Hok. apply in_or_app. left; exact Hin. }
  assert (HpA : pipe sA = pipe s ++ segL).
  { apply pipe_schedule_all_fresh; [exact Hqi| |].
    - unfold segL. rewrite seg_list_fst. apply seg_files_nodup.
    - intros p Hin. unfold segL in Hin. rewrite seg_list_fst in Hin. unfold seg_files in Hin.
      apply in_map_iff in Hin. destruct Hin as (k & <- & _).
      apply qlookup_none_keys. intros Hk. specialize (Hseg _ _ Hk). lia. }
  assert (HlA : qlookup PMan (queue sA) = None).
  { unfold sA. rewrite qlookup_schedule_all_other.
    - apply (no_man_when_idle s Hma Haw).
    - unfold segL. rewrite seg_list_fst. unfold seg_files. intros Hin. apply in_map_iff in Hin.
      destruct Hin as (k & Hk & _). discriminate. }
  rewrite !schedule_all_cons, schedule_all_nil.
  set (sB := schedule PMan (CMan m') sA).
  assert (HqB : QI sB) by (apply QI_schedule; exact HqA).
  assert (HtB : TQ S sB).
  { apply TQ_schedule; [exact HtA|]. apply Hok. apply in_or_app. right. left; reflexivity. }
  assert (HpB : pipe sB = pipe sA ++ [(PMan, CMan m')]) by (apply pipe_schedule_none; assumption).
  destruct (pipe_schedule_wal S sB HqB HtB) as (w1 & Hp1 & Hw1).
  set (sC := schedule PWal CWal sB) in *.
  assert (HqC : QI sC) by (apply QI_schedule; exact HqB).
  assert (HtC : TQ S sC) by (apply TQ_schedule; [exact HtB|reflexivity]).
  destruct (pipe_schedule_wal S sC HqC HtC) as (w2 & Hp2 & Hw2).
  exists (w1 ++ w2). split.
  - rewrite Hp2, Hp1, HpB, HpA. rewrite <- !app_assoc. cbn [app]. reflexivity.
  - intros pc Hin. apply in_app_or in Hin. destruct Hin as [Hin|Hin]; [apply Hw1|apply Hw2]; exact Hin.
Qed.

Lemma fd_fresh : forall q p e c, qlookup p q = Some e -> q_task e = TFresh -> q_pend e = Some c ->
  fd q p = [(p, c)].
Proof. intros q p e c Hl Ht Hp. unfold fd. rewrite Hl, Ht, Hp. reflexivity. Qed.

Lemma fd_woken : forall q p e ws, qlookup p q = Some e -> q_task e = TWoken ws -> fd q p = [].
Proof. intros q p e ws Hl Ht. unfold fd. rewrite Hl, Ht. reflexivity. Qed.

Lemma fd_qset_tail : forall q p e' rq, ~ In p rq ->
  flat_map (fd (qset p e' q)) rq = flat_map (fd q) rq.
Proof.
  intros q p e' rq Hni. apply flat_map_ext_in. intros p' Hin. apply fd_ext.
  rewrite qlookup_qset. assert (Hne : p' <> p) by (intros ->; contradiction).
  apply path_eqb_neq in Hne. rewrite Hne. reflexivity.
Qed.

Lemma fd_qdel_tail : forall q p rq, ~ In p rq ->
  flat_map (fd (qdel p q)) rq = flat_map (fd q) rq.
Proof.
  intros q p rq Hni. apply flat_map_ext_in. intros p' Hin. apply fd_ext.
  apply qlookup_qdel_other. intros ->; contradiction.
Qed.

Definition PipeChange (s s' : st) : Prop :=
  (idb s' = idb s /\ man s' = man s /\
   exists l1 l2 w, pipe s = l1 ++ l2 /\ pipe s' = l1 ++ w ++ l2 /\ forall pc, In pc w -> need pc = [])
  \/ (idb s' = idb s /\ exists sg w, man s' = man s ++ [sg] /\
        pipe s' = pipe s ++ map (fun p => (p, CSeg)) (seg_files sg) ++ (PMan, CMan (man s ++ [sg])) :: w /\
        forall pc, In pc w -> need pc = [])
  \/ (man s' = man s /\ exists x, pipe s = txd x :: pipe s' /\
        idb s' = iput (x_path x) (x_data x) (idb s)).

Lemma same_pipe : forall s s', idb s' = idb s -> man s' = man s -> pipe s' = pipe s -> PipeChange s s'.
Proof.
  intros s s' H1 H2 H3. left. split; [exact H1|]. split; [exact H2|].
  exists (pipe s), [], []. rewrite H3. cbn. rewrite !app_nil_r. repeat split. intros pc [].
Qed.

Lemma pipe_step : forall fixed s s', cstep fixed s s' ->
  QI s -> SegOk s -> ManAw s -> (loaded s = false -> s = st0) -> TQ (started s) s -> MQ s ->
  PipeChange s s'.
Proof.
  intros fixed s s' Hc Hqi Hseg Hma H0 Htq Hmq. cinv Hc.
  - assert (Hi : idb s1 = idb s) by (subst s1; apply schedule_idb).
    assert (Hp1 : pipe s1 = pipe s ++ [(PMan, CMan [])]).
    { subst s1. apply pipe_schedule_none; [exact Hqi|]. rewrite (H0 Hld). reflexivity. }
    left. prj. split; [exact Hi|]. split; [rewrite (H0 Hld); reflexivity|].
    exists (pipe s), [], [(PMan, CMan [])]. split; [rewrite app_nil_r; reflexivity|]. split.
    + cbn [app]. rewrite <- Hp1. apply pipe_ext; reflexivity.
    + intros pc [<-|[]]. reflexivity.
  - assert (Hi : idb s1 = idb s) by (subst s1; apply schedule_idb).
    assert (Hm : man s1 = man s) by (subst s1; apply schedule_man).
    destruct (pipe_schedule_wal (started s) s Hqi Htq) as (w & Hp & Hw). rewrite <- Hs1 in Hp.
    left. prj. split; [exact Hi|]. split; [exact Hm|].
    exists (pipe s), [], w. split; [rewrite app_nil_r; reflexivity|]. split; [|exact Hw].
    rewrite app_nil_r. rewrite <- Hp. apply pipe_ext; reflexivity.
  - apply same_pipe; try reflexivity.
  - assert (Hi : idb s1 = idb s) by (subst s1; apply schedule_all_idb).
    destruct (pipe_commit (started s ++ [m']) s sg m' Hqi Hseg Hma Haw) as (w & Hp & Hw).
    + apply (TQ_mono (started s)); [apply incl_snoc|exact Htq].
    + exact Hsg.
    + intros p c Hin. apply (commit_list_okd _ sg). exact Hin.
    + rewrite <- Hs1 in Hp. right; left. prj. split; [exact Hi|]. exists sg, w.
      split; [exact Hm'|]. split; [|exact Hw]. rewrite <- Hm'. rewrite <- Hp. apply pipe_ext; reflexivity.
  - apply same_pipe; reflexivity.
  - apply same_pipe; reflexivity.
  - apply same_pipe; try reflexivity. unfold pipe. prj.
    pose proof (q_nodup s Hqi) as Hnd. rewrite Hrq in *. inversion Hnd as [|p0 l0 Hni Hnd']; subst p0 l0.
    rewrite (fd_qset_tail _ _ _ _ Hni). cbn [flat_map]. rewrite (fd_fresh _ _ _ _ Hlk Ht Hp).
    rewrite map_app. cbn [map]. rewrite <- app_assoc. reflexivity.
  - left. prj. split; [reflexivity|]. split; [reflexivity|].
    pose proof (q_nodup s Hqi) as Hnd. rewrite Hrq in *. inversion Hnd as [|p0 l0 Hni Hnd']; subst p0 l0.
    exists (map txd (txs s)), (flat_map (fd (queue s)) rq), [(p, c)]. split; [|split].
    + unfold pipe. rewrite Hrq. cbn [flat_map]. rewrite (fd_woken _ _ _ _ Hlk Ht). reflexivity.
    + unfold pipe. prj. rewrite (fd_qset_tail _ _ _ _ Hni). rewrite map_app. cbn [map].
      rewrite <- app_assoc. reflexivity.
    + intros pc [<-|[]]. apply need_other. intros ->.
      destruct (Hmq e Hlk) as [Hf|Hn]; congruence.
  - apply same_pipe; try reflexivity. unfold pipe. prj.
    pose proof (q_nodup s Hqi) as Hnd. rewrite Hrq in *. inversion Hnd as [|p0 l0 Hni Hnd']; subst p0 l0.
    rewrite (fd_qdel_tail _ _ _ Hni). cbn [flat_map]. rewrite (fd_woken _ _ _ _ Hlk Ht). reflexivity.
  - apply same_pipe; autorewrite with schedf; prj; try reflexivity.
    rewrite pipe_wakeif.
    + unfold pipe. prj. rewrite Htx. reflexivity.
    + apply (QI_ext s); try reflexivity. exact Hqi.
  - right; right. autorewrite with schedf; prj. split; [reflexivity|]. exists x. split; [|reflexivity].
    rewrite pipe_wakeif.
    + unfold pipe. prj. rewrite Htx. reflexivity.
    + apply (QI_ext s); try reflexivity. exact Hqi.
Qed.

(** * The order invariants *)

Definition Ord (s : st) : Prop := ordered (keys (idb s)) (pipe s).
Definition IdbOk (s : st) : Prop :=
  forall m, ilookup PMan (idb s) = Some (CMan m) -> incl (flat_map seg_files m) (keys (idb s)).
Definition Files (s : st) : Prop :=
  incl (flat_map seg_files (man s)) (keys (idb s) ++ map fst (pipe s)).

Lemma ord_change : forall s s', PipeChange s s' ->
  Ord s /\ IdbOk s /\ Files s -> Ord s' /\ IdbOk s' /\ Files s'.
Proof.
  intros s s' Hch (Ho & Hi & Hf). unfold Ord, IdbOk, Files in *.
  destruct Hch as [(Hidb & Hman & l1 & l2 & w & Hp & Hp' & Hw)
                  |[(Hidb & sg & w & Hman & Hp' & Hw)
                  |(Hman & x & Hp & Hidb)]].
  - rewrite Hidb, Hman, Hp'. rewrite Hp in Ho, Hf. split; [|split].
    + apply ordered_insert; assumption.
    + exact Hi.
    + intros q Hq. specialize (Hf q Hq). apply in_app_or in Hf. apply in_or_app.
      destruct Hf as [Hf|Hf]; [left; exact Hf|right].
      rewrite !map_app in *. apply in_app_or in Hf. apply in_or_app.
      destruct Hf as [Hf|Hf]; [left; exact Hf|right; apply in_or_app; right; exact Hf].
  - rewrite Hidb, Hman, Hp'.
    assert (Hneed : incl (flat_map seg_files (man s ++ [sg]))
                      (keys (idb s) ++ map fst (pipe s ++ map (fun p => (p, CSeg)) (seg_files sg)))).
    { intros q Hq. rewrite flat_map_app in Hq. apply in_app_or in Hq. rewrite map_app, seg_list_fst.
      destruct Hq as [Hq|Hq].
      - specialize (Hf q Hq). apply in_app_or in Hf. apply in_or_app.
        destruct Hf as [Hf|Hf]; [left; exact Hf|right; apply in_or_app; left; exact Hf].
      - cbn in Hq. rewrite app_nil_r in Hq. apply in_or_app. right. apply in_or_app. right; exact Hq. }
    split; [|split].
    + replace (pipe s ++ map (fun p => (p, CSeg)) (seg_files sg) ++ (PMan, CMan (man s ++ [sg])) :: w)
        with (((pipe s ++ map (fun p => (p, CSeg)) (seg_files sg)) ++ [(PMan, CMan (man s ++ [sg]))]) ++ w ++ [])
        by (rewrite app_nil_r, <- !app_assoc; reflexivity).
      apply ordered_insert; [exact Hw|]. rewrite app_nil_r. apply ordered_snoc.
      * replace (pipe s ++ map (fun p => (p, CSeg)) (seg_files sg))
          with (pipe s ++ map (fun p => (p, CSeg)) (seg_files sg) ++ []) by (rewrite app_nil_r; reflexivity).
        apply ordered_insert; [apply seg_list_need|]. rewrite app_nil_r. exact Ho.
      * exact Hneed.
    + exact Hi.
    + intros q Hq. specialize (Hneed q Hq). apply in_app_or in Hneed. apply in_or_app.
      destruct Hneed as [Hn|Hn]; [left; exact Hn|right].
      rewrite app_assoc, map_app. apply in_or_app. left; exact Hn.
  - rewrite Hidb, Hman. rewrite Hp in Ho, Hf. cbn [ordered] in Ho. destruct Ho as [Ho1 Ho2].
    assert (Hk : incl (keys (idb s)) (keys (iput (x_path x) (x_data x) (idb s)))).
    { intros q Hq. apply keys_iput. right; exact Hq. }
    split; [|split].
    + apply (ordered_mono _ (fst (txd x) :: keys (idb s))); [|exact Ho2].
      intros q [Hq|Hq]; [apply keys_iput; left; symmetry; exact Hq|apply Hk; exact Hq].
    + intros m Hl. rewrite ilookup_iput in Hl. peq PMan (x_path x).
      * injection Hl as Hd. intros q Hq. apply Hk. apply Ho1. unfold need, txd. cbn [fst snd].
        rewrite <- E, Hd. exact Hq.
      * intros q Hq. apply Hk. apply (Hi m Hl). exact Hq.
    + intros q Hq. specialize (Hf q Hq). apply in_app_or in Hf. apply in_or_app.
      destruct Hf as [Hf|Hf]; [left; apply Hk; exact Hf|].
      cbn [map] in Hf. destruct Hf as [Hf|Hf]; [left; apply keys_iput; left; symmetry; exact Hf|right; exact Hf].
Qed.


(* ------------------------------------------------------------------ *)
(** * Chains of manifests *)

Lemma chain_app_iff : forall l1 l2,
  chain (l1 ++ l2) <-> chain l1 /\ chain l2 /\ (forall a b, In a l1 -> In b l2 -> incl a b).
Proof.
  intros l1. induction l1 as [|a l1 IH]; intros l2; cbn.
  - split; [intros H; repeat split; [exact H|intros a b []]|intros (_ & H & _); exact H].
  - rewrite IH. split.
    + intros (H1 & H2 & H3 & H4). repeat split.
      * intros b Hb. apply H1. apply in_or_app. left; exact Hb.
      * exact H2.
      * exact H3.
      * intros a' b [<-|Ha] Hb; [apply H1; apply in_or_app; right; exact Hb|apply H4; assumption].
    + intros ((H1 & H2) & H3 & H4). repeat split.
      * intros b Hb. apply in_app_or in Hb. destruct Hb as [Hb|Hb]; [apply H1; exact Hb|].
        apply H4; [left; reflexivity|exact Hb].
      * exact H2.
      * exact H3.
      * intros a' b Ha Hb. apply H4; [right; exact Ha|exact Hb].
Qed.

Lemma chain_single : forall a, chain [a].
Proof. intros a. cbn. split; [intros b []|exact I]. Qed.

Lemma chain_replace_last : forall A m m2, chain (A ++ [m]) -> incl m m2 -> chain (A ++ [m2]).
Proof.
  intros A m m2 H Hincl. apply chain_app_iff in H. destruct H as (H1 & _ & H3).
  apply chain_app_iff. split; [exact H1|]. split; [apply chain_single|].
  intros a b Ha [<-|[]]. apply (incl_tran (H3 a m Ha (or_introl eq_refl)) Hincl).
Qed.

Lemma chain_dup_last : forall A m, chain (A ++ [m]) -> chain (A ++ [m] ++ [m]).
Proof.
  intros A m H. rewrite app_assoc. apply chain_app_iff. split; [exact H|]. split; [apply chain_single|].
  intros a b Ha [<-|[]]. apply in_app_or in Ha. destruct Ha as [Ha|[<-|[]]].
  - apply chain_app_iff in H. destruct H as (_ & _ & H3). apply H3; [exact Ha|left; reflexivity].
  - apply incl_refl.
Qed.

Lemma ML_ext : forall s s', idb s' = idb s -> txs s' = txs s -> man s' = man s -> ML s' = ML s.
Proof. intros s s' H1 H2 H3. unfold ML. rewrite H1, H2, H3. reflexivity. Qed.

Lemma tman_other : forall x, x_path x <> PMan -> tman x = [].
Proof. intros x H. unfold tman. destruct (x_path x); congruence. Qed.

Lemma tman_donetx : forall x, tman (donetx x) = tman x.
Proof. reflexivity. Qed.

(** * [landed] only grows *)

Lemma landed_ext : forall fixed s s' r, txs s' = txs s -> idb s' = idb s ->
  landed fixed s r -> landed fixed s' r.
Proof. intros fixed s s' r H1 H2 H. unfold landed, dman in *. rewrite H1, H2. exact H. Qed.

Lemma landed_more_txs : forall fixed s s' r, incl (txs s) (txs s') -> idb s' = idb s ->
  landed fixed s r -> landed fixed s' r.
Proof.
  intros fixed s s' r H1 H2 [H|(Hf & x & m' & Hin & Hrest)].
  - left. unfold dman in *. rewrite H2. exact H.
  - right. split; [exact Hf|]. exists x, m'. split; [apply H1; exact Hin|exact Hrest].
Qed.

Lemma landed_step : forall fixed s s', cstep fixed s s' -> TX s -> chain (ML s) ->
  forall r, landed fixed s r -> landed fixed s' r.
Proof.
  intros fixed s s' Hc Htyx Hch r H. cinv Hc.
  - apply (landed_ext fixed s); [prj; subst s1; apply schedule_txs|prj; subst s1; apply schedule_idb|exact H].
  - apply (landed_ext fixed s); [prj; subst s1; apply schedule_txs|prj; subst s1; apply schedule_idb|exact H].
  - apply (landed_ext fixed s); [reflexivity|reflexivity|exact H].
  - apply (landed_ext fixed s); [prj; subst s1; apply schedule_all_txs|prj; subst s1; apply schedule_all_idb|exact H].
  - exact H.
  - apply (landed_ext fixed s); [reflexivity|reflexivity|exact H].
  - apply (landed_more_txs fixed s); [prj; apply incl_appl, incl_refl|reflexivity|exact H].
  - apply (landed_more_txs fixed s); [prj; apply incl_appl, incl_refl|reflexivity|exact H].
  - apply (landed_ext fixed s); [reflexivity|reflexivity|exact H].
  - destruct H as [H|(Hf & x0 & m' & Hin & Hpx & Hdx & Hrest)].
    + left. unfold dman in *. autorewrite with schedf. prj. exact H.
    + right. split; [exact Hf|]. exists x0, m'. autorewrite with schedf. prj.
      rewrite Htx in Hin. destruct Hin as [Hin|Hin]; [subst x0; congruence|].
      split; [right; exact Hin|]. split; [exact Hpx|]. split; [exact Hdx|exact Hrest].
  - assert (Hx : In x (txs s)) by (rewrite Htx; left; reflexivity).
    destruct H as [(m0 & Hl0 & Hr0)|(Hf & x0 & m' & Hin & Hpx & Hdx & Hdat & Hr0)].
    + left. unfold dman. autorewrite with schedf. prj. rewrite ilookup_iput. peq PMan (x_path x).
      * pose proof (Htyx _ Hx) as Hox. rewrite <- E in Hox. cbn in Hox.
        destruct Hox as (m1 & Hd1 & _). exists m1. split; [rewrite Hd1; reflexivity|].
        apply (incl_tran Hr0). unfold ML in Hch. apply chain_app_iff in Hch.
        destruct Hch as (_ & _ & H3). apply (H3 m0 m1).
        -- unfold imans. rewrite Hl0. left; reflexivity.
        -- apply in_or_app. left. rewrite Htx. cbn [flat_map]. apply in_or_app. left.
           unfold tman. rewrite <- E, Hd1. left; reflexivity.
      * exists m0. split; assumption.
    + rewrite Htx in Hin. destruct Hin as [Hin|Hin].
      * subst x0. left. unfold dman. autorewrite with schedf. prj. rewrite ilookup_iput.
        rewrite Hpx, path_eqb_refl. exists m'. split; [rewrite Hdat; reflexivity|exact Hr0].
      * right. split; [exact Hf|]. exists x0, m'. autorewrite with schedf. prj.
        repeat split; assumption.
Qed.

(** * The chain invariant *)

Lemma mstate_MQ : forall fixed s, mstate fixed s -> MQ s.
Proof.
  intros fixed s H e Hl. unfold mstate in H. rewrite Hl in H.
  destruct (q_task e); [left; reflexivity|right; apply H|right; apply H].
Qed.

Lemma chain_step : forall fixed s s', cstep fixed s s' -> (loaded s = false -> s = st0) ->
  TX s -> mstate fixed s -> chain (ML s) -> chain (ML s').
Proof.
  intros fixed s s' Hc H0 Htyx HM Hch. cinv Hc.
  - rewrite (ML_ext s); [exact Hch|prj; subst s1; apply schedule_idb|prj; subst s1; apply schedule_txs|].
    prj. rewrite (H0 Hld). reflexivity.
  - rewrite (ML_ext s); [exact Hch|prj; subst s1; apply schedule_idb|prj; subst s1; apply schedule_txs|prj; subst s1; apply schedule_man].
  - rewrite (ML_ext s); [exact Hch|reflexivity|reflexivity|reflexivity].
  - assert (Hi : idb s1 = idb s) by (subst s1; apply schedule_all_idb).
    assert (Ht : txs s1 = txs s) by (subst s1; apply schedule_all_txs).
    unfold ML in *. prj. rewrite Hi, Ht. rewrite app_assoc in *.
    apply (chain_replace_last _ (man s)); [exact Hch|]. rewrite Hm'. apply incl_appl, incl_refl.
  - exact Hch.
  - rewrite (ML_ext s); [exact Hch|reflexivity|reflexivity|reflexivity].
  - unfold ML in *. prj. rewrite flat_map_app. cbn [flat_map]. rewrite app_nil_r.
    peq p PMan.
    + unfold mstate in HM. rewrite Hlk, Ht in HM. destruct HM as [_ HM]. rewrite Hp in HM.
      injection HM as ->. unfold tman. cbn [newtx x_path x_data].
      rewrite <- !app_assoc. rewrite app_assoc. rewrite app_assoc in Hch.
      apply chain_dup_last. exact Hch.
    + rewrite tman_other by exact E. rewrite app_nil_r. exact Hch.
  - unfold ML in *. prj. rewrite flat_map_app. cbn [flat_map]. rewrite app_nil_r.
    peq p PMan.
    + unfold mstate in HM. rewrite Hlk, Ht in HM. destruct HM as [HM _]. congruence.
    + rewrite tman_other by exact E. rewrite app_nil_r. exact Hch.
  - rewrite (ML_ext s); [exact Hch|reflexivity|reflexivity|reflexivity].
  - unfold ML in *. autorewrite with schedf. prj. rewrite Htx in Hch. exact Hch.
  - unfold ML in *. autorewrite with schedf. prj. rewrite Htx in Hch. cbn [flat_map] in Hch.
    assert (Hx : In x (txs s)) by (rewrite Htx; left; reflexivity).
    peq (x_path x) PMan.
    + pose proof (Htyx _ Hx) as Htx0. rewrite E in Htx0. cbn in Htx0. destruct Htx0 as (m1 & Hd1 & _).
      unfold imans. rewrite ilookup_iput, E, path_eqb_refl, Hd1.
      unfold tman in Hch. rewrite E, Hd1 in Hch. apply chain_app_iff in Hch. destruct Hch as (_ & Hch & _).
      rewrite <- app_assoc in Hch. exact Hch.
    + rewrite tman_other in Hch by exact E. cbn [app] in Hch.
      unfold imans in *. rewrite ilookup_iput.
      assert (Hn : path_eqb PMan (x_path x) = false) by (apply path_eqb_neq; congruence).
      rewrite Hn. exact Hch.
Qed.

(** * The manifest task and its transaction *)

Lemma active_other : forall fixed x, x_path x <> PMan -> active fixed x = false.
Proof. intros fixed x H. unfold active. destruct (x_path x); congruence. Qed.

Lemma active_newtx_man : forall fixed c, active fixed (newtx PMan c) = true.
Proof. intros fixed c. unfold active. cbn. apply orb_true_r. Qed.

Lemma active_donetx_true : forall x, active true (donetx x) = active true x.
Proof. intros x. unfold active. cbn. destruct (x_path x); reflexivity. Qed.

Lemma active_donetx_false : forall x, active false (donetx x) = false.
Proof. intros x. unfold active. cbn. destruct (x_path x); reflexivity. Qed.

Lemma mstate_frame : forall fixed s s',
  qlookup PMan (queue s') = qlookup PMan (queue s) -> amt fixed s' = amt fixed s ->
  man s' = man s -> loaded s' = loaded s ->
  (forall r, landed fixed s r -> landed fixed s' r) -> mstate fixed s -> mstate fixed s'.
Proof.
  intros fixed s s' H1 H2 H3 H4 H5 H. unfold mstate in *. rewrite H1, H2, H3, H4.
  destruct (qlookup PMan (queue s)) as [e|].
  - destruct (q_task e).
    + exact H.
    + exact H.
    + destruct H as (Ha & Hb & Hc). repeat split; [exact Ha|exact Hb|apply H5; exact Hc].
  - destruct H as (Ha & Hb). split; [exact Ha|]. intros Hl. apply H5. apply Hb. exact Hl.
Qed.

Lemma qlookup_commit_man : forall sg m' s, qlookup PMan (queue s) = None ->
  exists r, qlookup PMan (queue (schedule_all (commit_list sg m') s)) = Some (fresh_ent (CMan m') r).
Proof.
  intros sg m' s Hl. unfold commit_list. rewrite schedule_all_app.
  set (sA := schedule_all (map (fun p => (p, CSeg)) (seg_files sg)) s).
  assert (HlA : qlookup PMan (queue sA) = None).
  { unfold sA. rewrite qlookup_schedule_all_other; [exact Hl|].
    rewrite seg_list_fst. unfold seg_files. intros Hin. apply in_map_iff in Hin.
    destruct Hin as (k & Hk & _). discriminate. }
  rewrite !schedule_all_cons, schedule_all_nil. exists (nrid sA).
  rewrite !qlookup_schedule_other by discriminate.
  apply qlookup_schedule_fresh. exact HlA.
Qed.

Lemma amt_ext : forall fixed s s', txs s' = txs s -> amt fixed s' = amt fixed s.
Proof. intros fixed s s' H. unfold amt. rewrite H. reflexivity. Qed.

Lemma mstate_step : forall fixed s s', cstep fixed s s' -> QI s -> ManAw s ->
  (loaded s = false -> s = st0) -> TX s -> chain (ML s) -> mstate fixed s -> mstate fixed s'.
Proof.
  intros fixed s s' Hc Hqi Hma H0 Htyx Hch HM.
  pose proof (landed_step fixed s s' Hc Htyx Hch) as Hland.
  cinv Hc.
  - (* init *)
    assert (Hl1 : qlookup PMan (queue s1) = Some (fresh_ent (CMan []) (nrid s))).
    { subst s1. apply qlookup_schedule_fresh. rewrite (H0 Hld). reflexivity. }
    assert (Ht1 : txs s1 = []) by (subst s1; rewrite schedule_txs, (H0 Hld); reflexivity).
    unfold mstate, amt. prj. rewrite Hl1, Ht1. cbn. split; reflexivity.
  - apply (mstate_frame fixed s); try exact Hland; try exact HM.
    + prj. subst s1. apply qlookup_schedule_other. discriminate.
    + apply amt_ext. prj. subst s1. apply schedule_txs.
    + prj. subst s1. apply schedule_man.
    + prj. subst s1. apply schedule_loaded.
  - apply (mstate_frame fixed s); try exact Hland; try exact HM; reflexivity.
  - (* commit *)
    pose proof (no_man_when_idle s Hma Haw) as Hnone.
    destruct (qlookup_commit_man sg m' s Hnone) as (r & Hl1). rewrite <- Hs1 in Hl1.
    assert (Ht1 : txs s1 = txs s) by (subst s1; apply schedule_all_txs).
    unfold mstate in HM. rewrite Hnone in HM. destruct HM as [Hamt _].
    unfold mstate, amt in *. prj. rewrite Hl1, Ht1. cbn [fresh_ent q_task q_pend]. split; [exact Hamt|reflexivity].
  - exact HM.
  - apply (mstate_frame fixed s); try exact Hland; try exact HM; reflexivity.
  - (* fresh task polled *)
    peq p PMan.
    + unfold mstate in HM. rewrite Hlk, Ht in HM. destruct HM as [Hamt Hpd].
      rewrite Hp in Hpd. injection Hpd as ->.
      unfold mstate, amt in *. prj. rewrite qlookup_qset, path_eqb_refl. cbn [await_ent q_task q_pend].
      split; [reflexivity|].
      rewrite filter_app, map_app, Hamt. cbn [filter app]. rewrite active_newtx_man. reflexivity.
    + apply (mstate_frame fixed s); try exact Hland; try exact HM; try reflexivity.
      * prj. rewrite qlookup_qset. assert (Hn : path_eqb PMan p = false) by (apply path_eqb_neq; congruence).
        rewrite Hn. reflexivity.
      * unfold amt. prj. rewrite filter_app. cbn [filter]. rewrite active_other by exact E.
        rewrite app_nil_r. reflexivity.
  - peq p PMan.
    + unfold mstate in HM. rewrite Hlk, Ht in HM. destruct HM as [Hpd _]. congruence.
    + apply (mstate_frame fixed s); try exact Hland; try exact HM; try reflexivity.
      * prj. rewrite qlookup_qset. assert (Hn : path_eqb PMan p = false) by (apply path_eqb_neq; congruence).
        rewrite Hn. reflexivity.
      * unfold amt. prj. rewrite filter_app. cbn [filter]. rewrite active_other by exact E.
        rewrite app_nil_r. reflexivity.
  - peq p PMan.
    + unfold mstate in HM. rewrite Hlk, Ht in HM. destruct HM as (_ & Hamt & Hl).
      unfold mstate. prj. rewrite qlookup_qdel_same by (apply (q_keys s Hqi)).
      split; [exact Hamt|]. intros _. apply Hland. exact Hl.
    + apply (mstate_frame fixed s); try exact Hland; try exact HM; try reflexivity.
      prj. apply qlookup_qdel_other. congruence.
  - (* request finished *)
    set (si := with_m s (queue s) (runq s) (donetx x :: t) (idb s) (resolved s)) in *.
    destruct fixed; cbn [negb] in *.
    + change (wakeif false (x_path x) si) with si in *.
      apply (mstate_frame true s); try exact Hland; try exact HM; try reflexivity.
      unfold amt, si. prj. rewrite Htx. cbn [filter]. rewrite active_donetx_true.
      destruct (active true x); reflexivity.
    + peq (x_path x) PMan.
      * assert (Hact : active false x = true) by (unfold active; rewrite E, Hd; reflexivity).
        unfold mstate, amt in HM. rewrite Htx in HM. cbn [filter] in HM. rewrite Hact in HM.
        cbn [map] in HM.
        destruct (qlookup PMan (queue s)) as [e|] eqn:Hl; [|destruct HM as [HM1 HM2]; discriminate HM1].
        destruct (q_task e) as [|ws|ws] eqn:Hte;
          [destruct HM as [HM1 HM2]; discriminate HM1| |destruct HM as (HM1 & HM2 & HM3); discriminate HM2].
        destruct HM as (Hpd & Hx'). injection Hx' as Hdat Hft. rewrite E.
        destruct (wakeif_cases true PMan si) as [[_ Hw]|(_ & e1 & ws1 & Hl1 & Ht1 & Hw)].
        -- exfalso. unfold si in Hw. prj_in Hw. destruct Hw as [Hw|[Hw|(e1 & He1 & Hw)]]; try congruence.
        -- unfold si in Hl1. prj_in Hl1. rewrite Hl in Hl1. injection Hl1 as <-.
           rewrite Hw. unfold mstate, amt. prj. rewrite qlookup_qset, path_eqb_refl.
           cbn [woken_ent q_task q_pend]. split; [exact Hpd|]. unfold si. prj. cbn [filter].
           rewrite active_donetx_false. split; [exact Hft|].
           right. split; [reflexivity|]. exists (donetx x), (man s). prj.
           split; [left; reflexivity|]. cbn [donetx x_path x_done x_data].
           repeat split; [exact E|exact Hdat|apply incl_refl].
      * apply (mstate_frame false s); try exact Hland; try exact HM; autorewrite with schedf; try reflexivity.
        -- rewrite qlookup_wakeif_other by congruence. reflexivity.
        -- unfold amt. autorewrite with schedf. unfold si. prj. rewrite Htx. cbn [filter].
           rewrite active_donetx_false. rewrite active_other by exact E. reflexivity.
  - (* transaction durable *)
    set (si := with_m s (queue s) (runq s) t (iput (x_path x) (x_data x) (idb s)) (resolved s)) in *.
    destruct fixed.
    + peq (x_path x) PMan.
      * assert (Hact : active true x = true) by (unfold active; rewrite E; reflexivity).
        unfold mstate, amt in HM. rewrite Htx in HM. cbn [filter] in HM. rewrite Hact in HM.
        cbn [map] in HM.
        destruct (qlookup PMan (queue s)) as [e|] eqn:Hl; [|destruct HM as [HM1 HM2]; discriminate HM1].
        destruct (q_task e) as [|ws|ws] eqn:Hte;
          [destruct HM as [HM1 HM2]; discriminate HM1| |destruct HM as (HM1 & HM2 & HM3); discriminate HM2].
        destruct HM as (Hpd & Hx'). injection Hx' as Hdat Hft. rewrite E.
        destruct (wakeif_cases true PMan si) as [[_ Hw]|(_ & e1 & ws1 & Hl1 & Ht1 & Hw)].
        -- exfalso. unfold si in Hw. prj_in Hw. destruct Hw as [Hw|[Hw|(e1 & He1 & Hw)]]; try congruence.
        -- unfold si in Hl1. prj_in Hl1. rewrite Hl in Hl1. injection Hl1 as <-.
           rewrite Hw. unfold mstate, amt. prj. rewrite qlookup_qset, path_eqb_refl.
           cbn [woken_ent q_task q_pend]. split; [exact Hpd|]. unfold si. prj.
           split; [exact Hft|].
           left. exists (man s). prj. rewrite ilookup_iput, E, path_eqb_refl, Hdat.
           split; [reflexivity|apply incl_refl].
      * apply (mstate_frame true s); try exact Hland; try exact HM; autorewrite with schedf; try reflexivity.
        -- rewrite qlookup_wakeif_other by congruence. reflexivity.
        -- unfold amt. autorewrite with schedf. unfold si. prj. rewrite Htx. cbn [filter].
           rewrite active_other by exact E. reflexivity.
    + change (wakeif false (x_path x) si) with si in *.
      apply (mstate_frame false s); try exact Hland; try exact HM; try reflexivity.
      unfold amt, si. prj. rewrite Htx. cbn [filter].
      assert (Hact : active false x = false).
      { unfold active. rewrite Hd. destruct (x_path x); reflexivity. }
      rewrite Hact. reflexivity.
Qed.

(** * Resolved commits have landed *)

Definition Res (fixed : bool) (s : st) : Prop := forall r, In r (resolvedc s) -> landed fixed s r.

Lemma res_step : forall fixed s s', cstep fixed s s' -> QI s -> ManAw s ->
  (loaded s = false -> s = st0) -> TX s -> chain (ML s) -> AW s -> mstate fixed s ->
  Res fixed s -> Res fixed s'.
Proof.
  intros fixed s s' Hc Hqi Hma H0 Htyx Hch Haw' HM Hres r Hr.
  pose proof (landed_step fixed s s' Hc Htyx Hch) as Hland.
  assert (Hold : In r (resolvedc s) -> landed fixed s' r) by (intros Hin; apply Hland, Hres, Hin).
  cinv Hc; prj_in Hr; try subst s1; autorewrite with schedf in Hr; prj_in Hr; try (apply Hold; exact Hr).
  destruct k as [|m].
  - apply Hold; exact Hr.
  - apply in_app_or in Hr. destruct Hr as [Hr|[<-|[]]]; [apply Hold; exact Hr|].
    apply Hland. rewrite (Haw' rids m Haw).
    pose proof (no_man_when_resolved s rids (ACommit m) Hqi Hma Haw Hall) as Hnone.
    unfold mstate in HM. rewrite Hnone in HM. destruct HM as [_ HM]. apply HM.
    destruct (loaded s) eqn:Hl; [reflexivity|]. rewrite (H0 eq_refl) in Haw. discriminate.
Qed.


(* ------------------------------------------------------------------ *)
(** * The invariant of conformant runs *)

Record Inv (fixed : bool) (s : st) : Prop := {
  i_st0 : loaded s = false -> s = st0;
  i_txdone : Forall (fun x => x_done x = false) (tl (txs s));
  i_q : QI s;
  i_seg : SegOk s;
  i_manaw : ManAw s;
  i_tq : TQ (started s) s;
  i_tx : TX s;
  i_ti : TI s;
  i_aw : AW s;
  i_ord : Ord s;
  i_idb : IdbOk s;
  i_files : Files s;
  i_M : mstate fixed s;
  i_chain : chain (ML s);
  i_res : Res fixed s
}.

Lemma Inv_st0 : forall fixed, Inv fixed st0.
Proof.
  intros fixed. constructor.
  - reflexivity.
  - constructor.
  - constructor; cbn.
    + constructor.
    + constructor.
    + intros p [].
    + intros p e [].
    + intros r. unfold cnt. cbn. lia.
    + intros r [[]|[]].
  - intros sg k [].
  - intros e Hl. discriminate.
  - intros p e c [].
  - intros x [].
  - intros p c Hl. discriminate.
  - intros rids m Ha. discriminate.
  - exact I.
  - intros m Hl. discriminate.
  - intros q [].
  - unfold mstate. cbn. split; [reflexivity|discriminate].
  - apply chain_single.
  - intros r [].
Qed.

Lemma Inv_step : forall fixed s s', cstep fixed s s' -> Inv fixed s -> Inv fixed s'.
Proof.
  intros fixed s s' Hc [H0 Htd Hq Hseg Hma Htq Htx Hti Haw Hord Hidb Hfiles HM Hch Hres].
  pose proof (mstate_MQ fixed s HM) as Hmq.
  pose proof (pipe_step fixed s s' Hc Hq Hseg Hma H0 Htq Hmq) as Hpc.
  destruct (ord_change s s' Hpc (conj Hord (conj Hidb Hfiles))) as (Hord' & Hidb' & Hfiles').
  constructor.
  - exact (st0_step fixed s s' Hc H0).
  - exact (txdone_step fixed s s' Hc Htd).
  - exact (QI_step fixed s s' Hc Hq).
  - exact (seg_step fixed s s' Hc Hseg).
  - exact (manaw_step fixed s s' Hc Hq H0 Hma).
  - exact (tyq_step fixed s s' Hc Htq).
  - exact (tytx_step fixed s s' Hc Htq Htx).
  - exact (tyidb_step fixed s s' Hc Htx Hti).
  - exact (aw_step fixed s s' Hc Haw).
  - exact Hord'.
  - exact Hidb'.
  - exact Hfiles'.
  - exact (mstate_step fixed s s' Hc Hq Hma H0 Htx Hch HM).
  - exact (chain_step fixed s s' Hc H0 Htx HM Hch).
  - exact (res_step fixed s s' Hc Hq Hma H0 Htx Hch Haw HM Hres).
Qed.

Lemma Inv_run : forall fixed evs s s', Inv fixed s ->
  run fixed s evs = Some s' -> conf_run fixed s evs = true -> Inv fixed s'.
Proof.
  intros fixed evs. induction evs as [|e evs IH]; intros s s' Hinv Hrun Hconf; cbn in *.
  - injection Hrun as <-. exact Hinv.
  - apply andb_true_iff in Hconf. destruct Hconf as [Hce Hconf].
    destruct (step fixed s e) as [s1|] eqn:Hstep; [|discriminate].
    apply (IH s1 s'); [|exact Hrun|exact Hconf].
    apply (Inv_step fixed s s1); [|exact Hinv]. apply (step_cstep fixed s e s1 Hstep Hce).
Qed.

Lemma run_app : forall fixed a b s,
  run fixed s (a ++ b) = match run fixed s a with Some s1 => run fixed s1 b | None => None end.
Proof.
  intros fixed a. induction a as [|e a IH]; intros b s; cbn.
  - reflexivity.
  - destruct (step fixed s e) as [s1|]; [apply IH|reflexivity].
Qed.

Lemma conf_run_app : forall fixed a b s s1, run fixed s a = Some s1 ->
  conf_run fixed s (a ++ b) = true -> conf_run fixed s a = true /\ conf_run fixed s1 b = true.
Proof.
  intros fixed a. induction a as [|e a IH]; intros b s s1 Hrun Hconf; cbn in *.
  - injection Hrun as <-. split; [reflexivity|exact Hconf].
  - apply andb_true_iff in Hconf. destruct Hconf as [Hce Hconf]. rewrite Hce. cbn.
    destruct (step fixed s e) as [s2|]; [|discriminate]. apply (IH b s2 s1 Hrun Hconf).
Qed.

(** * Consequences *)

Lemma reload_of_inv : forall fixed s, Inv fixed s ->
  (ilookup PMan (idb s) = None /\ reload (idb s) = Some []) \/
  (exists m, ilookup PMan (idb s) = Some (CMan m) /\ reload (idb s) = Some m /\ In m ([] :: started s)).
Proof.
  intros fixed s Hinv. unfold reload. destruct (ilookup PMan (idb s)) as [c|] eqn:Hl.
  - right. destruct (i_ti fixed s Hinv PMan c Hl) as (m & -> & Hm). exists m.
    split; [reflexivity|]. split; [|exact Hm].
    assert (Hall : forallb (seg_present (idb s)) m = true).
    { apply forallb_forall. intros sg Hsg. unfold seg_present. apply forallb_forall. intros q Hq.
      apply has_path_keys. apply (i_idb fixed s Hinv m Hl). apply in_flat_map.
      exists sg. split; assumption. }
    rewrite Hall. reflexivity.
  - left. split; reflexivity.
Qed.

Lemma reload_consistent_inv : forall fixed s, Inv fixed s ->
  exists m, reload (idb s) = Some m /\ In m ([] :: started s).
Proof.
  intros fixed s Hinv. destruct (reload_of_inv fixed s Hinv) as [(_ & Hr)|(m & _ & Hr & Hm)].
  - exists []. split; [exact Hr|left; reflexivity].
  - exists m. split; assumption.
Qed.

Lemma landed_durable : forall fixed s r, (fixed = true \/ gap s = false) ->
  landed fixed s r -> dman s r.
Proof.
  intros fixed s r Hc [H|(Hf & x & m' & Hin & _ & Hd & _)]; [exact H|].
  exfalso. destruct Hc as [Hc|Hc]; [congruence|].
  assert (Hg : gap s = true).
  { unfold gap. apply existsb_exists. exists x. split; assumption. }
  congruence.
Qed.

Lemma resolved_present_inv : forall fixed s, Inv fixed s -> (fixed = true \/ gap s = false) ->
  exists m, reload (idb s) = Some m /\ In m ([] :: started s) /\
            forall r, In r (resolvedc s) -> incl r m.
Proof.
  intros fixed s Hinv Hc.
  assert (Hd : forall r, In r (resolvedc s) -> dman s r).
  { intros r Hr. apply (landed_durable fixed s r Hc). apply (i_res fixed s Hinv r Hr). }
  destruct (reload_of_inv fixed s Hinv) as [(Hl & Hr)|(m & Hl & Hr & Hm)].
  - exists []. split; [exact Hr|]. split; [left; reflexivity|].
    intros r Hin. destruct (Hd r Hin) as (m' & Hl' & _). congruence.
  - exists m. split; [exact Hr|]. split; [exact Hm|].
    intros r Hin. destruct (Hd r Hin) as (m' & Hl' & Hincl). rewrite Hl in Hl'.
    injection Hl' as <-. exact Hincl.
Qed.

Lemma nlist_eqb_refl : forall l, nlist_eqb l l = true.
Proof. intros l. induction l as [|x l IH]; cbn; [reflexivity|]. rewrite N.eqb_refl, IH. reflexivity. Qed.

Lemma contents_incl : forall sd r m, incl r m -> incl (contents sd r) (contents sd m).
Proof.
  intros sd r m Hincl d Hd. unfold contents in *. apply in_flat_map in Hd.
  destruct Hd as (sg & Hsg & Hd). apply in_flat_map. exists sg. split; [apply Hincl; exact Hsg|exact Hd].
Qed.

Lemma subsetN_incl : forall a b, incl a b -> subsetN a b = true.
Proof.
  intros a b Hincl. unfold subsetN. apply forallb_forall. intros x Hx. unfold memN.
  apply existsb_exists. exists x. split; [apply Hincl; exact Hx|apply N.eqb_refl].
Qed.

Lemma spec_of_facts : forall sd st rs m,
  In m ([] :: st) -> (forall r, In r rs -> incl r m) ->
  spec (map (contents sd) st) (map (contents sd) rs) (Some (contents sd m)) = true.
Proof.
  intros sd st rs m Hm Hrs. unfold spec. apply andb_true_iff. split.
  - apply existsb_exists. exists (contents sd m). split; [|apply nlist_eqb_refl].
    destruct Hm as [<-|Hm]; [left; reflexivity|right; apply in_map; exact Hm].
  - apply forallb_forall. intros x Hx. apply in_map_iff in Hx. destruct Hx as (r & <- & Hr).
    apply subsetN_incl. apply contents_incl. apply Hrs. exact Hr.
Qed.

(** * The theorems *)

Lemma reload_consistent : forall fixed evs s,
  run fixed st0 evs = Some s -> conf_run fixed st0 evs = true ->
  exists m, reload (idb s) = Some m /\ In m ([] :: started s).
Proof.
  intros fixed evs s Hrun Hconf.
  apply (reload_consistent_inv fixed). apply (Inv_run fixed evs st0 s (Inv_st0 fixed) Hrun Hconf).
Qed.

Lemma resolved_present : forall fixed evs s,
  run fixed st0 evs = Some s -> conf_run fixed st0 evs = true ->
  (fixed = true \/ gap s = false) ->
  exists m, reload (idb s) = Some m /\ forall r, In r (resolvedc s) -> incl r m.
Proof.
  intros fixed evs s Hrun Hconf Hc.
  pose proof (Inv_run fixed evs st0 s (Inv_st0 fixed) Hrun Hconf) as Hinv.
  destruct (resolved_present_inv fixed s Hinv Hc) as (m & H1 & _ & H3).
  exists m. split; assumption.
Qed.

Lemma model_meets_spec : forall fixed evs s,
  run fixed st0 evs = Some s -> conf_run fixed st0 evs = true ->
  (fixed = true \/ gap s = false) ->
  spec (map (contents (segdocs s)) (started s)) (map (contents (segdocs s)) (resolvedc s)) (model_obs s) = true.
Proof.
  intros fixed evs s Hrun Hconf Hc.
  pose proof (Inv_run fixed evs st0 s (Inv_st0 fixed) Hrun Hconf) as Hinv.
  destruct (resolved_present_inv fixed s Hinv Hc) as (m & H1 & H2 & H3).
  unfold model_obs. rewrite H1. apply spec_of_facts; assumption.
Qed.

Lemma no_gap_after_completed_transaction : forall fixed evs i s,
  run fixed st0 (evs ++ [EDone i]) = Some s -> conf_run fixed st0 (evs ++ [EDone i]) = true ->
  gap s = false.
Proof.
  intros fixed evs i s Hrun Hconf. rewrite run_app in Hrun.
  destruct (run fixed st0 evs) as [s1|] eqn:Hrun1; [|discriminate].
  destruct (conf_run_app fixed evs [EDone i] st0 s1 Hrun1 Hconf) as [Hc1 Hc2].
  pose proof (Inv_run fixed evs st0 s1 (Inv_st0 fixed) Hrun1 Hc1) as Hinv.
  pose proof (i_txdone fixed s1 Hinv) as Htd.
  cbn [run conf_run] in Hrun, Hc2.
  destruct (step fixed s1 (EDone i)) as [s2|] eqn:Hstep; [|discriminate].
  injection Hrun as ->. apply andb_true_iff in Hc2. destruct Hc2 as [Hce _].
  cbn in Hce. apply Nat.eqb_eq in Hce. subst i.
  unfold step in Hstep. destruct (txs s1) as [|x t] eqn:Htx; cbn [nth_error] in Hstep; [discriminate|].
  destruct (negb (x_done x)); [discriminate|]. injection Hstep as <-.
  assert (Hg : forall l, Forall (fun x => x_done x = false) l -> existsb x_done l = false).
  { intros l Hl. induction Hl as [|a l Ha Hl IH]; cbn; [reflexivity|]. rewrite Ha, IH. reflexivity. }
  cbn [tl] in Htd. unfold gap.
  replace (if fixed then _ else _) with
    (wakeif fixed (x_path x)
       (with_m s1 (queue s1) (runq s1) t (iput (x_path x) (x_data x) (idb s1)) (resolved s1)))
    by (destruct fixed; reflexivity).
  rewrite wakeif_txs. prj. apply Hg. exact Htd.
Qed.

