From Coq Require Import List NArith Bool Lia.
From SL Require Import Base.Tie Core.Model Core.AList Core.Entries C02.Model.
Import ListNotations.
Open Scope N_scope.

(** * Re-applying a batch changes nothing *)
Lemma op_result_idem o x : op_result o (op_result o x) = op_result o x.
Proof. destruct o as [[i v|i]|]; reflexivity. Qed.

Lemma apply_all_idem ops c id :
  alookup id (apply_all ops (apply_all ops c)) = alookup id (apply_all ops c).
Proof. unfold apply_all. rewrite !fold_apply_lookup. apply op_result_idem. Qed.

Lemma apply_all_app a b c : apply_all (a ++ b) c = apply_all b (apply_all a c).
Proof. unfold apply_all. apply fold_left_app. Qed.

Lemma apply_all_ext ops c c' id :
  alookup id c = alookup id c' -> alookup id (apply_all ops c) = alookup id (apply_all ops c').
Proof. intros H. unfold apply_all. rewrite !fold_apply_lookup. now rewrite H. Qed.

(** a batch that was committed but whose marker was lost is re-applied in front of the new
    operations: the result is the same as applying only the new operations *)
Lemma reapply_harmless q r c id :
  alookup id (apply_all (q ++ r) (apply_all q c)) = alookup id (apply_all r (apply_all q c)).
Proof.
  rewrite apply_all_app. apply apply_all_ext. apply apply_all_idem.
Qed.

(** * The log file under crashes *)
Definition is_op (r : wrec) : bool := match r with ROp _ => true | RMarker => false end.
Definition ops_of (l : list wrec) : list pop :=
  flat_map (fun r => match r with ROp p => [p] | RMarker => [] end) l.

Lemma pending_acc_ops acc t : forallb is_op t = true -> pending_acc acc t = acc ++ ops_of t.
Proof.
  revert acc; induction t as [|[p|] t IH]; intros acc H; cbn in *; [now rewrite app_nil_r | | discriminate].
  rewrite IH by exact H. now rewrite <- app_assoc.
Qed.

Lemma pending_acc_app acc a t : pending_acc acc (a ++ t) = pending_acc (pending_acc acc a) t.
Proof.
  revert acc; induction a as [|[p|] a IH]; intros acc; cbn; [reflexivity | apply IH | apply IH].
Qed.

Lemma pending_app_ops a t : forallb is_op t = true -> pending (a ++ t) = pending a ++ ops_of t.
Proof. intros H. unfold pending. rewrite pending_acc_app. now apply pending_acc_ops. Qed.

Lemma In_prefixes {A} (p l : list A) : In p (prefixes l) -> exists s, l = p ++ s.
Proof.
  revert p; induction l as [|x l IH]; intros p; cbn.
  - intros [<-|[]]. now exists [].
  - intros [<-|H]; [now exists (x :: l)|].
    apply in_map_iff in H as [p' [<- Hp]]. destruct (IH _ Hp) as [s ->]. now exists s.
Qed.

Lemma forallb_app_l {A} (f : A -> bool) a b : forallb f (a ++ b) = true -> forallb f a = true.
Proof. rewrite forallb_app. intros H. now apply andb_true_iff in H. Qed.

Lemma ops_of_app a b : ops_of (a ++ b) = ops_of a ++ ops_of b.
Proof. unfold ops_of. apply flat_map_app. Qed.

Lemma strip_prefix_sound p l t : strip_prefix wrec_eqb p l = Some t -> True.
Proof. trivial. Qed.

(** Whatever a crash leaves of a log whose directory entry is durable and whose unsynced tail
    holds only operations, the recovered queue is the synced queue followed by a prefix of the
    unsynced operations, in order: nothing synced is lost, nothing is invented or reordered. *)
Lemma crash_queue_bounds w tail x :
  w_entry w = true ->
  strip_prefix wrec_eqb (w_dur w) (w_vol w) = Some tail ->
  forallb is_op tail = true ->
  In x (wal_crash w) ->
  exists p s, ops_of tail = p ++ s /\ pending x = pending (w_dur w) ++ p.
Proof.
  intros He Hs Ht Hin. unfold wal_crash in Hin. rewrite He, Hs in Hin. cbn [app] in Hin.
  apply in_map_iff in Hin as [pre [<- Hp]]. apply In_prefixes in Hp as [suf ->].
  exists (ops_of pre), (ops_of suf). split; [apply ops_of_app|].
  apply pending_app_ops. eapply forallb_app_l; eauto.
Qed.

(** with the repaired open, the directory entry of the log is durable from the first writer on *)
Lemma entry_durable ops : forall w, w_entry w = true -> w_exists w = true ->
  w_entry (fold_left wal_apply ops w) = true /\ w_exists (fold_left wal_apply ops w) = true.
Proof.
  induction ops as [|o ops IH]; intros w He Hx; cbn [fold_left]; [auto|].
  apply IH; destruct o; cbn; rewrite ?Hx; auto.
Qed.

Lemma entry_durable_from_open ops :
  w_entry (fold_left wal_apply ops (wal_apply wal0 WOpen)) = true.
Proof. apply entry_durable; reflexivity. Qed.

Lemma strip_prefix_self l : strip_prefix wrec_eqb l l = Some [].
Proof.
  induction l as [|r l IH]; cbn; [reflexivity|].
  replace (wrec_eqb r r) with true; [exact IH|].
  destruct r as [[i v|i]|]; cbn; rewrite ?N.eqb_refl; reflexivity.
Qed.

(** after a sync nothing of the queue can be lost *)
Lemma synced_queue_exact w x :
  w_entry w = true -> In x (wal_crash (wal_apply w WFsync)) -> x = w_vol w.
Proof.
  intros He Hin. unfold wal_crash in Hin. cbn [wal_apply w_entry w_dur w_vol] in Hin. rewrite He in Hin.
  cbn [app] in Hin.
  rewrite strip_prefix_self in Hin. cbn in Hin. destruct Hin as [<-|[]]. apply app_nil_r.
Qed.
