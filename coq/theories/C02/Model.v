(** C02 — queued operations across crashes.

    Two layers.
    (1) A record-level model of the log file under the file-system rules of DESIGN.md 3.3:
        durable records, volatile records, whether the directory entry is durable; the operations
        the writer issues on it (append, fsync, truncate, open) and the contents a crash may leave
        ([wal_crash]).  The byte level (torn records never parse, appends behind a valid prefix are
        visible, zero fill) is Wal/Theorems.v.
    (2) The user-level specification of recovery as an executable checker over a history with
        crash events ([spec_run]), written from the property statement:
        a recovered queue lies between the operations known to be synced and all operations
        issued since the last commit/rollback, in order; a commit in flight either did not happen
        (old contents, queue kept) or happened (new contents; the queue is empty, or still holds
        the batch whose re-application changes nothing); acknowledged syncs are never lost. *)
From Coq Require Import List NArith Bool.
From SL Require Import Base.Tie Core.Model.
Import ListNotations.
Open Scope N_scope.

(** * (1) The log file *)
Inductive wrec := ROp (p : pop) | RMarker.

Record wal_st := {
  w_dur : list wrec;      (* content as of the last fsync *)
  w_vol : list wrec;      (* current content *)
  w_entry : bool;         (* directory entry durable *)
  w_exists : bool
}.

Definition wal0 : wal_st := {| w_dur := []; w_vol := []; w_entry := false; w_exists := false |}.

Inductive wop := WOpen | WAppend (r : wrec) | WFsync | WSetLen0 | WDirFsync.

Definition wal_apply (w : wal_st) (o : wop) : wal_st :=
  match o with
  | WOpen =>
      (* open_append creates the file when missing; the repaired code then fsyncs the directory *)
      if w_exists w then w
      else {| w_dur := []; w_vol := []; w_entry := true; w_exists := true |}
  | WAppend r => {| w_dur := w_dur w; w_vol := w_vol w ++ [r]; w_entry := w_entry w; w_exists := w_exists w |}
  | WFsync => {| w_dur := w_vol w; w_vol := w_vol w; w_entry := w_entry w; w_exists := w_exists w |}
  | WSetLen0 => {| w_dur := w_dur w; w_vol := []; w_entry := w_entry w; w_exists := w_exists w |}
  | WDirFsync => {| w_dur := w_dur w; w_vol := w_vol w; w_entry := w_exists w; w_exists := w_exists w |}
  end.

Fixpoint prefixes {A} (l : list A) : list (list A) :=
  match l with
  | [] => [[]]
  | x :: l' => [] :: map (cons x) (prefixes l')
  end.

Fixpoint strip_prefix (eqb : wrec -> wrec -> bool) (p l : list wrec) : option (list wrec) :=
  match p, l with
  | [], _ => Some l
  | x :: p', y :: l' => if eqb x y then strip_prefix eqb p' l' else None
  | _ :: _, [] => None
  end.

Definition pop_eqb (a b : pop) : bool :=
  match a, b with
  | PAdd i v, PAdd j w => (i =? j) && (v =? w)
  | PDel i, PDel j => i =? j
  | _, _ => false
  end.

Definition wrec_eqb (a b : wrec) : bool :=
  match a, b with
  | ROp p, ROp q => pop_eqb p q
  | RMarker, RMarker => true
  | _, _ => false
  end.

(** contents of the log file a crash may leave: the durable content followed by any prefix of an
    unsynced appended tail (a torn last record is dropped by replay, see Wal/Theorems.v); after
    an unsynced truncation either the old durable content or nothing; no file at all when the
    directory entry never became durable. *)
Definition wal_crash (w : wal_st) : list (list wrec) :=
  (if w_entry w then [] else [[]]) ++
  match strip_prefix wrec_eqb (w_dur w) (w_vol w) with
  | Some tail => map (fun p => w_dur w ++ p) (prefixes tail)
  | None => [w_dur w; w_vol w]
  end.

(** the recovered queue: operations after the last commit marker *)
Fixpoint pending_acc (acc : list pop) (l : list wrec) : list pop :=
  match l with
  | [] => acc
  | ROp p :: l' => pending_acc (acc ++ [p]) l'
  | RMarker :: l' => pending_acc [] l'
  end.
Definition pending (l : list wrec) : list pop := pending_acc [] l.

(** * (2) Specification over histories with crashes *)

Inductive ev :=
| ECall (a : api)
| ECrash (a : api) (whole synced : bool) (c : option (list (N * N))) (q : option (list pop)).
(* [synced]: the call in flight had already completed a log fsync when the crash came (a commit
   attempt syncs the log first): from then on every operation issued before it is "followed by a
   successful log sync" and must be recovered unless the commit itself completed *)

Record sst := { sC : cmap; sD : list pop; sU : list pop }.
Definition sst0 : sst := {| sC := []; sD := []; sU := [] |}.

Fixpoint pops_eqb (a b : list pop) : bool :=
  match a, b with
  | [], [] => true
  | x :: a', y :: b' => pop_eqb x y && pops_eqb a' b'
  | _, _ => false
  end.

Fixpoint is_prefix (p l : list pop) : bool :=
  match p, l with
  | [], _ => true
  | x :: p', y :: l' => pop_eqb x y && is_prefix p' l'
  | _ :: _, [] => false
  end.

Definition between (lo q hi : list pop) : bool := is_prefix lo q && is_prefix q hi.

Definition cont_eqb (a : list (N * N)) (c : cmap) : bool :=
  plist_eqb (sort_by_id a) (sort_by_id c).

Definition apply_all (ops : list pop) (c : cmap) : cmap := fold_left apply_op ops c.

Definition inflight_op (a : api) : list pop :=
  match a with
  | AddDoc _ _ id v => [PAdd id v]
  | DelDoc _ _ id => [PDel id]
  | _ => []
  end.

Definition is_nil {A} (l : list A) : bool := match l with [] => true | _ => false end.

(** is the observation (contents, queue) after a crash inside / right after call [a] allowed? *)
Definition crash_allowed (s : sst) (a : api) (whole synced : bool) (cc : list (N * N)) (qq : list pop) : bool :=
  let b := sD s ++ sU s in
  let lo := if synced then b else sD s in
  match a with
  | AddDoc _ _ _ _ | DelDoc _ _ _ =>
      cont_eqb cc (sC s) && between lo qq (b ++ inflight_op a)
  | Commit _ =>
      if is_nil b then cont_eqb cc (sC s) && is_nil qq
      else
        let post := apply_all b (sC s) in
        if whole then cont_eqb cc post && is_nil qq
        else (cont_eqb cc (sC s) && between lo qq b)
             || (cont_eqb cc post && (is_nil qq || pops_eqb qq b))
  | Rollback _ =>
      cont_eqb cc (sC s) &&
      (if whole then is_nil qq else is_nil qq || between lo qq b)
  | DropWriter _ | Reopen =>
      cont_eqb cc (sC s) &&
      (if whole then pops_eqb qq b else between lo qq b)
  | NewWriter _ | Compact =>
      cont_eqb cc (sC s) && between lo qq b
  end.

Definition spec_call (s : sst) (a : api) : sst :=
  match a with
  | NewWriter _ | Compact => s
  | AddDoc _ _ id v => {| sC := sC s; sD := sD s; sU := sU s ++ [PAdd id v] |}
  | DelDoc _ _ id => {| sC := sC s; sD := sD s; sU := sU s ++ [PDel id] |}
  | Commit _ =>
      let b := sD s ++ sU s in
      if is_nil b then s else {| sC := apply_all b (sC s); sD := []; sU := [] |}
  | Rollback _ => {| sC := sC s; sD := []; sU := [] |}
  | DropWriter _ | Reopen => {| sC := sC s; sD := sD s ++ sU s; sU := [] |}
  end.

(** runs the specification over the events; returns the first offending event index, if any,
    and the final specification state *)
Fixpoint spec_run (s : sst) (i : N) (evs : list ev) : option N * sst :=
  match evs with
  | [] => (None, s)
  | ECall a :: evs' => spec_run (spec_call s a) (N.succ i) evs'
  | ECrash a whole synced c q :: evs' =>
      match c, q with
      | Some cc, Some qq =>
          if crash_allowed s a whole synced cc qq
          then spec_run {| sC := cc; sD := qq; sU := [] |} (N.succ i) evs'
          else (Some i, s)
      | _, _ => (Some i, s)
      end
  end.

(** a case: the events, and the contents observed after a final healthy [writer(); commit()] *)
Definition case02 := (list ev * list (N * N))%type.

Definition spec (c : case02) : bool :=
  let '(evs, final) := c in
  match spec_run sst0 0 evs with
  | (Some _, _) => false
  | (None, s) => cont_eqb final (apply_all (sD s ++ sU s) (sC s))
  end.

Definition check_case (c : case02) : N := verdict_spec (spec c) 0.
