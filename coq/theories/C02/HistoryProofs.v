(** C02/HistoryProofs.v — every history the model produces, with any number of crashes at any
    micro-operation boundary and any crash outcome, satisfies the specification C02.Model.spec. *)
From Coq Require Import List NArith Bool Lia Arith.
From SL Require Import Base.Tie Core.Model C02.Model C02.Proofs C02.History.
Import ListNotations.
Open Scope N_scope.

(** * boolean helpers *)
Lemma pop_eqb_refl p : pop_eqb p p = true.
Proof. destruct p; cbn; rewrite ?N.eqb_refl; reflexivity. Qed.

Lemma pop_eqb_eq a b : pop_eqb a b = true -> a = b.
Proof.
  destruct a, b; cbn; intros H; try discriminate.
  - apply andb_prop in H as [H1 H2]. apply N.eqb_eq in H1, H2. subst; reflexivity.
  - apply N.eqb_eq in H. subst; reflexivity.
Qed.

Lemma pops_eqb_refl l : pops_eqb l l = true.
Proof. induction l as [|x l IH]; cbn; [reflexivity|]. rewrite pop_eqb_refl, IH. reflexivity. Qed.

Lemma pops_eqb_eq a : forall b, pops_eqb a b = true -> a = b.
Proof.
  induction a as [|x a IH]; intros [|y b] H; cbn in H; try discriminate; [reflexivity|].
  apply andb_prop in H as [H1 H2]. apply pop_eqb_eq in H1. apply IH in H2. subst; reflexivity.
Qed.

Lemma is_prefix_app a s : is_prefix a (a ++ s) = true.
Proof. induction a as [|x a IH]; cbn; [reflexivity|]. rewrite pop_eqb_refl, IH. reflexivity. Qed.

Lemma is_prefix_refl a : is_prefix a a = true.
Proof. rewrite <- (app_nil_r a) at 2. apply is_prefix_app. Qed.

Lemma between_mid D p s e : between D (D ++ p) (D ++ (p ++ s) ++ e) = true.
Proof.
  unfold between. rewrite is_prefix_app. cbn [andb].
  replace (D ++ (p ++ s) ++ e) with ((D ++ p) ++ (s ++ e)) by (rewrite !app_assoc; reflexivity).
  apply is_prefix_app.
Qed.

Lemma between_mid0 D p s : between D (D ++ p) (D ++ p ++ s) = true.
Proof. pose proof (between_mid D p s []) as H. rewrite app_nil_r in H. exact H. Qed.

Lemma between_all b e : between b b (b ++ e) = true.
Proof. unfold between. rewrite is_prefix_refl, is_prefix_app. reflexivity. Qed.

Lemma between_refl b : between b b b = true.
Proof. unfold between. rewrite is_prefix_refl. reflexivity. Qed.

Lemma pair_eqb_refl' x : pair_eqb x x = true.
Proof. destruct x as [a b]. unfold pair_eqb. cbn. rewrite !N.eqb_refl. reflexivity. Qed.

Lemma plist_eqb_refl' l : plist_eqb l l = true.
Proof. induction l as [|x l IH]; cbn; [reflexivity|]. rewrite pair_eqb_refl', IH. reflexivity. Qed.

Lemma cont_eqb_refl c : cont_eqb c c = true.
Proof. unfold cont_eqb. apply plist_eqb_refl'. Qed.

Lemma is_nil_true {A} (l : list A) : is_nil l = true -> l = [].
Proof. destruct l; [reflexivity|discriminate]. Qed.

Lemma is_nil_false {A} (l : list A) : is_nil l = false -> l <> [].
Proof. destruct l; [discriminate|intros _ H; discriminate]. Qed.

(** * the log side *)
Lemma strip_prefix_app' l t : strip_prefix wrec_eqb l (l ++ t) = Some t.
Proof.
  induction l as [|r l IH]; cbn; [reflexivity|].
  replace (wrec_eqb r r) with true; [exact IH|].
  destruct r as [[i v|i]|]; cbn; rewrite ?N.eqb_refl; reflexivity.
Qed.

Lemma strip_prefix_cons_nil r l : strip_prefix wrec_eqb (r :: l) [] = None.
Proof. reflexivity. Qed.

Lemma pending_marker_end' l : pending (l ++ [RMarker]) = [].
Proof. unfold pending. rewrite pending_acc_app. reflexivity. Qed.

Lemma pending_map_ROp q : pending (map ROp q) = q.
Proof.
  unfold pending. rewrite pending_acc_ops.
  - cbn [app]. unfold ops_of. induction q as [|x q IH]; cbn; [reflexivity|]. rewrite IH. reflexivity.
  - induction q as [|x q IH]; cbn; [reflexivity|exact IH].
Qed.

Lemma ops_of_nil_inv t : forallb is_op t = true -> ops_of t = [] -> t = [].
Proof. destruct t as [|[p|] t]; cbn; intros H1 H2; try discriminate; reflexivity. Qed.

(** the log invariant relative to the specification's synced queue [D] and unsynced queue [U] *)
Definition LInv (w : wal_st) (D U : list pop) : Prop :=
  exists p tail,
    U = p ++ ops_of tail /\ forallb is_op tail = true /\ w_vol w = w_dur w ++ tail /\
    pending (w_dur w) = D ++ p /\
    (w_entry w = true \/ (w_dur w = [] /\ tail = [])) /\ w_entry w = w_exists w.

Lemma LInv_pending_vol w D U : LInv w D U -> pending (w_vol w) = D ++ U.
Proof.
  intros (p & tail & HU & Ht & Hv & Hd & _). rewrite Hv, pending_app_ops by exact Ht.
  rewrite Hd, HU, app_assoc. reflexivity.
Qed.

(** whatever a crash leaves: the synced queue and a prefix of the unsynced one *)
Lemma LInv_crash w D U x : LInv w D U -> In x (wal_crash w) ->
  exists p s, U = p ++ s /\ pending x = D ++ p.
Proof.
  intros (p & tail & HU & Ht & Hv & Hd & He & _) Hin.
  destruct He as [He | [Hd0 Ht0]].
  - destruct (crash_queue_bounds w tail x He) as (p' & s' & Hsplit & Hpx); auto.
    { rewrite Hv. apply strip_prefix_app'. }
    exists (p ++ p'), s'. split.
    + rewrite HU, Hsplit, app_assoc. reflexivity.
    + rewrite Hpx, Hd, app_assoc. reflexivity.
  - subst tail. rewrite app_nil_r in Hv. unfold wal_crash in Hin. rewrite Hv, Hd0 in Hin.
    cbn in Hin. rewrite Hd0 in Hd. cbn in Hd. symmetry in Hd. apply app_eq_nil in Hd as [-> ->].
    exists [], U. split; [reflexivity|].
    destruct (w_entry w); cbn in Hin; intuition; subst; reflexivity.
Qed.

Lemma LInv_append w D U p : LInv w D U -> w_entry w = true ->
  LInv (wal_apply w (WAppend (ROp p))) D (U ++ [p]).
Proof.
  intros (p0 & tail & HU & Ht & Hv & Hd & _ & Hx) He.
  exists p0, (tail ++ [ROp p]). cbn [wal_apply w_dur w_vol w_entry w_exists].
  repeat split; auto.
  - rewrite HU, ops_of_app, app_assoc. reflexivity.
  - rewrite forallb_app, Ht. reflexivity.
  - rewrite Hv, app_assoc. reflexivity.
Qed.

Lemma LInv_fsync w D U : LInv w D U -> LInv (wal_apply w WFsync) (D ++ U) [].
Proof.
  intros H. pose proof (LInv_pending_vol _ _ _ H) as Hp.
  destruct H as (p0 & tail & HU & Ht & Hv & Hd & He & Hx).
  exists [], []. cbn [wal_apply w_dur w_vol w_entry w_exists ops_of flat_map app forallb].
  repeat split; auto.
  - rewrite app_nil_r. reflexivity.
  - rewrite app_nil_r. exact Hp.
  - destruct He as [He | [Hd0 Ht0]]; [left; exact He|right]. subst tail. rewrite app_nil_r in Hv.
    rewrite Hv. auto.
Qed.

Lemma LInv_fsync_same w D U : LInv w D U -> w_vol w = w_dur w -> LInv (wal_apply w WFsync) D U.
Proof.
  intros (p0 & tail & HU & Ht & Hv & Hd & He & Hx) Hsame.
  assert (tail = []) as ->.
  { rewrite Hsame in Hv. rewrite <- (app_nil_r (w_dur w)) in Hv at 1. apply app_inv_head in Hv. auto. }
  exists p0, []. cbn [wal_apply w_dur w_vol w_entry w_exists]. rewrite Hsame.
  repeat split; auto. rewrite app_nil_r. reflexivity.
Qed.

Lemma LInv_open w D U : LInv w D U -> LInv (wal_apply w WOpen) D U /\ w_exists (wal_apply w WOpen) = true.
Proof.
  intros H. unfold wal_apply. destruct (w_exists w) eqn:Hx; [split; auto|].
  destruct H as (p0 & tail & HU & Ht & Hv & Hd & He & Hxe). rewrite Hx in Hxe.
  destruct He as [He | [Hd0 Ht0]]; [congruence|].
  split; [|reflexivity].
  exists p0, []. cbn [w_dur w_vol w_entry w_exists]. subst tail. rewrite Hd0 in Hd.
  repeat split; auto.
Qed.

Lemma LInv_empty : LInv {| w_dur := []; w_vol := []; w_entry := true; w_exists := true |} [] [].
Proof. exists [], []. cbn. repeat split; auto. Qed.

(** crash outcomes of particular log shapes *)
Lemma crash_synced w x : w_entry w = true -> w_vol w = w_dur w -> In x (wal_crash w) -> x = w_dur w.
Proof.
  intros He Hs Hin. unfold wal_crash in Hin. rewrite He, Hs, strip_prefix_self in Hin. cbn in Hin.
  destruct Hin as [<-|[]]. apply app_nil_r.
Qed.

Lemma crash_marker_tail w x : w_entry w = true -> w_vol w = w_dur w ++ [RMarker] -> In x (wal_crash w) ->
  x = w_dur w \/ x = w_dur w ++ [RMarker].
Proof.
  intros He Hs Hin. unfold wal_crash in Hin. rewrite He, Hs, strip_prefix_app' in Hin. cbn in Hin.
  rewrite app_nil_r in Hin. intuition.
Qed.

Lemma crash_truncated w x : w_vol w = [] -> In x (wal_crash w) -> x = w_dur w \/ x = [].
Proof.
  intros Hs Hin. unfold wal_crash in Hin. rewrite Hs in Hin.
  apply in_app_or in Hin as [Hin|Hin].
  - destruct (w_entry w); cbn in Hin; intuition.
  - destruct (w_dur w) as [|r l] eqn:Hd.
    + cbn in Hin. intuition.
    + cbn in Hin. intuition.
Qed.

(** * the simulation relation between the specification state and the model state *)
Definition R (s : sst) (m : mst) : Prop :=
  sC s = mC m /\ mP m = None /\ LInv (mW m) (sD s) (sU s) /\
  match mH m with
  | Some q => q = sD s ++ sU s /\ w_entry (mW m) = true
  | None => sU s = [] /\ w_vol (mW m) = w_dur (mW m)
  end.

Lemma LInv_entry_exists w D U : LInv w D U -> w_entry w = w_exists w.
Proof. intros (p & t & _ & _ & _ & _ & _ & H). exact H. Qed.

Lemma open_vol_dur w : w_vol w = w_dur w -> w_vol (wal_apply w WOpen) = w_dur (wal_apply w WOpen).
Proof. intros H. unfold wal_apply. destruct (w_exists w); [exact H|reflexivity]. Qed.

Lemma R_m0 : R sst0 m0.
Proof.
  unfold R, sst0, m0. cbn. repeat split; auto.
  exists [], []. cbn. repeat split; auto.
Qed.

Lemma R_after_crash c q : R {| sC := c; sD := q; sU := [] |} (after_crash c q).
Proof.
  unfold R, after_crash. cbn. repeat split; auto.
  exists [], []. cbn. rewrite !app_nil_r. repeat split; auto. apply pending_map_ROp.
Qed.

(** a completed call keeps the relation *)
Lemma step_call s m a ops h :
  R s m -> call_ops m a = Some (ops, h) -> R (spec_call s a) (set_handle (mexec m ops) h).
Proof.
  intros (HC & HP & HL & HH) Hc.
  unfold call_ops in Hc.
  destruct a as [hh|hh cn id v|hh cn id|hh|hh|hh| |]; destruct (mH m) as [q|] eqn:Hq; try discriminate.
  - (* NewWriter *)
    injection Hc as <- <-. destruct HH as [HU Hsame].
    destruct (LInv_open _ _ _ HL) as [HL1 Hex].
    pose proof (LInv_fsync_same _ _ _ HL1 (open_vol_dur _ Hsame)) as HL2.
    unfold R. cbn [spec_call set_handle mexec fold_left mapply mC mP mW mH].
    repeat split; auto.
    + apply (LInv_pending_vol _ _ _ HL).
    + change (w_entry (wal_apply (mW m) WOpen) = true). rewrite (LInv_entry_exists _ _ _ HL1). exact Hex.
  - (* AddDoc *)
    injection Hc as <- <-. destruct HH as [-> He].
    unfold R. cbn [spec_call set_handle mexec fold_left mapply mC mP mW mH sC sD sU].
    repeat split; auto.
    + apply LInv_append; assumption.
    + rewrite app_assoc. reflexivity.
  - (* DelDoc *)
    injection Hc as <- <-. destruct HH as [-> He].
    unfold R. cbn [spec_call set_handle mexec fold_left mapply mC mP mW mH sC sD sU].
    repeat split; auto.
    + apply LInv_append; assumption.
    + rewrite app_assoc. reflexivity.
  - (* Commit *)
    destruct HH as [-> He]. unfold R. cbn [spec_call].
    destruct (is_nil (sD s ++ sU s)) eqn:Hn; injection Hc as <- <-.
    + cbn [set_handle mexec fold_left mC mP mW mH]. repeat split; auto.
    + cbn [set_handle mexec commit_mops fold_left mapply mC mP mW mH sC sD sU].
      rewrite HC. repeat split; auto.
      exists [], []. cbn. pose proof (LInv_entry_exists _ _ _ HL). repeat split; auto.
  - (* Rollback *)
    injection Hc as <- <-. destruct HH as [-> He]. unfold R.
    cbn [spec_call set_handle mexec fold_left mapply mC mP mW mH sC sD sU].
    repeat split; auto.
    exists [], []. cbn. pose proof (LInv_entry_exists _ _ _ HL). repeat split; auto.
  - (* DropWriter *)
    injection Hc as <- <-. destruct HH as [-> He]. unfold R, drop_mops.
    cbn [spec_call sC sD sU]. destruct (is_nil (sD s ++ sU s)) eqn:Hn.
    + cbn [set_handle mexec fold_left mC mP mW mH]. apply is_nil_true in Hn.
      rewrite Hn. apply app_eq_nil in Hn as [HD HU]. rewrite HD, HU in HL.
      repeat split; auto.
      destruct HL as (p & t & HU' & Ht & Hv & Hd & _).
      symmetry in HU'. apply app_eq_nil in HU' as [-> Hot]. apply ops_of_nil_inv in Hot; auto. subst t.
      rewrite app_nil_r in Hv. exact Hv.
    + cbn [set_handle mexec fold_left mapply mC mP mW mH]. repeat split; auto.
      apply LInv_fsync. exact HL.
  - (* Compact, live handle *)
    injection Hc as <- <-. unfold R. cbn [spec_call set_handle mexec fold_left mC mP mW mH].
    destruct HH as [HH1 HH2]. repeat split; auto.
  - (* Compact, no handle *)
    injection Hc as <- <-. unfold R. cbn [spec_call set_handle mexec fold_left mC mP mW mH].
    destruct HH as [HH1 HH2]. repeat split; auto.
  - (* Reopen, live handle *)
    injection Hc as <- <-. destruct HH as [-> He]. unfold R, drop_mops.
    cbn [spec_call sC sD sU]. destruct (is_nil (sD s ++ sU s)) eqn:Hn.
    + cbn [set_handle mexec fold_left mC mP mW mH]. apply is_nil_true in Hn.
      rewrite Hn. apply app_eq_nil in Hn as [HD HU]. rewrite HD, HU in HL.
      repeat split; auto.
      destruct HL as (p & t & HU' & Ht & Hv & Hd & _).
      symmetry in HU'. apply app_eq_nil in HU' as [-> Hot]. apply ops_of_nil_inv in Hot; auto. subst t.
      rewrite app_nil_r in Hv. exact Hv.
    + cbn [set_handle mexec fold_left mapply mC mP mW mH]. repeat split; auto.
      apply LInv_fsync. exact HL.
  - (* Reopen, no handle *)
    injection Hc as <- <-. destruct HH as [HU Hsame]. unfold R.
    cbn [spec_call set_handle mexec fold_left mC mP mW mH sC sD sU]. rewrite HU, app_nil_r.
    rewrite HU in HL. repeat split; auto.
Qed.

(** * a crash at any micro-operation boundary shows what the specification allows *)
Lemma obs_in_elim c q m : obs_in c q (crash_obs m) = true ->
  exists cm x, (cm = mC m \/ mP m = Some cm) /\ In x (wal_crash (mW m)) /\
               cont_eqb c cm = true /\ q = pending x.
Proof.
  unfold obs_in, crash_obs. intros H. apply existsb_exists in H as [[cm qq] [Hin Hb]].
  apply in_prod_iff in Hin as [Hc Hq]. apply in_map_iff in Hq as [x [<- Hx]].
  cbn [fst snd] in Hb. apply andb_prop in Hb as [Hb1 Hb2]. apply pops_eqb_eq in Hb2.
  exists cm, x. repeat split; auto.
  destruct Hc as [<-|Hc]; [left; reflexivity|right].
  destruct (mP m) as [c'|]; cbn in Hc; [destruct Hc as [<-|[]]; reflexivity|destruct Hc].
Qed.

Lemma between_split D U p s' e : U = p ++ s' -> between D (D ++ p) ((D ++ U) ++ e) = true.
Proof.
  intros ->. replace ((D ++ p ++ s') ++ e) with (D ++ (p ++ s') ++ e) by (rewrite !app_assoc; reflexivity).
  apply between_mid.
Qed.

Lemma between_split0 D U p s' : U = p ++ s' -> between D (D ++ p) (D ++ U) = true.
Proof. intros H. pose proof (between_split D U p s' [] H) as H'. rewrite app_nil_r in H'. exact H'. Qed.

Lemma between_D_b D U : between D (D ++ U) (D ++ U) = true.
Proof. apply (between_split0 D U U []). rewrite app_nil_r. reflexivity. Qed.

Lemma between_lo (synced : bool) D U : between (if synced then D ++ U else D) (D ++ U) (D ++ U) = true.
Proof. destruct synced; [apply between_refl|apply between_D_b]. Qed.

Lemma le_cases7 (j : nat) : (j <= 7)%nat -> j = 0%nat \/ j = 1%nat \/ j = 2%nat \/ j = 3%nat \/ j = 4%nat \/ j = 5%nat \/ j = 6%nat \/ j = 7%nat.
Proof. lia. Qed.

Ltac flags H whole synced :=
  unfold flags_ok in H; cbn in H; rewrite ?Bool.implb_true_r, ?andb_false_r, ?andb_true_r in H;
  try discriminate H;
  repeat (match type of H with
          | context [implb ?b false] => destruct b
          end; cbn in H; rewrite ?Bool.implb_true_r, ?andb_false_r, ?andb_true_r in H;
          try discriminate H).

Lemma crash_add s m q0 p1 (a : api) j whole synced c q :
  R s m -> mH m = Some q0 -> inflight_op a = [p1] ->
  (j <= 1)%nat -> flags_ok whole synced j [MW (WAppend (ROp p1))] = true ->
  obs_in c q (crash_obs (mexec m (firstn j [MW (WAppend (ROp p1))]))) = true ->
  cont_eqb c (sC s) && between (if synced then sD s ++ sU s else sD s) q ((sD s ++ sU s) ++ inflight_op a) = true.
Proof.
  intros (HC & HP & HL & HH) Hq Hin Hj Hf Ho. rewrite Hq in HH. destruct HH as [-> He]. rewrite Hin.
  assert (j = 0 \/ j = 1)%nat as [-> | ->] by lia.
  - flags Hf whole synced.
    cbn [firstn mexec fold_left] in Ho. apply obs_in_elim in Ho as (cm & x & Hcm & Hx & Hc & ->).
    rewrite HP in Hcm. destruct Hcm as [-> | Hcm]; [|discriminate]. rewrite HC, Hc. cbn [andb].
    destruct (LInv_crash _ _ _ _ HL Hx) as (p & s' & HU & ->).
    apply (between_split _ _ _ s'); exact HU.
  - flags Hf whole synced.
    cbn [firstn mexec fold_left mapply] in Ho. apply obs_in_elim in Ho as (cm & x & Hcm & Hx & Hc & ->).
    cbn [mC mP mW] in Hcm, Hx.
    rewrite HP in Hcm. destruct Hcm as [-> | Hcm]; [|discriminate]. rewrite HC, Hc. cbn [andb].
    pose proof (LInv_append _ _ _ p1 HL He) as HL'.
    destruct (LInv_crash _ _ _ _ HL' Hx) as (p & s' & HU & ->).
    rewrite <- app_assoc. apply (between_split0 _ _ _ s'); exact HU.
Qed.

(** no log operation in the call: the crash shows the current contents and what the log allows *)
Lemma crash_noop s m c q :
  R s m -> obs_in c q (crash_obs m) = true ->
  cont_eqb c (sC s) = true /\ exists p s', sU s = p ++ s' /\ q = sD s ++ p.
Proof.
  intros (HC & HP & HL & HH) Ho. apply obs_in_elim in Ho as (cm & x & Hcm & Hx & Hc & ->).
  rewrite HP in Hcm. destruct Hcm as [-> | Hcm]; [|discriminate]. rewrite HC. split; [exact Hc|].
  destruct (LInv_crash _ _ _ _ HL Hx) as (p & s' & HU & Hp). exists p, s'. auto.
Qed.

Lemma crash_commit s m j whole synced c q :
  R s m -> mH m = Some (sD s ++ sU s) -> is_nil (sD s ++ sU s) = false ->
  (j <= 7)%nat ->
  flags_ok whole synced j (commit_mops (apply_all (sD s ++ sU s) (mC m))) = true ->
  obs_in c q (crash_obs (mexec m (firstn j (commit_mops (apply_all (sD s ++ sU s) (mC m)))))) = true ->
  crash_allowed s (Commit 1) whole synced c q = true.
Proof.
  intros HR Hq Hn Hj Hf Ho. pose proof HR as (HC & HP & HL & HH). rewrite Hq in HH. destruct HH as [_ He].
  unfold crash_allowed. rewrite Hn. rewrite HC.
  set (b := sD s ++ sU s) in *. set (post := apply_all b (mC m)) in *.
  pose proof (LInv_pending_vol _ _ _ HL) as Hpv. fold b in Hpv.
  unfold commit_mops in Hf, Ho.
  destruct (le_cases7 j Hj) as [-> | [-> | [-> | [-> | [-> | [-> | [-> | ->]]]]]]];
    flags Hf whole synced; cbn [firstn mexec fold_left mapply mC mP mW] in Ho.
  - (* before the log sync *)
    destruct (crash_noop _ _ _ _ HR Ho) as (Hc & p & s' & HU & ->). rewrite HC in Hc. rewrite Hc. cbn [andb].
    unfold b. rewrite (between_split0 _ _ _ s' HU). reflexivity.
  - (* log synced *)
    apply obs_in_elim in Ho as (cm & x & Hcm & Hx & Hc & ->). cbn [mC mP mW] in Hcm, Hx.
    rewrite HP in Hcm. destruct Hcm as [-> | Hcm]; [|discriminate]. rewrite Hc. cbn [andb].
    apply synced_queue_exact in Hx; [|exact He]. subst x. rewrite Hpv.
    unfold b. rewrite between_lo. reflexivity.
  - (* manifest store in flight *)
    apply obs_in_elim in Ho as (cm & x & Hcm & Hx & Hc & ->). cbn [mC mP mW] in Hcm, Hx.
    apply synced_queue_exact in Hx; [|exact He]. subst x. rewrite Hpv.
    destruct Hcm as [-> | Hcm].
    + rewrite Hc. cbn [andb]. unfold b. rewrite between_lo. reflexivity.
    + injection Hcm as <-. rewrite Hc, pops_eqb_refl. cbn [andb]. rewrite !orb_true_r. reflexivity.
  - (* manifest stored *)
    apply obs_in_elim in Ho as (cm & x & Hcm & Hx & Hc & ->). cbn [mC mP mW] in Hcm, Hx.
    apply synced_queue_exact in Hx; [|exact He]. subst x. rewrite Hpv.
    destruct Hcm as [-> | Hcm]; [|discriminate].
    rewrite Hc, pops_eqb_refl. cbn [andb]. rewrite !orb_true_r. reflexivity.
  - (* marker appended *)
    apply obs_in_elim in Ho as (cm & x & Hcm & Hx & Hc & ->). cbn [mC mP mW] in Hcm, Hx.
    destruct Hcm as [-> | Hcm]; [|discriminate]. rewrite Hc.
    apply crash_marker_tail in Hx; [|exact He|reflexivity]. cbn [wal_apply w_dur] in Hx.
    destruct Hx as [-> | ->].
    + rewrite Hpv, pops_eqb_refl. cbn [andb]. rewrite !orb_true_r. reflexivity.
    + rewrite pending_marker_end'. cbn [is_nil andb orb]. rewrite !orb_true_r. reflexivity.
  - (* marker synced *)
    apply obs_in_elim in Ho as (cm & x & Hcm & Hx & Hc & ->). cbn [mC mP mW] in Hcm, Hx.
    destruct Hcm as [-> | Hcm]; [|discriminate]. rewrite Hc.
    apply synced_queue_exact in Hx; [|exact He]. subst x. cbn [wal_apply w_vol].
    rewrite pending_marker_end'. cbn [is_nil andb orb]. rewrite !orb_true_r. reflexivity.
  - (* truncated, not yet synced *)
    apply obs_in_elim in Ho as (cm & x & Hcm & Hx & Hc & ->). cbn [mC mP mW] in Hcm, Hx.
    destruct Hcm as [-> | Hcm]; [|discriminate]. rewrite Hc.
    apply crash_truncated in Hx; [|reflexivity]. cbn [wal_apply w_dur w_vol] in Hx.
    destruct Hx as [-> | ->]; rewrite ?pending_marker_end'; cbn [pending pending_acc is_nil andb orb];
      rewrite !orb_true_r; reflexivity.
  - (* complete *)
    apply obs_in_elim in Ho as (cm & x & Hcm & Hx & Hc & ->). cbn [mC mP mW] in Hcm, Hx.
    destruct Hcm as [-> | Hcm]; [|discriminate]. rewrite Hc.
    apply synced_queue_exact in Hx; [|exact He]. subst x. cbn [wal_apply w_vol pending pending_acc is_nil andb orb].
    destruct whole; [reflexivity|rewrite !orb_true_r; reflexivity].
Qed.

Lemma crash_rollback s m j whole synced c q :
  R s m -> mH m = Some (sD s ++ sU s) -> (j <= 2)%nat ->
  flags_ok whole synced j [MW WSetLen0; MW WFsync] = true ->
  obs_in c q (crash_obs (mexec m (firstn j [MW WSetLen0; MW WFsync]))) = true ->
  crash_allowed s (Rollback 1) whole synced c q = true.
Proof.
  intros HR Hq Hj Hf Ho. pose proof HR as (HC & HP & HL & HH). rewrite Hq in HH. destruct HH as [_ He].
  unfold crash_allowed. rewrite HC.
  assert (j = 0 \/ j = 1 \/ j = 2)%nat as [-> | [-> | ->]] by lia;
    flags Hf whole synced; cbn [firstn mexec fold_left mapply mC mP mW] in Ho.
  - destruct (crash_noop _ _ _ _ HR Ho) as (Hc & p & s' & HU & ->). rewrite HC in Hc. rewrite Hc. cbn [andb].
    rewrite (between_split0 _ _ _ s' HU). apply orb_true_r.
  - apply obs_in_elim in Ho as (cm & x & Hcm & Hx & Hc & ->). cbn [mC mP mW] in Hcm, Hx.
    rewrite HP in Hcm. destruct Hcm as [-> | Hcm]; [|discriminate]. rewrite Hc. cbn [andb].
    apply crash_truncated in Hx; [|reflexivity]. cbn [wal_apply w_dur] in Hx.
    destruct Hx as [-> | ->]; [|reflexivity].
    destruct HL as (p & tail & HU & _ & _ & Hd & _). rewrite Hd.
    rewrite (between_split0 _ _ _ (ops_of tail) HU). apply orb_true_r.
  - apply obs_in_elim in Ho as (cm & x & Hcm & Hx & Hc & ->). cbn [mC mP mW] in Hcm, Hx.
    rewrite HP in Hcm. destruct Hcm as [-> | Hcm]; [|discriminate]. rewrite Hc. cbn [andb].
    apply synced_queue_exact in Hx; [|exact He]. subst x. cbn [wal_apply w_vol pending pending_acc is_nil orb].
    destruct whole; reflexivity.
Qed.

Lemma crash_drop s m (a : api) j whole synced c q :
  R s m -> mH m = Some (sD s ++ sU s) -> (j <= length (drop_mops (sD s ++ sU s)))%nat ->
  flags_ok whole synced j (drop_mops (sD s ++ sU s)) = true ->
  obs_in c q (crash_obs (mexec m (firstn j (drop_mops (sD s ++ sU s))))) = true ->
  cont_eqb c (sC s) &&
  (if whole then pops_eqb q (sD s ++ sU s)
   else between (if synced then sD s ++ sU s else sD s) q (sD s ++ sU s)) = true.
Proof.
  intros HR Hq Hj Hf Ho. pose proof HR as (HC & HP & HL & HH). rewrite Hq in HH. destruct HH as [_ He].
  pose proof (LInv_pending_vol _ _ _ HL) as Hpv.
  unfold drop_mops in *. destruct (is_nil (sD s ++ sU s)) eqn:Hn.
  - cbn [length] in Hj. assert (j = 0)%nat as -> by lia.
    cbn [firstn mexec fold_left] in Ho.
    destruct (crash_noop _ _ _ _ HR Ho) as (Hc & p & s' & HU & ->). rewrite Hc. cbn [andb].
    apply is_nil_true in Hn. apply app_eq_nil in Hn as [HD HU0]. rewrite HU0 in HU.
    symmetry in HU. apply app_eq_nil in HU as [-> ->]. rewrite HD, HU0. cbn.
    destruct whole, synced; reflexivity.
  - cbn [length] in Hj. assert (j = 0 \/ j = 1)%nat as [-> | ->] by lia;
      flags Hf whole synced; cbn [firstn mexec fold_left mapply mC mP mW] in Ho.
    + destruct (crash_noop _ _ _ _ HR Ho) as (Hc & p & s' & HU & ->). rewrite Hc. cbn [andb].
      apply (between_split0 _ _ _ s' HU).
    + apply obs_in_elim in Ho as (cm & x & Hcm & Hx & Hc & ->). cbn [mC mP mW] in Hcm, Hx.
      rewrite HP in Hcm. destruct Hcm as [-> | Hcm]; [|discriminate]. rewrite HC, Hc. cbn [andb].
      apply synced_queue_exact in Hx; [|exact He]. subst x. rewrite Hpv.
      destruct whole; [apply pops_eqb_refl|apply between_lo].
Qed.

Lemma crash_newwriter s m j whole synced c q :
  R s m -> mH m = None -> (j <= 2)%nat ->
  flags_ok whole synced j [MW WOpen; MW WFsync] = true ->
  obs_in c q (crash_obs (mexec m (firstn j [MW WOpen; MW WFsync]))) = true ->
  crash_allowed s (NewWriter 1) whole synced c q = true.
Proof.
  intros HR Hq Hj Hf Ho. pose proof HR as (HC & HP & HL & HH). rewrite Hq in HH. destruct HH as [HU0 Hsame].
  unfold crash_allowed. rewrite HU0, app_nil_r.
  assert (Hlo : (if synced then sD s else sD s) = sD s) by (destruct synced; reflexivity). rewrite Hlo.
  destruct (LInv_open _ _ _ HL) as [HL1 Hex].
  pose proof (LInv_fsync_same _ _ _ HL1 (open_vol_dur _ Hsame)) as HL2.
  assert (j = 0 \/ j = 1 \/ j = 2)%nat as [-> | [-> | ->]] by lia;
    cbn [firstn mexec fold_left mapply mC mP mW] in Ho;
    apply obs_in_elim in Ho as (cm & x & Hcm & Hx & Hc & ->); cbn [mC mP mW] in Hcm, Hx;
    (rewrite HP in Hcm; destruct Hcm as [-> | Hcm]; [|discriminate]); rewrite HC, Hc; cbn [andb].
  - destruct (LInv_crash _ _ _ _ HL Hx) as (p & s' & HU & ->). rewrite HU0 in HU.
    symmetry in HU. apply app_eq_nil in HU as [-> ->]. rewrite app_nil_r. apply between_refl.
  - destruct (LInv_crash _ _ _ _ HL1 Hx) as (p & s' & HU & ->). rewrite HU0 in HU.
    symmetry in HU. apply app_eq_nil in HU as [-> ->]. rewrite app_nil_r. apply between_refl.
  - destruct (LInv_crash _ _ _ _ HL2 Hx) as (p & s' & HU & ->). rewrite HU0 in HU.
    symmetry in HU. apply app_eq_nil in HU as [-> ->]. rewrite app_nil_r. apply between_refl.
Qed.

Lemma step_crash s m a ops h j whole synced c q :
  R s m -> call_ops m a = Some (ops, h) -> (j <= length ops)%nat ->
  flags_ok whole synced j ops = true ->
  obs_in c q (crash_obs (mexec m (firstn j ops))) = true ->
  crash_allowed s a whole synced c q = true.
Proof.
  intros HR Hc Hj Hf Ho. pose proof HR as (HC & HP & HL & HH).
  unfold call_ops in Hc.
  destruct a as [hh|hh cn id v|hh cn id|hh|hh|hh| |]; destruct (mH m) as [q0|] eqn:Hq; try discriminate.
  - injection Hc as <- <-. exact (crash_newwriter s m j whole synced c q HR Hq Hj Hf Ho).
  - injection Hc as <- <-.
    exact (crash_add s m q0 (PAdd id v) (AddDoc hh cn id v) j whole synced c q HR Hq eq_refl Hj Hf Ho).
  - injection Hc as <- <-.
    exact (crash_add s m q0 (PDel id) (DelDoc hh cn id) j whole synced c q HR Hq eq_refl Hj Hf Ho).
  - destruct HH as [-> He]. destruct (is_nil (sD s ++ sU s)) eqn:Hn; injection Hc as <- <-.
    + cbn [length] in Hj. assert (j = 0)%nat as -> by lia. cbn [firstn mexec fold_left] in Ho.
      destruct (crash_noop _ _ _ _ HR Ho) as (Hcc & p & s' & HU & ->).
      unfold crash_allowed. rewrite Hn, Hcc. cbn [andb].
      apply is_nil_true in Hn. apply app_eq_nil in Hn as [HD HU0]. rewrite HU0 in HU.
      symmetry in HU. apply app_eq_nil in HU as [-> _]. rewrite HD. reflexivity.
    + exact (crash_commit s m j whole synced c q HR Hq Hn Hj Hf Ho).
  - destruct HH as [-> He]. injection Hc as <- <-.
    exact (crash_rollback s m j whole synced c q HR Hq Hj Hf Ho).
  - destruct HH as [-> He]. injection Hc as <- <-.
    exact (crash_drop s m (DropWriter hh) j whole synced c q HR Hq Hj Hf Ho).
  - (* Compact, live handle *)
    injection Hc as <- <-. cbn [length] in Hj. assert (j = 0)%nat as -> by lia.
    flags Hf whole synced. cbn [firstn mexec fold_left] in Ho.
    destruct (crash_noop _ _ _ _ HR Ho) as (Hcc & p & s' & HU & ->).
    unfold crash_allowed. rewrite Hcc. cbn [andb]. apply (between_split0 _ _ _ s' HU).
  - (* Compact, no handle *)
    injection Hc as <- <-. cbn [length] in Hj. assert (j = 0)%nat as -> by lia.
    flags Hf whole synced. cbn [firstn mexec fold_left] in Ho.
    destruct (crash_noop _ _ _ _ HR Ho) as (Hcc & p & s' & HU & ->).
    unfold crash_allowed. rewrite Hcc. cbn [andb]. apply (between_split0 _ _ _ s' HU).
  - destruct HH as [-> He]. injection Hc as <- <-.
    exact (crash_drop s m Reopen j whole synced c q HR Hq Hj Hf Ho).
  - (* Reopen, no handle *)
    destruct HH as [HU0 Hsame]. injection Hc as <- <-. cbn [length] in Hj. assert (j = 0)%nat as -> by lia.
    flags Hf whole synced. cbn [firstn mexec fold_left] in Ho.
    destruct (crash_noop _ _ _ _ HR Ho) as (Hcc & p & s' & HU & ->).
    unfold crash_allowed. rewrite Hcc. cbn [andb]. rewrite HU0 in HU. symmetry in HU.
    apply app_eq_nil in HU as [-> _]. rewrite HU0, !app_nil_r.
    destruct whole; [apply pops_eqb_refl|apply between_refl].
Qed.

(** * the whole-history theorem *)
Theorem accepts_spec : forall evs s m i,
  R s m -> accepts m evs = true ->
  exists s', spec_run s i evs = (None, s') /\ R s' (final_state m evs).
Proof.
  induction evs as [|e evs IH]; intros s m i HR Ha.
  - exists s. split; [reflexivity|exact HR].
  - destruct e as [a | a whole synced [c|] [q|]]; cbn [accepts] in Ha; try discriminate.
    + destruct (call_ops m a) as [[ops h]|] eqn:Hc; [|discriminate].
      cbn [spec_run final_state]. rewrite Hc. apply IH; [|exact Ha].
      eapply step_call; eauto.
    + destruct (call_ops m a) as [[ops h]|] eqn:Hc; [|discriminate].
      apply andb_prop in Ha as [Hex Ha].
      apply existsb_exists in Hex as [j [Hj Hb]]. apply andb_prop in Hb as [Hf Ho].
      apply in_seq in Hj.
      assert (Hallow : crash_allowed s a whole synced c q = true).
      { apply (step_crash s m a ops h j whole synced c q HR Hc); [lia|exact Hf|exact Ho]. }
      cbn [spec_run final_state]. rewrite Hallow. apply IH; [apply R_after_crash|exact Ha].
Qed.

Theorem history_meets_spec : forall c : case02, corr_case c = true -> spec c = true.
Proof.
  intros [evs final] H. unfold corr_case in H. apply andb_prop in H as [Ha Hf].
  destruct (accepts_spec evs sst0 m0 0 R_m0 Ha) as (s' & Hrun & HR).
  unfold spec. rewrite Hrun.
  destruct HR as (HC & _ & HL & _). rewrite HC, <- (LInv_pending_vol _ _ _ HL). exact Hf.
Qed.
