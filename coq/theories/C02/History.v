(** C02/History.v — whole histories with crashes.  Definitions only (proofs: HistoryProofs.v).

    A model of the single-handle writer protocol (api/writer.rs) over the record-level log of
    C02/Model.v and an index whose manifest switch is atomic up to a pending window (justified by
    C01: between the start and the end of [Manifest::store] a crash shows the old or the new
    contents, never anything else).  Every API call is a list of micro-operations; a crash may
    come at any micro-operation boundary and leaves any combination of what the index side and
    the log side allow.  After a crash nothing of the handle survives and the log is whatever the
    crash left (up to the recovered queue, the only thing later behaviour depends on).

    Multi-handle use (the stale queue of known finding C04/1) is outside this model: a call
    through a handle that does not exist, or a second handle, makes the history ill-formed. *)
From Coq Require Import List NArith Bool.
From SL Require Import Base.Tie Core.Model C02.Model.
Import ListNotations.
Open Scope N_scope.

Inductive mop :=
| MW (o : wop)                 (* an operation on wal.log *)
| MSwitchBegin (c : cmap)      (* Manifest::store started: the new manifest may already be the durable one *)
| MSwitchEnd.                  (* Manifest::store returned: it is *)

Record mst := {
  mC : cmap;                   (* contents of the durable manifest *)
  mP : option cmap;            (* contents of a manifest whose store is in flight *)
  mW : wal_st;
  mH : option (list pop)       (* the live handle's queue *)
}.

Definition m0 : mst := {| mC := []; mP := None; mW := wal0; mH := None |}.

Definition mapply (m : mst) (o : mop) : mst :=
  match o with
  | MW wo => {| mC := mC m; mP := mP m; mW := wal_apply (mW m) wo; mH := mH m |}
  | MSwitchBegin c => {| mC := mC m; mP := Some c; mW := mW m; mH := mH m |}
  | MSwitchEnd => {| mC := match mP m with Some c => c | None => mC m end; mP := None; mW := mW m; mH := mH m |}
  end.

Definition mexec (m : mst) (ops : list mop) : mst := fold_left mapply ops m.

Definition set_handle (m : mst) (h : option (list pop)) : mst :=
  {| mC := mC m; mP := mP m; mW := mW m; mH := h |}.

Definition commit_mops (post : cmap) : list mop :=
  [MW WFsync; MSwitchBegin post; MSwitchEnd; MW (WAppend RMarker); MW WFsync; MW WSetLen0; MW WFsync].

Definition drop_mops (q : list pop) : list mop := if is_nil q then [] else [MW WFsync].

(** the micro-operations of a call and the handle state it leaves; [None]: ill-formed here *)
Definition call_ops (m : mst) (a : api) : option (list mop * option (list pop)) :=
  match a, mH m with
  | NewWriter _, None =>
      (* open_append (creates the file and fsyncs the directory when missing), replay, cut a torn
         tail back to the valid prefix (no effect at record level) and sync *)
      Some ([MW WOpen; MW WFsync], Some (pending (w_vol (mW m))))
  | AddDoc _ _ id v, Some q => Some ([MW (WAppend (ROp (PAdd id v)))], Some (q ++ [PAdd id v]))
  | DelDoc _ _ id, Some q => Some ([MW (WAppend (ROp (PDel id)))], Some (q ++ [PDel id]))
  | Commit _, Some q =>
      if is_nil q then Some ([], Some q)
      else Some (commit_mops (apply_all q (mC m)), Some [])
  | Rollback _, Some q => Some ([MW WSetLen0; MW WFsync], Some [])
  | DropWriter _, Some q => Some (drop_mops q, None)
  | Reopen, Some q => Some (drop_mops q, None)
  | Reopen, None => Some ([], None)
  | Compact, h => Some ([], h)        (* content-neutral (C14); does not touch the log *)
  | _, _ => None
  end.

(** what a crash in state [m] can show after recovery: contents and recovered queue *)
Definition crash_obs (m : mst) : list (cmap * list pop) :=
  list_prod (mC m :: match mP m with Some c => [c] | None => [] end)
            (map pending (wal_crash (mW m))).

(** the state after recovering with contents [c] and queue [q]: later behaviour of the log depends
    only on the recovered queue, so the log is taken to hold exactly these records, all durable *)
Definition after_crash (c : cmap) (q : list pop) : mst :=
  {| mC := c; mP := None;
     mW := {| w_dur := map ROp q; w_vol := map ROp q; w_entry := true; w_exists := true |};
     mH := None |}.

Definition is_sync (o : mop) : bool := match o with MW WFsync => true | _ => false end.

(** the flags of a crash event must be backed by the model: "the whole call ran" only after its
    last micro-operation, "a log sync of this call completed" only behind one *)
Definition flags_ok (whole synced : bool) (j : nat) (ops : list mop) : bool :=
  implb whole (Nat.eqb j (length ops)) && implb synced (existsb is_sync (firstn j ops)).

Definition obs_in (c : list (N * N)) (q : list pop) (l : list (cmap * list pop)) : bool :=
  existsb (fun o => cont_eqb c (fst o) && pops_eqb q (snd o)) l.

(** does the model produce this history? *)
Fixpoint accepts (m : mst) (evs : list ev) : bool :=
  match evs with
  | [] => true
  | ECall a :: evs' =>
      match call_ops m a with
      | Some (ops, h) => accepts (set_handle (mexec m ops) h) evs'
      | None => false
      end
  | ECrash a whole synced (Some c) (Some q) :: evs' =>
      match call_ops m a with
      | Some (ops, _) =>
          existsb (fun j => flags_ok whole synced j ops && obs_in c q (crash_obs (mexec m (firstn j ops))))
                  (seq 0 (S (length ops)))
          && accepts (after_crash c q) evs'
      | None => false
      end
  | ECrash _ _ _ _ _ :: _ => false
  end.

(** the model state a history leads to (meaningful when [accepts] holds) *)
Fixpoint final_state (m : mst) (evs : list ev) : mst :=
  match evs with
  | [] => m
  | ECall a :: evs' =>
      match call_ops m a with
      | Some (ops, h) => final_state (set_handle (mexec m ops) h) evs'
      | None => m
      end
  | ECrash _ _ _ (Some c) (Some q) :: evs' => final_state (after_crash c q) evs'
  | ECrash _ _ _ _ _ :: _ => m
  end.

(** contents after a final healthy [drop handles; writer(); commit()] *)
Definition final_contents (m : mst) : cmap :=
  apply_all (pending (w_vol (mW m))) (mC m).

(** the tie: the events of a real run are a history of the model, and the final contents are the
    model's *)
Definition corr_case (c : case02) : bool :=
  let '(evs, final) := c in
  accepts m0 evs && cont_eqb final (final_contents (final_state m0 evs)).

(** verdict of one real run: correspondence with the model, and the specification *)
Definition check_case_h (c : case02) : N := verdict (corr_case c) (spec c) 0.

(** * trace correspondence: the operations a completed call performs on wal.log, in order
    (1 = append, 2 = fsync, 3 = truncate to zero, 4 = cut back to the valid prefix) *)
Definition mop_code (o : mop) : list N :=
  match o with
  | MW (WAppend _) => [1]
  | MW WFsync => [2]
  | MW WSetLen0 => [3]
  | _ => []
  end.

Definition call_trace (ops : list mop) : list N := flat_map mop_code ops.

Fixpoint nlist_eqb (a b : list N) : bool :=
  match a, b with
  | [], [] => true
  | x :: a', y :: b' => (x =? y) && nlist_eqb a' b'
  | _, _ => false
  end.

Definition trace_matches (a : api) (ops : list mop) (t : list N) : bool :=
  match a with
  | NewWriter _ =>
      (* the log is cut back (and synced) only when a crash left a torn tail *)
      nlist_eqb t [] || nlist_eqb t [4; 2]
  | _ => nlist_eqb t (call_trace ops)
  end.

(** returns the index of the first event whose log trace is not the model's, if any *)
Fixpoint traces_run (m : mst) (i : N) (evs : list ev) (trs : list (list N)) : option N :=
  match evs, trs with
  | [], _ => None
  | ECall a :: evs', t :: trs' =>
      match call_ops m a with
      | Some (ops, h) =>
          if trace_matches a ops t then traces_run (set_handle (mexec m ops) h) (N.succ i) evs' trs'
          else Some i
      | None => Some i
      end
  | ECrash _ _ _ (Some c) (Some q) :: evs', _ :: trs' => traces_run (after_crash c q) (N.succ i) evs' trs'
  | _, _ => Some i
  end.

Definition case02t := (case02 * list (list N))%type.

Definition corr_case_t (c : case02t) : bool :=
  corr_case (fst c) && match traces_run m0 0 (fst (fst c)) (snd c) with None => true | Some _ => false end.

Definition check_case_t (c : case02t) : N := verdict (corr_case_t c) (spec (fst c)) 0.
