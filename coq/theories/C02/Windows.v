(** C02/Windows.v — the commit protocol seen jointly on the manifest side (C01's disk model) and on
    the log: at every operation boundary of a commit, every combination of what a crash can leave
    of the index (contents) and of the log (recovered queue) is one the specification allows:

      - old contents with the queue between the synced queue and the whole batch, or
      - new contents with the queue empty or still holding exactly the batch

    never old contents with a lost batch, never new contents with half a batch. *)
From Coq Require Import List NArith Bool Lia Arith.
From SL Require Import Base.Tie Core.Model C01.Model C01.Proofs C02.Model C02.Proofs.
Import ListNotations.
Open Scope N_scope.

(** what a commit does to the log, operation by operation (the record appended inside a commit
    is the commit marker) *)
Definition wop_in_commit (o : sop) : option wop :=
  match o with
  | OWalWrite => Some (WAppend RMarker)
  | OWalFsync => Some WFsync
  | OWalSetLen0 => Some WSetLen0
  | ODirFsync => Some WDirFsync
  | _ => None
  end.

Definition japply (st : disk * wal_st) (o : sop) : disk * wal_st :=
  (apply_sop (fst st) o,
   match wop_in_commit o with Some wo => wal_apply (snd st) wo | None => snd st end).

Definition jrun (st : disk * wal_st) (ops : list sop) : disk * wal_st := fold_left japply ops st.

Lemma jrun_nil st : jrun st [] = st.
Proof. reflexivity. Qed.

Lemma jrun_cons st o l : jrun st (o :: l) = jrun (japply st o) l.
Proof. reflexivity. Qed.

Lemma jrun_app st a b : jrun st (a ++ b) = jrun (jrun st a) b.
Proof. unfold jrun. apply fold_left_app. Qed.

Lemma japply_pair d w o :
  japply (d, w) o = (apply_sop d o, match wop_in_commit o with Some wo => wal_apply w wo | None => w end).
Proof. reflexivity. Qed.

Lemma jrun_fst st ops : fst (jrun st ops) = run_sops (fst st) ops.
Proof.
  unfold jrun, run_sops. revert st; induction ops as [|o ops IH]; intros st; cbn [fold_left]; [reflexivity|].
  rewrite IH. reflexivity.
Qed.

(** the allowed combinations, as a proposition *)
Definition window_ok (pre post : list (N * N)) (D U : list pop)
           (c : option (list (N * N))) (q : list pop) : Prop :=
  (c = Some pre /\ exists p s, U = p ++ s /\ q = D ++ p) \/
  (c = Some post /\ (q = [] \/ q = D ++ U)).

Definition joint_ok pre post D U (st : disk * wal_st) : Prop :=
  forall c x, In c (outcomes (fst st)) -> In x (wal_crash (snd st)) -> window_ok pre post D U c (pending x).

(** the tail of every commit: marker, sync, truncate, sync *)
Definition commit_tail : list sop := [OWalWrite; OWalFsync; OWalSetLen0; OWalFsync].

Lemma In_firstn' {A} (x : A) n l : In x (firstn n l) -> In x l.
Proof.
  revert n; induction l as [|a l IH]; intros [|n] H; cbn in *; try contradiction.
  destruct H as [H|H]; [now left | right; eauto].
Qed.

Lemma in_prefixes_nil {A} (l : list A) : In [] (prefixes l).
Proof. destruct l; cbn; auto. Qed.

Lemma strip_prefix_app l t : strip_prefix wrec_eqb l (l ++ t) = Some t.
Proof.
  induction l as [|r l IH]; cbn; [reflexivity|].
  replace (wrec_eqb r r) with true; [exact IH|].
  destruct r as [[i v|i]|]; cbn; rewrite ?N.eqb_refl; reflexivity.
Qed.

Lemma pending_marker_end l : pending (l ++ [RMarker]) = [].
Proof.
  unfold pending. rewrite pending_acc_app. cbn. reflexivity.
Qed.

Section Commit.
  (** the situation when a commit starts *)
  Variable d : disk.
  Variable w : wal_st.
  Variable m0 m1 : manifest.
  Variable segops : list sop.
  Variable tail : list wrec.

  Hypothesis Hm : k_man d = (m0, true).
  Hypothesis Hp : k_manp d = None.
  Hypothesis Hsafe : safe_all d m0.
  (* the segment part only creates / syncs new segments and leaves the new manifest ready *)
  Hypothesis Hseg_shape : Forall (fun o => (exists n, o = OSegBegin n) \/ (exists n, o = OSegSynced n)) segops.
  Hypothesis Hready : ready_all (run_sops d segops) m1.
  (* the log: entry durable, unsynced tail holds only operations *)
  Hypothesis Hentry : w_entry w = true.
  Hypothesis Hexists : w_exists w = true.
  Hypothesis Hvol : w_vol w = w_dur w ++ tail.
  Hypothesis Htail : forallb is_op tail = true.

  Let pre := contents m0.
  Let post := contents m1.
  Let D := pending (w_dur w).
  Let U := ops_of tail.

  Lemma batch_is_DU : pending (w_vol w) = D ++ U.
  Proof. unfold D, U. rewrite Hvol. now apply pending_app_ops. Qed.

  (* segment operations do not touch the log nor the recoverable contents *)
  Lemma segops_neutral :
    forall ops dd ww, Forall (fun o => (exists n, o = OSegBegin n) \/ (exists n, o = OSegSynced n)) ops ->
      snd (jrun (dd, ww) ops) = ww.
  Proof.
    induction ops as [|o ops IH]; intros dd ww H; cbn; [reflexivity|].
    inversion H as [|? ? Ho Hr]; subst. unfold japply at 2; cbn [fst snd].
    destruct Ho as [[n ->]|[n ->]]; cbn [wop_in_commit]; apply IH; exact Hr.
  Qed.

  Lemma seg_outcomes_pre :
    forall ops dd, Forall (fun o => (exists n, o = OSegBegin n) \/ (exists n, o = OSegSynced n)) ops ->
      k_man dd = (m0, true) -> k_manp dd = None -> safe_all dd m0 ->
      let dd' := run_sops dd ops in
      k_man dd' = (m0, true) /\ k_manp dd' = None /\ safe_all dd' m0.
  Proof.
    induction ops as [|o ops IH]; intros dd H H1 H2 H3; cbn; [auto|].
    inversion H as [|? ? Ho Hr]; subst.
    apply IH; [exact Hr | | |].
    - destruct Ho as [[n ->]|[n ->]]; cbn; exact H1.
    - destruct Ho as [[n ->]|[n ->]]; cbn; exact H2.
    - intros sg Hin. apply seg_safe_step; [now apply H3|].
      destruct Ho as [[n ->]|[n ->]]; discriminate.
  Qed.

  Lemma outcomes_single dd m : k_man dd = (m, true) -> k_manp dd = None -> safe_all dd m ->
    outcomes dd = [Some (contents m)].
  Proof.
    intros H1 H2 H3. unfold outcomes. rewrite H1, H2, app_nil_r. now apply man_outcomes_safe.
  Qed.

  (** the whole commit, operation by operation *)
  Definition commit_ops : list sop := [OWalFsync] ++ segops ++ atomic_manifest true m1 ++ commit_tail.

  Theorem commit_windows : forall j, joint_ok pre post D U (jrun (d, w) (firstn j commit_ops)).
  Proof.
    (* log states along the way *)
    set (w1 := wal_apply w WFsync).
    assert (Hw1 : forall x, In x (wal_crash w1) -> pending x = D ++ U).
    { intros x Hx. apply synced_queue_exact in Hx; [|exact Hentry]. subst x. apply batch_is_DU. }
    assert (Hw0 : forall x, In x (wal_crash w) -> exists p s, U = p ++ s /\ pending x = D ++ p).
    { intros x Hx. eapply crash_queue_bounds; eauto. rewrite Hvol. apply strip_prefix_app. }
    (* a small induction principle: peel the list one operation at a time *)
    assert (Hpre_all : forall c q, c = Some pre -> (exists p s, U = p ++ s /\ q = D ++ p) -> window_ok pre post D U c q)
      by (intros; left; auto).
    assert (Hpre_full : forall c q, c = Some pre -> q = D ++ U -> window_ok pre post D U c q).
    { intros c q Hc Hq. left. split; [exact Hc|]. exists U, []. split; [now rewrite app_nil_r | exact Hq]. }
    assert (Hpost_full : forall c q, c = Some post -> q = D ++ U -> window_ok pre post D U c q)
      by (intros; right; auto).
    assert (Hpost_nil : forall c q, c = Some post -> q = [] -> window_ok pre post D U c q)
      by (intros; right; auto).
    intros j. unfold commit_ops.
    destruct j as [|j].
    { cbn [firstn]. rewrite jrun_nil. intros c x Hc Hx. cbn [fst snd] in *.
      rewrite (outcomes_single d m0 Hm Hp Hsafe) in Hc.
      destruct Hc as [<-|[]]. apply Hpre_all; [reflexivity|]. destruct (Hw0 x Hx) as [p [s [E1 E2]]]. eauto. }
    cbn [app firstn]. rewrite jrun_cons, japply_pair. cbn [wop_in_commit].
    change (apply_sop d OWalFsync) with d. fold w1.
    (* from here on the log is synced: queue = D ++ U until the marker *)
    rewrite firstn_app, jrun_app.
    set (a := firstn j segops). set (rest := firstn (j - length segops) (atomic_manifest true m1 ++ commit_tail)).
    assert (Ha_shape : Forall (fun o => (exists n, o = OSegBegin n) \/ (exists n, o = OSegSynced n)) a).
    { unfold a. apply Forall_forall. intros o Ho. rewrite Forall_forall in Hseg_shape.
      apply Hseg_shape. eapply In_firstn'; exact Ho. }
    assert (Ea : jrun (d, w1) a = (run_sops d a, w1)).
    { rewrite (surjective_pairing (jrun (d, w1) a)). rewrite jrun_fst. cbn [fst]. f_equal.
      now apply segops_neutral. }
    destruct (Nat.le_gt_cases j (length segops)) as [Hle|Hgt].
    { (* still inside the segment part *)
      replace rest with (@nil sop) by (unfold rest; replace (j - length segops)%nat with 0%nat by lia; reflexivity).
      rewrite jrun_nil, Ea. intros c x Hc Hx. cbn [fst snd] in *.
      destruct (seg_outcomes_pre a d Ha_shape Hm Hp Hsafe) as [A1 [A2 A3]].
      rewrite (outcomes_single _ m0 A1 A2 A3) in Hc. destruct Hc as [<-|[]].
      apply Hpre_full; [reflexivity | now apply Hw1]. }
    (* the segment part is complete *)
    assert (Ea' : a = segops) by (unfold a; apply firstn_all2; lia). rewrite Ea' in Ea. rewrite Ea'. rewrite Ea.
    set (ds := run_sops d segops) in *.
    destruct (seg_outcomes_pre segops d Hseg_shape Hm Hp Hsafe) as [S1 [S2 S3]]. fold ds in S1, S2, S3.
    set (k := (j - length segops)%nat) in *.
    (* walk through the manifest switch and the tail explicitly *)
    set (d1 := apply_sop ds (OTmpWrite m1)). set (d2 := apply_sop d1 OTmpFsync).
    set (d3 := apply_sop d2 ODirFsync). set (d4 := apply_sop d3 ORename). set (d5 := apply_sop d4 ODirFsync).
    assert (step_safe : forall dd o m, safe_all dd m -> (forall s, o <> OSegUnlink s) -> safe_all (apply_sop dd o) m)
      by (intros dd o m H Hne sg Hin; apply seg_safe_step; auto).
    assert (T0_1 : safe_all d1 m0) by (apply step_safe; auto; discriminate).
    assert (T0_2 : safe_all d2 m0) by (apply step_safe; auto; discriminate).
    assert (T0_3 : safe_all d3 m0) by (apply step_safe; auto; discriminate).
    assert (T0_4 : safe_all d4 m0) by (apply step_safe; auto; discriminate).
    assert (T1_3 : safe_all d3 m1).
    { intros sg Hin. apply dirfsync_makes_safe. unfold d2, d1.
      apply seg_ready_step; [|discriminate]. apply seg_ready_step; [|discriminate]. now apply Hready. }
    assert (T1_4 : safe_all d4 m1) by (apply step_safe; auto; discriminate).
    assert (T1_5 : safe_all d5 m1) by (apply step_safe; auto; discriminate).
    assert (O0 : outcomes ds = [Some pre]) by (apply outcomes_single; auto).
    assert (O1 : outcomes d1 = [Some pre]) by (apply outcomes_single; auto).
    assert (O2 : outcomes d2 = [Some pre]) by (apply outcomes_single; auto).
    assert (O3 : outcomes d3 = [Some pre]).
    { apply outcomes_single; auto; unfold d3, d2, d1; cbn [apply_sop k_man k_manp]; rewrite ?S2; auto. }
    assert (O4 : outcomes d4 = [Some pre; Some post]).
    { unfold outcomes.
      assert (E1 : k_man d4 = (m0, true)) by (unfold d4, d3, d2, d1; cbn [apply_sop k_man k_manp]; now rewrite S2).
      assert (E2 : k_manp d4 = Some (m1, true)) by (unfold d4, d3, d2, d1; cbn [apply_sop k_man k_manp k_tmp]; reflexivity).
      rewrite E1, E2, !man_outcomes_safe by assumption. reflexivity. }
    assert (O5 : outcomes d5 = [Some post]).
    { apply outcomes_single; auto; unfold d5, d4, d3, d2, d1; cbn [apply_sop k_man k_manp k_tmp]; reflexivity. }
    (* the log is untouched by the manifest switch except for the (harmless) directory fsyncs *)
    assert (Wd : wal_apply w1 WDirFsync = w1).
    { unfold w1, wal_apply; cbn. rewrite Hentry, Hexists. reflexivity. }
    unfold rest, atomic_manifest, commit_tail. cbn [app].
    assert (Hq1 : forall c x, In c [Some pre] -> In x (wal_crash w1) -> window_ok pre post D U c (pending x)).
    { intros c x [<-|[]] Hx. apply Hpre_full; [reflexivity | now apply Hw1]. }
    assert (Hq5 : forall c x, In c [Some post] -> In x (wal_crash w1) -> window_ok pre post D U c (pending x)).
    { intros c x [<-|[]] Hx. apply Hpost_full; [reflexivity | now apply Hw1]. }
    destruct k as [|k]; [cbn [firstn]; rewrite jrun_nil; intros c x Hc Hx; cbn [fst snd] in *; rewrite O0 in Hc; now apply Hq1|].
    cbn [firstn]. rewrite jrun_cons, japply_pair. cbn [wop_in_commit]. fold d1.
    destruct k as [|k]; [cbn [firstn]; rewrite jrun_nil; intros c x Hc Hx; cbn [fst snd] in *; rewrite O1 in Hc; now apply Hq1|].
    cbn [firstn]. rewrite jrun_cons, japply_pair. cbn [wop_in_commit]. fold d2.
    destruct k as [|k]; [cbn [firstn]; rewrite jrun_nil; intros c x Hc Hx; cbn [fst snd] in *; rewrite O2 in Hc; now apply Hq1|].
    cbn [firstn]. rewrite jrun_cons, japply_pair. cbn [wop_in_commit]. fold d3. rewrite Wd.
    destruct k as [|k]; [cbn [firstn]; rewrite jrun_nil; intros c x Hc Hx; cbn [fst snd] in *; rewrite O3 in Hc; now apply Hq1|].
    cbn [firstn]. rewrite jrun_cons, japply_pair. cbn [wop_in_commit]. fold d4.
    destruct k as [|k].
    { cbn [firstn]. rewrite jrun_nil. intros c x Hc Hx. cbn [fst snd] in *. rewrite O4 in Hc.
      destruct Hc as [<-|[<-|[]]]; [apply Hpre_full | apply Hpost_full]; auto. }
    cbn [firstn]. rewrite jrun_cons, japply_pair. cbn [wop_in_commit]. fold d5. rewrite Wd.
    destruct k as [|k]; [cbn [firstn]; rewrite jrun_nil; intros c x Hc Hx; cbn [fst snd] in *; rewrite O5 in Hc; now apply Hq5|].
    (* marker appended, not yet synced *)
    cbn [firstn]. rewrite jrun_cons, japply_pair. cbn [wop_in_commit]. change (apply_sop d5 OWalWrite) with d5.
    set (w2 := wal_apply w1 (WAppend RMarker)).
    assert (C2 : forall x, In x (wal_crash w2) -> pending x = D ++ U \/ pending x = []).
    { intros x Hx. unfold wal_crash, w2, w1 in Hx. cbn [wal_apply w_entry w_dur w_vol] in Hx.
      rewrite Hentry in Hx. cbn [app] in Hx. rewrite strip_prefix_app in Hx. cbn in Hx.
      destruct Hx as [<-|[<-|[]]].
      - left. rewrite app_nil_r. apply batch_is_DU.
      - right. apply pending_marker_end. }
    destruct k as [|k].
    { cbn [firstn]. rewrite jrun_nil. intros c x Hc Hx. cbn [fst snd] in *. rewrite O5 in Hc. destruct Hc as [<-|[]].
      destruct (C2 x Hx); [now apply Hpost_full | now apply Hpost_nil]. }
    (* marker synced *)
    cbn [firstn]. rewrite jrun_cons, japply_pair. cbn [wop_in_commit]. change (apply_sop d5 OWalFsync) with d5.
    set (w3 := wal_apply w2 WFsync).
    assert (E2 : w_entry w2 = true) by (unfold w2, w1; cbn; exact Hentry).
    assert (C3 : forall x, In x (wal_crash w3) -> pending x = []).
    { intros x Hx. apply synced_queue_exact in Hx; [|exact E2]. subst x.
      unfold w2, w1; cbn [wal_apply w_vol]. apply pending_marker_end. }
    destruct k as [|k].
    { cbn [firstn]. rewrite jrun_nil. intros c x Hc Hx. cbn [fst snd] in *. rewrite O5 in Hc. destruct Hc as [<-|[]].
      apply Hpost_nil; [reflexivity | now apply C3]. }
    (* truncated, not yet synced *)
    cbn [firstn]. rewrite jrun_cons, japply_pair. cbn [wop_in_commit]. change (apply_sop d5 OWalSetLen0) with d5.
    set (w4 := wal_apply w3 WSetLen0).
    assert (C4 : forall x, In x (wal_crash w4) -> pending x = []).
    { intros x Hx. unfold wal_crash, w4, w3, w2, w1 in Hx. cbn [wal_apply w_entry w_dur w_vol] in Hx.
      rewrite Hentry in Hx. cbn [app] in Hx.
      destruct (strip_prefix wrec_eqb (w_vol w ++ [RMarker]) []) as [t|] eqn:Es.
      - destruct (w_vol w); cbn in Es; discriminate.
      - destruct Hx as [<-|[<-|[]]]; [apply pending_marker_end | reflexivity]. }
    destruct k as [|k].
    { cbn [firstn]. rewrite jrun_nil. intros c x Hc Hx. cbn [fst snd] in *. rewrite O5 in Hc. destruct Hc as [<-|[]].
      apply Hpost_nil; [reflexivity | now apply C4]. }
    (* truncation synced *)
    cbn [firstn]. rewrite jrun_cons, japply_pair. cbn [wop_in_commit]. change (apply_sop d5 OWalFsync) with d5.
    set (w5 := wal_apply w4 WFsync).
    assert (E4 : w_entry w4 = true) by (unfold w4, w3, w2, w1; cbn; exact Hentry).
    assert (C5 : forall x, In x (wal_crash w5) -> pending x = []).
    { intros x Hx. apply synced_queue_exact in Hx; [|exact E4]. subst x. reflexivity. }
    replace (firstn k []) with (@nil sop) by (destruct k; reflexivity).
    rewrite jrun_nil. intros c x Hc Hx. cbn [fst snd] in *. rewrite O5 in Hc. destruct Hc as [<-|[]].
    apply Hpost_nil; [reflexivity | now apply C5].
  Qed.
End Commit.
