(** C09, part 2 — a model of [wand_loop] (searchlite-core/src/query/wand.rs, repaired) and of
    [brute_force], over integer contributions.  Definitions only; the proof is in WandProofs.v.

    Abstractions (stated, not hidden):
    - contributions, bounds and scores are natural numbers ([N]); the float side (rounding of sums,
      [plan.evaluate] for dis_max) is outside the model: the score of a document is the sum of the
      contributions of the terms that contain it;
    - a posting carries its document, its contribution and the bound of the block it lies in
      ([block_upper_bound] of the block containing the posting); a term carries its term-wide bound
      ([upper_bound]) and its postings in strictly increasing document order;
    - the term queue is popped in document order; the order among cursors on the same document is
      unspecified in the code (BinaryHeap) and irrelevant: the pivot document is the least current
      document [v] such that the term-wide bounds of the cursors positioned at or before [v] add up to
      at least the threshold;
    - the result heap is kept as the sorted list of its keys; a key encodes (score descending,
      document ascending) — the order of [RankedDoc] — as [(M - score) * B + doc] for bounds
      [score <= M], [doc < B];
    - [accept] (deleted documents, the boolean matcher, the filter, the cursor key) is an arbitrary
      predicate of document and score; a rejected document takes no heap slot and does not move the
      threshold. *)
From Coq Require Import List NArith Bool Arith Lia.
From SL Require Import Base.Tie Base.Paging.
Import ListNotations.
Open Scope N_scope.

Record posting := { pd : N; pc : N; pb : N }.      (* document, contribution, bound of its block *)
Record term := { t_ub : N; t_ps : list posting }.  (* term-wide bound, postings *)

Section Wand.

Variable M B : N.                 (* score <= M, doc < B *)
Variable k : nat.                 (* rank limit *)
Variable bmw : bool.              (* use_block_bounds *)
Variable accept : N -> N -> bool. (* document, score *)

Definition enc (score doc : N) : N := (M - score) * B + doc.
Definition key_score (key : N) : N := M - key / B.

(** heap threshold: the score of the worst of k entries, 0 while the heap is not full *)
Definition threshold (hp : list N) : N :=
  if Nat.leb k (length hp) then key_score (last hp 0) else 0.

(** a cursor = the remaining postings of a term *)
Definition cursor : Type := (N * list posting)%type.   (* term-wide bound, remaining postings *)

Definition cur_doc (c : cursor) : option N :=
  match snd c with [] => None | p :: _ => Some (pd p) end.

Definition at_or_before (v : N) (c : cursor) : bool :=
  match cur_doc c with Some d => d <=? v | None => false end.

Definition at_doc (v : N) (c : cursor) : bool :=
  match cur_doc c with Some d => d =? v | None => false end.

Definition sumN (l : list N) : N := fold_right N.add 0 l.

(** sum of the term-wide bounds of the cursors positioned at or before [v] *)
Definition ub_sum (cs : list cursor) (v : N) : N := sumN (map fst (filter (at_or_before v) cs)).

Definition cur_docs (cs : list cursor) : list N :=
  flat_map (fun c => match cur_doc c with Some d => [d] | None => [] end) cs.

Fixpoint minN (l : list N) : option N :=
  match l with
  | [] => None
  | x :: t => match minN t with None => Some x | Some m => Some (N.min x m) end
  end.

(** pivot document: least current document whose prefix of term-wide bounds reaches the threshold *)
Definition pivot_doc (cs : list cursor) (theta : N) : option N :=
  minN (filter (fun v => theta <=? ub_sum cs v) (cur_docs cs)).

Definition head_at (v : N) (c : cursor) : list posting :=
  match snd c with p :: _ => if pd p =? v then [p] else [] | [] => [] end.

(** [advance] of every cursor positioned on [v] *)
Definition advance_at (v : N) (c : cursor) : cursor :=
  match snd c with
  | p :: r => if pd p =? v then (fst c, r) else c
  | [] => c
  end.

(** [advance_to(v)] (with or without [skip_to_block]): drop the postings before [v] *)
Fixpoint drop_before (v : N) (ps : list posting) : list posting :=
  match ps with
  | p :: r => if pd p <? v then drop_before v r else ps
  | [] => []
  end.
Definition advance_to (v : N) (c : cursor) : cursor := (fst c, drop_before v (snd c)).

Inductive step_result :=
| Stop
| Next (cs : list cursor) (hp : list N).

(** one iteration of the loop of [wand_loop] (no collector, no score adjustment) *)
Definition step (cs : list cursor) (hp : list N) : step_result :=
  match minN (cur_docs cs) with
  | None => Stop                                    (* every cursor is exhausted *)
  | Some m =>
      let theta := threshold hp in
      match pivot_doc cs theta with
      | None => Stop                                (* the threshold cannot be reached any more *)
      | Some pv =>
          if pv =? m then
            let heads := flat_map (head_at m) cs in
            if bmw && (sumN (map pb heads) <? theta) then
              Next (map (advance_at m) cs) hp       (* block-max check rejects the candidate *)
            else
              let score := sumN (map pc heads) in
              let cs' := map (advance_at m) cs in
              if accept m score && ((Nat.ltb (length hp) k) || (theta <? score)) then
                Next cs' (push k hp (enc score m))
              else Next cs' hp
          else Next (map (fun c => if at_or_before pv c then advance_to pv c else c) cs) hp
      end
  end.

Fixpoint run (fuel : nat) (cs : list cursor) (hp : list N) : option (list N) :=
  match fuel with
  | O => None
  | S f =>
      match step cs hp with
      | Stop => Some hp
      | Next cs' hp' => run f cs' hp'
      end
  end.

Definition start (ts : list term) : list cursor := map (fun t => (t_ub t, t_ps t)) ts.

Definition total_postings (ts : list term) : nat := length (flat_map t_ps ts).

(** [execute_top_k] with strategy wand / bmw: keys of the ranked documents, best first *)
Definition wand (ts : list term) : option (list N) :=
  if Nat.eqb k 0 then Some [] else run (S (total_postings ts)) (start ts) [].

(* ------------------------------------------------------------------ the loop as found *)

(** Before the repair, [execution = bmw] accumulated [block_upper_bound()] of each cursor's
    *current* block to find the pivot (and had no candidate check). *)
Definition head_block_bound (c : cursor) : N :=
  match snd c with p :: _ => pb p | [] => 0 end.

Definition blk_sum (cs : list cursor) (v : N) : N :=
  sumN (map head_block_bound (filter (at_or_before v) cs)).

Definition pivot_doc_old (cs : list cursor) (theta : N) : option N :=
  minN (filter (fun v => theta <=? blk_sum cs v) (cur_docs cs)).

Definition step_old (cs : list cursor) (hp : list N) : step_result :=
  match minN (cur_docs cs) with
  | None => Stop
  | Some m =>
      let theta := threshold hp in
      match pivot_doc_old cs theta with
      | None => Stop
      | Some pv =>
          if pv =? m then
            let heads := flat_map (head_at m) cs in
            let score := sumN (map pc heads) in
            let cs' := map (advance_at m) cs in
            if accept m score && ((Nat.ltb (length hp) k) || (theta <? score)) then
              Next cs' (push k hp (enc score m))
            else Next cs' hp
          else Next (map (fun c => if at_or_before pv c then advance_to pv c else c) cs) hp
      end
  end.

Fixpoint run_old (fuel : nat) (cs : list cursor) (hp : list N) : option (list N) :=
  match fuel with
  | O => None
  | S f =>
      match step_old cs hp with
      | Stop => Some hp
      | Next cs' hp' => run_old f cs' hp'
      end
  end.

Definition wand_old (ts : list term) : option (list N) :=
  if Nat.eqb k 0 then Some [] else run_old (S (total_postings ts)) (start ts) [].

(* ------------------------------------------------------------------ brute force *)

Definition contrib (ps : list posting) (d : N) : N :=
  match find (fun p => pd p =? d) ps with Some p => pc p | None => 0 end.

Definition score (ts : list term) (d : N) : N := sumN (map (fun t => contrib (t_ps t) d) ts).

(** [brute_force]: every document of the universe [U] (the documents occurring in postings) that
    is accepted with its full score, ranked by (score descending, document ascending), cut at k *)
Definition brute (ts : list term) (U : list N) : list N :=
  topk k (map (fun d => enc (score ts d) d) (filter (fun d => accept d (score ts d)) U)).

End Wand.
