(** C09, part 2 — soundness of the pivot loop: [wand] (with or without the block-max check) returns
    exactly what [brute] returns. *)
From Coq Require Import List NArith Bool Arith Lia Permutation.
From SL Require Import Base.Tie Base.Paging C09.Wand.
Import ListNotations.
Open Scope N_scope.

(* ------------------------------------------------------------------ generic facts on N lists *)

Lemma sumN_app : forall a b, sumN (a ++ b) = sumN a + sumN b.
Proof.
  induction a as [|x a IH]; intros b; [reflexivity|]. cbn [app]. unfold sumN in *. cbn [fold_right].
  rewrite IH. lia.
Qed.

Lemma sumN_le_pointwise {A} : forall (f g : A -> N) l, (forall x, In x l -> f x <= g x) ->
  sumN (map f l) <= sumN (map g l).
Proof.
  intros f g l. induction l as [|a l IH]; intros H; [cbn; lia|]. cbn [map].
  pose proof (H a (or_introl eq_refl)). specialize (IH (fun x Hx => H x (or_intror Hx))).
  unfold sumN in *. cbn [fold_right]. lia.
Qed.

Lemma minN_spec : forall l m, minN l = Some m -> In m l /\ forall x, In x l -> m <= x.
Proof.
  induction l as [|a l IH]; intros m H; [discriminate|]. cbn [minN] in H.
  destruct (minN l) as [m'|] eqn:E.
  - inversion H; subst. destruct (IH m' eq_refl) as [Hin Hle].
    destruct (N.min_spec a m') as [[Hlt Em]|[Hge Em]]; rewrite Em.
    + split; [now left|]. intros x [<-|Hx]; [lia|]. specialize (Hle x Hx). lia.
    + split; [now right|]. intros x [<-|Hx]; [lia|]. now apply Hle.
  - inversion H; subst. destruct l; [|cbn in E; destruct (minN l); discriminate].
    split; [now left|]. intros x [<-|[]]. lia.
Qed.

Lemma minN_none : forall l, minN l = None -> l = [].
Proof. intros [|a l] H; [reflexivity|]. cbn in H. destruct (minN l); discriminate. Qed.

Fixpoint maxN (l : list N) : option N :=
  match l with
  | [] => None
  | x :: t => match maxN t with None => Some x | Some m => Some (N.max x m) end
  end.

Lemma maxN_spec : forall l, l <> [] -> exists m, maxN l = Some m /\ In m l /\ forall x, In x l -> x <= m.
Proof.
  induction l as [|a l IH]; intros H; [congruence|]. cbn [maxN].
  destruct l as [|b l'].
  - exists a. cbn. repeat split; [now left|]. intros x [<-|[]]. lia.
  - destruct IH as (m & Em & Hin & Hle); [discriminate|]. rewrite Em.
    exists (N.max a m). split; [reflexivity|].
    destruct (N.max_spec a m) as [[Hlt E]|[Hge E]]; rewrite E.
    + split; [now right|]. intros x [<-|Hx]; [lia|now apply Hle].
    + split; [now left|]. intros x [<-|Hx]; [lia|]. specialize (Hle x Hx). lia.
Qed.

(** a sorted prefix that is below everything else stays in front *)
Lemma sort_app_sorted_prefix : forall h x, wsorted h ->
  (forall a b, In a h -> In b x -> a <= b) -> sort (h ++ x) = h ++ sort x.
Proof.
  induction h as [|a h IH]; intros x Hs Hle; [reflexivity|].
  destruct Hs as [Ha Hs]. cbn [app]. change (sort (a :: h ++ x)) with (insert a (sort (h ++ x))).
  rewrite IH; [|exact Hs|intros; apply Hle; [now right|assumption]].
  apply insert_le_head. apply Forall_app. split; [exact Ha|].
  rewrite Forall_forall. intros y Hy. apply Hle; [now left|].
  eapply Permutation_in; [apply Permutation_sym, sort_permutation|exact Hy].
Qed.

Lemma topk_absorbs : forall k K X,
  length (topk k K) = k ->
  (forall a b, In a (topk k K) -> In b X -> a <= b) ->
  topk k (K ++ X) = topk k K.
Proof.
  intros k K X Hlen Hle. rewrite topk_app_l. unfold topk at 1.
  rewrite sort_app_sorted_prefix; [|apply wsorted_firstn, sort_wsorted|exact Hle].
  rewrite firstn_app, Hlen, Nat.sub_diag. cbn [firstn]. rewrite app_nil_r.
  rewrite <- Hlen at 1. apply firstn_all.
Qed.

Lemma topk_snoc : forall k K x, topk k (K ++ [x]) = push k (topk k K) x.
Proof.
  intros k K x. unfold topk, push.
  rewrite (sort_perm (K ++ [x]) (x :: K)) by (apply Permutation_sym, Permutation_cons_append).
  change (sort (x :: K)) with (insert x (sort K)). apply firstn_insert_trunc.
Qed.

Lemma topk_length_le : forall k K, (length (topk k K) <= k)%nat.
Proof. intros. unfold topk. rewrite firstn_length. lia. Qed.

Lemma in_topk : forall k K x, In x (topk k K) -> In x K.
Proof.
  intros k K x H. unfold topk in H. apply in_firstn in H.
  eapply Permutation_in; [apply Permutation_sym, sort_permutation|exact H].
Qed.

Lemma last_in : forall (l : list N) d, l <> [] -> In (last l d) l.
Proof.
  intros l d H. destruct (exists_last H) as (l' & a & E). subst. rewrite last_last.
  apply in_or_app. right. now left.
Qed.

Lemma wsorted_last_max : forall l d x, wsorted l -> In x l -> x <= last l d.
Proof.
  induction l as [|a l IH]; intros d x Hs Hx; [destruct Hx|].
  destruct Hs as [Ha Hs]. destruct l as [|b l].
  - destruct Hx as [<-|[]]. cbn. lia.
  - change (last (a :: b :: l) d) with (last (b :: l) d). destruct Hx as [<-|Hx].
    + rewrite Forall_forall in Ha.
      assert (a <= b) by (apply Ha; now left).
      specialize (IH d b Hs (or_introl eq_refl)). lia.
    + now apply IH.
Qed.

Lemma sort_perm_topk : forall k a b, Permutation a b -> topk k a = topk k b.
Proof. intros k a b H. unfold topk. now rewrite (sort_perm a b H). Qed.

Lemma sumN_flat_map {A C} : forall (w : C -> N) (F : A -> list C) l,
  sumN (map w (flat_map F l)) = sumN (map (fun a => sumN (map w (F a))) l).
Proof.
  intros w F l. induction l as [|a l IH]; [reflexivity|]. cbn [flat_map map].
  rewrite map_app, sumN_app, IH. reflexivity.
Qed.

Lemma flat_map_map' {A C D} : forall (f : C -> list D) (g : A -> C) l,
  flat_map f (map g l) = flat_map (fun a => f (g a)) l.
Proof. intros f g l. induction l as [|a l IH]; [reflexivity|]. cbn. now rewrite IH. Qed.

Lemma filter_map_comm {A C} : forall (p : C -> bool) (g : A -> C) l,
  filter p (map g l) = map g (filter (fun a => p (g a)) l).
Proof.
  intros p g l. induction l as [|a l IH]; [reflexivity|]. cbn. destruct (p (g a)); cbn; now rewrite IH.
Qed.

Lemma sumN_le_filter {A} : forall (f g : A -> N) (p : A -> bool) l,
  (forall x, In x l -> f x <= if p x then g x else 0) ->
  sumN (map f l) <= sumN (map g (filter p l)).
Proof.
  intros f g p l. induction l as [|a l IH]; intros H; [cbn; lia|]. cbn [map filter].
  pose proof (H a (or_introl eq_refl)) as Ha. specialize (IH (fun x Hx => H x (or_intror Hx))).
  destruct (p a); cbn [map sumN fold_right]; unfold sumN in *; lia.
Qed.

Lemma filter_single : forall (l : list N) (p q : N -> bool) m,
  NoDup l -> In m l -> p m = true -> q m = true ->
  (forall d, In d l -> q d = true -> d = m) ->
  filter q (filter p l) = [m].
Proof.
  induction l as [|d l IH]; intros p q m Hnd Hin Hp Hq Huniq; [destruct Hin|].
  inversion Hnd as [|? ? Hnotin Hnd']; subst. cbn [filter]. destruct Hin as [<-|Hin].
  - rewrite Hp. cbn [filter]. rewrite Hq. f_equal.
    apply filter_none. rewrite Forall_forall. intros x Hx. apply filter_In in Hx as [Hx _].
    destruct (q x) eqn:E; [|reflexivity]. exfalso. apply Hnotin.
    rewrite <- (Huniq x (or_intror Hx) E). exact Hx.
  - assert (Hdm : d <> m) by (intro; subst; contradiction).
    assert (Hqd : q d = false).
    { destruct (q d) eqn:E; [|reflexivity]. exfalso. apply Hdm. apply Huniq; [now left|exact E]. }
    destruct (p d); cbn [filter]; [rewrite Hqd|];
      apply IH; try assumption; intros; apply Huniq; [now right|assumption|now right|assumption].
Qed.

Definition geb (s d : N) : bool := s <=? d.

Lemma filter_length_mono : forall (l : list N) s s' m, In m l -> s <= m -> m < s' ->
  (length (filter (geb s') l) < length (filter (geb s) l))%nat.
Proof.
  intros l s s' m Hm Hs Hs'.
  assert (Hle : forall l0 : list N,
     (length (filter (geb s') l0) <= length (filter (geb s) l0))%nat).
  { induction l0 as [|x l0 IH]; [cbn; lia|]. cbn [filter].
    change (geb s' x) with (s' <=? x). change (geb s x) with (s <=? x).
    destruct (N.leb_spec s' x), (N.leb_spec s x); cbn [length]; lia. }
  induction l as [|d l IH]; [destruct Hm|]. cbn [filter].
  change (geb s' d) with (s' <=? d). change (geb s d) with (s <=? d). destruct Hm as [<-|Hm].
  - destruct (N.leb_spec s' d); [lia|]. destruct (N.leb_spec s d); [|lia]. cbn [length].
    specialize (Hle l). lia.
  - specialize (IH Hm). destruct (N.leb_spec s' d), (N.leb_spec s d); cbn [length]; lia.
Qed.

(* ------------------------------------------------------------------ posting lists *)

Fixpoint psorted (ps : list posting) : Prop :=
  match ps with
  | [] => True
  | p :: r => Forall (fun q => pd p < pd q) r /\ psorted r
  end.

Definition from (s : N) (ps : list posting) : list posting := filter (fun p => s <=? pd p) ps.

Lemma from_in : forall s ps p, In p (from s ps) <-> In p ps /\ s <= pd p.
Proof. intros. unfold from. rewrite filter_In, N.leb_le. tauto. Qed.

Lemma psorted_from : forall s ps, psorted ps -> psorted (from s ps).
Proof.
  intros s ps. induction ps as [|p r IH]; intros H; [exact I|]. destruct H as [Hp Hr].
  unfold from. cbn [filter]. fold (from s r). destruct (s <=? pd p); [|now apply IH].
  split; [|now apply IH]. rewrite Forall_forall in *. intros q Hq. apply Hp.
  apply from_in in Hq. tauto.
Qed.

Lemma from_from : forall s v ps, s <= v -> from v (from s ps) = from v ps.
Proof.
  intros s v ps H. unfold from. induction ps as [|p r IH]; [reflexivity|]. cbn [filter].
  destruct (N.leb_spec s (pd p)), (N.leb_spec v (pd p)); cbn [filter]; try rewrite IH; try reflexivity.
  - destruct (N.leb_spec v (pd p)); [reflexivity|lia].
  - destruct (N.leb_spec v (pd p)); [lia|reflexivity].
  - lia.
Qed.

Lemma from_all : forall s ps, (forall p, In p ps -> s <= pd p) -> from s ps = ps.
Proof.
  intros s ps H. unfold from. induction ps as [|p r IH]; [reflexivity|]. cbn [filter].
  destruct (N.leb_spec s (pd p)) as [_|Hlt]; [|specialize (H p (or_introl eq_refl)); lia].
  f_equal. apply IH. intros; apply H; now right.
Qed.

Lemma drop_before_from : forall v ps, psorted ps -> drop_before v ps = from v ps.
Proof.
  intros v ps. induction ps as [|p r IH]; intros H; [reflexivity|]. destruct H as [Hp Hr].
  cbn [drop_before]. unfold from. cbn [filter]. fold (from v r).
  destruct (N.ltb_spec (pd p) v) as [Hlt|Hge].
  - destruct (N.leb_spec v (pd p)); [lia|]. now apply IH.
  - destruct (N.leb_spec v (pd p)); [|lia]. f_equal. symmetry. apply from_all.
    rewrite Forall_forall in Hp. intros q Hq. specialize (Hp q Hq). lia.
Qed.

(* ------------------------------------------------------------------ the setting *)

Section Soundness.

Variable M B : N.
Variable k : nat.
Variable bmw : bool.
Variable accept : N -> N -> bool.
Variable T : list term.
Variable U : list N.

Definition wf_term (t : term) : Prop :=
  psorted (t_ps t) /\ forall p, In p (t_ps t) -> pc p <= pb p /\ pc p <= t_ub t.

Hypothesis HT : Forall wf_term T.
Hypothesis HU_nodup : NoDup U.
Hypothesis HU : forall d, In d U <-> exists t p, In t T /\ In p (t_ps t) /\ pd p = d.
Hypothesis HB : forall d, In d U -> d < B.
Hypothesis HM : sumN (map t_ub T) <= M.
Hypothesis Hk : (0 < k)%nat.

Notation sc := (score T).
Notation key := (fun d => enc M B (sc d) d).

Definition acc : list N := filter (fun d => accept d (sc d)) U.
Definition A (s : N) : list N := map key (filter (fun d => d <? s) acc).
Definition cs_at (s : N) : list cursor := map (fun t => (t_ub t, from s (t_ps t))) T.

(* ---- scores *)

Lemma contrib_in : forall t p, wf_term t -> In p (t_ps t) -> contrib (t_ps t) (pd p) = pc p.
Proof.
  intros t p [Hs _] Hin. unfold contrib. revert Hs Hin. generalize (t_ps t) as ps.
  induction ps as [|q r IH]; intros Hs Hin; [destruct Hin|]. destruct Hs as [Hq Hr]. cbn [find].
  destruct Hin as [<-|Hin].
  - now rewrite N.eqb_refl.
  - rewrite Forall_forall in Hq. specialize (Hq p Hin).
    destruct (N.eqb_spec (pd q) (pd p)); [lia|]. now apply IH.
Qed.

Lemma contrib_notin : forall ps d, (forall p, In p ps -> pd p <> d) -> contrib ps d = 0.
Proof.
  intros ps d H. unfold contrib. induction ps as [|q r IH]; [reflexivity|]. cbn [find].
  destruct (N.eqb_spec (pd q) d) as [E|E]; [exfalso; apply (H q); [now left|exact E]|].
  apply IH. intros; apply H; now right.
Qed.

Lemma contrib_le_ub : forall t d, wf_term t -> contrib (t_ps t) d <= t_ub t.
Proof.
  intros t d Hw. unfold contrib. destruct (find (fun p => pd p =? d) (t_ps t)) as [p|] eqn:E; [|lia].
  apply find_some in E as [Hin _]. now apply (proj2 Hw).
Qed.

Lemma score_le_M : forall d, sc d <= M.
Proof.
  intros d. unfold score. etransitivity; [|exact HM].
  apply sumN_le_pointwise. intros t Ht. apply contrib_le_ub.
  rewrite Forall_forall in HT. now apply HT.
Qed.

(* ---- keys *)

Lemma key_score_enc : forall s d, s <= M -> d < B -> key_score M B (enc M B s d) = s.
Proof.
  intros s d Hs Hd. unfold key_score, enc.
  rewrite N.div_add_l by lia. rewrite (N.div_small d B) by exact Hd. lia.
Qed.

Lemma enc_lt : forall s1 d1 s2 d2, s1 <= M -> s2 <= M -> d1 < B -> d2 < B ->
  (s2 < s1 \/ (s2 = s1 /\ d1 < d2)) -> enc M B s1 d1 < enc M B s2 d2.
Proof.
  intros s1 d1 s2 d2 H1 H2 Hd1 Hd2 [Hlt|[E Hd]]; unfold enc.
  - assert (M - s1 + 1 <= M - s2) by lia. nia.
  - subst. lia.
Qed.

Lemma A_elem : forall s x, In x (A s) -> exists d, x = key d /\ In d U /\ d < s /\ accept d (sc d) = true.
Proof.
  intros s x H. unfold A in H. apply in_map_iff in H as (d & <- & Hd).
  apply filter_In in Hd as [Hd Hlt]. unfold acc in Hd. apply filter_In in Hd as [Hu Ha].
  exists d. repeat split; try assumption. now apply N.ltb_lt.
Qed.

Lemma A_split : forall s s', s <= s' ->
  Permutation (A s') (A s ++ map key (filter (fun d => (s <=? d) && (d <? s')) acc)).
Proof.
  intros s s' H. unfold A. rewrite <- map_app. apply Permutation_map.
  induction acc as [|d l IH]; [constructor|]. cbn [filter].
  destruct (N.ltb_spec d s'), (N.ltb_spec d s), (N.leb_spec s d); cbn [andb app]; try lia.
  - now apply perm_skip.
  - eapply perm_trans; [apply perm_skip, IH|]. apply Permutation_middle.
  - exact IH.
Qed.

Lemma A_B : A B = map key acc.
Proof.
  unfold A. f_equal. apply filter_all. rewrite Forall_forall. intros d Hd.
  apply N.ltb_lt. apply HB. unfold acc in Hd. now apply filter_In in Hd.
Qed.

(* ---- the heap absorbs documents that score below the threshold *)

Lemma threshold_full : forall hp, 0 < threshold M B k hp -> (k <= length hp)%nat.
Proof.
  intros hp H. unfold threshold in H. destruct (Nat.leb_spec k (length hp)); [assumption|lia].
Qed.

Lemma heap_last : forall s, (k <= length (topk k (A s)))%nat ->
  exists d, last (topk k (A s)) 0 = key d /\ In d U /\ d < s
    /\ threshold M B k (topk k (A s)) = sc d.
Proof.
  intros s Hfull.
  assert (Hne : topk k (A s) <> []) by (intro E; rewrite E in Hfull; cbn in Hfull; lia).
  pose proof (last_in _ 0 Hne) as Hin. apply in_topk in Hin.
  apply A_elem in Hin as (d & E & Hu & Hlt & _). exists d. repeat split; try assumption.
  unfold threshold. destruct (Nat.leb_spec k (length (topk k (A s)))); [|lia].
  rewrite E. apply key_score_enc; [apply score_le_M|now apply HB].
Qed.

Lemma heap_absorbs : forall s X,
  (forall x, In x X -> exists d, x = key d /\ In d U /\ s <= d
       /\ (sc d < threshold M B k (topk k (A s))
           \/ ((k <= length (topk k (A s)))%nat /\ sc d <= threshold M B k (topk k (A s))))) ->
  topk k (A s ++ X) = topk k (A s).
Proof.
  intros s X HX. destruct X as [|x0 X0] eqn:EX; [now rewrite app_nil_r|]. rewrite <- EX in *.
  assert (Hfull : (k <= length (topk k (A s)))%nat).
  { destruct (HX x0) as (d & _ & _ & _ & [Hlt|[Hf _]]); [rewrite EX; now left| |exact Hf].
    apply threshold_full. lia. }
  destruct (heap_last s Hfull) as (dw & Elast & Hwu & Hws & Eth).
  apply topk_absorbs.
  - pose proof (topk_length_le k (A s)). lia.
  - intros a b Ha Hb.
    assert (a <= last (topk k (A s)) 0).
    { apply wsorted_last_max; [|exact Ha]. apply wsorted_firstn, sort_wsorted. }
    destruct (HX b Hb) as (d & -> & Hdu & Hsd & Hsc).
    rewrite Elast in H. rewrite Eth in Hsc.
    assert (key dw < key d).
    { apply enc_lt; try apply score_le_M; try (now apply HB).
      destruct Hsc as [Hlt|[_ Hle]]; [now left|].
      destruct (N.eq_dec (sc d) (sc dw)) as [E|E]; [right; split; [exact E|lia]|left; lia]. }
    lia.
Qed.

(* ---- cursors *)

Lemma wf_T : forall t, In t T -> wf_term t.
Proof. intros t Ht. rewrite Forall_forall in HT. now apply HT. Qed.

Lemma cur_docs_in : forall s d, In d (cur_docs (cs_at s)) ->
  In d U /\ s <= d /\ exists t, In t T /\ cur_doc (t_ub t, from s (t_ps t)) = Some d.
Proof.
  intros s d H. unfold cur_docs, cs_at in H. apply in_flat_map in H as (c & Hc & Hd).
  apply in_map_iff in Hc as (t & <- & Ht).
  destruct (cur_doc (t_ub t, from s (t_ps t))) as [d'|] eqn:E; [|destruct Hd].
  destruct Hd as [<-|[]]. unfold cur_doc in E. cbn [snd] in E.
  destruct (from s (t_ps t)) as [|p r] eqn:Ef; [discriminate|]. inversion E; subst.
  assert (Hp : In p (from s (t_ps t))) by (rewrite Ef; now left).
  apply from_in in Hp as [Hp Hs]. split; [|split; [exact Hs|]].
  - apply HU. exists t, p. tauto.
  - exists t. split; [exact Ht|]. unfold cur_doc. cbn [snd]. now rewrite Ef.
Qed.

(** the cursor of a term that contains [d >= s] is at or before [d] *)
Lemma cursor_before : forall s t p, In t T -> In p (t_ps t) -> s <= pd p ->
  exists d', cur_doc (t_ub t, from s (t_ps t)) = Some d' /\ s <= d' /\ d' <= pd p.
Proof.
  intros s t p Ht Hp Hs.
  assert (Hin : In p (from s (t_ps t))) by (apply from_in; tauto).
  pose proof (psorted_from s (t_ps t) (proj1 (wf_T t Ht))) as Hsorted.
  unfold cur_doc. cbn [snd]. destruct (from s (t_ps t)) as [|q r] eqn:E; [destruct Hin|].
  exists (pd q). split; [reflexivity|].
  assert (Hq : In q (from s (t_ps t))) by (rewrite E; now left).
  apply from_in in Hq as [_ Hqs]. split; [exact Hqs|].
  destruct Hin as [<-|Hin]; [lia|]. destruct Hsorted as [Hq _]. rewrite Forall_forall in Hq.
  specialize (Hq p Hin). lia.
Qed.

Lemma min_doc_spec : forall s m, minN (cur_docs (cs_at s)) = Some m ->
  In m U /\ s <= m /\ forall d, In d U -> s <= d -> m <= d.
Proof.
  intros s m H. apply minN_spec in H as [Hin Hmin].
  destruct (cur_docs_in s m Hin) as (Hu & Hs & _). split; [exact Hu|]. split; [exact Hs|].
  intros d Hd Hsd. apply HU in Hd as (t & p & Ht & Hp & <-).
  destruct (cursor_before s t p Ht Hp Hsd) as (d' & Ec & _ & Hle).
  assert (In d' (cur_docs (cs_at s))).
  { unfold cur_docs, cs_at. apply in_flat_map. exists (t_ub t, from s (t_ps t)).
    split; [apply in_map_iff; exists t; tauto|]. rewrite Ec. now left. }
  specialize (Hmin d' H). lia.
Qed.

Lemma no_docs_left : forall s, minN (cur_docs (cs_at s)) = None -> forall d, In d U -> d < s.
Proof.
  intros s H d Hd. apply minN_none in H.
  destruct (N.lt_ge_cases d s) as [Hlt|Hge]; [exact Hlt|].
  apply HU in Hd as (t & p & Ht & Hp & <-).
  destruct (cursor_before s t p Ht Hp Hge) as (d' & Ec & _ & _).
  assert (Hin : In d' (cur_docs (cs_at s))).
  { unfold cur_docs, cs_at. apply in_flat_map. exists (t_ub t, from s (t_ps t)).
    split; [apply in_map_iff; exists t; tauto|]. rewrite Ec. now left. }
  rewrite H in Hin. destruct Hin.
Qed.

(* ---- the score of the minimal document is what the loop computes *)

Lemma heads_at_min : forall s m, minN (cur_docs (cs_at s)) = Some m ->
  sumN (map pc (flat_map (head_at m) (cs_at s))) = sc m
  /\ sc m <= sumN (map pb (flat_map (head_at m) (cs_at s))).
Proof.
  intros s m Hm. destruct (min_doc_spec s m Hm) as (Hmu & Hsm & Hmin).
  unfold cs_at, score.
  assert (Hterm : forall t, In t T ->
     sumN (map pc (head_at m (t_ub t, from s (t_ps t)))) = contrib (t_ps t) m
     /\ contrib (t_ps t) m <= sumN (map pb (head_at m (t_ub t, from s (t_ps t))))).
  { intros t Ht. pose proof (wf_T t Ht) as Hw.
    pose proof (psorted_from s (t_ps t) (proj1 Hw)) as Hsorted.
    unfold head_at. cbn [snd]. destruct (from s (t_ps t)) as [|q r] eqn:E.
    - rewrite contrib_notin; [cbn; split; [reflexivity|lia]|].
      intros p Hp Epd. assert (In p (from s (t_ps t))) by (apply from_in; split; [exact Hp|lia]).
      rewrite E in H. destruct H.
    - assert (Hq : In q (from s (t_ps t))) by (rewrite E; now left).
      apply from_in in Hq as [Hq Hqs].
      destruct (N.eqb_spec (pd q) m) as [Eq|Ne].
      + subst m. cbn [map sumN fold_right]. rewrite (contrib_in t q Hw Hq).
        destruct (proj2 Hw q Hq). split; lia.
      + rewrite contrib_notin; [cbn; split; [reflexivity|lia]|].
        intros p Hp Epd.
        assert (Hpf : In p (q :: r)) by (rewrite <- E; apply from_in; split; [exact Hp|lia]).
        assert (m <= pd q) by (apply Hmin; [apply HU; exists t, q; tauto|exact Hqs]).
        destruct Hpf as [<-|Hpr]; [congruence|].
        destruct Hsorted as [Hall _]. rewrite Forall_forall in Hall. specialize (Hall p Hpr). lia. }
  rewrite !flat_map_map', !sumN_flat_map. split.
  - f_equal. apply map_ext_in. intros t Ht. now destruct (Hterm t Ht).
  - apply sumN_le_pointwise. intros t Ht. now destruct (Hterm t Ht).
Qed.

(* ---- the pivot rule *)

Lemma ub_sum_bounds_score : forall s d, In d U -> s <= d -> sc d <= ub_sum (cs_at s) d.
Proof.
  intros s d Hd Hsd. unfold score, ub_sum, cs_at.
  rewrite filter_map_comm, map_map. cbn [fst].
  apply sumN_le_filter. intros t Ht.
  destruct (find (fun p => pd p =? d) (t_ps t)) as [p|] eqn:Ef.
  - pose proof Ef as Ef'. apply find_some in Ef' as [Hp Epd]. apply N.eqb_eq in Epd.
    destruct (cursor_before s t p Ht Hp) as (d' & Ec & _ & Hle); [lia|].
    unfold at_or_before. rewrite Ec. destruct (N.leb_spec d' d) as [_|Hgt]; [|lia].
    apply contrib_le_ub. now apply wf_T.
  - unfold contrib. rewrite Ef. destruct (at_or_before d (t_ub t, from s (t_ps t))); lia.
Qed.

Lemma ub_sum_same : forall cs v d,
  (forall c x, In c cs -> cur_doc c = Some x -> x <= d -> x <= v) -> v <= d ->
  ub_sum cs d = ub_sum cs v.
Proof.
  intros cs v d H Hvd. unfold ub_sum. f_equal. f_equal.
  induction cs as [|c cs IH]; [reflexivity|]. cbn [filter].
  rewrite IH by (intros c' x Hc; apply H; now right).
  assert (E : at_or_before d c = at_or_before v c).
  { unfold at_or_before. destruct (cur_doc c) as [x|] eqn:Ec; [|reflexivity].
    destruct (N.leb_spec x d), (N.leb_spec x v); try reflexivity; try lia.
    specialize (H c x (or_introl eq_refl) Ec). lia. }
  now rewrite E.
Qed.

(** documents strictly before the pivot cannot reach the threshold *)
Lemma before_pivot : forall s theta pv d,
  pivot_doc (cs_at s) theta = Some pv -> In d U -> s <= d -> d < pv -> sc d < theta.
Proof.
  intros s theta pv d Hp Hd Hsd Hlt. unfold pivot_doc in Hp. apply minN_spec in Hp as [_ Hmin].
  set (cs := cs_at s) in *.
  set (below := filter (fun x => x <=? d) (cur_docs cs)).
  assert (Hne : below <> []).
  { apply HU in Hd as (t & p & Ht & Hpp & Epd). subst d.
    destruct (cursor_before s t p Ht Hpp Hsd) as (d' & Ec & _ & Hle).
    intros E. assert (Hin : In d' below).
    { apply filter_In. split; [|now apply N.leb_le].
      unfold cur_docs, cs, cs_at. apply in_flat_map. exists (t_ub t, from s (t_ps t)).
      split; [apply in_map_iff; exists t; tauto|]. rewrite Ec. now left. }
    rewrite E in Hin. destruct Hin. }
  destruct (maxN_spec below Hne) as (v & _ & Hv & Hvmax).
  apply filter_In in Hv as [Hvc Hvd]. apply N.leb_le in Hvd.
  assert (Hsame : ub_sum cs d = ub_sum cs v).
  { apply ub_sum_same; [|exact Hvd]. intros c x Hc Ec Hx. apply Hvmax.
    apply filter_In. split; [|now apply N.leb_le].
    unfold cur_docs. apply in_flat_map. exists c. split; [exact Hc|]. rewrite Ec. now left. }
  pose proof (ub_sum_bounds_score s d Hd Hsd) as Hb. fold cs in Hb. rewrite Hsame in Hb.
  destruct (N.lt_ge_cases (ub_sum cs v) theta) as [Hl|Hge]; [lia|].
  assert (In v (filter (fun v0 => theta <=? ub_sum cs v0) (cur_docs cs))).
  { apply filter_In. split; [exact Hvc|now apply N.leb_le]. }
  specialize (Hmin v H). lia.
Qed.

(** no pivot: nothing that is left can reach the threshold *)
Lemma no_pivot : forall s theta d,
  pivot_doc (cs_at s) theta = None -> In d U -> s <= d -> sc d < theta.
Proof.
  intros s theta d Hp Hd Hsd. unfold pivot_doc in Hp. apply minN_none in Hp.
  set (cs := cs_at s) in *.
  set (below := filter (fun x => x <=? d) (cur_docs cs)).
  assert (Hne : below <> []).
  { apply HU in Hd as (t & p & Ht & Hpp & Epd). subst d.
    destruct (cursor_before s t p Ht Hpp Hsd) as (d' & Ec & _ & Hle).
    intros E. assert (Hin : In d' below).
    { apply filter_In. split; [|now apply N.leb_le].
      unfold cur_docs, cs, cs_at. apply in_flat_map. exists (t_ub t, from s (t_ps t)).
      split; [apply in_map_iff; exists t; tauto|]. rewrite Ec. now left. }
    rewrite E in Hin. destruct Hin. }
  destruct (maxN_spec below Hne) as (v & _ & Hv & Hvmax).
  apply filter_In in Hv as [Hvc Hvd]. apply N.leb_le in Hvd.
  assert (Hsame : ub_sum cs d = ub_sum cs v).
  { apply ub_sum_same; [|exact Hvd]. intros c x Hc Ec Hx. apply Hvmax.
    apply filter_In. split; [|now apply N.leb_le].
    unfold cur_docs. apply in_flat_map. exists c. split; [exact Hc|]. rewrite Ec. now left. }
  pose proof (ub_sum_bounds_score s d Hd Hsd) as Hb. fold cs in Hb. rewrite Hsame in Hb.
  destruct (N.lt_ge_cases (ub_sum cs v) theta) as [Hl|Hge]; [lia|].
  assert (Hin : In v (filter (fun v0 => theta <=? ub_sum cs v0) (cur_docs cs))).
  { apply filter_In. split; [exact Hvc|now apply N.leb_le]. }
  rewrite Hp in Hin. destruct Hin.
Qed.

(* ---- moving the cursors *)

Lemma advance_at_min : forall s m, minN (cur_docs (cs_at s)) = Some m ->
  map (advance_at m) (cs_at s) = cs_at (m + 1).
Proof.
  intros s m Hm. destruct (min_doc_spec s m Hm) as (_ & Hsm & Hmin).
  unfold cs_at. rewrite map_map. apply map_ext_in. intros t Ht.
  pose proof (psorted_from s (t_ps t) (proj1 (wf_T t Ht))) as Hsorted.
  rewrite <- (from_from s (m + 1) (t_ps t)) by lia.
  assert (Hge : forall p, In p (from s (t_ps t)) -> m <= pd p).
  { intros p Hp. apply from_in in Hp as [Hp Hs]. apply Hmin; [apply HU; exists t, p; tauto|exact Hs]. }
  unfold advance_at. cbn [snd fst]. destruct (from s (t_ps t)) as [|q r] eqn:E; [reflexivity|].
  destruct Hsorted as [Hq Hr]. destruct (N.eqb_spec (pd q) m) as [Eq|Ne].
  - f_equal. unfold from. cbn [filter]. destruct (N.leb_spec (m + 1) (pd q)); [lia|].
    symmetry. apply from_all. rewrite Forall_forall in Hq. intros p Hp. specialize (Hq p Hp). lia.
  - f_equal. symmetry. apply from_all. intros p [<-|Hp].
    + specialize (Hge q (or_introl eq_refl)). lia.
    + rewrite Forall_forall in Hq. specialize (Hq p Hp). specialize (Hge q (or_introl eq_refl)). lia.
Qed.

Lemma advance_to_pivot : forall s pv, s <= pv ->
  map (fun c => if at_or_before pv c then advance_to pv c else c) (cs_at s) = cs_at pv.
Proof.
  intros s pv Hs. unfold cs_at. rewrite map_map. apply map_ext_in. intros t Ht.
  pose proof (psorted_from s (t_ps t) (proj1 (wf_T t Ht))) as Hsorted.
  rewrite <- (from_from s pv (t_ps t)) by exact Hs.
  unfold at_or_before, cur_doc, advance_to. cbn [snd fst].
  destruct (from s (t_ps t)) as [|q r] eqn:E; [reflexivity|].
  destruct (N.leb_spec (pd q) pv) as [Hle|Hgt].
  - f_equal. now apply drop_before_from.
  - f_equal. symmetry. apply from_all. destruct Hsorted as [Hq _]. rewrite Forall_forall in Hq.
    intros p [<-|Hp]; [lia|]. specialize (Hq p Hp). lia.
Qed.

(* ---- one step preserves the invariant *)

Definition left (s : N) : nat := length (filter (geb s) U).

Lemma left_decreases : forall s s' m, In m U -> s <= m -> m < s' -> (left s' < left s)%nat.
Proof. intros s s' m Hm Hs Hs'. unfold left. now apply (filter_length_mono U s s' m). Qed.

Lemma keys_of_range : forall s s' x,
  In x (map key (filter (fun d => (s <=? d) && (d <? s')) acc)) ->
  exists d, x = key d /\ In d U /\ s <= d /\ d < s' /\ accept d (sc d) = true.
Proof.
  intros s s' x H. apply in_map_iff in H as (d & <- & Hd). apply filter_In in Hd as [Hd Hr].
  apply andb_true_iff in Hr as [H1 H2]. apply N.leb_le in H1. apply N.ltb_lt in H2.
  unfold acc in Hd. apply filter_In in Hd as [Hu Ha]. exists d. tauto.
Qed.

Lemma step_sound : forall s,
  match step M B k bmw accept (cs_at s) (topk k (A s)) with
  | Stop => topk k (A s) = brute M B k accept T U
  | Next cs' hp' => exists s', s < s' /\ cs' = cs_at s' /\ hp' = topk k (A s') /\ (left s' < left s)%nat
  end.
Proof.
  intros s. unfold step.
  destruct (minN (cur_docs (cs_at s))) as [m|] eqn:Hm.
  2:{ (* all cursors exhausted: every document lies before s *)
    unfold brute. fold acc. unfold A. f_equal. f_equal. apply filter_all.
    rewrite Forall_forall. intros d Hd. apply N.ltb_lt. apply (no_docs_left s Hm).
    unfold acc in Hd. now apply filter_In in Hd. }
  destruct (min_doc_spec s m Hm) as (Hmu & Hsm & Hmin).
  set (theta := threshold M B k (topk k (A s))).
  destruct (pivot_doc (cs_at s) theta) as [pv|] eqn:Hp.
  2:{ (* no pivot: stop *)
    unfold brute. fold acc. rewrite <- A_B.
    assert (HsB : s <= B) by (specialize (HB m Hmu); lia).
    rewrite (sort_perm_topk _ _ _ (A_split s B HsB)). symmetry. apply heap_absorbs.
    intros x Hx. apply keys_of_range in Hx as (d & -> & Hu & Hsd & _ & _).
    exists d. repeat split; try assumption. left. now apply (no_pivot s theta d Hp). }
  assert (Hpvm : m <= pv).
  { unfold pivot_doc in Hp. apply minN_spec in Hp as [Hin _]. apply filter_In in Hin as [Hin _].
    apply minN_spec in Hm as [_ Hmm]. now apply Hmm. }
  destruct (N.eqb_spec pv m) as [Epv|Npv].
  - (* candidate document m *)
    subst pv. destruct (heads_at_min s m Hm) as [Esc Eblk].
    assert (Hsplit : Permutation (A (m + 1)) (A s ++ map key (filter (fun d => (s <=? d) && (d <? m + 1)) acc)))
      by (apply A_split; lia).
    assert (Hrange : forall d, In d U -> s <= d -> d < m + 1 -> d = m).
    { intros d Hd H1 H2. specialize (Hmin d Hd H1). lia. }
    assert (Hleft : (left (m + 1) < left s)%nat) by (apply (left_decreases s (m + 1) m); try assumption; lia).
    destruct (bmw && (sumN (map pb (flat_map (head_at m) (cs_at s))) <? theta)) eqn:Eblock.
    + (* rejected by the block-max check *)
      apply andb_true_iff in Eblock as [_ Eb]. apply N.ltb_lt in Eb.
      exists (m + 1). split; [lia|]. split; [now apply advance_at_min|]. split; [|exact Hleft].
      rewrite (sort_perm_topk _ _ _ Hsplit). symmetry. apply heap_absorbs.
      intros x Hx. apply keys_of_range in Hx as (d & -> & Hu & H1 & H2 & _).
      rewrite (Hrange d Hu H1 H2). exists m. repeat split; try assumption. left. fold theta. lia.
    + rewrite Esc.
      destruct (accept m (sc m)) eqn:Eacc; cbn [andb].
      * assert (Hone : filter (fun d => (s <=? d) && (d <? m + 1)) acc = [m]).
        { unfold acc. apply filter_single; try assumption.
          - destruct (N.leb_spec s m), (N.ltb_spec m (m + 1)); try lia; reflexivity.
          - intros d Hd Hr. apply andb_true_iff in Hr as [H1 H2].
            apply N.leb_le in H1. apply N.ltb_lt in H2. now apply Hrange. }
        rewrite Hone in Hsplit. cbn [map] in Hsplit.
        destruct ((Nat.ltb (length (topk k (A s))) k) || (theta <? sc m)) eqn:Eins.
        -- exists (m + 1). split; [lia|]. split; [now apply advance_at_min|]. split; [|exact Hleft].
           rewrite (sort_perm_topk _ _ _ Hsplit). symmetry. apply topk_snoc.
        -- exists (m + 1). split; [lia|]. split; [now apply advance_at_min|]. split; [|exact Hleft].
           rewrite (sort_perm_topk _ _ _ Hsplit). symmetry. apply heap_absorbs.
           apply orb_false_iff in Eins as [E1 E2]. apply Nat.ltb_ge in E1. apply N.ltb_ge in E2.
           intros x [<-|[]]. exists m. repeat split; try assumption. right. fold theta. split; assumption.
      * exists (m + 1). split; [lia|]. split; [now apply advance_at_min|]. split; [|exact Hleft].
        rewrite (sort_perm_topk _ _ _ Hsplit).
        replace (filter (fun d => (s <=? d) && (d <? m + 1)) acc) with (@nil N); [now rewrite app_nil_r|].
        symmetry. apply filter_none. rewrite Forall_forall. intros d Hd.
        unfold acc in Hd. apply filter_In in Hd as [Hu Ha].
        destruct (N.leb_spec s d), (N.ltb_spec d (m + 1)); cbn [andb]; try reflexivity.
        rewrite (Hrange d Hu) in Ha by assumption. congruence.
  - (* skip to the pivot document *)
    assert (Hlt : m < pv) by lia.
    exists pv. split; [lia|]. split; [apply advance_to_pivot; lia|]. split.
    + rewrite (sort_perm_topk _ _ _ (A_split s pv ltac:(lia))). symmetry. apply heap_absorbs.
      intros x Hx. apply keys_of_range in Hx as (d & -> & Hu & H1 & H2 & _).
      exists d. repeat split; try assumption. left. now apply (before_pivot s theta pv d Hp).
    + apply (left_decreases s pv m); assumption.
Qed.

Lemma run_sound : forall fuel s, (left s < fuel)%nat ->
  run M B k bmw accept fuel (cs_at s) (topk k (A s)) = Some (brute M B k accept T U).
Proof.
  induction fuel as [|f IH]; intros s Hf; [lia|]. cbn [run].
  pose proof (step_sound s) as Hs.
  destruct (step M B k bmw accept (cs_at s) (topk k (A s))) as [|cs' hp'].
  - now rewrite Hs.
  - destruct Hs as (s' & _ & -> & -> & Hl). apply IH. lia.
Qed.

Lemma universe_le_postings : (length U <= total_postings T)%nat.
Proof.
  unfold total_postings. rewrite <- (map_length pd (flat_map t_ps T)).
  apply NoDup_incl_length; [exact HU_nodup|]. intros d Hd.
  apply HU in Hd as (t & p & Ht & Hp & <-). apply in_map. apply in_flat_map. exists t. tauto.
Qed.

Theorem wand_eq_brute : wand M B k bmw accept T = Some (brute M B k accept T U).
Proof.
  unfold wand. destruct (Nat.eqb_spec k 0) as [E|_]; [lia|].
  assert (Hstart : start T = cs_at 0).
  { unfold start, cs_at. apply map_ext. intros t. f_equal. symmetry. apply from_all. intros; lia. }
  assert (HA0 : topk k (A 0) = []).
  { unfold A. replace (filter (fun d => d <? 0) acc) with (@nil N); [now destruct k|].
    symmetry. apply filter_none. rewrite Forall_forall. intros d _. destruct (N.ltb_spec d 0); [lia|reflexivity]. }
  rewrite Hstart, <- HA0. apply run_sound.
  pose proof universe_le_postings. unfold left.
  assert ((length (filter (geb 0) U) <= length U)%nat).
  { clear. induction U as [|x l IH]; [cbn; lia|]. cbn [filter]. destruct (geb 0 x); cbn [length]; lia. }
  lia.
Qed.

End Soundness.

(* ------------------------------------------------------------------ witnesses *)

Definition mkp (d c b : N) : posting := {| pd := d; pc := c; pb := b |}.

(** block-bound pivoting (the code as found): term 0 = [d1: 3 | d5: 1 | d6: 5] in blocks of one
    posting, term 1 = [d7: 2]; k = 1.  After d1 the threshold is 3; the current blocks bound 1 and 2,
    so the pivot is d7 and term 0 is advanced past d6, whose score 5 beats everything. *)
Definition wit_terms : list term :=
  [ {| t_ub := 5; t_ps := [mkp 1 3 3; mkp 5 1 1; mkp 6 5 5] |};
    {| t_ub := 2; t_ps := [mkp 7 2 2] |} ].
Definition wit_U : list N := [1; 5; 6; 7].

Theorem block_pivot_refuted :
  Forall wf_term wit_terms
  /\ wand_old 7 8 1 (fun _ _ => true) wit_terms = Some [enc 7 8 3 1]
  /\ brute 7 8 1 (fun _ _ => true) wit_terms wit_U = [enc 7 8 5 6]
  /\ wand 7 8 1 true (fun _ _ => true) wit_terms = Some [enc 7 8 5 6].
Proof.
  split.
  - assert (Hw : forall t, In t wit_terms -> wf_term t).
    { intros t [<-|[<-|[]]]; split; cbn [t_ps t_ub psorted].
      + repeat split; repeat (apply Forall_cons; [cbn; lia|]); apply Forall_nil.
      + intros p Hp. repeat (destruct Hp as [<-|Hp]; [cbn; lia|]). destruct Hp.
      + repeat split; repeat (apply Forall_cons; [cbn; lia|]); apply Forall_nil.
      + intros p Hp. repeat (destruct Hp as [<-|Hp]; [cbn; lia|]). destruct Hp. }
    apply Forall_forall. exact Hw.
  - repeat split; vm_compute; reflexivity.
Qed.

(** bounds that do not bound the final score (a score adjustment raising it): the same loop with a
    term whose contributions exceed its term-wide bound prunes the best document *)
Definition adj_terms : list term :=
  [ {| t_ub := 2; t_ps := [mkp 1 2 2; mkp 4 9 9] |}; {| t_ub := 3; t_ps := [mkp 2 3 3; mkp 9 1 1] |} ].

Theorem invalid_bounds_refuted :
  wand 20 16 1 false (fun _ _ => true) adj_terms = Some [enc 20 16 3 2]
  /\ brute 20 16 1 (fun _ _ => true) adj_terms [1; 2; 4; 9] = [enc 20 16 9 4].
Proof. split; vm_compute; reflexivity. Qed.
