(** C09 — the comparison [spec] accepts the exhaustive result itself (what the proved loop returns). *)
From Coq Require Import List NArith ZArith Bool Lia.
From SL Require Import Base.Tie C09.Model.
Import ListNotations.
Open Scope Z_scope.

Lemma close_refl : forall a, close a a = true.
Proof. intros a. unfold close, tol. rewrite Z.sub_diag. cbn [Z.abs]. apply Z.leb_le. lia. Qed.

Lemma same_positions_refl : forall all near l, same_positions all near l l = true.
Proof.
  intros all near l. induction l as [|r l IH]; [reflexivity|]. cbn [same_positions].
  rewrite close_refl, N.eqb_refl, IH. reflexivity.
Qed.

Definition exhaustive_observation (c : case) : case :=
  {| near := near c; reference := reference c; wand_err := false; wand := reference c;
     bmw_err := false; bmw := reference c; custom := custom c |}.

Theorem spec_accepts_exhaustive : forall c, nodup_ids (reference c) = true ->
  spec (exhaustive_observation c) = true.
Proof.
  intros c H. unfold spec, same_ranking. cbn [exhaustive_observation wand_err bmw_err wand bmw reference near].
  rewrite same_positions_refl, H. reflexivity.
Qed.
