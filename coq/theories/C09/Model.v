(** C09 — pruned top-k equals exhaustive top-k.
    Part 1 (this file): the executable comparison used by the tie — the hits of one request under
    execution = wand / bmw against the hits of the same request under execution = bm25.
    Part 2 (C09/Wand.v): a model of the WAND / block-max pivot loop with its soundness proof.

    Scores are integers: f32 score * 2^24 (computed by the engine). *)
From Coq Require Import List NArith ZArith Bool.
From SL Require Import Base.Tie.
Import ListNotations.
Open Scope Z_scope.

Definition hit : Type := (N * Z)%type.

Record case := {
  near : list hit;        (* exhaustively ranked documents whose score is near the reference's last score *)
  reference : list hit;   (* execution = bm25 *)
  wand_err : bool; wand : list hit;
  bmw_err : bool; bmw : list hit;
  custom : bool           (* the query has a score-modifying node (function_score, script_score,
                             rank_feature, constant_score) *)
}.

(** "same scores": relative 1e-6, absolute 1e-6 (= 17 units of 2^-24).  The strategies add the same
    floats in different orders (hash-map order in brute force, document order in the pivot loop). *)
Definition tol (a : Z) : Z := Z.max 17 (Z.abs a / 1000000).
Definition close (a b : Z) : bool := Z.abs (a - b) <=? tol a.

Definition has_id (i : N) (l : list hit) : bool := existsb (fun h => N.eqb (fst h) i) l.

Fixpoint nodup_ids (l : list hit) : bool :=
  match l with [] => true | h :: t => negb (has_id (fst h) t) && nodup_ids t end.

Definition last_score (l : list hit) : Z := snd (last l (0%N, 0)).

(** position by position: the scores agree, and the document is the reference's document, or a
    reference document whose score is within tolerance of this position's (a tie permuted by
    rounding), or — at the cut — a document outside the reference whose exhaustive score ties with
    the reference's last score *)
Fixpoint same_positions (ref_all near ref obs : list hit) : bool :=
  match ref, obs with
  | [], [] => true
  | r :: ref', o :: obs' =>
      close (snd r) (snd o)
      && (N.eqb (fst r) (fst o)
          || existsb (fun r' => N.eqb (fst r') (fst o) && close (snd r') (snd r)) ref_all
          || (negb (has_id (fst o) ref_all)
              && existsb (fun x => N.eqb (fst x) (fst o) && close (snd x) (last_score ref_all)) near))
      && same_positions ref_all near ref' obs'
  | _, _ => false
  end.

Definition same_ranking (c : case) (obs : list hit) : bool :=
  same_positions (reference c) (near c) (reference c) obs && nodup_ids obs.

(** Executable specification: wand and bmw return the same hits, in the same order, with the same
    scores as bm25 (no error either). *)
Definition spec (c : case) : bool :=
  negb (wand_err c) && same_ranking c (wand c) && negb (bmw_err c) && same_ranking c (bmw c).

Definition known_class (c : case) : N := 0%N.

Definition check_case (c : case) : N := verdict_spec (spec c) (known_class c).
