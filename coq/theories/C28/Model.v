(** C28 — which paths an index opened at root [r] touches.
    A path is (root, leaf).  The manifest stores, per segment, the paths of its files as written
    by whoever committed the segment - possibly under another root (the directory was copied).
    [Index::open] (after the fix) rebases every stored path by file name onto the opened root;
    everything afterwards uses the in-memory manifest. Transcribes index/mod.rs
    (open_with_storage, rebase_segment_paths, compact, cleanup_segments), index/directory.rs
    (segment_paths, wal_path), api/writer.rs (load_live_docs, commit) at the level of paths. *)
From Coq Require Import List NArith Bool.
From SL Require Import Base.Tie.
Import ListNotations.
Open Scope N_scope.

Definition path := (N * N)%type.              (* root, leaf *)
Definition segfiles := list path.             (* terms, postings, docstore, fast, meta, (vector dir) *)
Definition pmanifest := list segfiles.

Definition leaf_man : N := 1.
Definition leaf_tmp : N := 2.
Definition leaf_wal : N := 3.

Definition rebase (r : N) (p : path) : path := (r, snd p).
Definition open_rebased (r : N) (stored : pmanifest) : pmanifest := map (map (rebase r)) stored.
(** the code before the fix used the stored strings as they were *)
Definition open_verbatim (r : N) (stored : pmanifest) : pmanifest := stored.

Inductive op :=
| OSearch                         (* reader(): opens every file of every segment *)
| OCommit (leaves : list N)       (* a commit that writes one new segment with these fresh leaves *)
| OCommitDel                      (* a delete-only commit *)
| OCompact (leaves : list N).     (* compaction into one new segment *)

Definition all_files (m : pmanifest) : list path := concat m.

(** state = in-memory manifest; result = new state and the paths read/written/unlinked *)
Definition pstep (r : N) (m : pmanifest) (o : op) : pmanifest * list path :=
  match o with
  | OSearch => (m, all_files m)
  | OCommit leaves =>
      let sg := map (fun l => (r, l)) leaves in
      (m ++ [sg],
       (r, leaf_wal) :: all_files m ++ sg ++ [(r, leaf_tmp); (r, leaf_man); (r, leaf_wal)])
  | OCommitDel =>
      (m, (r, leaf_wal) :: all_files m ++ [(r, leaf_tmp); (r, leaf_man); (r, leaf_wal)])
  | OCompact leaves =>
      match m with
      | [] | [_] => (m, all_files m)
      | _ =>
          let sg := map (fun l => (r, l)) leaves in
          ([sg], all_files m ++ sg ++ [(r, leaf_tmp); (r, leaf_man)] ++ all_files m)
      end
  end.

Fixpoint prun (r : N) (m : pmanifest) (ops : list op) : list (list path) :=
  match ops with
  | [] => []
  | o :: ops' => let '(m', t) := pstep r m o in t :: prun r m' ops'
  end.

Definition touched (r : N) (stored : pmanifest) (ops : list op) : list (list path) :=
  ((r, leaf_man) :: nil) :: prun r (open_rebased r stored) ops.

Definition touched_verbatim (r : N) (stored : pmanifest) (ops : list op) : list (list path) :=
  ((r, leaf_man) :: nil) :: prun r (open_verbatim r stored) ops.

(** Observation from the implementation: per step (open first, then each op) the set of root
    classes of the paths it touched (1 = the opened copy, 0 = the original location, 2 = elsewhere),
    whether the results equalled the expected contents, and whether the original directory was
    byte-for-byte unchanged at the end. *)
Record obs28 := { roots : list (list N); results_ok : bool; original_untouched : bool }.

Fixpoint dedupN (l : list N) : list N :=
  match l with
  | [] => []
  | x :: l' => if existsb (N.eqb x) l' then dedupN l' else x :: dedupN l'
  end.

Definition root_classes (ps : list path) : list N := dedupN (map fst ps).

Definition all_root (r : N) (l : list N) : bool := forallb (N.eqb r) l.

Definition spec (o : obs28) : bool :=
  forallb (all_root 1) (roots o) && results_ok o && original_untouched o.

Fixpoint lists_eqb (a b : list (list N)) : bool :=
  match a, b with
  | [], [] => true
  | x :: a', y :: b' =>
      (Nat.eqb (length x) (length y)) && forallb (fun p => N.eqb (fst p) (snd p)) (combine x y)
      && lists_eqb a' b'
  | _, _ => false
  end.

(** the harness reports an op that touched nothing as [] and otherwise [1] / [0;1] ... sorted *)
Definition corr (stored : pmanifest) (ops : list op) (o : obs28) : bool :=
  lists_eqb (map root_classes (touched 1 stored ops)) (roots o).

Definition check_case (c : pmanifest * list op * obs28) : N :=
  let '(stored, ops, o) := c in
  verdict (corr stored ops o) (spec o) 0.
