From Coq Require Import List NArith Bool Lia.
From SL Require Import Base.Tie C28.Model.
Import ListNotations.
Open Scope N_scope.

Definition under (r : N) (ps : list path) : Prop := Forall (fun p => fst p = r) ps.
Definition munder (r : N) (m : pmanifest) : Prop := Forall (under r) m.

Lemma under_app r a b : under r a -> under r b -> under r (a ++ b).
Proof. unfold under. intros. apply Forall_app; auto. Qed.

Lemma under_all_files r m : munder r m -> under r (all_files m).
Proof.
  unfold munder, all_files. induction 1 as [|x l Hx Hl IH]; cbn; [constructor|].
  apply under_app; auto.
Qed.

Lemma under_fresh r leaves : under r (map (fun l => (r, l)) leaves).
Proof. unfold under. apply Forall_forall. intros p Hp. apply in_map_iff in Hp as [l [<- _]]. reflexivity. Qed.

Lemma open_rebased_under r stored : munder r (open_rebased r stored).
Proof.
  unfold munder, open_rebased. apply Forall_forall. intros sg Hs.
  apply in_map_iff in Hs as [sg0 [<- _]]. unfold under. apply Forall_forall. intros p Hp.
  apply in_map_iff in Hp as [p0 [<- _]]. reflexivity.
Qed.

Lemma compact_touched_under r (af : list path) leaves :
  under r af ->
  under r (af ++ map (fun l => (r, l)) leaves ++ [(r, leaf_tmp); (r, leaf_man)] ++ af).
Proof.
  intros Ha. repeat apply under_app; auto; try apply under_fresh. repeat constructor.
Qed.

Lemma pstep_under r m o :
  munder r m -> munder r (fst (pstep r m o)) /\ under r (snd (pstep r m o)).
Proof.
  intros Hm. pose proof (under_all_files r m Hm) as Ha.
  assert (H3 : under r [(r, leaf_tmp); (r, leaf_man); (r, leaf_wal)]) by (repeat constructor).
  destruct o as [|leaves| |leaves]; cbn [pstep fst snd].
  - split; auto.
  - split.
    + unfold munder. apply Forall_app. split; [exact Hm|]. constructor; [apply under_fresh|constructor].
    + constructor; [reflexivity|]. repeat apply under_app; auto. apply under_fresh.
  - split; auto. constructor; [reflexivity|]. apply under_app; auto.
  - destruct m as [|s1 [|s2 rest]] eqn:Em; cbn [fst snd].
    + split; auto.
    + split; auto.
    + split.
      * constructor; [apply under_fresh | constructor].
      * apply compact_touched_under. exact Ha.
Qed.

Lemma prun_under r ops : forall m, munder r m -> Forall (under r) (prun r m ops).
Proof.
  induction ops as [|o ops IH]; intros m Hm; cbn [prun]; [constructor|].
  destruct (pstep r m o) as [m' t] eqn:E.
  pose proof (pstep_under r m o Hm) as [H1 H2]. rewrite E in H1, H2. cbn in H1, H2.
  constructor; auto.
Qed.

(** Everything an index opened at [r] reads, writes or deletes lies under [r], whatever roots the
    stored manifest mentions and whatever is done afterwards. *)
Lemma self_contained r stored ops : Forall (under r) (touched r stored ops).
Proof.
  unfold touched. constructor; [repeat constructor|]. apply prun_under, open_rebased_under.
Qed.

Lemma root_classes_under r ps : under r ps -> all_root r (root_classes ps) = true.
Proof.
  unfold under, all_root, root_classes. intros H.
  assert (G : forall l, Forall (fun x => x = r) l -> forallb (N.eqb r) (dedupN l) = true).
  { induction l as [|x l IH]; intros Hl; cbn; [reflexivity|].
    inversion Hl; subst. destruct (existsb (N.eqb r) l); [auto|]. cbn. rewrite N.eqb_refl. auto. }
  apply G. apply Forall_forall. intros x Hx. apply in_map_iff in Hx as [p [<- Hp]].
  rewrite Forall_forall in H. auto.
Qed.

Lemma model_meets_spec stored ops :
  spec {| roots := map root_classes (touched 1 stored ops); results_ok := true; original_untouched := true |} = true.
Proof.
  unfold spec; cbn [roots results_ok original_untouched]. rewrite !andb_true_r.
  apply forallb_forall. intros l Hl. apply in_map_iff in Hl as [ps [<- Hps]].
  apply root_classes_under. pose proof (self_contained 1 stored ops) as H.
  rewrite Forall_forall in H. auto.
Qed.
