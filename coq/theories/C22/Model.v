(** C22 — Completion suggestions are consistent with the term dictionary.
    Definitions only; proofs are in Proofs.v.

    Strings never enter Coq: the engine interns the terms of the suggested field in byte-wise
    lexicographic order, so that the order of ids is the order of the strings ([String::cmp]).
    A layout is the list of segments; a segment is its term dictionary for the field, in
    dictionary order, with the document frequency of each term in that segment.  The match
    predicate of the request (starts-with for plain completion; shared prefix + length filter +
    bounded Levenshtein for fuzzy completion) is an oracle evaluated by the engine:
    [e_dist] = Some d when the term is a candidate at distance d (d = 0 for plain completion).

    [M] = api/reader.rs completion_suggest / collect_completion_candidates: per-segment
          dictionary walk in order, a global visit counter with the scan cap, accumulation per
          term, sort by (score desc, text asc), truncate.
    [S] = the property statement as a checker of the observed option list. *)
From Coq Require Import List NArith Bool Arith.
From SL Require Import Base.Tie.
Import ListNotations.
Open Scope N_scope.

Record entry := { e_term : N; e_df : N; e_dist : option N }.
Definition layout := list (list entry).

Record request := {
  r_size   : N;
  r_fuzzy  : bool;     (* fuzzy options present                                              *)
  r_live   : bool;     (* fuzzy: term_len >= min_length, max_expansions > 0, max_edits > 0    *)
  r_maxexp : N         (* fuzzy: max_expansions                                               *)
}.

(** 6 * distance_weight d = 6 / (d + 1), d <= 2 *)
Definition w6 (d : N) : N := 6 / (d + 1).

Record opt := { o_text : N; o_df : N; o_score6 : N }.

(** scan cap: plain = clamp(size*5, 64, 256); fuzzy = max(min(max_expansions, 256), size) *)
Definition cap (r : request) : N :=
  if r_fuzzy r then N.max (N.min (r_maxexp r) 256) (r_size r)
  else N.min (N.max (r_size r * 5) 64) 256.

Definition visit := (N * N * N)%type.     (* term, df, 6 * score contribution *)
Definition v_term (v : visit) : N := fst (fst v).

Definition entry_visit (e : entry) : list visit :=
  match e_dist e with
  | Some d => if e_df e =? 0 then [] else [(e_term e, e_df e, w6 d * e_df e)]
  | None => []
  end.

(** the dictionary walk without the cap: every candidate entry with a positive df, in order *)
Definition visits (l : layout) : list visit := flat_map (fun seg => flat_map entry_visit seg) l.

(** HashMap accumulation, kept in first-insertion order *)
Fixpoint add_visit (t df sc : N) (acc : list opt) : list opt :=
  match acc with
  | [] => [{| o_text := t; o_df := df; o_score6 := sc |}]
  | o :: acc' =>
      if o_text o =? t then {| o_text := t; o_df := o_df o + df; o_score6 := o_score6 o + sc |} :: acc'
      else o :: add_visit t df sc acc'
  end.

Definition step (acc : list opt) (v : visit) : list opt :=
  add_visit (fst (fst v)) (snd (fst v)) (snd v) acc.
Definition accumulate (vs : list visit) : list opt := fold_left step vs [].

(** options.sort_by(score desc, text asc) *)
Definition before (a b : opt) : bool :=
  (o_score6 b <? o_score6 a) || ((o_score6 a =? o_score6 b) && (o_text a <? o_text b)).
Definition leo (a b : opt) : bool := negb (before b a).

Fixpoint insert_o (x : opt) (l : list opt) : list opt :=
  match l with
  | [] => [x]
  | y :: l' => if leo x y then x :: l else y :: insert_o x l'
  end.
Definition sort_o (l : list opt) : list opt := fold_right insert_o [] l.

Definition dead (r : request) : bool := (r_size r =? 0) || (r_fuzzy r && negb (r_live r)).

Definition suggest (r : request) (l : layout) : list opt :=
  if dead r then []
  else firstn (N.to_nat (r_size r)) (sort_o (accumulate (firstn (N.to_nat (cap r)) (visits l)))).

(** * Specification *)
Definition sumN (l : list N) : N := fold_right N.add 0 l.

(** number of indexed documents containing candidate term t (sum over the segments), and its score *)
Definition cand_df (l : layout) (t : N) : N :=
  sumN (flat_map (fun seg => flat_map (fun e => match e_dist e with
                                                 | Some _ => if e_term e =? t then [e_df e] else []
                                                 | None => [] end) seg) l).
Definition cand_score6 (l : layout) (t : N) : N :=
  sumN (flat_map (fun seg => flat_map (fun e => match e_dist e with
                                                 | Some d => if e_term e =? t then [w6 d * e_df e] else []
                                                 | None => [] end) seg) l).
Definition cand_terms (l : layout) : list N := map v_term (visits l).

Definition below_cap (r : request) (l : layout) : bool := N.of_nat (length (visits l)) <=? cap r.

Fixpoint sorted_obs (os : list opt) : bool :=
  match os with
  | a :: rest => match rest with b :: _ => before a b | [] => true end && sorted_obs rest
  | [] => true
  end.

Definition is_cand (l : layout) (t : N) : bool := existsb (N.eqb t) (cand_terms l).

(** The statement, for a layout below the scan cap: at most size options, sorted by score
    descending then text; each option an indexed candidate term, with doc_freq = number of
    documents containing it and the score of its distance; no better candidate left out. *)
Definition spec (r : request) (l : layout) (obs : list opt) : bool :=
  (N.of_nat (length obs) <=? r_size r)
  && sorted_obs obs
  && forallb (fun o => is_cand l (o_text o)
                       && (o_df o =? cand_df l (o_text o))
                       && (o_score6 o =? cand_score6 l (o_text o))) obs
  && (dead r
      || forallb (fun t => existsb (fun o => o_text o =? t) obs
                           || ((N.of_nat (length obs) =? r_size r)
                               && forallb (fun o => before o {| o_text := t; o_df := cand_df l t;
                                                                 o_score6 := cand_score6 l t |}) obs))
                 (cand_terms l)).

(** weaker statement that holds above the cap as well: size, order, candidates, df not above the truth *)
Definition spec_any (r : request) (l : layout) (obs : list opt) : bool :=
  (N.of_nat (length obs) <=? r_size r)
  && sorted_obs obs
  && forallb (fun o => is_cand l (o_text o) && (o_df o <=? cand_df l (o_text o)) && negb (o_df o =? 0)) obs.

Definition opt_eqb (a b : opt) : bool :=
  (o_text a =? o_text b) && (o_df a =? o_df b) && (o_score6 a =? o_score6 b).
Fixpoint opts_eqb (a b : list opt) : bool :=
  match a, b with
  | [], [] => true
  | x :: a', y :: b' => opt_eqb x y && opts_eqb a' b'
  | _, _ => false
  end.

(** well-formed oracle data: dictionaries strictly increasing, one distance per term *)
Fixpoint strictly_inc (l : list N) : bool :=
  match l with
  | a :: rest => match rest with b :: _ => a <? b | [] => true end && strictly_inc rest
  | [] => true
  end.
Definition wf (l : layout) : bool := forallb (fun seg => strictly_inc (map e_term seg)) l.

(** One case: the same documents under two segment layouts, one request, both observations. *)
Definition check_case (c : request * (layout * list opt) * (layout * list opt)) : N :=
  let '(r, (l1, o1), (l2, o2)) := c in
  if wf l1 && wf l2 then
    let corr := opts_eqb (suggest r l1) o1 && opts_eqb (suggest r l2) o2 in
    let both := below_cap r l1 && below_cap r l2 in
    let sp := (if below_cap r l1 then spec r l1 o1 else spec_any r l1 o1)
              && (if below_cap r l2 then spec r l2 o2 else spec_any r l2 o2)
              && (if both then opts_eqb o1 o2 else true) in
    verdict corr sp 0
  else 2.
