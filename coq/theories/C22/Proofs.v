(** C22 — proofs. *)
From Coq Require Import List NArith Bool Arith Lia Sorted.
From SL Require Import C22.Model.
Import ListNotations.
Open Scope N_scope.

Lemma sumN_app : forall a b, sumN (a ++ b) = sumN a + sumN b.
Proof. induction a as [|x a IH]; intros; cbn [app sumN fold_right]; [reflexivity|]. unfold sumN in *. rewrite IH. lia. Qed.

Lemma firstn_In : forall {A} (l : list A) n x, In x (firstn n l) -> In x l.
Proof.
  induction l as [|y l IH]; intros n x H; destruct n; cbn [firstn] in H; try destruct H.
  - left; assumption.
  - right; apply (IH n x H).
Qed.

Lemma sumN_cons : forall x l, sumN (x :: l) = x + sumN l.
Proof. reflexivity. Qed.

(** * Per-term sums over a visit list *)
Definition vdf (vs : list visit) (t : N) : N :=
  sumN (flat_map (fun v : visit => if v_term v =? t then [snd (fst v)] else []) vs).
Definition vsc (vs : list visit) (t : N) : N :=
  sumN (flat_map (fun v : visit => if v_term v =? t then [snd v] else []) vs).

Definition adf (acc : list opt) (t : N) : N :=
  sumN (flat_map (fun o => if o_text o =? t then [o_df o] else []) acc).
Definition asc (acc : list opt) (t : N) : N :=
  sumN (flat_map (fun o => if o_text o =? t then [o_score6 o] else []) acc).

Lemma add_visit_adf : forall t df sc acc t',
  adf (add_visit t df sc acc) t' = adf acc t' + (if t =? t' then df else 0).
Proof.
  induction acc as [|o acc IH]; intros t'; cbn [add_visit].
  - unfold adf. cbn [flat_map o_text o_df]. destruct (t =? t'); cbn; lia.
  - destruct (o_text o =? t) eqn:E.
    + apply N.eqb_eq in E. unfold adf. cbn [flat_map o_text o_df]. rewrite E.
      destruct (t =? t'); cbn [app]; rewrite ?sumN_app; cbn [sumN fold_right]; lia.
    + unfold adf in *. cbn [flat_map]. rewrite !sumN_app. rewrite IH. lia.
Qed.

Lemma add_visit_asc : forall t df sc acc t',
  asc (add_visit t df sc acc) t' = asc acc t' + (if t =? t' then sc else 0).
Proof.
  induction acc as [|o acc IH]; intros t'; cbn [add_visit].
  - unfold asc. cbn [flat_map o_text o_score6]. destruct (t =? t'); cbn; lia.
  - destruct (o_text o =? t) eqn:E.
    + apply N.eqb_eq in E. unfold asc. cbn [flat_map o_text o_score6]. rewrite E.
      destruct (t =? t'); cbn [app]; rewrite ?sumN_app; cbn [sumN fold_right]; lia.
    + unfold asc in *. cbn [flat_map]. rewrite !sumN_app. rewrite IH. lia.
Qed.

Lemma add_visit_texts : forall t df sc acc t',
  In t' (map o_text (add_visit t df sc acc)) <-> t' = t \/ In t' (map o_text acc).
Proof.
  induction acc as [|o acc IH]; intros t'; cbn [add_visit map In].
  - cbn. intuition.
  - destruct (o_text o =? t) eqn:E.
    + apply N.eqb_eq in E. cbn [map In o_text]. rewrite E. intuition.
    + cbn [map In]. rewrite IH. intuition.
Qed.

Lemma add_visit_nodup : forall t df sc acc,
  NoDup (map o_text acc) -> NoDup (map o_text (add_visit t df sc acc)).
Proof.
  induction acc as [|o acc IH]; intros H; cbn [add_visit].
  - cbn. constructor; [intros []|constructor].
  - cbn [map] in H. inversion H as [|? ? Hn Hd]; subst.
    destruct (o_text o =? t) eqn:E.
    + apply N.eqb_eq in E. cbn [map o_text]. rewrite <- E. constructor; assumption.
    + apply N.eqb_neq in E. cbn [map]. constructor; [|apply IH; exact Hd].
      intros Hin. apply add_visit_texts in Hin. destruct Hin as [Hin|Hin]; [congruence|contradiction].
Qed.

Lemma fold_step_adf : forall vs acc t, adf (fold_left step vs acc) t = adf acc t + vdf vs t.
Proof.
  induction vs as [|v vs IH]; intros acc t; cbn [fold_left].
  - unfold vdf. cbn. lia.
  - rewrite IH. unfold step. rewrite add_visit_adf. unfold vdf. cbn [flat_map]. rewrite sumN_app.
    unfold v_term. destruct (fst (fst v) =? t); cbn; lia.
Qed.

Lemma fold_step_asc : forall vs acc t, asc (fold_left step vs acc) t = asc acc t + vsc vs t.
Proof.
  induction vs as [|v vs IH]; intros acc t; cbn [fold_left].
  - unfold vsc. cbn. lia.
  - rewrite IH. unfold step. rewrite add_visit_asc. unfold vsc. cbn [flat_map]. rewrite sumN_app.
    unfold v_term. destruct (fst (fst v) =? t); cbn; lia.
Qed.

Lemma fold_step_texts : forall vs acc t,
  In t (map o_text (fold_left step vs acc)) <-> In t (map o_text acc) \/ In t (map v_term vs).
Proof.
  induction vs as [|v vs IH]; intros acc t; cbn [fold_left map In].
  - intuition.
  - rewrite IH. unfold step. rewrite add_visit_texts. unfold v_term. intuition.
Qed.

Lemma fold_step_nodup : forall vs acc, NoDup (map o_text acc) -> NoDup (map o_text (fold_left step vs acc)).
Proof.
  induction vs as [|v vs IH]; intros acc H; cbn [fold_left]; [exact H|].
  apply IH. apply add_visit_nodup. exact H.
Qed.

Lemma nodup_single : forall acc o, NoDup (map o_text acc) -> In o acc ->
  adf acc (o_text o) = o_df o /\ asc acc (o_text o) = o_score6 o.
Proof.
  induction acc as [|a acc IH]; intros o Hn Hin; [destruct Hin|].
  cbn [map] in Hn. inversion Hn as [|? ? Hna Hd]; subst.
  assert (Hz : forall t, ~ In t (map o_text acc) -> adf acc t = 0 /\ asc acc t = 0).
  { clear. induction acc as [|b acc IH]; intros t Ht; [split; reflexivity|].
    cbn [map In] in Ht. unfold adf, asc in *. cbn [flat_map].
    destruct (o_text b =? t) eqn:E; [apply N.eqb_eq in E; exfalso; apply Ht; left; exact E|].
    cbn [app]. apply IH. intros H. apply Ht. right. exact H. }
  destruct Hin as [->|Hin].
  - unfold adf, asc. cbn [flat_map]. rewrite N.eqb_refl. cbn [app]. rewrite !sumN_cons.
    destruct (Hz _ Hna) as [H1 H2]. unfold adf, asc in H1, H2. rewrite H1, H2. lia.
  - assert (o_text a <> o_text o).
    { intros E. apply Hna. rewrite E. apply in_map. exact Hin. }
    unfold adf, asc. cbn [flat_map]. apply N.eqb_neq in H. rewrite H. cbn [app].
    apply (IH o Hd Hin).
Qed.

(** characterization of the accumulated map *)
Lemma accumulate_char : forall vs,
  NoDup (map o_text (accumulate vs))
  /\ (forall t, In t (map o_text (accumulate vs)) <-> In t (map v_term vs))
  /\ (forall o, In o (accumulate vs) -> o_df o = vdf vs (o_text o) /\ o_score6 o = vsc vs (o_text o)).
Proof.
  intros vs. unfold accumulate. split; [|split].
  - apply fold_step_nodup. constructor.
  - intros t. rewrite fold_step_texts. cbn. intuition.
  - intros o Hin.
    destruct (nodup_single _ o (fold_step_nodup vs [] (NoDup_nil _)) Hin) as [H1 H2].
    rewrite fold_step_adf in H1. rewrite fold_step_asc in H2. cbn in H1, H2. split; congruence.
Qed.

(** * The sort *)
Lemma leo_spec : forall a b,
  leo a b = true <-> (o_score6 b < o_score6 a \/ (o_score6 a = o_score6 b /\ o_text a <= o_text b)).
Proof.
  intros. unfold leo, before. rewrite negb_true_iff, orb_false_iff, andb_false_iff.
  rewrite N.ltb_ge, N.eqb_neq, N.ltb_ge. lia.
Qed.

Lemma before_spec : forall a b,
  before a b = true <-> (o_score6 b < o_score6 a \/ (o_score6 a = o_score6 b /\ o_text a < o_text b)).
Proof.
  intros. unfold before. rewrite orb_true_iff, andb_true_iff, N.ltb_lt, N.eqb_eq, N.ltb_lt. reflexivity.
Qed.

Definition ord (a b : opt) : Prop := leo a b = true.

Lemma ord_total : forall a b, leo a b = false -> ord b a.
Proof.
  intros a b H. unfold ord. apply leo_spec.
  assert (~ (o_score6 b < o_score6 a \/ (o_score6 a = o_score6 b /\ o_text a <= o_text b))).
  { intros C. apply leo_spec in C. congruence. }
  lia.
Qed.

Lemma ord_trans : forall a b c, ord a b -> ord b c -> ord a c.
Proof. unfold ord. intros a b c H1 H2. apply leo_spec in H1, H2. apply leo_spec. lia. Qed.

Lemma insert_o_In : forall x y l, In y (insert_o x l) <-> y = x \/ In y l.
Proof.
  induction l as [|z l IH]; cbn [insert_o].
  - cbn. intuition.
  - destruct (leo x z); cbn [In]; [intuition|]. rewrite IH. intuition.
Qed.

Lemma sort_o_In : forall l y, In y (sort_o l) <-> In y l.
Proof.
  induction l as [|x l IH]; intros y; cbn [sort_o fold_right]; [reflexivity|].
  fold (sort_o l). rewrite insert_o_In, IH. cbn. intuition.
Qed.

Lemma insert_o_sorted : forall x l, StronglySorted ord l -> StronglySorted ord (insert_o x l).
Proof.
  induction l as [|z l IH]; intros H; cbn [insert_o].
  - constructor; constructor.
  - inversion H as [|? ? Hs Hf]; subst. destruct (leo x z) eqn:E.
    + constructor; [exact H|]. constructor; [exact E|].
      rewrite Forall_forall in *. intros w Hw. apply (ord_trans x z w E (Hf w Hw)).
    + constructor; [apply IH; exact Hs|].
      rewrite Forall_forall in *. intros w Hw. apply insert_o_In in Hw.
      destruct Hw as [->|Hw]; [apply ord_total; exact E|apply Hf; exact Hw].
Qed.

Lemma sort_o_sorted : forall l, StronglySorted ord (sort_o l).
Proof.
  induction l as [|x l IH]; cbn [sort_o fold_right]; [constructor|].
  apply insert_o_sorted. exact IH.
Qed.

Lemma insert_o_texts : forall x l t, In t (map o_text (insert_o x l)) <-> t = o_text x \/ In t (map o_text l).
Proof.
  induction l as [|z l IH]; intros t; cbn [insert_o].
  - cbn. intuition.
  - destruct (leo x z); cbn [map In]; [intuition|]. rewrite IH. intuition.
Qed.

Lemma insert_o_nodup : forall x l,
  ~ In (o_text x) (map o_text l) -> NoDup (map o_text l) -> NoDup (map o_text (insert_o x l)).
Proof.
  induction l as [|z l IH]; intros Hx Hn; cbn [insert_o].
  - cbn. constructor; [intros []|constructor].
  - destruct (leo x z).
    + cbn [map]. constructor; assumption.
    + cbn [map] in *. inversion Hn as [|? ? Hz Hd]; subst. constructor.
      * intros Hin. apply insert_o_texts in Hin. destruct Hin as [Hin|Hin]; [|contradiction].
        apply Hx. left. exact Hin.
      * apply IH; [|exact Hd]. intros Hin. apply Hx. right. exact Hin.
Qed.

Lemma sort_o_texts : forall l t, In t (map o_text (sort_o l)) <-> In t (map o_text l).
Proof.
  induction l as [|x l IH]; intros t; cbn [sort_o fold_right]; [reflexivity|].
  fold (sort_o l). rewrite insert_o_texts, IH. cbn. intuition.
Qed.

Lemma sort_o_nodup : forall l, NoDup (map o_text l) -> NoDup (map o_text (sort_o l)).
Proof.
  induction l as [|x l IH]; intros H; cbn [sort_o fold_right]; [constructor|].
  fold (sort_o l). cbn [map] in H. inversion H as [|? ? Hx Hd]; subst.
  apply insert_o_nodup; [|apply IH; exact Hd]. rewrite sort_o_texts. exact Hx.
Qed.

Lemma nodup_text_inj : forall l a b, NoDup (map o_text l) -> In a l -> In b l -> o_text a = o_text b -> a = b.
Proof.
  induction l as [|x l IH]; intros a b Hn Ha Hb E; [destruct Ha|].
  cbn [map] in Hn. inversion Hn as [|? ? Hx Hd]; subst.
  destruct Ha as [->|Ha]; destruct Hb as [->|Hb]; try reflexivity.
  - exfalso. apply Hx. rewrite E. apply in_map. exact Hb.
  - exfalso. apply Hx. rewrite <- E. apply in_map. exact Ha.
  - apply IH; assumption.
Qed.

(** two sorted lists with the same elements (distinct texts) are equal *)
Lemma sorted_unique : forall l1 l2,
  StronglySorted ord l1 -> StronglySorted ord l2 ->
  NoDup (map o_text l1) -> NoDup (map o_text l2) ->
  (forall x, In x l1 <-> In x l2) -> l1 = l2.
Proof.
  induction l1 as [|a l1 IH]; intros l2 S1 S2 N1 N2 E.
  - destruct l2 as [|b l2]; [reflexivity|]. destruct (proj2 (E b) (or_introl eq_refl)).
  - destruct l2 as [|b l2]; [destruct (proj1 (E a) (or_introl eq_refl))|].
    inversion S1 as [|? ? S1' F1]; subst. inversion S2 as [|? ? S2' F2]; subst.
    rewrite Forall_forall in F1, F2.
    assert (Hab : a = b).
    { destruct (proj1 (E a) (or_introl eq_refl)) as [Hb|Hb]; [symmetry; exact Hb|].
      destruct (proj2 (E b) (or_introl eq_refl)) as [Ha|Ha]; [exact Ha|].
      pose proof (F2 a Hb) as O1. pose proof (F1 b Ha) as O2.
      unfold ord in O1, O2. apply leo_spec in O1, O2.
      apply (nodup_text_inj (a :: l1) a b N1); [left; reflexivity|right; exact Ha|lia]. }
    subst b. f_equal.
    cbn [map] in N1, N2. inversion N1 as [|? ? Na1 Nd1]; subst. inversion N2 as [|? ? Na2 Nd2]; subst.
    apply IH; try assumption.
    intros x. split; intros Hx.
    + destruct (proj1 (E x) (or_intror Hx)) as [Hxa|Hx']; [|exact Hx'].
      exfalso. apply Na1. rewrite Hxa. apply in_map. exact Hx.
    + destruct (proj2 (E x) (or_intror Hx)) as [Hxa|Hx']; [|exact Hx'].
      exfalso. apply Na2. rewrite Hxa. apply in_map. exact Hx.
Qed.

Lemma StronglySorted_firstn : forall {A} (R : A -> A -> Prop) n l, StronglySorted R l -> StronglySorted R (firstn n l).
Proof.
  induction n as [|n IH]; intros l H; [constructor|].
  destruct l as [|x l]; [constructor|]. cbn [firstn].
  inversion H as [|? ? Hs Hf]; subst. constructor; [apply IH; exact Hs|].
  rewrite Forall_forall in *. intros y Hy. apply Hf. apply (firstn_In _ _ _ Hy).
Qed.

(** * Visits *)
Lemma visits_in : forall l v, In v (visits l) ->
  exists seg e d, In seg l /\ In e seg /\ e_dist e = Some d /\ e_df e <> 0
                  /\ v = (e_term e, e_df e, w6 d * e_df e).
Proof.
  intros l v H. unfold visits in H. apply in_flat_map in H. destruct H as [seg [Hseg H]].
  apply in_flat_map in H. destruct H as [e [He H]]. unfold entry_visit in H.
  destruct (e_dist e) as [d|] eqn:Ed; [|destruct H].
  destruct (e_df e =? 0) eqn:E0; [destruct H|]. apply N.eqb_neq in E0.
  destruct H as [<-|[]]. exists seg, e, d. repeat split; assumption.
Qed.

Lemma cand_df_vdf : forall l t, cand_df l t = vdf (visits l) t.
Proof.
  intros l t. unfold cand_df, vdf, visits.
  induction l as [|seg l IH]; cbn [flat_map]; [reflexivity|].
  rewrite flat_map_app, !sumN_app, IH. f_equal. clear IH.
  induction seg as [|e seg IH]; cbn [flat_map]; [reflexivity|].
  rewrite flat_map_app, !sumN_app, IH. f_equal. unfold entry_visit.
  destruct (e_dist e) as [d|]; [|reflexivity].
  destruct (e_df e =? 0) eqn:E0.
  - apply N.eqb_eq in E0. cbn [flat_map]. destruct (e_term e =? t); cbn; lia.
  - cbn [flat_map]. unfold v_term. cbn [fst snd]. rewrite app_nil_r. reflexivity.
Qed.

Lemma cand_score_vsc : forall l t, cand_score6 l t = vsc (visits l) t.
Proof.
  intros l t. unfold cand_score6, vsc, visits.
  induction l as [|seg l IH]; cbn [flat_map]; [reflexivity|].
  rewrite flat_map_app, !sumN_app, IH. f_equal. clear IH.
  induction seg as [|e seg IH]; cbn [flat_map]; [reflexivity|].
  rewrite flat_map_app, !sumN_app, IH. f_equal. unfold entry_visit.
  destruct (e_dist e) as [d|]; [|reflexivity].
  destruct (e_df e =? 0) eqn:E0.
  - apply N.eqb_eq in E0. cbn [flat_map]. rewrite E0. destruct (e_term e =? t); cbn; lia.
  - cbn [flat_map]. unfold v_term. cbn [fst snd]. rewrite app_nil_r. reflexivity.
Qed.

Lemma vdf_pos : forall l t, In t (map v_term (visits l)) -> vdf (visits l) t <> 0.
Proof.
  intros l t H. apply in_map_iff in H. destruct H as [v [Hv Hin]].
  destruct (visits_in l v Hin) as [seg [e [d [_ [_ [_ [Hpos Hveq]]]]]]].
  unfold vdf. apply in_split in Hin. destruct Hin as [l1 [l2 ->]].
  rewrite flat_map_app, sumN_app. cbn [flat_map]. rewrite Hv, N.eqb_refl. cbn [app].
  rewrite sumN_cons. subst v. cbn [fst snd]. lia.
Qed.

Lemma vdf_zero : forall vs t, ~ In t (map v_term vs) -> vdf vs t = 0.
Proof.
  induction vs as [|v vs IH]; intros t H; [reflexivity|].
  cbn [map In] in H. unfold vdf in *. cbn [flat_map].
  destruct (v_term v =? t) eqn:E; [apply N.eqb_eq in E; exfalso; apply H; left; exact E|].
  cbn [app]. apply IH. intros Hin. apply H. right. exact Hin.
Qed.

Lemma opt_ext : forall a b, o_text a = o_text b -> o_df a = o_df b -> o_score6 a = o_score6 b -> a = b.
Proof. intros [] []; cbn; intros; subst; reflexivity. Qed.

Lemma below_cap_firstn : forall r l, below_cap r l = true -> firstn (N.to_nat (cap r)) (visits l) = visits l.
Proof. intros r l H. unfold below_cap in H. apply N.leb_le in H. apply firstn_all2. lia. Qed.

(** * Theorems *)
Theorem sorted_sized : forall r l,
  N.of_nat (length (suggest r l)) <= r_size r /\ StronglySorted ord (suggest r l).
Proof.
  intros r l. unfold suggest. destruct (dead r); [split; [cbn; lia|constructor]|]. split.
  - pose proof (firstn_le_length (N.to_nat (r_size r)) (sort_o (accumulate (firstn (N.to_nat (cap r)) (visits l))))). lia.
  - apply StronglySorted_firstn. apply sort_o_sorted.
Qed.

Theorem distinct_texts : forall r l, NoDup (map o_text (suggest r l)).
Proof.
  intros r l. unfold suggest. destruct (dead r); [constructor|].
  set (s := sort_o _). assert (Hn : NoDup (map o_text s)).
  { apply sort_o_nodup. apply (proj1 (accumulate_char _)). }
  clearbody s. revert Hn. generalize (N.to_nat (r_size r)) as n.
  induction s as [|x s IH]; intros n Hn; destruct n; cbn [firstn map]; try constructor.
  - cbn [map] in Hn. inversion Hn as [|? ? Hx Hd]; subst. intros Hin. apply Hx.
    apply in_map_iff in Hin. destruct Hin as [y [Hy Hin]]. rewrite <- Hy. apply in_map. apply (firstn_In _ _ _ Hin).
  - cbn [map] in Hn. inversion Hn; subst. apply IH. assumption.
Qed.

Theorem sound : forall r l o, In o (suggest r l) ->
  (exists seg e d, In seg l /\ In e seg /\ e_term e = o_text o /\ e_dist e = Some d /\ e_df e <> 0)
  /\ o_df o <> 0
  /\ o_df o <= cand_df l (o_text o)
  /\ (below_cap r l = true -> o_df o = cand_df l (o_text o) /\ o_score6 o = cand_score6 l (o_text o)).
Proof.
  intros r l o H. unfold suggest in H. destruct (dead r); [destruct H|].
  apply firstn_In in H. apply -> sort_o_In in H.
  set (vs := firstn (N.to_nat (cap r)) (visits l)) in *.
  destruct (accumulate_char vs) as [Hn [Ht Hc]].
  destruct (Hc o H) as [Hdf Hsc].
  assert (Htin : In (o_text o) (map v_term vs)) by (apply Ht; apply in_map; exact H).
  assert (Hsub : forall v, In v vs -> In v (visits l)) by (intros v Hv; apply (firstn_In _ _ _ Hv)).
  split; [|split; [|split]].
  - apply in_map_iff in Htin. destruct Htin as [v [Hv Hin]].
    destruct (visits_in l v (Hsub v Hin)) as [seg [e [d [H1 [H2 [H3 [H4 H5]]]]]]].
    exists seg, e, d. repeat split; try assumption. subst v. exact Hv.
  - rewrite Hdf. apply in_map_iff in Htin. destruct Htin as [v [Hv Hin]].
    destruct (visits_in l v (Hsub v Hin)) as [seg [e [d [_ [_ [_ [Hpos Hveq]]]]]]].
    unfold vdf. apply in_split in Hin. destruct Hin as [l1 [l2 E]]. rewrite E.
    rewrite flat_map_app, sumN_app. cbn [flat_map]. rewrite Hv, N.eqb_refl. cbn [app].
    rewrite sumN_cons. subst v. cbn [fst snd]. lia.
  - rewrite Hdf, cand_df_vdf. unfold vs.
    rewrite <- (firstn_skipn (N.to_nat (cap r)) (visits l)) at 2.
    unfold vdf. rewrite flat_map_app, sumN_app. lia.
  - intros Hb. unfold vs in Hdf, Hsc. rewrite (below_cap_firstn r l Hb) in Hdf, Hsc.
    rewrite cand_df_vdf, cand_score_vsc. split; assumption.
Qed.

Theorem layout_independent : forall r l1 l2,
  below_cap r l1 = true -> below_cap r l2 = true ->
  (forall t, cand_df l1 t = cand_df l2 t) ->
  (forall t, cand_score6 l1 t = cand_score6 l2 t) ->
  suggest r l1 = suggest r l2.
Proof.
  intros r l1 l2 B1 B2 Hdf Hsc. unfold suggest. destruct (dead r); [reflexivity|].
  rewrite (below_cap_firstn r l1 B1), (below_cap_firstn r l2 B2). f_equal.
  destruct (accumulate_char (visits l1)) as [N1 [T1 C1]].
  destruct (accumulate_char (visits l2)) as [N2 [T2 C2]].
  assert (Hterms : forall la lb, (forall t, cand_df la t = cand_df lb t) ->
            forall t, In t (map v_term (visits la)) -> In t (map v_term (visits lb))).
  { intros la lb Hd t Hin. pose proof (vdf_pos la t Hin) as Hp.
    rewrite <- cand_df_vdf, Hd, cand_df_vdf in Hp.
    destruct (in_dec N.eq_dec t (map v_term (visits lb))) as [Hy|Hn]; [exact Hy|].
    rewrite (vdf_zero _ _ Hn) in Hp. congruence. }
  assert (Hincl : forall la lb, (forall t, cand_df la t = cand_df lb t) -> (forall t, cand_score6 la t = cand_score6 lb t) ->
            forall o, In o (accumulate (visits la)) -> In o (accumulate (visits lb))).
  { intros la lb Hd Hs o Ho.
    destruct (accumulate_char (visits la)) as [_ [Ta Ca]].
    destruct (accumulate_char (visits lb)) as [_ [Tb Cb]].
    assert (Hin : In (o_text o) (map o_text (accumulate (visits lb)))).
    { apply Tb. apply (Hterms la lb Hd). apply Ta. apply in_map. exact Ho. }
    apply in_map_iff in Hin. destruct Hin as [o' [Ht Ho']].
    destruct (Ca o Ho) as [D1 S1]. destruct (Cb o' Ho') as [D2 S2].
    assert (o' = o).
    { apply opt_ext; [exact Ht| |].
      - rewrite D1, D2, Ht, <- !cand_df_vdf. symmetry. apply Hd.
      - rewrite S1, S2, Ht, <- !cand_score_vsc. symmetry. apply Hs. }
    subst o'. exact Ho'. }
  apply sorted_unique; try apply sort_o_sorted; try (apply sort_o_nodup; assumption).
  intros x. rewrite !sort_o_In. split.
  - apply (Hincl l1 l2 Hdf Hsc).
  - apply (Hincl l2 l1); intros; symmetry; [apply Hdf|apply Hsc].
Qed.

(** * The model meets the executable specification *)
Lemma ord_strict : forall a b, ord a b -> o_text a <> o_text b -> before a b = true.
Proof.
  intros a b H Hne. unfold ord in H. apply leo_spec in H. apply before_spec. lia.
Qed.

Lemma sorted_obs_of : forall l, StronglySorted ord l -> NoDup (map o_text l) -> sorted_obs l = true.
Proof.
  induction l as [|a l IH]; intros Hs Hn; [reflexivity|].
  inversion Hs as [|? ? Hs' Hf]; subst. cbn [map] in Hn. inversion Hn as [|? ? Ha Hd]; subst.
  cbn [sorted_obs]. rewrite (IH Hs' Hd), andb_true_r.
  destruct l as [|b l]; [reflexivity|].
  rewrite Forall_forall in Hf. apply ord_strict; [apply Hf; left; reflexivity|].
  intros E. apply Ha. rewrite E. left. reflexivity.
Qed.

Lemma sorted_app_ord : forall a b, StronglySorted ord (a ++ b) -> forall x y, In x a -> In y b -> ord x y.
Proof.
  induction a as [|z a IH]; intros b H x y Hx Hy; [destruct Hx|].
  cbn [app] in H. inversion H as [|? ? Hs Hf]; subst. destruct Hx as [->|Hx].
  - rewrite Forall_forall in Hf. apply Hf. apply in_or_app. right. exact Hy.
  - apply (IH b Hs x y Hx Hy).
Qed.

Lemma nodup_app_disj : forall {A} (a b : list A) x, NoDup (a ++ b) -> In x a -> In x b -> False.
Proof.
  induction a as [|z a IH]; intros b x H Ha Hb; [destruct Ha|].
  cbn [app] in H. inversion H as [|? ? Hz Hd]; subst. destruct Ha as [->|Ha].
  - apply Hz. apply in_or_app. right. exact Hb.
  - apply (IH b x Hd Ha Hb).
Qed.

Lemma suggest_in_cands : forall r l o, In o (suggest r l) -> In (o_text o) (cand_terms l).
Proof.
  intros r l o H. unfold suggest in H. destruct (dead r); [destruct H|].
  apply firstn_In in H. apply -> sort_o_In in H.
  destruct (accumulate_char (firstn (N.to_nat (cap r)) (visits l))) as [_ [Ht _]].
  assert (Hin : In (o_text o) (map v_term (firstn (N.to_nat (cap r)) (visits l)))) by (apply Ht; apply in_map; exact H).
  unfold cand_terms. apply in_map_iff in Hin. destruct Hin as [v [Hv Hin]].
  apply in_map_iff. exists v. split; [exact Hv|apply (firstn_In _ _ _ Hin)].
Qed.

Theorem model_meets_spec : forall r l, below_cap r l = true -> spec r l (suggest r l) = true.
Proof.
  intros r l Hb. unfold spec.
  destruct (sorted_sized r l) as [Hlen Hsorted].
  rewrite (proj2 (N.leb_le _ _) Hlen).
  rewrite (sorted_obs_of _ Hsorted (distinct_texts r l)). cbn [andb].
  assert (H3 : forallb (fun o => is_cand l (o_text o) && (o_df o =? cand_df l (o_text o))
                                 && (o_score6 o =? cand_score6 l (o_text o))) (suggest r l) = true).
  { apply forallb_forall. intros o Ho.
    destruct (sound r l o Ho) as [_ [_ [_ Hs]]]. destruct (Hs Hb) as [H1 H2].
    rewrite H1, H2, !N.eqb_refl, !andb_true_r.
    unfold is_cand. apply existsb_exists. exists (o_text o). split; [|apply N.eqb_refl].
    apply (suggest_in_cands r l o Ho). }
  rewrite H3. cbn [andb].
  destruct (dead r) eqn:Ed; [reflexivity|]. cbn [orb].
  apply forallb_forall. intros t Ht.
  unfold suggest. rewrite Ed. rewrite (below_cap_firstn r l Hb).
  set (S := sort_o (accumulate (visits l))). set (k := N.to_nat (r_size r)).
  destruct (accumulate_char (visits l)) as [Nacc [Tacc Cacc]].
  assert (HS : StronglySorted ord S) by apply sort_o_sorted.
  assert (NS : NoDup (map o_text S)) by (apply sort_o_nodup; exact Nacc).
  assert (Hot : exists ot, In ot S /\ o_text ot = t).
  { assert (In t (map o_text S)) by (unfold S; apply sort_o_texts; apply Tacc; exact Ht).
    apply in_map_iff in H. destruct H as [ot [H1 H2]]. exists ot. split; assumption. }
  destruct Hot as [ot [HotS Hott]].
  assert (Hoteq : ot = {| o_text := t; o_df := cand_df l t; o_score6 := cand_score6 l t |}).
  { assert (In ot (accumulate (visits l))) by (apply -> sort_o_In; exact HotS).
    destruct (Cacc ot H) as [D1 D2]. apply opt_ext; cbn [o_text o_df o_score6].
    - exact Hott.
    - rewrite D1, Hott, cand_df_vdf. reflexivity.
    - rewrite D2, Hott, cand_score_vsc. reflexivity. }
  rewrite <- (firstn_skipn k S) in HotS. apply in_app_or in HotS. destruct HotS as [Hf|Hsk].
  - apply orb_true_iff. left. apply existsb_exists. exists ot. split; [exact Hf|]. rewrite Hott. apply N.eqb_refl.
  - apply orb_true_iff. right. apply andb_true_iff. split.
    + apply N.eqb_eq. rewrite firstn_length.
      assert (k < length S)%nat.
      { destruct (le_lt_dec (length S) k) as [Hle|Hlt]; [|exact Hlt].
        rewrite (skipn_all2 S Hle) in Hsk. destruct Hsk. }
      unfold k in *. lia.
    + apply forallb_forall. intros o Ho. rewrite <- Hoteq.
      rewrite <- (firstn_skipn k S) in HS, NS.
      apply ord_strict; [apply (sorted_app_ord _ _ HS o ot Ho Hsk)|].
      intros E. rewrite map_app in NS.
      apply (nodup_app_disj _ _ (o_text o) NS); [apply in_map; exact Ho|rewrite E; apply in_map; exact Hsk].
Qed.

Theorem model_meets_spec_any : forall r l, spec_any r l (suggest r l) = true.
Proof.
  intros r l. unfold spec_any.
  destruct (sorted_sized r l) as [Hlen Hsorted].
  rewrite (proj2 (N.leb_le _ _) Hlen).
  rewrite (sorted_obs_of _ Hsorted (distinct_texts r l)). cbn [andb].
  apply forallb_forall. intros o Ho.
  destruct (sound r l o Ho) as [_ [Hnz [Hle _]]].
  rewrite (proj2 (N.leb_le _ _) Hle). apply N.eqb_neq in Hnz. rewrite Hnz. cbn [negb andb]. rewrite !andb_true_r.
  unfold is_cand. apply existsb_exists. exists (o_text o). split; [|apply N.eqb_refl].
  apply (suggest_in_cands r l o Ho).
Qed.
