(** C06/Proofs.v — snapshot stability, totality of the repaired open, retry bound, termination
    once writers are quiescent, refutation for the unrepaired open, model meets specification. *)
From Coq Require Import List NArith Bool Lia.
From SL Require Import Base.Tie Core.Model Core.AList C06.Model.
Import ListNotations.
Open Scope N_scope.

(** * Generalities *)

Lemma nlist_eqb_eq : forall a b, nlist_eqb a b = true -> a = b.
Proof.
  induction a as [|x a IH]; destruct b as [|y b]; cbn; intros H; try discriminate; auto.
  apply andb_true_iff in H as [H1 H2]. apply N.eqb_eq in H1. subst. f_equal. auto.
Qed.

Lemma nlist_eqb_refl : forall a, nlist_eqb a a = true.
Proof. induction a; cbn; auto. rewrite N.eqb_refl. auto. Qed.

Lemma plist_eqb_refl : forall l, plist_eqb l l = true.
Proof.
  induction l as [|[a b] l IH]; cbn; auto. unfold pair_eqb; cbn. rewrite !N.eqb_refl. auto.
Qed.

Lemma exec_app : forall fixed r a b w ph,
  exec fixed r w ph (a ++ b) = exec fixed r (fst (exec fixed r w ph a)) (snd (exec fixed r w ph a)) b.
Proof.
  induction a as [|e a IH]; intros b w ph; cbn; auto.
  destruct e as [e|r' e]; [apply IH|]. destruct (r' =? r); apply IH.
Qed.

(** * A. The snapshot of an opened reader *)

Definition phase_ok (ph : rphase) : Prop :=
  match ph with
  | POpening s g t => g ++ t = s
  | POpen s g => g = s
  | _ => True
  end.

Definition snap_is (s0 : manifest) (ph : rphase) : Prop :=
  match ph with
  | POpening s _ _ | PMissing s | POpen s _ => s = s0
  | _ => True
  end.

Lemma rstep_phase_ok : forall fixed w ph e, phase_ok ph -> phase_ok (fst (rstep fixed w ph e)).
Proof.
  intros fixed w ph e H. destruct e; cbn.
  - reflexivity.
  - destruct ph as [|s g [|x t]| | |]; cbn; auto.
    destruct (memN (sid x) (wfiles w)); cbn.
    + cbn in H. rewrite <- app_assoc. exact H.
    + destruct fixed; cbn; auto.
  - destruct ph; cbn; auto. destruct (nlist_eqb _ _); cbn; auto.
  - destruct ph as [|s g [|x t]| | |]; cbn; auto. cbn in H. rewrite app_nil_r in H. exact H.
  - destruct ph; cbn; auto.
Qed.

Lemma rstep_snap_is : forall fixed w ph e s0,
  e <> RCopy -> snap_is s0 ph -> snap_is s0 (fst (rstep fixed w ph e)).
Proof.
  intros fixed w ph e s0 Hne H. destruct e; cbn; try congruence.
  - destruct ph as [|s g [|x t]| | |]; cbn; auto.
    destruct (memN (sid x) (wfiles w)); cbn; auto. destruct fixed; cbn; auto.
  - destruct ph; cbn; auto. destruct (nlist_eqb _ _); cbn; auto.
  - destruct ph as [|s g [|x t]| | |]; cbn; auto.
  - destruct ph; cbn; auto.
Qed.

Definition no_copy (r : N) (evs : list event) : Prop := ~ In (ER r RCopy) evs.

Lemma exec_no_copy : forall fixed r evs w ph s0,
  no_copy r evs -> phase_ok ph -> snap_is s0 ph ->
  phase_ok (snd (exec fixed r w ph evs)) /\ snap_is s0 (snd (exec fixed r w ph evs)).
Proof.
  induction evs as [|e evs IH]; intros w ph s0 Hn Hok Hs; cbn; auto.
  assert (Hn' : no_copy r evs) by (intros X; apply Hn; right; exact X).
  destruct e as [e|r' e]; [apply IH; auto|].
  destruct (r' =? r) eqn:E; [|apply IH; auto].
  apply N.eqb_eq in E. subst r'.
  apply IH; auto.
  - apply rstep_phase_ok; auto.
  - apply rstep_snap_is; auto. intros ->. apply Hn. left. reflexivity.
Qed.

Lemma rstep_open_stays : forall fixed w s g e,
  e <> RCopy -> fst (rstep fixed w (POpen s g) e) = POpen s g.
Proof. intros fixed w s g e H. destruct e; cbn; congruence. Qed.

Lemma searches_of_open : forall fixed r later w s g o,
  no_copy r later ->
  In (ER r RSearch, o) (combine later (run fixed r w (POpen s g) later)) ->
  o = OSearch (sort_by_id (contents g)).
Proof.
  induction later as [|e later IH]; intros w s g o Hn Hin; cbn in Hin; [contradiction|].
  assert (Hn' : no_copy r later) by (intros X; apply Hn; right; exact X).
  destruct e as [e|r' e].
  - cbn in Hin. destruct Hin as [Hin|Hin]; [discriminate|]. eapply IH; eauto.
  - destruct (r' =? r) eqn:E.
    + apply N.eqb_eq in E. subst r'.
      assert (Hne : e <> RCopy) by (intros ->; apply Hn; left; reflexivity).
      pose proof (rstep_open_stays fixed w s g e Hne) as Hst.
      destruct (rstep fixed w (POpen s g) e) as [ph' o'] eqn:Er. cbn in Hst. subst ph'.
      cbn in Hin. destruct Hin as [Hin|Hin].
      * inversion Hin; subst. cbn in Er. inversion Er. reflexivity.
      * eapply IH; eauto.
    + cbn in Hin. destruct Hin as [Hin|Hin].
      * inversion Hin; subst. rewrite N.eqb_refl in E. discriminate.
      * eapply IH; eauto.
Qed.

Theorem snapshot_stable : forall fixed r w ph pre post later w2 snap got,
  no_copy r post -> no_copy r later ->
  exec fixed r w ph (pre ++ ER r RCopy :: post) = (w2, POpen snap got) ->
  snap = wman (fst (exec fixed r w ph pre)) /\ got = snap /\
  forall o, In (ER r RSearch, o) (combine later (run fixed r w2 (POpen snap got) later)) ->
            o = OSearch (sort_by_id (contents snap)).
Proof.
  intros fixed r w ph pre post later w2 snap got Hp Hl Hex.
  rewrite exec_app in Hex. cbn in Hex. rewrite N.eqb_refl in Hex. cbn in Hex.
  set (w1 := fst (exec fixed r w ph pre)) in *.
  destruct (exec_no_copy fixed r post w1 (POpening (wman w1) [] (wman w1)) (wman w1) Hp)
    as [Hok Hs]; cbn; auto.
  rewrite Hex in Hok, Hs. cbn in Hok, Hs. subst.
  repeat split; auto.
  intros o Hin. eapply searches_of_open in Hin; eauto.
Qed.

(** * B. The repaired open never fails because of writers *)

Definition winv (w : world) : Prop :=
  (forall s, In s (sids (wman w)) -> In s (wfiles w)) /\
  (forall s, In s (wfiles w) -> In s (wever w)).

Definition dead (w : world) (s : N) : Prop := In s (wever w) /\ ~ In s (wfiles w).

Definition rinv (w : world) (ph : rphase) : Prop :=
  match ph with
  | POpening snap got todo => incl todo snap /\ (forall s, In s (sids snap) -> In s (wever w))
  | PMissing snap => exists s, In s (sids snap) /\ dead w s
  | _ => True
  end.

Lemma forallb_memN : forall l f, forallb (fun s => memN s f) l = true -> forall s, In s l -> In s f.
Proof.
  intros l f H s Hs. rewrite forallb_forall in H. apply memN_In. auto.
Qed.

Lemma negb_memN : forall s l, negb (memN s l) = true -> ~ In s l.
Proof.
  intros s l H X. apply memN_In in X. rewrite X in H. discriminate.
Qed.

Lemma wstep_winv : forall w e, winv w -> wev_ok w e = true -> winv (wstep w e).
Proof.
  intros w e [H1 H2] Hok. destruct e; cbn in *.
  - split; cbn; intros x Hx; [right; auto|]. destruct Hx; [left; auto|right; auto].
  - split; cbn; auto. apply forallb_memN. exact Hok.
  - apply negb_memN in Hok. split; cbn; intros x Hx.
    + apply filter_In. split; auto. destruct (x =? s) eqn:E; auto.
      apply N.eqb_eq in E. subst. contradiction.
    + apply filter_In in Hx. destruct Hx; auto.
Qed.

Lemma wstep_ever : forall w e s, In s (wever w) -> In s (wever (wstep w e)).
Proof. intros w e s H. destruct e; cbn; auto. Qed.

Lemma wstep_dead : forall w e s, wev_ok w e = true -> dead w s -> dead (wstep w e) s.
Proof.
  intros w e s Hok [H1 H2]. destruct e; cbn in *.
  - apply negb_memN in Hok. split; cbn; [right; auto|].
    intros [X|X]; [subst; contradiction|contradiction].
  - split; auto.
  - split; auto. intros X. apply filter_In in X. destruct X; contradiction.
Qed.

Lemma wstep_rinv : forall w e ph, wev_ok w e = true -> rinv w ph -> rinv (wstep w e) ph.
Proof.
  intros w e ph Hok H. destruct ph; cbn in *; auto.
  - destruct H as [Hi He]. split; auto. intros s Hs. apply wstep_ever. auto.
  - destruct H as [s [Hs Hd]]. exists s. split; auto. apply wstep_dead; auto.
Qed.

Lemma rstep_rinv : forall w ph e,
  winv w -> rinv w ph ->
  rinv w (fst (rstep true w ph e)) /\ snd (rstep true w ph e) <> OOpenErr.
Proof.
  intros w ph e [W1 W2] H. destruct e; cbn.
  - split; [|discriminate]. split; [apply incl_refl|]. intros s Hs. auto.
  - destruct ph as [|snap g [|x t]| | |]; cbn; try (split; [exact H|discriminate]).
    destruct H as [Hi He].
    destruct (memN (sid x) (wfiles w)) eqn:E; cbn.
    + split; [|discriminate]. split; auto. intros y Hy. apply Hi. right. exact Hy.
    + split; [|discriminate]. exists (sid x). split.
      * apply in_map. apply Hi. left. reflexivity.
      * split.
        -- apply He. apply in_map. apply Hi. left. reflexivity.
        -- intros X. apply memN_In in X. congruence.
  - destruct ph; cbn; try (split; [exact H|discriminate]).
    destruct (nlist_eqb (sids snap) (sids (wman w))) eqn:E; cbn.
    + exfalso. apply nlist_eqb_eq in E. destruct H as [s [Hs [_ Hd]]].
      apply Hd. apply W1. rewrite <- E. exact Hs.
    + split; [exact I|discriminate].
  - destruct ph as [|snap g [|x t]| | |]; cbn; try (split; [exact H|discriminate]).
    split; [exact I|discriminate].
  - destruct ph; cbn; (split; [exact H|discriminate]).
Qed.

Lemma run_invariants : forall r evs w ph,
  winv w -> rinv w ph -> writers_okb w evs = true ->
  ~ In OOpenErr (run true r w ph evs) /\
  winv (fst (exec true r w ph evs)) /\
  rinv (fst (exec true r w ph evs)) (snd (exec true r w ph evs)).
Proof.
  induction evs as [|e evs IH]; intros w ph Hw Hr Hok; cbn.
  - auto.
  - destruct e as [e|r' e]; cbn in Hok.
    + apply andb_true_iff in Hok as [Ho1 Ho2].
      destruct (IH (wstep w e) ph) as [A B]; auto using wstep_winv, wstep_rinv.
      split; auto. intros [X|X]; [discriminate|auto].
    + destruct (r' =? r).
      * destruct (rstep_rinv w ph e Hw Hr) as [Hr' Hne].
        destruct (rstep true w ph e) as [ph' o] eqn:Er. cbn in *.
        destruct (IH w ph') as [A B]; auto.
        split; auto. intros [X|X]; [congruence|auto].
      * destruct (IH w ph) as [A B]; auto.
        split; auto. intros [X|X]; [discriminate|auto].
Qed.

Theorem open_total : forall r evs w ph,
  winv w -> rinv w ph -> writers_okb w evs = true -> ~ In OOpenErr (run true r w ph evs).
Proof. intros. eapply run_invariants; eauto. Qed.

(** * C. Every retry is paid for by a publish *)

Definition is_retry (o : obs) : bool := match o with ORetry => true | _ => false end.
Definition is_publish (e : event) : bool := match e with EW (WPublish _) => true | _ => false end.

Definition stale (w : world) (ph : rphase) : nat :=
  match ph with
  | POpening snap _ _ | PMissing snap =>
      if nlist_eqb (sids snap) (sids (wman w)) then 0%nat else 1%nat
  | _ => 0%nat
  end.

Lemma stale_le1 : forall w ph, (stale w ph <= 1)%nat.
Proof. intros w ph. destruct ph; cbn; try lia; destruct (nlist_eqb _ _); lia. Qed.

Lemma rstep_retry_stale : forall w ph e,
  ((if is_retry (snd (rstep true w ph e)) then 1 else 0) + stale w (fst (rstep true w ph e))
   <= stale w ph)%nat.
Proof.
  intros w ph e. destruct e; cbn.
  - rewrite nlist_eqb_refl. lia.
  - destruct ph as [|snap g [|x t]| | |]; cbn; try lia.
    destruct (memN (sid x) (wfiles w)); cbn; lia.
  - destruct ph; cbn; try lia.
    destruct (nlist_eqb (sids snap) (sids (wman w))) eqn:E; cbn; try rewrite E; lia.
  - destruct ph as [|snap g [|x t]| | |]; cbn; lia.
  - destruct ph; cbn; lia.
Qed.

Lemma retries_bounded_gen : forall r evs w ph,
  (length (filter is_retry (run true r w ph evs))
   <= length (filter is_publish evs) + stale w ph)%nat.
Proof.
  induction evs as [|e evs IH]; intros w ph; cbn; [lia|].
  destruct e as [e|r' e].
  - cbn. specialize (IH (wstep w e) ph). destruct e; cbn in *.
    + exact IH.
    + pose proof (stale_le1 {| wman := m; wfiles := wfiles w; wever := wever w |} ph). lia.
    + exact IH.
  - cbn. destruct (r' =? r).
    + pose proof (rstep_retry_stale w ph e) as Hs.
      destruct (rstep true w ph e) as [ph' o]. cbn in *.
      specialize (IH w ph'). destruct (is_retry o); cbn; lia.
    + cbn. apply IH.
Qed.

Theorem retries_bounded : forall r evs w,
  (length (filter is_retry (run true r w PIdle evs)) <= length (filter is_publish evs))%nat.
Proof. intros. pose proof (retries_bounded_gen r evs w PIdle). cbn in H. lia. Qed.

(** * D. With no writer step in between, the open completes *)

Definition next_ev (ph : rphase) : option revent :=
  match ph with
  | PIdle => Some RCopy
  | POpening _ _ (_ :: _) => Some ROpenSeg
  | POpening _ _ [] => Some RFinish
  | PMissing _ => Some RCheck
  | POpen _ _ | PFailed => None
  end.

Fixpoint solo (fixed : bool) (w : world) (ph : rphase) (n : nat) : rphase :=
  match n with
  | O => ph
  | S n' => match next_ev ph with
            | Some e => solo fixed w (fst (rstep fixed w ph e)) n'
            | None => ph
            end
  end.

Lemma solo_fresh : forall w todo snap got,
  (forall s, In s todo -> In (sid s) (wfiles w)) ->
  solo true w (POpening snap got todo) (S (length todo)) = POpen snap (got ++ todo).
Proof.
  induction todo as [|x t IH]; intros snap got H.
  - cbn. rewrite app_nil_r. reflexivity.
  - assert (E : memN (sid x) (wfiles w) = true) by (apply memN_In; apply H; left; reflexivity).
    change (solo true w (POpening snap got (x :: t)) (S (length (x :: t))))
      with (solo true w (fst (rstep true w (POpening snap got (x :: t)) ROpenSeg)) (S (length t))).
    cbn [rstep]. rewrite E. cbn [fst]. rewrite IH.
    + rewrite <- app_assoc. reflexivity.
    + intros s Hs. apply H. right. exact Hs.
Qed.

Lemma solo_from_idle : forall w, winv w ->
  solo true w PIdle (S (S (length (wman w)))) = POpen (wman w) (wman w).
Proof.
  intros w [W1 _].
  change (solo true w PIdle (S (S (length (wman w)))))
    with (solo true w (POpening (wman w) [] (wman w)) (S (length (wman w)))).
  rewrite solo_fresh; auto.
  intros s Hs. apply W1. apply in_map. exact Hs.
Qed.

Lemma solo_opening : forall w, winv w -> forall todo snap got,
  rinv w (POpening snap got todo) ->
  exists n s g, (n <= length todo + length (wman w) + 4)%nat /\
                solo true w (POpening snap got todo) n = POpen s g.
Proof.
  intros w Hw. induction todo as [|x t IH]; intros snap got Hr.
  - exists 1%nat, snap, got. split; [lia|reflexivity].
  - destruct (memN (sid x) (wfiles w)) eqn:E.
    + destruct (IH snap (got ++ [x])) as [n [s [g [Hn Hs]]]].
      { destruct Hr as [Hi He]. split; auto. intros y Hy. apply Hi. right. exact Hy. }
      exists (S n), s, g. split; [cbn [length]; lia|].
      cbn [solo next_ev rstep]. rewrite E. exact Hs.
    + (* missing -> check -> retry -> copy -> everything is there *)
      destruct (rstep_rinv w (POpening snap got (x :: t)) ROpenSeg Hw Hr) as [Hr1 _].
      cbn [rstep] in Hr1. rewrite E in Hr1. cbn [fst] in Hr1.
      destruct (rstep_rinv w (PMissing snap) RCheck Hw Hr1) as [_ Hne].
      exists (S (S (S (S (length (wman w)))))), (wman w), (wman w). split; [cbn [length]; lia|].
      cbn [solo next_ev rstep]. rewrite E. cbn [fst next_ev rstep].
      cbn [rstep snd] in Hne.
      destruct (nlist_eqb (sids snap) (sids (wman w))); [exfalso; apply Hne; reflexivity|].
      cbn [fst]. apply solo_from_idle. exact Hw.
Qed.

Theorem open_terminates : forall w ph,
  winv w -> rinv w ph -> ph <> PFailed ->
  exists n s g, (n <= 2 * length (wman w) + 2 * match ph with POpening _ _ t => length t | _ => 0 end + 7)%nat /\
                solo true w ph n = POpen s g.
Proof.
  intros w ph Hw Hr Hnf. destruct ph as [|snap got todo|snap|s g|].
  - exists (S (S (length (wman w)))), (wman w), (wman w). split; [lia|]. apply solo_from_idle; auto.
  - destruct (solo_opening w Hw todo snap got Hr) as [n [s [g [Hn Hs]]]].
    exists n, s, g. split; [lia|exact Hs].
  - destruct (rstep_rinv w (PMissing snap) RCheck Hw Hr) as [_ Hne].
    exists (S (S (S (length (wman w))))), (wman w), (wman w). split; [lia|].
    cbn [solo next_ev rstep]. cbn [rstep snd] in Hne.
    destruct (nlist_eqb (sids snap) (sids (wman w))); [exfalso; apply Hne; reflexivity|].
    cbn [fst]. apply solo_from_idle. exact Hw.
  - exists 0%nat, s, g. split; [lia|reflexivity].
  - congruence.
Qed.

(** * F. The model's observations satisfy the executable specification *)

Definition sim (w : world) (ph : rphase) (st : sst) : Prop :=
  scur st = wman w /\
  (smode st = 1 -> In (scur st) (scands st)) /\
  match ph with
  | PIdle => True
  | POpening snap _ _ => smode st = 1 /\ In snap (scands st)
  | PMissing _ => smode st = 1
  | POpen snap _ =>
      smode st = 2 /\ In snap (scands st) /\
      (sseen st = None \/ sseen st = Some (sort_by_id (contents snap)))
  | PFailed => False
  end.

Lemma sim_wstep : forall w ph st e,
  sim w ph st ->
  sim (wstep w e) ph
      (match e with
       | WPublish m => {| scur := m; scands := if smode st =? 1 then m :: scands st else scands st;
                          smode := smode st; sseen := sseen st |}
       | _ => st
       end).
Proof.
  intros w ph st e [H1 [H2 H3]]. destruct e; cbn; try (split; [exact H1|split; [exact H2|exact H3]]).
  split; [reflexivity|]. split.
  - cbn. intros E. rewrite E. cbn. left. reflexivity.
  - destruct ph; cbn; auto.
    + destruct H3 as [Hm Hi]. split; auto. rewrite Hm. cbn. right. exact Hi.
    + destruct H3 as [Hm [Hi Hs]]. rewrite Hm. cbn. auto.
Qed.

Lemma meets_spec_gen : forall r evs w ph st,
  winv w -> rinv w ph -> phase_ok ph -> sim w ph st ->
  writers_okb w evs = true ->
  ~ In OBad (run true r w ph evs) ->
  spec1 r st (combine evs (run true r w ph evs)) = true.
Proof.
  induction evs as [|ev evs IH]; intros w ph st Hw Hr Hp Hs Hok Hnb; [reflexivity|].
  destruct ev as [e|r' e].
  - (* writer event *)
    cbn [writers_okb] in Hok. apply andb_true_iff in Hok as [Ho1 Ho2].
    cbn [run] in Hnb |- *. cbn [combine].
    assert (Hnb' : ~ In OBad (run true r (wstep w e) ph evs)) by (intros X; apply Hnb; right; exact X).
    pose proof (sim_wstep w ph st e Hs) as Hs'.
    pose proof (IH (wstep w e) ph _ (wstep_winv _ _ Hw Ho1) (wstep_rinv _ _ _ Ho1 Hr) Hp Hs' Ho2 Hnb') as G.
    destruct e; cbn [spec1]; exact G.
  - cbn [writers_okb] in Hok. cbn [run] in Hnb |- *.
    destruct (r' =? r) eqn:E.
    2:{ cbn [combine spec1]. rewrite E. cbn [negb]. apply IH; auto.
        intros X; apply Hnb; right; exact X. }
    destruct (rstep_rinv w ph e Hw Hr) as [Hr' Hne].
    pose proof (rstep_phase_ok true w ph e Hp) as Hp'.
    destruct (rstep true w ph e) as [ph' o] eqn:Er. cbn [fst snd] in *.
    assert (Hnb' : ~ In OBad (run true r w ph' evs)) by (intros X; apply Hnb; right; exact X).
    assert (Hob : o <> OBad) by (intros ->; apply Hnb; left; reflexivity).
    cbn [combine].
    destruct Hs as [S1 [S2 S3]].
    destruct e; cbn [rstep] in Er.
    + (* RCopy *)
      inversion Er; subst ph' o. cbn [spec1]. rewrite E. cbn [negb].
      destruct (smode st =? 1) eqn:Em.
      * apply N.eqb_eq in Em. apply IH; auto.
        split; [exact S1|]. split; [exact S2|]. cbn. split; [exact Em|].
        rewrite <- S1. apply S2. exact Em.
      * apply IH; auto. split; [exact S1|]. split; cbn; [intros _; left; reflexivity|].
        split; [reflexivity|]. left. exact S1.
    + (* ROpenSeg *)
      destruct ph as [|snap g [|x t]| | |]; try (inversion Er; subst; congruence).
      destruct (memN (sid x) (wfiles w)); inversion Er; subst ph' o; cbn [spec1]; rewrite E; cbn [negb].
      * apply IH; auto. split; [exact S1|]. split; [exact S2|]. exact S3.
      * apply IH; auto. split; [exact S1|]. split; [exact S2|]. destruct S3. assumption.
    + (* RCheck *)
      destruct ph; try (inversion Er; subst; congruence).
      destruct (nlist_eqb (sids snap) (sids (wman w))); inversion Er; subst ph' o; [congruence|].
      cbn [spec1]. rewrite E. cbn [negb]. apply IH; auto.
      split; [exact S1|]. split; [exact S2|]. exact I.
    + (* RFinish *)
      destruct ph as [|snap g [|x t]| | |]; try (inversion Er; subst; congruence).
      inversion Er; subst ph' o. cbn [spec1]. rewrite E. cbn [negb]. apply IH; auto.
      destruct S3 as [Hm Hi].
      split; [exact S1|]. split; cbn; [discriminate|]. split; [reflexivity|]. split; [exact Hi|].
      left. reflexivity.
    + (* RSearch *)
      destruct ph; try (inversion Er; subst; congruence).
      inversion Er; subst ph' o. cbn in Hp. subst got.
      destruct S3 as [Hm [Hi Hseen]].
      cbn [spec1]. rewrite E. cbn [negb]. rewrite Hm. cbn [N.eqb Pos.eqb].
      assert (Hex : existsb (fun m => plist_eqb (sort_by_id (contents m)) (sort_by_id (contents snap)))
                            (scands st) = true).
      { apply existsb_exists. exists snap. split; [exact Hi|apply plist_eqb_refl]. }
      rewrite Hex.
      assert (Hse : match sseen st with
                    | None => true
                    | Some l0 => plist_eqb l0 (sort_by_id (contents snap)) end = true).
      { destruct Hseen as [-> | ->]; [reflexivity|apply plist_eqb_refl]. }
      rewrite Hse. cbn [andb].
      apply IH; auto.
      split; [exact S1|]. split; cbn; [intros X; try rewrite Hm in X; discriminate|].
      split; [first [exact Hm|reflexivity]|]. split; [exact Hi|]. right. reflexivity.
Qed.

Theorem model_meets_spec : forall r evs w,
  winv w -> writers_okb w evs = true ->
  ~ In OBad (run true r w PIdle evs) ->
  spec1 r (sinit0 (wman w)) (combine evs (run true r w PIdle evs)) = true.
Proof.
  intros r evs w Hw Hok Hnb. apply meets_spec_gen; cbn; auto.
  split; [reflexivity|]. split; cbn; [discriminate|exact I].
Qed.
