(** C06/Model.v — a reader against concurrent commits and compactions.

    [M]: the steps of [IndexReader::open] (api/reader.rs) and of a search on the opened reader,
    interleaved with the reader-visible steps of writers: a commit or a compaction writes the
    files of a new segment ([WCreate]), replaces the published in-memory manifest ([WPublish],
    under the manifest write lock), and compaction then removes the files of the segments it
    replaced ([WUnlink], [cleanup_segments], after the lock is released).
    A segment's files are written once under a fresh name and never modified, so a segment is
    identified by its id and the only thing that changes is whether its files exist.
    File-system rule built into the model: an opened segment ([SegmentReader]: in-memory copies of
    meta/terms/fast fields, open handles on postings and docstore) no longer depends on the
    directory entry - searches read [got], never [wfiles].

    Readers do not influence the world or each other, so the model is written for one reader [r]
    against the event sequence; events of other readers are skipped.

    [fixed = false] is [IndexReader::open] before the repair (a failed segment open is returned),
    [fixed = true] the repaired loop (on a failed segment open the manifest is read again; when its
    segment-id list differs from the copy, start over, otherwise return the error).

    Definitions only; proofs are in C06/Proofs.v. *)
From Coq Require Import List NArith Bool.
From SL Require Import Base.Tie Core.Model.
Import ListNotations.
Open Scope N_scope.

(** * The world as readers see it *)

Record world := {
  wman   : manifest;   (* the published manifest (InnerIndex.manifest) *)
  wfiles : list N;     (* ids of the segments whose files exist *)
  wever  : list N      (* ghost: ids of all segments ever written (names are fresh uuids) *)
}.

Definition sids (m : manifest) : list N := map sid m.

Inductive wevent :=
| WCreate (s : N)
| WPublish (m : manifest)
| WUnlink (s : N).

Inductive revent :=
| RCopy      (* manifest.read().clone() *)
| ROpenSeg   (* SegmentReader::open of the next segment of the copy *)
| RCheck     (* after a failed segment open: compare the copy with the current manifest *)
| RFinish    (* all segments opened: open returns Ok *)
| RSearch.   (* a match_all search on the opened reader *)

Inductive event :=
| EW (e : wevent)
| ER (r : N) (e : revent).

Definition wstep (w : world) (e : wevent) : world :=
  match e with
  | WCreate s => {| wman := wman w; wfiles := s :: wfiles w; wever := s :: wever w |}
  | WPublish m => {| wman := m; wfiles := wfiles w; wever := wever w |}
  | WUnlink s => {| wman := wman w; wfiles := filter (fun x => negb (x =? s)) (wfiles w);
                    wever := wever w |}
  end.

(** * The reader *)

Inductive rphase :=
| PIdle                                             (* about to copy the manifest *)
| POpening (snap : manifest) (got todo : list seg)  (* copy taken; [got] opened so far *)
| PMissing (snap : manifest)                        (* a segment open failed (repaired code only) *)
| POpen (snap : manifest) (got : list seg)          (* open returned Ok *)
| PFailed.                                          (* open returned Err *)

Inductive obs :=
| ONone
| OSegOk | OSegMissing
| ORetry | OOpenErr | OOpenOk
| OSearch (c : list (N * N))   (* (id, version) sorted by id *)
| OSearchErr
| OBad.                        (* the event is impossible in the reader's phase *)

Fixpoint nlist_eqb (a b : list N) : bool :=
  match a, b with
  | [], [] => true
  | x :: a', y :: b' => (x =? y) && nlist_eqb a' b'
  | _, _ => false
  end.

Definition rstep (fixed : bool) (w : world) (ph : rphase) (e : revent) : rphase * obs :=
  match e with
  | RCopy => (POpening (wman w) [] (wman w), ONone)
  | ROpenSeg =>
      match ph with
      | POpening snap got (s :: todo) =>
          if memN (sid s) (wfiles w) then (POpening snap (got ++ [s]) todo, OSegOk)
          else if fixed then (PMissing snap, OSegMissing)
          else (PFailed, OOpenErr)
      | _ => (ph, OBad)
      end
  | RCheck =>
      match ph with
      | PMissing snap =>
          if nlist_eqb (sids snap) (sids (wman w)) then (PFailed, OOpenErr) else (PIdle, ORetry)
      | _ => (ph, OBad)
      end
  | RFinish =>
      match ph with
      | POpening snap got [] => (POpen snap got, OOpenOk)
      | _ => (ph, OBad)
      end
  | RSearch =>
      match ph with
      | POpen snap got => (ph, OSearch (sort_by_id (contents got)))
      | _ => (ph, OBad)
      end
  end.

(** Observations of reader [r] along an event sequence ([ONone] at the other events). *)
Fixpoint run (fixed : bool) (r : N) (w : world) (ph : rphase) (evs : list event) : list obs :=
  match evs with
  | [] => []
  | EW e :: t => ONone :: run fixed r (wstep w e) ph t
  | ER r' e :: t =>
      if r' =? r then let (ph', o) := rstep fixed w ph e in o :: run fixed r w ph' t
      else ONone :: run fixed r w ph t
  end.

(** Final world and phase of reader [r]. *)
Fixpoint exec (fixed : bool) (r : N) (w : world) (ph : rphase) (evs : list event) : world * rphase :=
  match evs with
  | [] => (w, ph)
  | EW e :: t => exec fixed r (wstep w e) ph t
  | ER r' e :: t =>
      if r' =? r then exec fixed r w (fst (rstep fixed w ph e)) t else exec fixed r w ph t
  end.

(** * What writers guarantee (checked on every recorded trace, proved sufficient in Proofs.v)
    new segment names are fresh; a manifest is published only when the files of all its segments
    exist; only files of segments that are not in the published manifest are removed. *)
Definition wev_ok (w : world) (e : wevent) : bool :=
  match e with
  | WCreate s => negb (memN s (wever w))
  | WPublish m => forallb (fun s => memN s (wfiles w)) (sids m)
  | WUnlink s => negb (memN s (sids (wman w)))
  end.

Fixpoint writers_okb (w : world) (evs : list event) : bool :=
  match evs with
  | [] => true
  | EW e :: t => wev_ok w e && writers_okb (wstep w e) t
  | ER _ _ :: t => writers_okb w t
  end.

(** * Specification [S], from the property text, over (event, observation) pairs of reader [r].
    It looks only at the labels "r starts copying / r's open returned / r searched" and at the
    manifests published so far; not at files, phases or the manifest copy.
    - opening a reader or searching never fails;
    - every search result of an opened reader is the contents of ONE manifest that was the
      published one at some instant between the start and the end of that open (so a reader
      opened before a change returns the pre-change contents), and all results of one opened
      reader are equal. *)
Record sst := {
  scur   : manifest;              (* currently published *)
  scands : list manifest;         (* published at some instant of r's current/last open call *)
  smode  : N;                     (* 0 no open yet, 1 open call running, 2 opened *)
  sseen  : option (list (N * N))  (* first search result of the opened reader *)
}.

Definition sinit0 (m : manifest) : sst := {| scur := m; scands := []; smode := 0; sseen := None |}.

Fixpoint spec1 (r : N) (st : sst) (tr : list (event * obs)) : bool :=
  match tr with
  | [] => true
  | (ev, o) :: t =>
      match o with
      | OOpenErr | OSearchErr | OBad => false
      | _ =>
        match ev with
        | EW (WPublish m) =>
            spec1 r {| scur := m; scands := if smode st =? 1 then m :: scands st else scands st;
                       smode := smode st; sseen := sseen st |} t
        | EW _ => spec1 r st t
        | ER r' e =>
            if negb (r' =? r) then spec1 r st t else
            match e with
            | RCopy =>
                if smode st =? 1 then spec1 r st t
                else spec1 r {| scur := scur st; scands := [scur st]; smode := 1; sseen := None |} t
            | RFinish =>
                spec1 r {| scur := scur st; scands := scands st; smode := 2; sseen := None |} t
            | RSearch =>
                match o with
                | OSearch l =>
                    (smode st =? 2)
                    && existsb (fun m => plist_eqb (sort_by_id (contents m)) l) (scands st)
                    && (match sseen st with None => true | Some l0 => plist_eqb l0 l end)
                    && spec1 r {| scur := scur st; scands := scands st; smode := smode st;
                                  sseen := Some l |} t
                | _ => false
                end
            | _ => spec1 r st t
            end
        end
      end
  end.

(** * Tie layer: concrete traces recorded from the real index.
    Writer calls are [Core.Model.api] calls; the publishing ones are split at the instrumented
    points.  The manifests are computed by the write-path machine [Core.Model.step]. *)
Inductive cevent :=
| CCall (a : api)            (* a whole call that publishes nothing *)
| CCommitSeg (h : N)         (* commit: new segment written *)
| CCommitPublish (h : N)     (* commit: manifest replaced *)
| CCompactSeg                (* compaction: merged segment written *)
| CCompactPublish            (* compaction: manifest replaced, write lock released *)
| CCompactClean              (* compaction: files of the replaced segments removed *)
| CR (r : N) (e : revent).

(** elaboration state: write-path state and the segments awaiting cleanup *)
Fixpoint elab (s : istate) (old : list N) (tr : list (cevent * obs)) : list (event * obs) :=
  match tr with
  | [] => []
  | (c, o) :: t =>
      match c with
      | CCall a => elab (step s a) old t
      | CCommitSeg _ => (EW (WCreate (nsid s)), o) :: elab s old t
      | CCommitPublish h =>
          let s' := step s (Commit h) in (EW (WPublish (man s')), o) :: elab s' old t
      | CCompactSeg => (EW (WCreate (nsid s)), o) :: elab s old t
      | CCompactPublish =>
          let s' := step s Compact in (EW (WPublish (man s')), o) :: elab s' (sids (man s)) t
      | CCompactClean => map (fun x => (EW (WUnlink x), o)) old ++ elab s [] t
      | CR r e => (ER r e, o) :: elab s old t
      end
  end.

Definition obs_eqb1 (a b : obs) : bool :=
  match a, b with
  | ONone, ONone | OSegOk, OSegOk | OSegMissing, OSegMissing | ORetry, ORetry
  | OOpenErr, OOpenErr | OOpenOk, OOpenOk | OSearchErr, OSearchErr | OBad, OBad => true
  | OSearch x, OSearch y => plist_eqb x y
  | _, _ => false
  end.

Fixpoint obsl_eqb (a b : list obs) : bool :=
  match a, b with
  | [], [] => true
  | x :: a', y :: b' => obs_eqb1 x y && obsl_eqb a' b'
  | _, _ => false
  end.

(** observations of reader [r] in a recorded trace, [ONone] elsewhere *)
Definition mask (r : N) (tr : list (event * obs)) : list obs :=
  map (fun p => match fst p with
                | ER r' _ => if r' =? r then snd p else ONone
                | EW _ => match snd p with OBad => OBad | _ => ONone end
                end) tr.

Definition readers_of (tr : list (event * obs)) : list N :=
  fold_right (fun p acc => match fst p with
                           | ER r _ => if memN r acc then acc else r :: acc
                           | _ => acc end) [] tr.

Definition world_of (s : istate) : world :=
  {| wman := man s; wfiles := sids (man s); wever := sids (man s) |}.

Definition case06 := (list api * list (cevent * obs))%type.

Definition check_case (c : case06) : N :=
  let (setup, ctr) := c in
  let s0 := Core.Model.run init setup in
  let w0 := world_of s0 in
  let tr := elab s0 [] ctr in
  let evs := map fst tr in
  let rs := readers_of tr in
  let corr := writers_okb w0 evs
              && forallb (fun r => obsl_eqb (run true r w0 PIdle evs) (mask r tr)) rs in
  let spec := forallb (fun r => spec1 r (sinit0 (wman w0)) tr) rs
              && forallb (fun p => match snd p with OBad => false | _ => true end) tr in
  verdict corr spec 0.
