(** C29 — the exported statements with their proofs (Props/C29.v restates them and closes each by [exact]).

    [M w r] is the model of [IndexReader::search] on a vector / hybrid request [r] over the index
    [w] (graph search through the HNSW model); [run_search knn] is the same pipeline over any
    per-segment nearest-neighbour routine [knn]. *)
From Coq Require Import List NArith ZArith QArith Bool Sorted Lia.
From SL Require Import Base.Tie C29.Hnsw C29.HnswProofs C29.Model C29.Proofs C29.Fuel C29.Meets.
Import ListNotations.
Open Scope N_scope.

(** Sentences 1 and 2.  Every hit is a document of the index that is not tombstoned and passes
    [filter]; its vector_score is the sum, over the clauses that admitted it, of the exact
    similarity between the clause's query vector and the document's own vector times the clause
    boost, and every such clause requires the document to pass [vector_filter] as well
    ([clause_sound]); its score is the blend [final_of] of the text score and these clause
    scores.  When the blend is vector-only (no text part, or every alpha = 0) every hit has such
    a vector score, i.e. has a vector in a queried field. *)
Theorem final_hits_sound : forall w r hits,
  M w r = ObsHits hits ->
  exists ps, build_plan w r = Ok ps /\
  forall id score vs, In (id, score, vs) hits ->
    (exists so di seg d raws,
       nthN (w_segs w) so = Some seg /\ nthN seg di = Some d /\ d_id d = id
       /\ d_deleted d = false /\ d_pass d = true
       /\ Forall2 (fun p raw =>
             match raw with
             | None => True
             | Some x =>
                 (d_deleted d = false /\ d_pass d = true /\ d_vpass d = true)
                 /\ exists v, doc_vec d (p_field p) = Some v
                              /\ x = (sim (p_metric p) (p_vec p) v * p_boost p)%Q
             end) ps raws
       /\ vs = vsum_of raws
       /\ score = final_of ps (if r_hybrid r then (if text_hit d then odef (d_text d) 0%Q else 0%Q) else 0%Q) raws
       /\ (vs = None -> r_hybrid r = true /\ all_alpha_le0 ps = false /\ text_hit d = true))
    /\ ((r_hybrid r = false \/ all_alpha_le0 ps = true) -> exists x, vs = Some x).
Proof.
  intros w r hits H. destruct (hits_sound_gen knn_hnsw w r hits knn_hnsw_sound H) as [ps [Hp Hh]].
  exists ps. split; [exact Hp|]. intros id score vs Hin. pose proof (Hh _ Hin) as Hf. split.
  - destruct Hf as [so [di [seg [d [raws [H1 [H2 [H3 [H4 [H5 [H6 [H7 [H8 H9]]]]]]]]]]]]].
    exists so, di, seg, d, raws. cbn [fst snd] in *. repeat (split; [assumption|]). split; [|tauto].
    clear -H6. induction H6 as [|p raw ps' raws' Hc HF IH]; constructor; [|exact IH].
    destruct raw as [x|]; [|exact I]. destruct Hc as [He Hv]. split; [|exact Hv].
    unfold eligible in He. cbn [negb orb] in He. rewrite andb_true_r in He.
    apply andb_true_iff in He. destruct He as [He H3]. apply andb_true_iff in He. destruct He as [H1 H2].
    apply negb_true_iff in H1. tauto.
  - intro Hc. exact (hits_have_vector w r ps _ Hf Hc).
Qed.

(** ... and the literal reading fails for hybrid requests with a text share: a text match without
    a vector is returned with no vector score (known finding, class 1). *)
Theorem final_hybrid_missing_refuted :
  exists w r, wf w r = true /\ known_class_1 w r = true
    /\ (exists score other, M w r = ObsHits [other; (2, score, None)])
    /\ spec_search true w r (M w r) = false /\ spec_search false w r (M w r) = true.
Proof.
  exists refute_world, refute_request.
  destruct hybrid_missing_refuted as [H1 [H2 [score [other [H3 [H4 H5]]]]]].
  repeat split; try assumption. exists score, other. exact H3.
Qed.

(** Sentence 3.  Hits come in non-increasing order of their score, at most [limit] of them; the
    score is the documented blend: per clause alpha * text + (1 - alpha) * vector (text only at
    alpha >= 1, vector only at alpha <= 0, the missing-vector penalty where the clause has no
    score for the document), averaged over the clauses. *)
Theorem final_order : forall w r hits,
  M w r = ObsHits hits ->
  StronglySorted (fun a b : hit => (snd (fst b) <= snd (fst a))%Q) hits /\ nlen hits <= r_limit r.
Proof. intros w r hits. apply order_sorted. Qed.

Theorem final_blend_formula : forall p t raw,
  blend1 p t raw =
  let vs := match raw with Some x => x | None => match p_metric p with Cosine => (-1)%Q | L2 => FMIN end end in
  if Qle_bool 1 (p_alpha p) then t
  else if Qle_bool (p_alpha p) 0 then vs
  else (p_alpha p * t + (1 - p_alpha p) * vs)%Q.
Proof. intros p t [x|]; reflexivity. Qed.

(** Sentence 4.  A request with a query vector of the wrong dimension is rejected, and a vector
    accepted at add time has the dimension of its field. *)
Theorem final_dim_rejected : forall w r,
  (exists c f, In c (r_clauses r) /\ nthN (w_fields w) (c_field c) = Some f /\ nlen (c_vec c) <> f_dim f) ->
  exists e, M w r = ObsErr e.
Proof.
  intros w r [c [f [H1 [H2 H3]]]]. apply dim_rejected. unfold wrong_dim. apply existsb_exists.
  exists c. split; [exact H1|]. rewrite H2. apply negb_true_iff, N.eqb_neq. exact H3.
Qed.

Theorem final_dim_add : forall dim len, add_accepts dim (Some len) = true -> len = dim.
Proof. exact add_dim. Qed.

(** Sentence 5.  While a segment holds at most m vectors of a field, the graph that
    [add_vector] builds document by document is complete ... *)
Theorem final_graph_complete : forall mt st m efc,
  present st <= N.max m 1 ->
  exists g, hnsw_build mt st m efc = Some g /\
    forall a b, vec_of st a <> None -> vec_of st b <> None -> a <> b -> In b (nbrs g a).
Proof.
  intros mt st m efc H. destruct (graph_complete mt st m efc H) as [g [Hb Hc]]. exists g. split; [exact Hb|].
  intros a b Ha Hb' Hne.
  assert (Hn : forall x, vec_of st x <> None -> In x (nodes st (length st))).
  { intros x Hx. apply nodes_in. destruct (vec_of st x) as [v|] eqn:Ev; [|contradiction].
    split; [apply vec_of_lt in Ev; lia|unfold hasv; rewrite Ev; reflexivity]. }
  destruct (c_nb _ _ _ Hc a (Hn a Ha)) as [_ K]. apply K. split; [apply Hn, Hb'|congruence].
Qed.

(** ... and the graph search (any ef_search, any k) returns exactly k nearest neighbours: k
    distinct stored vectors (all of them if fewer are present) with their exact similarities,
    none of the others being nearer than any returned one.  The fuelled search does not run out
    of fuel ([Some]). *)
Theorem final_exact_small : forall mt st m efc q k ef,
  present st <= N.max m 1 ->
  exists g l,
    hnsw_build mt st m efc = Some g
    /\ hnsw_search mt st g q k ef = Some l
    /\ NoDup (map fst l)
    /\ (forall id x, In (id, x) l -> exists v, vec_of st id = Some v /\ x = sim mt q v)
    /\ nlen l = N.min k (present st)
    /\ (forall id v, vec_of st id = Some v -> ~ In id (map fst l) ->
          forall id' x, In (id', x) l -> (sim mt q v <= x)%Q).
Proof.
  intros mt st m efc q k ef H. destruct (exact_small mt st m efc q k ef H) as [g [l [H1 [H2 [T1 [T2 [T3 T4]]]]]]].
  exists g, l. repeat (split; [assumption|]). split; [|split; [exact T3|]].
  - intros id x Hin. pose proof (T2 _ Hin) as Hs. cbn [fst snd] in Hs. unfold sc in Hs.
    destruct (vec_of st id) as [v|]; [|discriminate]. exists v. split; [reflexivity|]. cbn in Hs. congruence.
  - intros id v Hv Hnot id' x Hin.
    assert (Hs : sc mt st q id = Some (sim mt q v)) by (unfold sc; rewrite Hv; reflexivity).
    exact (T4 id (sim mt q v) Hs Hnot (id', x) Hin).
Qed.

(** The fuelled graph search of the model never runs out of fuel: a request that passes planning
    yields hits (the model-only outcome [ObsErr E_FUEL] is unreachable). *)
Theorem final_model_total : forall w r ps,
  build_plan w r = Ok ps -> exists hits, M w r = ObsHits hits.
Proof. exact model_total. Qed.

(** The model meets the core of the executable specification on every well-formed input: hits are
    live documents of the index that pass [filter] and carry a vector score unless the request is of
    known class 1, they are distinct, at most [limit] and in non-increasing score order; planning
    errors (wrong dimension among them) are rejections.  PARTIAL: the numeric parts of the
    specification ([explained]: score and vector_score within tolerance of the exact blend) follow
    from [C29_hits_sound] only informally, and [exact_ok] (sentence 5 at the level of whole requests)
    is carried by [C29_exact_small] for the graph search plus the correspondence check. *)
Theorem final_model_meets_spec_partial : forall w r,
  wf w r = true -> spec_core w r (M w r) = true /\ spec_dim w r (M w r) = true.
Proof. exact model_meets_spec_core. Qed.

(** The square root used for "exact similarity" is exact to 2^-40. *)
Theorem final_sqrt_bracket : forall n : Z, (0 <= n)%Z ->
  (qsqrt n * qsqrt n <= inject_Z n)%Q
  /\ (inject_Z n < (qsqrt n + Qmake 1 (Z.to_pos (2 ^ 40))) * (qsqrt n + Qmake 1 (Z.to_pos (2 ^ 40))))%Q.
Proof. exact qsqrt_spec. Qed.

(** Non-vacuity: three L2 vectors 1, -2, 3 in a segment with m = 4, query 0, k = 2, ef_search = 1
    (the input on which the code before the fix returned 1 and 3). *)
Example final_nonvacuous :
  let st := [Some [1%Z]; Some [(-2)%Z]; Some [3%Z]; None] in
  present st <= N.max 4 1
  /\ hnsw_build L2 st 4 4 = Some {| g_entry := Some 0; g_nb := [[2; 1]; [0; 2]; [0; 1]; []] |}
  /\ option_map (map fst) (match hnsw_build L2 st 4 4 with Some g => hnsw_search L2 st g [0%Z] 2 1 | None => None end)
     = Some [0; 1].
Proof. vm_compute. repeat split; try reflexivity. discriminate. Qed.
