(** C29 — the fuelled graph search never runs out of fuel: every iteration of the loop pops one
    candidate, and a document enters the candidate heap at most once (when it is first visited).
    Hence [search_internal], [add_vector], [hnsw_build] and the model [M] are total: the
    out-of-fuel outcome [ObsErr E_FUEL] is unreachable. *)

From Coq Require Import List NArith ZArith QArith Bool Lia.
From SL Require Import Base.Tie C29.Hnsw C29.HnswProofs C29.Model.
Import ListNotations.
Open Scope N_scope.

(** documents with a vector that have not been visited yet *)
Definition unvisited (st : store) (v : list N) : list N :=
  filter (fun id => hasv st id && negb (memN id v)) (ids_upto (length st)).

Definition mu (st : store) (s : sstate) : nat := (length (st_c s) + length (unvisited st (st_v s)))%nat.

Lemma filter_le_mono : forall {A} (f g : A -> bool) l,
  (forall x, f x = true -> g x = true) -> (length (filter f l) <= length (filter g l))%nat.
Proof.
  intros A f g l H. induction l as [|x t IH]; cbn; [lia|].
  destruct (f x) eqn:Ef; [rewrite (H x Ef); cbn; lia|]. destruct (g x); cbn; lia.
Qed.

Lemma filter_drop_one : forall (f g : N -> bool) l nb,
  NoDup l -> In nb l -> f nb = true -> g nb = false ->
  (forall x, x <> nb -> g x = f x) ->
  S (length (filter g l)) = length (filter f l).
Proof.
  intros f g l nb Hnd Hin Hf Hg Hext. induction l as [|x t IH]; [destruct Hin|].
  inversion Hnd as [|? ? Hnx Hndt]; subst. cbn. destruct Hin as [->|Hin].
  - rewrite Hf, Hg. cbn. f_equal. f_equal. apply filter_ext_in. intros y Hy. apply Hext. intro; subst; contradiction.
  - assert (x <> nb) by (intro; subst; contradiction). rewrite (Hext x H).
    destruct (f x); cbn; rewrite <- (IH Hndt Hin); reflexivity.
Qed.

Lemma hasv_lt : forall st id, hasv st id = true -> id < N.of_nat (length st).
Proof.
  intros st id H. unfold hasv in H. destruct (vec_of st id) as [v|] eqn:E; [|discriminate].
  apply vec_of_lt in E. lia.
Qed.

Lemma visit_mu : forall mt st q ef s nb, (mu st (visit mt st q ef s nb) <= mu st s)%nat.
Proof.
  intros mt st q ef s nb. unfold visit. destruct (memN nb (st_v s)) eqn:Em; [lia|].
  unfold sc. destruct (vec_of st nb) as [v|] eqn:Ev; cbn [option_map].
  - (* a fresh document with a vector: one unvisited document fewer, at most one candidate more *)
    assert (Hv : hasv st nb = true) by (unfold hasv; rewrite Ev; reflexivity).
    assert (Hdrop : S (length (unvisited st (nb :: st_v s))) = length (unvisited st (st_v s))).
    { unfold unvisited. apply filter_drop_one with (nb := nb).
      - apply ids_upto_nodup.
      - apply ids_upto_in, hasv_lt, Hv.
      - rewrite Hv, Em. reflexivity.
      - rewrite Hv. cbn [memN existsb]. rewrite N.eqb_refl. reflexivity.
      - intros x Hx. f_equal. f_equal. cbn [memN existsb].
        destruct (x =? nb) eqn:E; [apply N.eqb_eq in E; contradiction|reflexivity]. }
    match goal with |- context [if ?c then _ else _] => destruct c end; unfold mu; cbn [st_c st_v length]; lia.
  - (* no vector: not a candidate, and it was not counted *)
    unfold mu. cbn [st_c st_v].
    assert (length (unvisited st (nb :: st_v s)) <= length (unvisited st (st_v s)))%nat; [|lia].
    unfold unvisited. apply filter_le_mono. intros x Hx. apply andb_true_iff in Hx. destruct Hx as [H1 H2].
    rewrite H1. cbn [andb]. apply negb_true_iff in H2. apply negb_true_iff. cbn [memN existsb] in H2.
    apply orb_false_iff in H2. tauto.
Qed.

Lemma fold_visit_mu : forall mt st q ef nbs s, (mu st (fold_left (visit mt st q ef) nbs s) <= mu st s)%nat.
Proof.
  intros mt st q ef. induction nbs as [|nb t IH]; intros s; cbn [fold_left]; [lia|].
  etransitivity; [apply IH|apply visit_mu].
Qed.

Lemma sloop_total : forall mt st g q ef fuel s,
  (mu st s < fuel)%nat -> exists r, sloop fuel mt st g q ef s = Some r.
Proof.
  intros mt st g q ef. induction fuel as [|f IH]; intros s H; [lia|]. rewrite sloop_S.
  destruct (pop_max (st_c s)) as [[best rest]|] eqn:Ep; [|eexists; reflexivity].
  match goal with |- context [if ?c then _ else _] => destruct c end; [eexists; reflexivity|].
  apply IH. eapply Nat.le_lt_trans; [apply fold_visit_mu|].
  apply pop_max_shrinks in Ep. unfold mu in *. cbn [st_c st_v]. lia.
Qed.

Lemma search_internal_total : forall mt st g q ef, exists r, search_internal mt st g q ef = Some r.
Proof.
  intros mt st g q ef. unfold search_internal. destruct (g_entry g) as [e|]; [|eexists; reflexivity].
  apply sloop_total. unfold mu. cbn [st_c st_v length].
  assert (length (unvisited st [e]) <= length st)%nat; [|lia].
  unfold unvisited. etransitivity; [apply filter_len_le|]. unfold ids_upto. rewrite map_length, seq_length. lia.
Qed.

Lemma add_vector_total : forall mt st m efc g id, exists g', add_vector mt st m efc g id = Some g'.
Proof.
  intros mt st m efc g id. unfold add_vector. destruct (vec_of st id) as [v|]; [|eexists; reflexivity].
  destruct (g_entry g) as [e|]; [|eexists; reflexivity].
  destruct (search_internal_total mt st g v (N.max efc (m * 2))) as [r Hr]. rewrite Hr.
  match goal with |- context [if ?c then _ else _] => destruct c end; eexists; reflexivity.
Qed.

Lemma add_all_total : forall mt st m efc l g, exists g', add_all mt st m efc l g = Some g'.
Proof.
  intros mt st m efc. induction l as [|id t IH]; intros g; cbn [add_all]; [eexists; reflexivity|].
  destruct (add_vector_total mt st m efc g id) as [g1 H1]. rewrite H1. apply IH.
Qed.

Lemma knn_hnsw_total : forall p st k, exists l, knn_hnsw p st k = Some l.
Proof.
  intros p st k. unfold knn_hnsw, hnsw_build.
  destruct (add_all_total (p_metric p) st (N.max (p_m p) 1) (N.max (p_efc p) 1) (ids_upto (length st))
              {| g_entry := None; g_nb := repeat [] (length st) |}) as [g Hg]. rewrite Hg.
  unfold hnsw_search. destruct (k =? 0); [eexists; reflexivity|].
  destruct (search_internal_total (p_metric p) st g (p_vec p) (N.max (N.max (p_ef p) k) 1)) as [r Hr]. rewrite Hr.
  eexists; reflexivity.
Qed.

Lemma all_seg_cands_total : forall hybrid p segs s0, exists l, all_seg_cands knn_hnsw hybrid p s0 segs = Some l.
Proof.
  intros hybrid p. induction segs as [|seg ts IHs]; intros s0; cbn [all_seg_cands]; [eexists; reflexivity|].
  assert (Hs : exists a, seg_cands knn_hnsw hybrid p s0 seg = Some a).
  { unfold seg_cands. destruct (present (seg_store (p_field p) seg) =? 0); [eexists; reflexivity|].
    destruct (knn_hnsw_total p (seg_store (p_field p) seg) (search_k p (seg_store (p_field p) seg))) as [l Hl].
    rewrite Hl. eexists; reflexivity. }
  destruct Hs as [a Ha]. rewrite Ha. destruct (IHs (s0 + 1)) as [b Hb]. rewrite Hb. eexists; reflexivity.
Qed.

Lemma all_maps_total : forall hybrid segs ps, exists maps, all_maps knn_hnsw hybrid segs ps = Some maps.
Proof.
  intros hybrid segs. induction ps as [|p t IH]; cbn [all_maps]; [eexists; reflexivity|].
  assert (Hc : exists m, clause_map knn_hnsw hybrid segs p = Some m).
  { unfold clause_map. destruct (all_seg_cands_total hybrid p segs 0) as [l Hl]. rewrite Hl. eexists; reflexivity. }
  destruct Hc as [m Hm]. rewrite Hm. destruct IH as [ms Hms]. rewrite Hms. eexists; reflexivity.
Qed.

(** the model never reports the out-of-fuel outcome: a well-planned request yields hits *)
Theorem model_total : forall w r ps,
  build_plan w r = Ok ps -> exists hits, M w r = ObsHits hits.
Proof.
  intros w r ps H. unfold M, run_search. rewrite H.
  destruct (all_maps_total (r_hybrid r) (w_segs w) ps) as [maps Hm]. rewrite Hm. eexists; reflexivity.
Qed.
