(** C29 — model of searchlite-core/src/vectors/{mod.rs,hnsw.rs}: similarity, the flat (single
    layer) HNSW graph: [add_vector], [search_internal], [prune_list], [search].
    Definitions only; proofs are in HnswProofs.v.

    Numbers.  Vector components are integers (the harness generates integer-valued f32
    components, for which dot products and squared distances are exact in f32).  Scores are
    rationals.  The only irrational operation, the square root, is the exact integer square root
    of the argument scaled by 4^SB, i.e. a rational within 2^-SB of the real root
    ([qsqrt_spec] in HnswProofs.v brackets it by squares); nothing is taken from the harness.

    Heaps.  [Scored] is totally ordered by (score, id) ([total_cmp] then id), so the element a
    [BinaryHeap] pops is determined: heaps are modelled as duplicate-free lists with
    extract-max / extract-min. *)

From Coq Require Import List NArith ZArith QArith Qabs Bool.
Import ListNotations.
Open Scope N_scope.

Inductive metric := Cosine | L2.

Definition metric_eqb (a b : metric) : bool :=
  match a, b with Cosine, Cosine => true | L2, L2 => true | _, _ => false end.

(** -- generic list helpers ------------------------------------------------------------------ *)

Definition nlen {A} (l : list A) : N := N.of_nat (length l).
Definition nthN {A} (l : list A) (i : N) : option A := nth_error l (N.to_nat i).

Fixpoint insert_by {A} (le : A -> A -> bool) (x : A) (l : list A) : list A :=
  match l with
  | [] => [x]
  | y :: t => if le x y then x :: l else y :: insert_by le x t
  end.

(** stable insertion sort; [le a b] = "a may stand before b" *)
Definition isort {A} (le : A -> A -> bool) (l : list A) : list A := fold_right (insert_by le) [] l.

Fixpoint set_nth {A} (l : list A) (i : nat) (x : A) : list A :=
  match l, i with
  | [], _ => []
  | _ :: t, O => x :: t
  | y :: t, S j => y :: set_nth t j x
  end.

Definition memN (x : N) (l : list N) : bool := existsb (N.eqb x) l.

(** -- similarity ------------------------------------------------------------------------------ *)

Definition SB : Z := 40.

Fixpoint dotZ (a b : list Z) : Z :=
  match a, b with
  | x :: a', y :: b' => (x * y + dotZ a' b')%Z
  | _, _ => 0%Z
  end.

Fixpoint sqdistZ (a b : list Z) : Z :=
  match a, b with
  | x :: a', y :: b' => ((x - y) * (x - y) + sqdistZ a' b')%Z
  | _, _ => 0%Z
  end.

(** rational square root: floor(sqrt(n * 4^SB)) / 2^SB  (n >= 0) *)
Definition qsqrt (n : Z) : Q := Qmake (Z.sqrt (n * 4 ^ SB)) (Z.to_pos (2 ^ SB)).

(** [metric_similarity] on the vectors as the index holds them: cosine vectors are normalised at
    add time and at query time ([normalize_in_place]: a zero vector stays zero, so its dot
    product with anything is 0), L2 vectors are stored as given. *)
Definition sim (mt : metric) (q v : list Z) : Q :=
  match mt with
  | Cosine =>
      let nq := dotZ q q in
      let nv := dotZ v v in
      if ((nq =? 0) || (nv =? 0))%Z then 0%Q
      else (inject_Z (dotZ q v) / qsqrt (nq * nv))%Q
  | L2 => (- qsqrt (sqdistZ q v))%Q
  end.

(** f32::MIN = -(2^24 - 1) * 2^104 *)
Definition FMIN : Q := inject_Z (- ((2 ^ 24 - 1) * 2 ^ 104))%Z.

(** -- Scored ------------------------------------------------------------------------------------ *)

Notation scored := (N * Q)%type (only parsing).

Definition Qltb (a b : Q) : bool := negb (Qle_bool b a).

(** [Scored::cmp]: score ([total_cmp]) then id *)
Definition s_lt (a b : scored) : bool :=
  Qltb (snd a) (snd b) || (Qeq_bool (snd a) (snd b) && (fst a <? fst b)).

(** "a stands before b" in descending [Scored] order (the [sort_by(|a, b| b.cmp(a))] calls) *)
Definition s_desc (a b : scored) : bool := negb (s_lt a b).

Fixpoint max_of (x : scored) (l : list scored) : scored :=
  match l with
  | [] => x
  | y :: t => if s_lt x y then max_of y t else max_of x t
  end.

Fixpoint min_of (x : scored) (l : list scored) : scored :=
  match l with
  | [] => x
  | y :: t => if s_lt y x then min_of y t else min_of x t
  end.

Fixpoint remove_id (id : N) (l : list scored) : list scored :=
  match l with
  | [] => []
  | y :: t => if fst y =? id then t else y :: remove_id id t
  end.

(** [BinaryHeap<Scored>::pop] *)
Definition pop_max (l : list scored) : option (scored * list scored) :=
  match l with
  | [] => None
  | x :: t => let m := max_of x t in Some (m, remove_id (fst m) l)
  end.

(** [BinaryHeap<Reverse<Scored>>]: peek / pop give the minimum *)
Definition peek_min (l : list scored) : option scored :=
  match l with
  | [] => None
  | x :: t => Some (min_of x t)
  end.

Definition drop_min (l : list scored) : list scored :=
  match peek_min l with
  | None => l
  | Some m => remove_id (fst m) l
  end.

(** -- the graph ---------------------------------------------------------------------------------- *)

Definition store := list (option (list Z)).

Definition vec_of (st : store) (id : N) : option (list Z) :=
  match nthN st id with Some (Some v) => Some v | _ => None end.

Definition present (st : store) : N :=
  nlen (filter (fun o => match o with Some _ => true | None => false end) st).

Record graph := { g_entry : option N; g_nb : list (list N) }.

Definition nbrs (g : graph) (id : N) : list N :=
  match nthN (g_nb g) id with Some l => l | None => [] end.

Definition sc (mt : metric) (st : store) (q : list Z) (id : N) : option Q :=
  option_map (sim mt q) (vec_of st id).

(** [similarity_between] *)
Definition sim_between (mt : metric) (st : store) (a b : N) : Q :=
  match vec_of st a, vec_of st b with
  | Some va, Some vb => sim mt va vb
  | _, _ => FMIN
  end.

(** search state: candidates (max-heap), results (bounded min-heap), visited set *)
Record sstate := { st_c : list scored; st_r : list scored; st_v : list N }.

(** one neighbour of the node being expanded (after the fix: the bound is the current worst
    result, re-read for every neighbour) *)
Definition visit (mt : metric) (st : store) (q : list Z) (ef : N) (s : sstate) (nb : N) : sstate :=
  if memN nb (st_v s) then s
  else
    let v' := nb :: st_v s in
    match sc mt st q nb with
    | None => {| st_c := st_c s; st_r := st_r s; st_v := v' |}
    | Some x =>
        let accept :=
          (nlen (st_r s) <? ef)
          || match peek_min (st_r s) with Some w => Qltb (snd w) x | None => true end in
        if accept then
          let r1 := (nb, x) :: st_r s in
          let r2 := if ef <? nlen r1 then drop_min r1 else r1 in
          {| st_c := (nb, x) :: st_c s; st_r := r2; st_v := v' |}
        else {| st_c := st_c s; st_r := st_r s; st_v := v' |}
    end.

(** the [while let Some(best) = candidates.pop()] loop; [None] = out of fuel (never reached with
    the fuel [search_internal] supplies: every node enters the candidate heap at most once) *)
Fixpoint sloop (fuel : nat) (mt : metric) (st : store) (g : graph) (q : list Z) (ef : N) (s : sstate)
  : option (list scored) :=
  match fuel with
  | O => None
  | S f =>
      match pop_max (st_c s) with
      | None => Some (st_r s)
      | Some (best, rest) =>
          let stop :=
            match peek_min (st_r s) with
            | Some w => Qltb (snd best) (snd w) && (ef <=? nlen (st_r s))
            | None => false
            end in
          if stop then Some (st_r s)
          else
            let s0 := {| st_c := rest; st_r := st_r s; st_v := st_v s |} in
            sloop f mt st g q ef (fold_left (visit mt st q ef) (nbrs g (fst best)) s0)
      end
  end.

Definition search_internal (mt : metric) (st : store) (g : graph) (q : list Z) (ef : N)
  : option (list scored) :=
  match g_entry g with
  | None => Some []
  | Some e =>
      let es := match sc mt st q e with Some x => x | None => FMIN end in
      sloop (S (S (length st))) mt st g q ef {| st_c := [(e, es)]; st_r := [(e, es)]; st_v := [e] |}
  end.

(** [HnswIndex::search] *)
Definition hnsw_search (mt : metric) (st : store) (g : graph) (q : list Z) (k ef_search : N)
  : option (list scored) :=
  if k =? 0 then Some []
  else
    let ef := N.max (N.max ef_search k) 1 in
    option_map (fun r => firstn (N.to_nat k) (isort s_desc r)) (search_internal mt st g q ef).

(** [prune_list]: sort by similarity to [target] descending, then id ascending; keep [m] *)
Definition prune_le (mt : metric) (st : store) (target : N) (a b : N) : bool :=
  let sa := sim_between mt st target a in
  let sb := sim_between mt st target b in
  Qltb sb sa || (Qeq_bool sa sb && (a <=? b)).

Definition prune (mt : metric) (st : store) (m : N) (target : N) (l : list N) : list N :=
  firstn (N.to_nat m) (isort (prune_le mt st target) l).

Definition set_nb (g : graph) (id : N) (l : list N) : graph :=
  {| g_entry := g_entry g; g_nb := set_nth (g_nb g) (N.to_nat id) l |}.

(** the back-link loop of [add_vector] *)
Definition backlink (mt : metric) (st : store) (m : N) (id : N) (g : graph) (n : N) : graph :=
  let owned := nbrs g n in
  if memN id owned then g else set_nb g n (prune mt st m n (owned ++ [id])).

(** [HnswIndex::add_vector] ([m], [efc] are the graph's, already [max 1]); the neighbour table is
    allocated with one slot per document by [HnswIndex::new], so the [resize] never fires *)
Definition add_vector (mt : metric) (st : store) (m efc : N) (g : graph) (id : N) : option graph :=
  match vec_of st id with
  | None => Some g
  | Some v =>
      match g_entry g with
      | None => Some {| g_entry := Some id; g_nb := g_nb g |}
      | Some e =>
          let ef := N.max efc (m * 2) in
          match search_internal mt st g v ef with
          | None => None
          | Some found =>
              let cands := isort s_desc (filter (fun c => negb (fst c =? id)) found) in
              let ids := map fst (firstn (N.to_nat m) cands) in
              let g1 := set_nb g id ids in
              let g2 := fold_left (backlink mt st m id) ids g1 in
              if (match nbrs g2 e with [] => true | _ => false end) && negb (id =? e) then
                let g3 := set_nb g2 e (prune mt st m e (nbrs g2 e ++ [id])) in
                Some (set_nb g3 id (prune mt st m id (nbrs g3 id ++ [e])))
              else Some g2
          end
      end
  end.

Fixpoint add_all (mt : metric) (st : store) (m efc : N) (ids : list N) (g : graph) : option graph :=
  match ids with
  | [] => Some g
  | id :: t =>
      match add_vector mt st m efc g id with
      | None => None
      | Some g' => add_all mt st m efc t g'
      end
  end.

Definition ids_upto (n : nat) : list N := map N.of_nat (seq 0 n).

(** segment.rs: [HnswIndex::new(store, params)] then [add_vector(doc)] for every document in
    order ([m], [efc] as written in the schema; [new] clamps them to at least 1) *)
Definition hnsw_build (mt : metric) (st : store) (m efc : N) : option graph :=
  add_all mt st (N.max m 1) (N.max efc 1) (ids_upto (length st))
          {| g_entry := None; g_nb := repeat [] (length st) |}.

(** brute force: every stored vector scored, in descending [Scored] order *)
Definition all_scored (mt : metric) (st : store) (q : list Z) : list scored :=
  flat_map (fun id => match sc mt st q id with Some x => [(id, x)] | None => [] end)
           (ids_upto (length st)).

Definition exact_knn (mt : metric) (st : store) (q : list Z) (k : N) : list scored :=
  firstn (N.to_nat k) (isort s_desc (all_scored mt st q)).
