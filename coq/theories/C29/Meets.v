(** C29 — the model meets the core of the executable specification on every well-formed input. *)

From Coq Require Import List NArith ZArith QArith Bool Lia Lqa Permutation Sorted.
From SL Require Import Base.Tie C29.Hnsw C29.HnswProofs C29.Model C29.Proofs C29.Fuel.
Import ListNotations.
Open Scope N_scope.

Lemma nodup_map_inj : forall {A} (f : A -> N) (l : list A) x y,
  NoDup (map f l) -> In x l -> In y l -> f x = f y -> x = y.
Proof.
  intros A f l x y H. induction l as [|z t IH]; intros Hx Hy E; [destruct Hx|].
  cbn in H. inversion H as [|? ? Hn Ht]; subst.
  destruct Hx as [<-|Hx], Hy as [<-|Hy]; try reflexivity.
  - exfalso. apply Hn. rewrite E. apply in_map. exact Hy.
  - exfalso. apply Hn. rewrite <- E. apply in_map. exact Hx.
  - apply IH; assumption.
Qed.

Lemma nodupN_true : forall l, nodupN l = true <-> NoDup l.
Proof.
  induction l as [|x t IH]; cbn; [split; [constructor|reflexivity]|].
  rewrite andb_true_iff, negb_true_iff, memN_false, IH. split.
  - intros [H1 H2]. constructor; assumption.
  - intro H. inversion H; subst. split; assumption.
Qed.

Lemma nodup_firstn : forall {A} (l : list A) n, NoDup l -> NoDup (firstn n l).
Proof.
  intros A l n H. rewrite <- (firstn_skipn n l) in H. apply NoDup_app_remove_r in H. exact H.
Qed.

Lemma sorted_desc_true : forall hits : list hit,
  StronglySorted (fun a b : hit => (snd (fst b) <= snd (fst a))%Q) hits -> sorted_desc hits = true.
Proof.
  intros hits H. induction H as [|a t Hs IH Hall]; [reflexivity|].
  destruct t as [|b t']; [reflexivity|]. cbn [sorted_desc]. apply andb_true_iff. split; [|exact IH].
  apply Qle_bool_iff. rewrite Forall_forall in Hall. apply Hall. left. reflexivity.
Qed.

Lemma rank_doc_ids : forall hybrid ps maps l,
  NoDup (map (fun x : N * N * vdoc => d_id (snd x)) l) ->
  NoDup (map h_id (flat_map (rank_doc hybrid ps maps) l))
  /\ forall id, In id (map h_id (flat_map (rank_doc hybrid ps maps) l)) ->
                In id (map (fun x : N * N * vdoc => d_id (snd x)) l).
Proof.
  intros hybrid ps maps. induction l as [|x t IH]; intros H; cbn [flat_map map].
  - split; [constructor|intros id []].
  - cbn [map] in H. inversion H as [|? ? Hn Ht]; subst. destruct (IH Ht) as [I1 I2].
    assert (Hx : rank_doc hybrid ps maps x = [] \/ exists h, rank_doc hybrid ps maps x = [h] /\ h_id h = d_id (snd x)).
    { unfold rank_doc. destruct x as [[so di] d].
      match goal with |- context [if ?c then _ else _] => destruct c end;
        [right; eexists; split; [reflexivity|reflexivity]|left; reflexivity]. }
    destruct Hx as [Hx|[h [Hx Hid]]]; rewrite Hx; cbn [app map].
    + split; [exact I1|]. intros id Hin. right. apply I2, Hin.
    + split.
      * constructor; [|exact I1]. intro Hc. apply Hn. rewrite <- Hid. apply I2, Hc.
      * intros id [Hin|Hin]; [left; congruence|right; apply I2, Hin].
Qed.

Theorem model_meets_spec_core : forall w r, wf w r = true -> spec_core w r (M w r) = true /\ spec_dim w r (M w r) = true.
Proof.
  intros w r Hwf. split.
  2:{ unfold spec_dim. destruct (wrong_dim w r) eqn:Ew; [|reflexivity].
      destruct (dim_rejected knn_hnsw w r Ew) as [e He]. unfold M. rewrite He. reflexivity. }
  unfold spec_core. destruct (build_plan w r) as [ps|e] eqn:Ep.
  2:{ unfold M, run_search. rewrite Ep. reflexivity. }
  destruct (model_total w r ps Ep) as [hits Hm]. rewrite Hm.
  destruct (hits_sound_gen knn_hnsw w r hits knn_hnsw_sound Hm) as [ps' [Ep' Hf]].
  rewrite Ep in Ep'. inversion Ep'; subst ps'. clear Ep'.
  destruct (order_sorted knn_hnsw w r hits Hm) as [Hsorted Hlen].
  (* ids are unique over the index *)
  assert (Hnd : NoDup (map (fun x : N * N * vdoc => d_id (snd x)) (all_docs w))).
  { unfold wf in Hwf. apply andb_true_iff in Hwf. destruct Hwf as [Hwf _].
    apply andb_true_iff in Hwf. destruct Hwf as [_ Hwf]. apply nodupN_true. exact Hwf. }
  repeat (apply andb_true_iff; split).
  - apply forallb_forall. intros h Hh. destruct (Hf h Hh) as [so [di [seg [d [raws [H1 [H2 [H3 [H4 [H5 [H6 [H7 [H8 H9]]]]]]]]]]]]].
    assert (Hin : In (so, di, d) (all_docs w)) by (apply all_docs_in; exists seg; split; assumption).
    unfold find_doc.
    destruct (find (fun x : N * N * vdoc => d_id (snd x) =? fst (fst h)) (all_docs w)) as [[[so' di'] d']|] eqn:Efind.
    + apply find_some in Efind. destruct Efind as [F1 F2]. cbn [snd] in F2. apply N.eqb_eq in F2.
      assert (E : (so', di', d') = (so, di, d)).
      { eapply (nodup_map_inj (fun x : N * N * vdoc => d_id (snd x))); try eassumption. cbn [snd]. congruence. }
      inversion E; subst. rewrite H4, H5. cbn [negb andb].
      destruct (snd h) as [x|] eqn:Evs; [reflexivity|]. cbn [is_some orb].
      destruct (H9 eq_refl) as [K1 [K2 _]]. rewrite K1, K2. reflexivity.
    + exfalso. apply (find_none _ _ Efind) in Hin. cbn [snd] in Hin. rewrite H3, N.eqb_refl in Hin. discriminate.
  - apply sorted_desc_true. exact Hsorted.
  - apply nodupN_true. unfold M, run_search in Hm. rewrite Ep in Hm.
    destruct (all_maps knn_hnsw (r_hybrid r) (w_segs w) ps) as [maps|]; [|discriminate].
    inversion Hm; subst. unfold hit_ids. rewrite map_map. cbn [fst].
    rewrite <- (firstn_map). apply nodup_firstn.
    eapply Permutation_NoDup; [apply Permutation_map, Permutation_sym, isort_perm|].
    apply rank_doc_ids. exact Hnd.
  - apply N.leb_le. exact Hlen.
Qed.
