(** C29 — model of the vector / hybrid search path of searchlite-core/src/api/reader.rs
    ([build_vector_plan], [collect_vector_maps], [compute_hybrid_score], [search_vector_only],
    [merge_vector_hits]) over the HNSW model of Hnsw.v, the executable specification read off the
    property text, and [check_case].  Definitions only; proofs are in Proofs.v / HnswProofs.v.

    What is an input here.  The harness reads the real segment layout from the reader (segment
    order, internal document order, tombstones, stored vectors) and evaluates the request's
    [filter] / [vector_filter] on its own copy of the documents; the text score of a document
    under the request's text query (hybrid requests) is an oracle taken from a text-only run of
    the same request.  Scores observed from the implementation are the exact rational values of
    the returned f32s. *)

From Coq Require Import List NArith ZArith QArith Qabs Bool.
From SL Require Import Base.Tie C29.Hnsw.
Import ListNotations.
Open Scope N_scope.

(** -- inputs ------------------------------------------------------------------------------------ *)

Record vfield := { f_dim : N; f_metric : metric; f_m : N; f_efc : N }.

Record vdoc := {
  d_id : N;                        (* unique per document version (a stored field the hits carry) *)
  d_deleted : bool;                (* tombstoned in its segment                                   *)
  d_pass : bool;                   (* passes the request's [filter] (true when there is none)     *)
  d_vpass : bool;                  (* passes the request's [vector_filter] (true when none)       *)
  d_text : option Q;               (* hybrid: text score when the text query matches the document *)
  d_vecs : list (option (list Z))  (* one entry per vector field of the schema                    *)
}.

Record world := { w_fields : list vfield; w_segs : list (list vdoc) }.

Record clause := {
  c_field : N; c_vec : list Z; c_k : option N; c_alpha : option Q;
  c_ef : option N; c_cand : option N; c_boost : option Q
}.

Record request := {
  r_clauses : list clause;
  r_hybrid : bool;      (* the query has non-vector nodes ([vector_only] = false) *)
  r_limit : N;
  r_cand : option N     (* request-level [candidate_size] *)
}.

Definition hit := (N * Q * option Q)%type.   (* id, _score, vector_score *)

Inductive obs := ObsErr (kind : N) | ObsHits (hits : list hit).

Definition E_DIM : N := 1.      (* "expects dimension" *)
Definition E_ALPHA : N := 2.    (* "vector alpha must be ..." *)
Definition E_BOOST : N := 3.    (* "vector boost must be ..." *)
Definition E_FIELD : N := 4.    (* "unknown vector field" *)
Definition E_LIMIT : N := 5.    (* "search request must set limit > 0" *)
Definition E_TOOMANY : N := 6.  (* "too many vector clauses" *)
Definition E_FUEL : N := 99.    (* model only: the fuelled graph search ran out of fuel *)

Inductive res (A : Type) := Ok (a : A) | Err (kind : N).
Arguments Ok {A} a.
Arguments Err {A} kind.

(** -- plan ([build_vector_plan]) ------------------------------------------------------------ *)

Record cplan := {
  p_field : N; p_metric : metric; p_m : N; p_efc : N; p_vec : list Z;
  p_k : N; p_alpha : Q; p_ef : N; p_cand : N; p_boost : Q
}.

Definition odef {A} (o : option A) (d : A) : A := match o with Some x => x | None => d end.
Definition is_some {A} (o : option A) : bool := match o with Some _ => true | None => false end.

Fixpoint plan_clauses (w : world) (limit : N) (cs : list clause) : res (list cplan) :=
  match cs with
  | [] => Ok []
  | c :: t =>
      match nthN (w_fields w) (c_field c) with
      | None => Err E_FIELD
      | Some f =>
          if negb (nlen (c_vec c) =? f_dim f) then Err E_DIM
          else
            let alpha := odef (c_alpha c) (1 # 2)%Q in
            if negb (Qle_bool 0 alpha && Qle_bool alpha 1) then Err E_ALPHA
            else
              let k := N.min (N.max (odef (c_k c) limit) 1) 1024 in
              let cand0 := odef (c_cand c) (N.max (N.max k limit) 10 * 2) in
              let cand := N.min (N.max cand0 k) 10000 in
              let ef := N.min (odef (c_ef c) (N.max 40 cand)) 65536 in
              let boost := odef (c_boost c) 1%Q in
              if Qltb boost 0 then Err E_BOOST
              else
                match plan_clauses w limit t with
                | Err e => Err e
                | Ok ps =>
                    Ok ({| p_field := c_field c; p_metric := f_metric f; p_m := f_m f; p_efc := f_efc f;
                           p_vec := c_vec c; p_k := k; p_alpha := alpha; p_ef := ef; p_cand := cand;
                           p_boost := boost |} :: ps)
                end
      end
  end.

Definition build_plan (w : world) (r : request) : res (list cplan) :=
  if r_limit r =? 0 then Err E_LIMIT
  else if 8 <? nlen (r_clauses r) then Err E_TOOMANY
  else plan_clauses w (r_limit r) (r_clauses r).

(** -- candidate collection ([collect_vector_maps]) ---------------------------------------------- *)

Definition seg_store (f : N) (seg : list vdoc) : store :=
  map (fun d => match nthN (d_vecs d) f with Some o => o | None => None end) seg.

(** the checks a graph candidate has to pass: tombstone, [filter], [vector_filter], and for
    hybrid requests the text query *)
Definition eligible (hybrid : bool) (d : vdoc) : bool :=
  negb (d_deleted d) && d_pass d && d_vpass d && (negb hybrid || is_some (d_text d)).

Record cand := { k_seg : N; k_doc : N; k_score : Q }.

Definition knn_fun := cplan -> store -> N -> option (list scored).

Definition knn_hnsw : knn_fun := fun p st k =>
  match hnsw_build (p_metric p) st (p_m p) (p_efc p) with
  | Some g => hnsw_search (p_metric p) st g (p_vec p) k (p_ef p)
  | None => None
  end.

Definition knn_exact : knn_fun := fun p st k => Some (exact_knn (p_metric p) st (p_vec p) k).

Definition search_k (p : cplan) (st : store) : N :=
  N.min (N.max (p_cand p) (p_k p)) (N.max (present st) 1).

Definition seg_cands (knn : knn_fun) (hybrid : bool) (p : cplan) (so : N) (seg : list vdoc)
  : option (list cand) :=
  let st := seg_store (p_field p) seg in
  if present st =? 0 then Some []
  else
    match knn p st (search_k p st) with
    | None => None
    | Some found =>
        Some (flat_map (fun c : scored =>
                match nthN seg (fst c) with
                | Some d => if eligible hybrid d
                            then [{| k_seg := so; k_doc := fst c; k_score := (snd c * p_boost p)%Q |}]
                            else []
                | None => []
                end) found)
    end.

Fixpoint all_seg_cands (knn : knn_fun) (hybrid : bool) (p : cplan) (so : N) (segs : list (list vdoc))
  : option (list cand) :=
  match segs with
  | [] => Some []
  | seg :: t =>
      match seg_cands knn hybrid p so seg, all_seg_cands knn hybrid p (so + 1) t with
      | Some a, Some b => Some (a ++ b)
      | _, _ => None
      end
  end.

(** score descending, then segment, then document *)
Definition cand_le (a b : cand) : bool :=
  Qltb (k_score b) (k_score a)
  || (Qeq_bool (k_score a) (k_score b)
      && ((k_seg a <? k_seg b) || ((k_seg a =? k_seg b) && (k_doc a <=? k_doc b)))).

Definition clause_map (knn : knn_fun) (hybrid : bool) (segs : list (list vdoc)) (p : cplan)
  : option (list cand) :=
  match all_seg_cands knn hybrid p 0 segs with
  | None => None
  | Some l => Some (firstn (N.to_nat (p_cand p)) (isort cand_le l))
  end.

Fixpoint all_maps (knn : knn_fun) (hybrid : bool) (segs : list (list vdoc)) (ps : list cplan)
  : option (list (list cand)) :=
  match ps with
  | [] => Some []
  | p :: t =>
      match clause_map knn hybrid segs p, all_maps knn hybrid segs t with
      | Some a, Some b => Some (a :: b)
      | _, _ => None
      end
  end.

Definition map_get (m : list cand) (so di : N) : option Q :=
  match find (fun c => (k_seg c =? so) && (k_doc c =? di)) m with
  | Some c => Some (k_score c)
  | None => None
  end.

(** -- scores ([compute_hybrid_score], [blend_scores]) ------------------------------------------ *)

Definition missing (mt : metric) : Q := match mt with Cosine => (-1)%Q | L2 => FMIN end.

(** the documented blend of one clause: alpha = 1 text only, alpha = 0 vector only, otherwise
    alpha * text + (1 - alpha) * vector; a document without a candidate score gets the penalty *)
Definition blend1 (p : cplan) (bm25 : Q) (raw : option Q) : Q :=
  let vs := odef raw (missing (p_metric p)) in
  if Qle_bool 1 (p_alpha p) then bm25
  else if Qle_bool (p_alpha p) 0 then vs
  else (p_alpha p * bm25 + (1 - p_alpha p) * vs)%Q.

Fixpoint qsum (l : list Q) : Q := match l with [] => 0%Q | x :: t => (x + qsum t)%Q end.

Fixpoint blends (ps : list cplan) (bm25 : Q) (raws : list (option Q)) : list Q :=
  match ps, raws with
  | p :: ps', r :: raws' => blend1 p bm25 r :: blends ps' bm25 raws'
  | _, _ => []
  end.

Fixpoint somes (l : list (option Q)) : list Q :=
  match l with
  | [] => []
  | Some x :: t => x :: somes t
  | None :: t => somes t
  end.

(** f32 overflow: several missing-vector penalties of L2 clauses add up to -inf, which the
    harness reports as this sentinel *)
Definition NEG_INF : Q := inject_Z (- 2 ^ 200)%Z.
(** sums at or below -(2^128 - 2^103) round to -inf in f32 *)
Definition OVF : Q := inject_Z (- (2 ^ 128 - 2 ^ 103))%Z.

Definition final_of (ps : list cplan) (bm25 : Q) (raws : list (option Q)) : Q :=
  let s := qsum (blends ps bm25 raws) in
  if Qle_bool s OVF then NEG_INF
  else (s / inject_Z (Z.of_N (N.max (nlen ps) 1)))%Q.

Definition vsum_of (raws : list (option Q)) : option Q :=
  match somes raws with [] => None | l => Some (qsum l) end.

(** -- the two result paths ------------------------------------------------------------------------ *)

Record ranked := { h_seg : N; h_doc : N; h_id : N; h_score : Q; h_vs : option Q }.

(** [SortKey::cmp] for the default sort: score descending, then segment, then document *)
Definition ranked_le (a b : ranked) : bool :=
  Qltb (h_score b) (h_score a)
  || (Qeq_bool (h_score a) (h_score b)
      && ((h_seg a <? h_seg b) || ((h_seg a =? h_seg b) && (h_doc a <=? h_doc b)))).

Definition text_hit (d : vdoc) : bool := negb (d_deleted d) && d_pass d && is_some (d_text d).

Fixpoint index_from {A} (i : N) (l : list A) : list (N * A) :=
  match l with [] => [] | x :: t => (i, x) :: index_from (i + 1) t end.

(** every (segment, document) of the index, in order *)
Definition all_docs (w : world) : list (N * N * vdoc) :=
  flat_map (fun sp : N * list vdoc =>
              map (fun dp : N * vdoc => (fst sp, fst dp, snd dp)) (index_from 0 (snd sp)))
           (index_from 0 (w_segs w)).

Definition all_alpha_le0 (ps : list cplan) : bool := forallb (fun p => Qle_bool (p_alpha p) 0) ps.
Definition all_alpha_ge1 (ps : list cplan) : bool := forallb (fun p => Qle_bool 1 (p_alpha p)) ps.

Definition rank_doc (hybrid : bool) (ps : list cplan) (maps : list (list cand)) (x : N * N * vdoc)
  : list ranked :=
  let '(so, di, d) := x in
  let raws := map (fun m => map_get m so di) maps in
  let in_map := existsb is_some raws in
  let keep :=
    if hybrid then (text_hit d || in_map) && negb (all_alpha_le0 ps && negb in_map)
    else in_map in
  if keep then
    let bm25 := if hybrid then (if text_hit d then odef (d_text d) 0%Q else 0%Q) else 0%Q in
    [{| h_seg := so; h_doc := di; h_id := d_id d; h_score := final_of ps bm25 raws; h_vs := vsum_of raws |}]
  else [].

Definition run_search (knn : knn_fun) (w : world) (r : request) : obs :=
  match build_plan w r with
  | Err e => ObsErr e
  | Ok ps =>
      match all_maps knn (r_hybrid r) (w_segs w) ps with
      | None => ObsErr E_FUEL
      | Some maps =>
          let rk := flat_map (rank_doc (r_hybrid r) ps maps) (all_docs w) in
          ObsHits (map (fun h => (h_id h, h_score h, h_vs h))
                       (firstn (N.to_nat (r_limit r)) (isort ranked_le rk)))
      end
  end.

(** the model of the code: graph search *)
Definition M (w : world) (r : request) : obs := run_search knn_hnsw w r.

(** wrong-dimension vectors at add time ([validate_vector_value]): null is "no vector" *)
Definition add_accepts (dim : N) (v : option N) : bool :=
  match v with None => true | Some len => len =? dim end.

(** == executable specification (from the property text) ======================================== *)

Definition EPS : Q := (1 # 16384)%Q.

Definition close (a b : Q) : bool := Qle_bool (Qabs (a - b)) (EPS * (1 + Qabs b))%Q.
Definition le_tol (a b : Q) : bool := Qle_bool a (b + EPS * (1 + Qabs a))%Q.

Definition find_doc (w : world) (id : N) : option (N * N * vdoc) :=
  find (fun x : N * N * vdoc => d_id (snd x) =? id) (all_docs w).

Definition doc_vec (d : vdoc) (f : N) : option (list Z) :=
  match nthN (d_vecs d) f with Some (Some v) => Some v | _ => None end.

(** exact similarity times boost of one clause for one document (None: no vector in the field) *)
Definition clause_score (p : cplan) (d : vdoc) : option Q :=
  match doc_vec d (p_field p) with
  | Some v => Some (sim (p_metric p) (p_vec p) v * p_boost p)%Q
  | None => None
  end.

(** a document may carry a vector score of a clause only if it is live, passes both filters and
    has a vector in the clause's field *)
Definition usable (d : vdoc) (p : cplan) : bool :=
  eligible false d && is_some (clause_score p d).

(** ... and for sentence 5 on hybrid requests the universe is the matches of the text query *)
Definition entitled (hybrid : bool) (d : vdoc) (p : cplan) : bool :=
  usable d p && (negb hybrid || is_some (d_text d)).

Fixpoint masks (n : nat) : list (list bool) :=
  match n with
  | O => [[]]
  | S n' => map (cons true) (masks n') ++ map (cons false) (masks n')
  end.

Fixpoint raws_of (hybrid : bool) (ps : list cplan) (d : vdoc) (mask : list bool) : option (list (option Q)) :=
  match ps, mask with
  | [], _ => Some []
  | p :: ps', b :: mask' =>
      match raws_of hybrid ps' d mask' with
      | None => None
      | Some t =>
          if b then (if usable d p then Some (clause_score p d :: t) else None)
          else Some (None :: t)
      end
  | _ :: _, [] => None
  end.

Definition bm25_of (hybrid : bool) (d : vdoc) : Q := if hybrid then odef (d_text d) 0%Q else 0%Q.

(** the hit's (score, vector_score) is explained by a set of contributing clauses *)
Definition explained (hybrid : bool) (ps : list cplan) (d : vdoc) (score : Q) (vs : option Q) : bool :=
  existsb (fun mask =>
    match raws_of hybrid ps d mask with
    | None => false
    | Some raws =>
        close score (final_of ps (bm25_of hybrid d) raws)
        && match vs, vsum_of raws with
           | Some x, Some y => close x y
           | None, None => true
           | _, _ => false
           end
    end) (masks (length ps)).

Definition full_raws (hybrid : bool) (ps : list cplan) (d : vdoc) : list (option Q) :=
  map (fun p => if entitled hybrid d p then clause_score p d else None) ps.

(** sentence 1 + 2 + the per-hit half of 3 *)
Definition hit_ok (strict : bool) (w : world) (hybrid : bool) (ps : list cplan) (h : hit) : bool :=
  let '(id, score, vs) := h in
  match find_doc w id with
  | None => false
  | Some (_, _, d) =>
      negb (d_deleted d) && d_pass d
      && match vs with
         | Some _ => explained hybrid ps d score vs
         | None =>
             (* not allowed by the statement; the relaxed reading admits text matches of a
                hybrid request scored with the missing-vector penalty *)
             negb strict && hybrid && negb (all_alpha_le0 ps) && explained hybrid ps d score None
         end
  end.

Fixpoint sorted_desc (l : list hit) : bool :=
  match l with
  | a :: ((b :: _) as t) => Qle_bool (snd (fst b)) (snd (fst a)) && sorted_desc t
  | _ => true
  end.

Fixpoint nodupN (l : list N) : bool :=
  match l with [] => true | x :: t => negb (memN x t) && nodupN t end.

Definition hit_ids (hits : list hit) : list N := map (fun h : hit => fst (fst h)) hits.

(** sentence 5.  [small]: every segment holds at most m vectors of every queried field. *)
Definition small (w : world) (ps : list cplan) : bool :=
  forallb (fun p => forallb (fun seg => present (seg_store (p_field p) seg) <=? N.max (p_m p) 1) (w_segs w)) ps.

Definition count {A} (f : A -> bool) (l : list A) : N := nlen (filter f l).

(** (a) one clause.  A document with a usable vector that is not given its vector score needs an
    excuse that exact search under the documented budgets admits: at least [search_k] vectors of
    its segment are at least as near ([k] / [candidate_size] is a per-segment budget applied
    before the filters), or at least [candidate_size] eligible documents are at least as near. *)
Definition crowded (w : world) (hybrid : bool) (p : cplan) (so di : N) (d : vdoc) (s : Q) : bool :=
  match nthN (w_segs w) so with
  | None => false
  | Some seg =>
      search_k p (seg_store (p_field p) seg)
      <=? count (fun y : N * vdoc =>
                   negb (fst y =? di)
                   && match clause_score p (snd y) with Some s' => le_tol s s' | None => false end)
                (index_from 0 seg)
  end
  || (p_cand p
      <=? count (fun y : N * N * vdoc =>
                   negb (d_id (snd y) =? d_id d) && eligible hybrid (snd y)
                   && match clause_score p (snd y) with Some s' => le_tol s s' | None => false end)
                (all_docs w)).

(** vector-only: an eligible document that is not returned lost at the [limit] cut or is crowded out *)
Definition excused (w : world) (p : cplan) (limit : N) (hits : list hit) (x : N * N * vdoc) : bool :=
  let '(so, di, d) := x in
  match clause_score p d with
  | None => true
  | Some s =>
      if negb (eligible false d) || memN (d_id d) (hit_ids hits) then true
      else
        ((nlen hits =? limit)
         && forallb (fun h : hit => le_tol (final_of [p] 0%Q [Some s]) (snd (fst h))) hits)
        || crowded w false p so di d s
  end.

(** hybrid: a returned text match that is entitled to a vector score but carries none is crowded out *)
Definition excused_missing (w : world) (p : cplan) (h : hit) : bool :=
  match find_doc w (fst (fst h)), snd h with
  | Some (so, di, d), None =>
      match clause_score p d with
      | Some s => if entitled true d p then crowded w true p so di d s else true
      | None => true
      end
  | _, _ => true
  end.

(** (b) budgets that do not bind: every candidate budget covers the vectors present *)
Definition covers (w : world) (hybrid : bool) (p : cplan) : bool :=
  forallb (fun seg => present (seg_store (p_field p) seg) <=? N.max (p_cand p) (p_k p)) (w_segs w)
  && (count (fun x : N * N * vdoc => entitled hybrid (snd x) p) (all_docs w) <=? p_cand p).

Definition exact_cover (w : world) (hybrid : bool) (ps : list cplan) (limit : N) (hits : list hit) : bool :=
  (* every hit with a vector score carries all the clause scores it is entitled to *)
  forallb (fun h : hit =>
    match find_doc w (fst (fst h)), snd h with
    | Some (_, _, d), Some x =>
        let raws := full_raws hybrid ps d in
        close (snd (fst h)) (final_of ps (bm25_of hybrid d) raws)
        && match vsum_of raws with Some y => close x y | None => false end
    | _, _ => true
    end) hits
  (* and every entitled document that is not returned lost at the limit cut *)
  && forallb (fun x : N * N * vdoc =>
       let d := snd x in
       let raws := full_raws hybrid ps d in
       if negb (existsb is_some raws) || memN (d_id d) (hit_ids hits) then true
       else (nlen hits =? limit)
            && forallb (fun h : hit => le_tol (final_of ps (bm25_of hybrid d) raws) (snd (fst h))) hits)
     (all_docs w).

Definition exact_ok (w : world) (r : request) (ps : list cplan) (hits : list hit) : bool :=
  if negb (small w ps) then true
  else
    (match ps with
     | [p] => if r_hybrid r then forallb (excused_missing w p) hits
              else forallb (excused w p (r_limit r) hits) (all_docs w)
     | _ => true
     end)
    && (if forallb (covers w (r_hybrid r)) ps then exact_cover w (r_hybrid r) ps (r_limit r) hits else true).

(** the whole statement on one search ([strict] = as written; relaxed = known class 1) *)
Definition spec_search (strict : bool) (w : world) (r : request) (o : obs) : bool :=
  match build_plan w r, o with
  | Err _, ObsErr _ => true
  | Err _, ObsHits _ => false                       (* sentence 4: must be rejected *)
  | Ok _, ObsErr _ => false
  | Ok ps, ObsHits hits =>
      forallb (hit_ok strict w (r_hybrid r) ps) hits      (* 1, 2, 3 (score = blend) *)
      && sorted_desc hits                                 (* 3 (order)               *)
      && nodupN (hit_ids hits) && (nlen hits <=? r_limit r)
      && exact_ok w r ps hits                             (* 5                       *)
  end.

(** the part of the statement that is proved of the model for every input ([Meets.v]): hits are
    documents of the index, live, passing [filter], carrying a vector score unless the request is
    of known class 1; ordered, distinct, at most [limit]; planning errors are rejections *)
Definition spec_core (w : world) (r : request) (o : obs) : bool :=
  match build_plan w r, o with
  | Err _, ObsErr _ => true
  | Err _, ObsHits _ => false
  | Ok _, ObsErr _ => false
  | Ok ps, ObsHits hits =>
      forallb (fun h : hit =>
                 match find_doc w (fst (fst h)) with
                 | Some (_, _, d) =>
                     negb (d_deleted d) && d_pass d
                     && (is_some (snd h) || (r_hybrid r && negb (all_alpha_le0 ps)))
                 | None => false
                 end) hits
      && sorted_desc hits && nodupN (hit_ids hits) && (nlen hits <=? r_limit r)
  end.

(** sentence 4 as an independent predicate: some clause has a vector of the wrong dimension *)
Definition wrong_dim (w : world) (r : request) : bool :=
  existsb (fun c => match nthN (w_fields w) (c_field c) with
                    | Some f => negb (nlen (c_vec c) =? f_dim f)
                    | None => false
                    end) (r_clauses r).

Definition spec_dim (w : world) (r : request) (o : obs) : bool :=
  if wrong_dim w r then match o with ObsErr _ => true | ObsHits _ => false end else true.

(** known class 1: hybrid requests whose blend is not vector-only return text matches that have no
    candidate vector score (no vector, [vector_filter] failed, or outside the candidate budget) *)
Definition known_class_1 (w : world) (r : request) : bool :=
  r_hybrid r
  && match build_plan w r with Ok ps => negb (all_alpha_le0 ps) | Err _ => false end.

(** == correspondence ============================================================================== *)

Definition obs_corr (m o : obs) : bool :=
  match m, o with
  | ObsErr a, ObsErr b => a =? b
  | ObsHits a, ObsHits b =>
      (length a =? length b)%nat
      && forallb (fun p : hit * hit => close (snd (fst (snd p))) (snd (fst (fst p)))) (combine a b)
  | _, _ => false
  end.

Fixpoint list_eqZ (a b : list Z) : bool :=
  match a, b with
  | [], [] => true
  | x :: a', y :: b' => (x =? y)%Z && list_eqZ a' b'
  | _, _ => false
  end.

Definition FRAG : Q := (1 # 1024)%Q.

(** cosine scores of different vectors closer than FRAG: f32 rounding may order them either way *)
Definition fragile_seg (p : cplan) (seg : list vdoc) : bool :=
  let vs := flat_map (fun d => match doc_vec d (p_field p) with Some v => [v] | None => [] end) seg in
  existsb (fun a => existsb (fun b =>
     negb (list_eqZ a b)
     && Qle_bool (Qabs (sim (p_metric p) (p_vec p) a - sim (p_metric p) (p_vec p) b)) FRAG) vs) vs.

Definition corr_applicable (w : world) (hybrid : bool) (p : cplan) : bool :=
  match p_metric p with
  | L2 => true
  | Cosine =>
      (* boost 0 turns every cosine score into +0.0 or -0.0, which [total_cmp] tells apart *)
      small w [p]
      && (covers w hybrid p
          || (negb (fragile_seg p (concat (w_segs w))) && negb (Qeq_bool (p_boost p) 0)))
  end.

(** == well-formed harness input =================================================================== *)

Definition wf_doc (w : world) (d : vdoc) : bool :=
  (nlen (d_vecs d) =? nlen (w_fields w))
  && forallb (fun fv : vfield * option (list Z) =>
                match snd fv with Some v => nlen v =? f_dim (fst fv) | None => true end)
             (combine (w_fields w) (d_vecs d)).

Definition wf (w : world) (r : request) : bool :=
  forallb (fun f => (1 <=? f_dim f) && (1 <=? f_m f) && (1 <=? f_efc f)) (w_fields w)
  && forallb (fun x : N * N * vdoc => wf_doc w (snd x)) (all_docs w)
  && nodupN (map (fun x : N * N * vdoc => d_id (snd x)) (all_docs w))
  && (negb (r_hybrid r)
      || (negb (is_some (r_cand r)) && forallb (fun seg => nlen seg <=? 20) (w_segs w)
          && match build_plan w r with Ok ps => negb (all_alpha_ge1 ps) | Err _ => true end)).

(** == cases ========================================================================================= *)

Inductive vcase :=
| CaseSearch (w : world) (r : request) (o : obs)
| CaseAdd (dim : N) (v : option N) (accepted : bool)
| CaseGraph (mt : metric) (m efc : N) (st : store) (entry : option N) (nb : list (list N)).

Definition opt_eqN (a b : option N) : bool :=
  match a, b with Some x, Some y => x =? y | None, None => true | _, _ => false end.

Fixpoint list_eqN (a b : list N) : bool :=
  match a, b with
  | [], [] => true
  | x :: a', y :: b' => (x =? y) && list_eqN a' b'
  | _, _ => false
  end.

Definition set_eqN (a b : list N) : bool :=
  (length a =? length b)%nat && forallb (fun x => memN x b) a && forallb (fun x => memN x a) b.

Fixpoint lists_rel (rel : list N -> list N -> bool) (a b : list (list N)) : bool :=
  match a, b with
  | [], [] => true
  | x :: a', y :: b' => rel x y && lists_rel rel a' b'
  | _, _ => false
  end.

(** complete on the documents that have a vector *)
Definition complete_graph (st : store) (nb : list (list N)) : bool :=
  let ids := filter (fun id => is_some (vec_of st id)) (ids_upto (length st)) in
  forallb (fun id => set_eqN (match nthN nb id with Some l => l | None => [] end)
                             (filter (fun x => negb (x =? id)) ids)) ids.

Definition check_graph (mt : metric) (m efc : N) (st : store) (entry : option N) (nb : list (list N)) : N :=
  let smallg := present st <=? N.max m 1 in
  (* sentence 5's mechanism, on the real graph: complete when small *)
  let sp := if smallg then complete_graph st nb else true in
  let co :=
    match hnsw_build mt st m efc with
    | None => false
    | Some g =>
        match mt with
        | L2 => opt_eqN (g_entry g) entry && lists_rel list_eqN (g_nb g) nb
        | Cosine => if smallg then opt_eqN (g_entry g) entry && lists_rel set_eqN (g_nb g) nb else true
        end
    end in
  verdict co sp 0.

Definition check_search (w : world) (r : request) (o : obs) : N :=
  if negb (wf w r) then 2
  else
    let co :=
      match build_plan w r with
      | Err _ => obs_corr (M w r) o
      | Ok ps => if forallb (corr_applicable w (r_hybrid r)) ps then obs_corr (M w r) o else true
      end in
    if spec_search true w r o && spec_dim w r o then (if co then 0 else 1)
    else if spec_search false w r o && spec_dim w r o && known_class_1 w r then (if co then 101 else 1)
    else 2.

Definition check_case (c : vcase) : N :=
  match c with
  | CaseSearch w r o => check_search w r o
  | CaseAdd dim v acc =>
      (* sentence 4 at add time: an accepted vector has the field's dimension *)
      verdict (Bool.eqb acc (add_accepts dim v))
              (match v with Some len => negb acc || (len =? dim) | None => true end) 0
  | CaseGraph mt m efc st entry nb => check_graph mt m efc st entry nb
  end.
