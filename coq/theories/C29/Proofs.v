(** C29 — proofs about the search pipeline of Model.v: soundness of the hits (sentences 1, 2),
    the order (3), dimension checks (4), and the refutation of the literal reading for hybrid
    requests. *)

From Coq Require Import List NArith ZArith QArith Qabs Bool Lia Lqa Permutation Sorted.
From SL Require Import Base.Tie C29.Hnsw C29.HnswProofs C29.Model.
Import ListNotations.
Open Scope N_scope.

(** -- every score a graph search returns is the similarity of a stored vector -------------------- *)

Definition scored_ok (mt : metric) (st : store) (q : list Z) (l : list (N * Q)) : Prop :=
  forall x, In x l -> sc mt st q (fst x) = Some (snd x).

Lemma visit_ok : forall mt st q ef s nb,
  scored_ok mt st q (st_r s) -> scored_ok mt st q (st_c s) ->
  scored_ok mt st q (st_r (visit mt st q ef s nb)) /\ scored_ok mt st q (st_c (visit mt st q ef s nb)).
Proof.
  intros mt st q ef s nb Hr Hc. unfold visit.
  destruct (memN nb (st_v s)); [split; assumption|].
  destruct (sc mt st q nb) as [x|] eqn:Ex; cbn [st_r st_c]; [|split; assumption].
  match goal with |- context [if ?c then _ else _] => destruct c end; cbn [st_r st_c]; [|split; assumption].
  split.
  - match goal with |- context [if ?c then _ else _] => destruct c end.
    + unfold drop_min. cbn [peek_min]. intros y Hy. apply remove_id_in in Hy.
      destruct Hy as [<-|Hy]; [exact Ex|apply Hr, Hy].
    + intros y [<-|Hy]; [exact Ex|apply Hr, Hy].
  - intros y [<-|Hy]; [exact Ex|apply Hc, Hy].
Qed.

Lemma fold_visit_ok : forall mt st q ef nbs s,
  scored_ok mt st q (st_r s) -> scored_ok mt st q (st_c s) ->
  scored_ok mt st q (st_r (fold_left (visit mt st q ef) nbs s))
  /\ scored_ok mt st q (st_c (fold_left (visit mt st q ef) nbs s)).
Proof.
  intros mt st q ef. induction nbs as [|nb t IH]; intros s Hr Hc; cbn [fold_left]; [split; assumption|].
  destruct (visit_ok mt st q ef s nb Hr Hc) as [H1 H2]. apply IH; assumption.
Qed.

Lemma sloop_ok : forall mt st g q ef fuel s r,
  scored_ok mt st q (st_r s) -> scored_ok mt st q (st_c s) ->
  sloop fuel mt st g q ef s = Some r -> scored_ok mt st q r.
Proof.
  intros mt st g q ef. induction fuel as [|f IH]; intros s r Hr Hc H; [discriminate|].
  rewrite sloop_S in H. destruct (pop_max (st_c s)) as [[best rest]|] eqn:Ep.
  - match type of H with (if ?c then _ else _) = _ => destruct c end; [inversion H; subst; exact Hr|].
    assert (Hrest : scored_ok mt st q rest).
    { destruct (st_c s) as [|x t]; [discriminate|]. unfold pop_max in Ep.
      assert (E : rest = remove_id (fst (max_of x t)) (x :: t)) by congruence.
      rewrite E. intros y Hy. apply remove_id_in in Hy. apply Hc, Hy. }
    set (s0 := {| st_c := rest; st_r := st_r s; st_v := st_v s |}) in *.
    destruct (fold_visit_ok mt st q ef (nbrs g (fst best)) s0 Hr Hrest) as [K1 K2].
    eapply IH; eassumption.
  - inversion H; subst. exact Hr.
Qed.

(** the entry of a built graph is a document with a vector *)
Lemma backlink_entry : forall mt st m id l g, g_entry (fold_left (backlink mt st m id) l g) = g_entry g.
Proof.
  intros mt st m id. induction l as [|n t IH]; intros g; cbn [fold_left]; [reflexivity|].
  rewrite IH. unfold backlink. destruct (memN id (nbrs g n)); reflexivity.
Qed.

Definition entry_ok (st : store) (g : graph) : Prop :=
  forall e, g_entry g = Some e -> hasv st e = true.

Lemma add_vector_entry : forall mt st m efc g id g',
  entry_ok st g -> add_vector mt st m efc g id = Some g' -> entry_ok st g'.
Proof.
  intros mt st m efc g id g' Hok H. unfold add_vector in H.
  destruct (vec_of st id) as [v|] eqn:Ev; [|inversion H; subst; exact Hok].
  destruct (g_entry g) as [e|] eqn:Ee.
  - destruct (search_internal mt st g v (N.max efc (m * 2))) as [found|]; [|discriminate].
    match type of H with (if ?c then _ else _) = _ => destruct c end; inversion H; subst; clear H;
      intros e' He'; unfold set_nb in He'; cbn [g_entry] in He'; rewrite ?backlink_entry in He';
      cbn [g_entry set_nb] in He'; apply Hok; congruence.
  - inversion H; subst. intros e' He'. cbn in He'. inversion He'; subst. unfold hasv. rewrite Ev. reflexivity.
Qed.

Lemma add_all_entry : forall mt st m efc l g g',
  entry_ok st g -> add_all mt st m efc l g = Some g' -> entry_ok st g'.
Proof.
  intros mt st m efc. induction l as [|id t IH]; intros g g' Hok H; cbn [add_all] in H.
  - inversion H; subst. exact Hok.
  - destruct (add_vector mt st m efc g id) as [g1|] eqn:E1; [|discriminate].
    eapply IH; [eapply add_vector_entry; eassumption|exact H].
Qed.

Lemma search_internal_ok : forall mt st g q ef r,
  entry_ok st g -> search_internal mt st g q ef = Some r -> scored_ok mt st q r.
Proof.
  intros mt st g q ef r Hok H. unfold search_internal in H.
  destruct (g_entry g) as [e|] eqn:Ee; [|inversion H; subst; intros x []].
  pose proof (Hok e Ee) as Hv. destruct (hasv_sc mt st q e Hv) as [es Hes]. rewrite Hes in H.
  eapply sloop_ok; [| |exact H]; cbn [st_r st_c]; intros x [<-|[]]; exact Hes.
Qed.

Definition knn_sound (knn : knn_fun) : Prop :=
  forall p st k l, knn p st k = Some l -> scored_ok (p_metric p) st (p_vec p) l.

Lemma knn_hnsw_sound : knn_sound knn_hnsw.
Proof.
  intros p st k l H. unfold knn_hnsw in H.
  destruct (hnsw_build (p_metric p) st (p_m p) (p_efc p)) as [g|] eqn:Eb; [|discriminate].
  assert (Hok : entry_ok st g).
  { unfold hnsw_build in Eb. eapply add_all_entry; [|exact Eb]. intros e He. discriminate. }
  unfold hnsw_search in H. destruct (k =? 0); [inversion H; subst; intros x []|].
  destruct (search_internal (p_metric p) st g (p_vec p) (N.max (N.max (p_ef p) k) 1)) as [r|] eqn:Es; [|discriminate].
  cbn [option_map] in H. inversion H; subst.
  intros x Hx. apply in_firstn in Hx. apply isort_in in Hx.
  eapply search_internal_ok; eassumption.
Qed.

Lemma knn_exact_sound : knn_sound knn_exact.
Proof.
  intros p st k l H. unfold knn_exact in H. inversion H; subst. unfold exact_knn.
  intros x Hx. apply in_firstn in Hx. apply isort_in in Hx. unfold all_scored in Hx.
  apply in_flat_map in Hx. destruct Hx as [id [_ Hx]].
  destruct (sc (p_metric p) st (p_vec p) id) as [y|] eqn:E; [|destruct Hx].
  destruct Hx as [<-|[]]. exact E.
Qed.

(** -- addressing documents ---------------------------------------------------------------------------- *)

Lemma nthN_cons_S : forall {A} (y : A) t i, 0 < i -> nthN (y :: t) i = nthN t (i - 1).
Proof.
  intros A y t i H. unfold nthN. replace (N.to_nat i) with (S (N.to_nat (i - 1))) by lia. reflexivity.
Qed.

Lemma index_from_in : forall {A} (l : list A) s i x,
  In (i, x) (index_from s l) <-> (s <= i /\ nthN l (i - s) = Some x).
Proof.
  intros A. induction l as [|y t IH]; intros s i x; cbn [index_from In].
  - split; [intros []|]. intros [_ H]. unfold nthN in H. destruct (N.to_nat (i - s)); discriminate.
  - rewrite IH. split.
    + intros [H|[H1 H2]].
      * inversion H; subst. split; [lia|]. rewrite N.sub_diag. reflexivity.
      * split; [lia|]. rewrite nthN_cons_S by lia. replace (i - s - 1) with (i - (s + 1)) by lia. exact H2.
    + intros [H1 H2]. destruct (N.eq_dec i s) as [->|Hne].
      * left. rewrite N.sub_diag in H2. unfold nthN in H2. cbn in H2. congruence.
      * right. split; [lia|]. rewrite nthN_cons_S in H2 by lia.
        replace (i - s - 1) with (i - (s + 1)) in H2 by lia. exact H2.
Qed.

Lemma all_docs_in : forall w so di d,
  In (so, di, d) (all_docs w) <-> exists seg, nthN (w_segs w) so = Some seg /\ nthN seg di = Some d.
Proof.
  intros w so di d. unfold all_docs. rewrite in_flat_map. split.
  - intros [[s seg] [H1 H2]]. apply index_from_in in H1. destruct H1 as [_ H1]. rewrite N.sub_0_r in H1.
    cbn [fst snd] in H2. apply in_map_iff in H2. destruct H2 as [[i d'] [E H2]]. cbn [fst snd] in E.
    inversion E; subst. apply index_from_in in H2. destruct H2 as [_ H2]. rewrite N.sub_0_r in H2.
    exists seg. split; assumption.
  - intros [seg [H1 H2]]. exists (so, seg). split.
    + apply index_from_in. split; [lia|]. rewrite N.sub_0_r. exact H1.
    + cbn [fst snd]. apply in_map_iff. exists (di, d). split; [reflexivity|].
      apply index_from_in. split; [lia|]. rewrite N.sub_0_r. exact H2.
Qed.

Lemma seg_store_vec : forall f seg di d, nthN seg di = Some d -> vec_of (seg_store f seg) di = doc_vec d f.
Proof.
  intros f seg di d H. unfold vec_of, seg_store, nthN in *. rewrite nth_error_map, H. cbn [option_map].
  unfold doc_vec, nthN. destruct (nth_error (d_vecs d) (N.to_nat f)) as [[v|]|]; reflexivity.
Qed.

(** -- candidates ------------------------------------------------------------------------------------- *)

(** what a candidate score is: exact similarity times boost of a document that passed every check *)
Definition cand_sound (hybrid : bool) (p : cplan) (seg : list vdoc) (c : cand) : Prop :=
  exists d v,
    nthN seg (k_doc c) = Some d /\ eligible hybrid d = true
    /\ doc_vec d (p_field p) = Some v
    /\ k_score c = (sim (p_metric p) (p_vec p) v * p_boost p)%Q.

Lemma seg_cands_sound : forall knn hybrid p so seg l c,
  knn_sound knn -> seg_cands knn hybrid p so seg = Some l -> In c l ->
  k_seg c = so /\ cand_sound hybrid p seg c.
Proof.
  intros knn hybrid p so seg l c Hk H Hc. unfold seg_cands in H.
  destruct (present (seg_store (p_field p) seg) =? 0); [inversion H; subst; destruct Hc|].
  destruct (knn p (seg_store (p_field p) seg) (search_k p (seg_store (p_field p) seg))) as [found|] eqn:Ef; [|discriminate].
  inversion H; subst; clear H. apply in_flat_map in Hc. destruct Hc as [x [Hx Hc]].
  destruct (nthN seg (fst x)) as [d|] eqn:Ed; [|destruct Hc].
  destruct (eligible hybrid d) eqn:Ee; [|destruct Hc]. destruct Hc as [<-|[]]. cbn [k_seg k_doc k_score].
  split; [reflexivity|].
  pose proof (Hk _ _ _ _ Ef x Hx) as Hs. unfold sc in Hs. rewrite (seg_store_vec _ _ _ _ Ed) in Hs.
  destruct (doc_vec d (p_field p)) as [v|] eqn:Ev; [|discriminate]. cbn [option_map] in Hs.
  unfold cand_sound. cbn [k_seg k_doc k_score]. inversion Hs as [Hs'].
  exists d, v. repeat split; assumption || reflexivity.
Qed.

Lemma all_seg_cands_sound : forall knn hybrid p segs s0 l c,
  knn_sound knn -> all_seg_cands knn hybrid p s0 segs = Some l -> In c l ->
  s0 <= k_seg c /\ exists seg, nthN segs (k_seg c - s0) = Some seg /\ cand_sound hybrid p seg c.
Proof.
  intros knn hybrid p. induction segs as [|seg t IH]; intros s0 l c Hk H Hc; cbn [all_seg_cands] in H.
  - inversion H; subst. destruct Hc.
  - destruct (seg_cands knn hybrid p s0 seg) as [a|] eqn:Ea; [|discriminate].
    destruct (all_seg_cands knn hybrid p (s0 + 1) t) as [b|] eqn:Eb; [|discriminate].
    inversion H; subst; clear H. apply in_app_or in Hc. destruct Hc as [Hc|Hc].
    + destruct (seg_cands_sound _ _ _ _ _ _ _ Hk Ea Hc) as [E1 E2]. split; [lia|].
      exists seg. rewrite E1, N.sub_diag. split; [reflexivity|exact E2].
    + destruct (IH _ _ _ Hk Eb Hc) as [E1 [seg' [E2 E3]]]. split; [lia|].
      exists seg'. rewrite nthN_cons_S by lia. replace (k_seg c - s0 - 1) with (k_seg c - (s0 + 1)) by lia.
      split; assumption.
Qed.

Lemma clause_map_sound : forall knn hybrid segs p m c,
  knn_sound knn -> clause_map knn hybrid segs p = Some m -> In c m ->
  exists seg, nthN segs (k_seg c) = Some seg /\ cand_sound hybrid p seg c.
Proof.
  intros knn hybrid segs p m c Hk H Hc. unfold clause_map in H.
  destruct (all_seg_cands knn hybrid p 0 segs) as [l|] eqn:El; [|discriminate]. inversion H; subst; clear H.
  apply in_firstn in Hc. apply isort_in in Hc.
  destruct (all_seg_cands_sound _ _ _ _ _ _ _ Hk El Hc) as [_ [seg [E1 E2]]]. rewrite N.sub_0_r in E1.
  exists seg. split; assumption.
Qed.

Lemma all_maps_forall2 : forall knn hybrid segs ps maps,
  all_maps knn hybrid segs ps = Some maps ->
  Forall2 (fun p m => clause_map knn hybrid segs p = Some m) ps maps.
Proof.
  intros knn hybrid segs. induction ps as [|p t IH]; intros maps H; cbn [all_maps] in H.
  - inversion H; subst. constructor.
  - destruct (clause_map knn hybrid segs p) as [a|] eqn:Ea; [|discriminate].
    destruct (all_maps knn hybrid segs t) as [b|] eqn:Eb; [|discriminate].
    inversion H; subst. constructor; [exact Ea|apply IH; reflexivity].
Qed.

Lemma map_get_some : forall m so di x,
  map_get m so di = Some x -> exists c, In c m /\ k_seg c = so /\ k_doc c = di /\ k_score c = x.
Proof.
  intros m so di x H. unfold map_get in H.
  destruct (find (fun c => (k_seg c =? so) && (k_doc c =? di)) m) as [c|] eqn:Ef; [|discriminate].
  apply find_some in Ef. destruct Ef as [H1 H2]. apply andb_true_iff in H2. destruct H2 as [H2 H3].
  apply N.eqb_eq in H2, H3. inversion H; subst. exists c. repeat split; assumption.
Qed.

(** -- sentences 1 and 2 --------------------------------------------------------------------------------- *)

(** one clause's contribution to a hit: absent, or the exact similarity times boost of the
    document's own vector, the document being live and passing filter and vector_filter *)
Definition clause_sound (d : vdoc) (p : cplan) (raw : option Q) : Prop :=
  match raw with
  | None => True
  | Some x =>
      eligible false d = true
      /\ exists v, doc_vec d (p_field p) = Some v /\ x = (sim (p_metric p) (p_vec p) v * p_boost p)%Q
  end.

Lemma eligible_weaken : forall hybrid d, eligible hybrid d = true -> eligible false d = true.
Proof.
  intros hybrid d H. unfold eligible in *. apply andb_true_iff in H. destruct H as [H _].
  rewrite H. reflexivity.
Qed.

Lemma raws_sound : forall knn hybrid segs ps maps so di seg d,
  knn_sound knn ->
  Forall2 (fun p m => clause_map knn hybrid segs p = Some m) ps maps ->
  nthN segs so = Some seg -> nthN seg di = Some d ->
  Forall2 (clause_sound d) ps (map (fun m => map_get m so di) maps).
Proof.
  intros knn hybrid segs ps maps so di seg d Hk HF Hs Hd. induction HF as [|p m ps' maps' Hpm HF IH]; cbn [map].
  - constructor.
  - constructor; [|exact IH]. unfold clause_sound. destruct (map_get m so di) as [x|] eqn:Eg; [|exact I].
    apply map_get_some in Eg. destruct Eg as [c [Hc [E1 [E2 E3]]]].
    destruct (clause_map_sound _ _ _ _ _ _ Hk Hpm Hc) as [seg' [Hs' [d' [v [K1 [K2 [K3 K4]]]]]]].
    rewrite E1, Hs in Hs'. inversion Hs'; subst seg'. rewrite E2, Hd in K1. inversion K1; subst d'.
    split; [eapply eligible_weaken; exact K2|]. exists v. split; [exact K3|]. congruence.
Qed.

Lemma somes_nil_existsb : forall raws, somes raws = [] <-> existsb is_some raws = false.
Proof.
  induction raws as [|[x|] t IH]; cbn; [tauto| |exact IH]. split; discriminate.
Qed.

Lemma vsum_none : forall raws, vsum_of raws = None <-> existsb is_some raws = false.
Proof.
  intros raws. rewrite <- somes_nil_existsb. unfold vsum_of. destruct (somes raws); split; congruence.
Qed.

Definition hit_facts (w : world) (r : request) (ps : list cplan) (h : hit) : Prop :=
  exists so di seg d raws,
    nthN (w_segs w) so = Some seg /\ nthN seg di = Some d /\ d_id d = fst (fst h)
    /\ d_deleted d = false /\ d_pass d = true
    /\ Forall2 (clause_sound d) ps raws
    /\ snd h = vsum_of raws
    /\ snd (fst h) =
       final_of ps (if r_hybrid r then (if text_hit d then odef (d_text d) 0%Q else 0%Q) else 0%Q) raws
    /\ (snd h = None -> r_hybrid r = true /\ all_alpha_le0 ps = false /\ text_hit d = true).

Theorem hits_sound_gen : forall knn w r hits,
  knn_sound knn -> run_search knn w r = ObsHits hits ->
  exists ps, build_plan w r = Ok ps /\ forall h, In h hits -> hit_facts w r ps h.
Proof.
  intros knn w r hits Hk H. unfold run_search in H.
  destruct (build_plan w r) as [ps|e] eqn:Ep; [|discriminate].
  destruct (all_maps knn (r_hybrid r) (w_segs w) ps) as [maps|] eqn:Em; [|discriminate].
  inversion H; subst; clear H. exists ps. split; [reflexivity|]. intros h Hh.
  apply in_map_iff in Hh. destruct Hh as [rk [Eh Hrk]]. apply in_firstn in Hrk. apply isort_in in Hrk.
  apply in_flat_map in Hrk. destruct Hrk as [[[so di] d] [Hd Hrk]].
  apply all_docs_in in Hd. destruct Hd as [seg [Hs Hd]].
  unfold rank_doc in Hrk.
  set (raws := map (fun m => map_get m so di) maps) in *.
  pose proof (raws_sound _ _ _ _ _ _ _ _ _ Hk (all_maps_forall2 _ _ _ _ _ Em) Hs Hd) as HF. fold raws in HF.
  match type of Hrk with In _ (if ?c then _ else _) => destruct c eqn:Ekeep end; [|destruct Hrk].
  destruct Hrk as [Erk|[]]. rewrite <- Eh, <- Erk. cbn [h_id h_score h_vs fst snd]. clear Eh Erk.
  (* live and filter: from a contributing clause, or from the text match *)
  assert (Hlive : d_deleted d = false /\ d_pass d = true).
  { destruct (existsb is_some raws) eqn:Ein.
    - apply existsb_exists in Ein. destruct Ein as [[x|] [Hin Hsome]]; [|discriminate Hsome].
      apply (In_nth_error) in Hin. destruct Hin as [i Hi].
      assert (exists p, clause_sound d p (Some x)).
      { clear -HF Hi. revert i Hi. induction HF as [|p0 r0 ps0 rs0 H0 HF IH]; intros [|i] Hi; cbn in Hi; try discriminate.
        - inversion Hi; subst. exists p0. exact H0.
        - eapply IH; exact Hi. }
      destruct H as [p [Hel _]]. unfold eligible in Hel. cbn [negb orb] in Hel.
      rewrite andb_true_r in Hel. apply andb_true_iff in Hel. destruct Hel as [Hel _].
      apply andb_true_iff in Hel. destruct Hel as [H1 H2]. apply negb_true_iff in H1. split; assumption.
    - destruct (r_hybrid r); [|discriminate]. rewrite orb_false_r in Ekeep.
      apply andb_true_iff in Ekeep. destruct Ekeep as [Ht _]. unfold text_hit in Ht.
      apply andb_true_iff in Ht. destruct Ht as [Ht _]. apply andb_true_iff in Ht. destruct Ht as [H1 H2].
      apply negb_true_iff in H1. split; assumption. }
  destruct Hlive as [Hl1 Hl2].
  exists so, di, seg, d, raws. cbn [fst snd].
  split; [exact Hs|]. split; [exact Hd|]. split; [reflexivity|]. split; [exact Hl1|]. split; [exact Hl2|].
  split; [exact HF|]. split; [reflexivity|]. split; [reflexivity|].
  intros Hnone. apply vsum_none in Hnone. rewrite Hnone in Ekeep.
  destruct (r_hybrid r); [|discriminate]. rewrite orb_false_r in Ekeep. cbn [negb] in Ekeep. rewrite andb_true_r in Ekeep.
  apply andb_true_iff in Ekeep. destruct Ekeep as [Ht Ha]. apply negb_true_iff in Ha. repeat split; assumption.
Qed.

(** sentence 1 as written holds whenever the blend is vector-only *)
Lemma hits_have_vector : forall w r ps h,
  hit_facts w r ps h -> (r_hybrid r = false \/ all_alpha_le0 ps = true) -> exists x, snd h = Some x.
Proof.
  intros w r ps h [so [di [seg [d [raws [_ [_ [_ [_ [_ [_ [_ [_ Hm]]]]]]]]]]]]] Hcase.
  destruct (snd h) as [x|] eqn:E; [exists x; reflexivity|].
  destruct (Hm eq_refl) as [H1 [H2 _]]. destruct Hcase; congruence.
Qed.

(** a vector score is the sum of its clauses' contributions, and there is at least one *)
Lemma vsum_some : forall raws x, vsum_of raws = Some x -> x = qsum (somes raws) /\ somes raws <> [].
Proof.
  intros raws x H. unfold vsum_of in H. destruct (somes raws) eqn:E; [discriminate|].
  inversion H. split; [reflexivity|discriminate].
Qed.

(** -- sentence 3: the order ----------------------------------------------------------------------------- *)

Lemma ranked_le_true : forall a b,
  ranked_le a b = true <->
  ((h_score b < h_score a)%Q
   \/ ((h_score a == h_score b)%Q /\ (h_seg a < h_seg b \/ (h_seg a = h_seg b /\ h_doc a <= h_doc b)))).
Proof.
  intros a b. unfold ranked_le.
  rewrite orb_true_iff, andb_true_iff, orb_true_iff, andb_true_iff, Qltb_true, Qeq_bool_iff, N.ltb_lt, N.eqb_eq, N.leb_le.
  tauto.
Qed.

Lemma ranked_le_total : forall a b, ranked_le a b = false -> ranked_le b a = true.
Proof.
  intros a b H. apply ranked_le_true.
  destruct (Qlt_le_dec (h_score a) (h_score b)) as [L|L]; [left; exact L|].
  destruct (Qlt_le_dec (h_score b) (h_score a)) as [L'|L'].
  { exfalso. assert (ranked_le a b = true) by (apply ranked_le_true; left; exact L'). congruence. }
  right. split; [lra|].
  destruct (N.lt_trichotomy (h_seg b) (h_seg a)) as [T|[T|T]]; [left; exact T| |].
  - right. split; [exact T|]. destruct (N.le_gt_cases (h_doc b) (h_doc a)) as [D|D]; [exact D|]. exfalso.
    assert (ranked_le a b = true) by (apply ranked_le_true; right; split; [lra|right; split; [congruence|lia]]). congruence.
  - exfalso. assert (ranked_le a b = true) by (apply ranked_le_true; right; split; [lra|left; exact T]). congruence.
Qed.

Lemma ranked_le_trans : forall a b c, ranked_le a b = true -> ranked_le b c = true -> ranked_le a c = true.
Proof.
  intros a b c H1 H2. apply ranked_le_true in H1, H2. apply ranked_le_true.
  destruct H1 as [H1|[H1 H1']], H2 as [H2|[H2 H2']].
  - left; lra.
  - left; lra.
  - left; lra.
  - right. split; [lra|]. lia.
Qed.

Lemma ranked_le_score : forall a b, ranked_le a b = true -> (h_score b <= h_score a)%Q.
Proof. intros a b H. apply ranked_le_true in H. destruct H as [H|[H _]]; lra. Qed.

Lemma firstn_sorted : forall {A} (R : A -> A -> Prop) n (l : list A),
  StronglySorted R l -> StronglySorted R (firstn n l).
Proof.
  intros A R n l H. revert n. induction H as [|x t Hs IH Hall]; intros [|n]; cbn; try constructor.
  - apply IH.
  - rewrite Forall_forall in *. intros y Hy. apply Hall. eapply in_firstn; exact Hy.
Qed.

Lemma map_sorted : forall {A B} (f : A -> B) (R : A -> A -> Prop) (S : B -> B -> Prop) (l : list A),
  (forall a b, R a b -> S (f a) (f b)) -> StronglySorted R l -> StronglySorted S (map f l).
Proof.
  intros A B f R S l Himp H. induction H as [|x t Hs IH Hall]; cbn; constructor; [exact IH|].
  rewrite Forall_forall in *. intros y Hy. apply in_map_iff in Hy. destruct Hy as [z [<- Hz]]. apply Himp, Hall, Hz.
Qed.

Theorem order_sorted : forall knn w r hits,
  run_search knn w r = ObsHits hits ->
  StronglySorted (fun a b : hit => (snd (fst b) <= snd (fst a))%Q) hits /\ nlen hits <= r_limit r.
Proof.
  intros knn w r hits H. unfold run_search in H.
  destruct (build_plan w r) as [ps|e]; [|discriminate].
  destruct (all_maps knn (r_hybrid r) (w_segs w) ps) as [maps|]; [|discriminate].
  inversion H; subst; clear H. split.
  - eapply map_sorted; [|apply firstn_sorted, (isort_sorted ranked_le ranked_le_total ranked_le_trans)].
    intros a b Hab. cbn [fst snd]. apply ranked_le_score. exact Hab.
  - unfold nlen. rewrite map_length, firstn_length. lia.
Qed.

(** -- sentence 4: dimensions --------------------------------------------------------------------------- *)

Lemma plan_clauses_wrong_dim : forall w limit cs,
  existsb (fun c => match nthN (w_fields w) (c_field c) with
                    | Some f => negb (nlen (c_vec c) =? f_dim f)
                    | None => false
                    end) cs = true ->
  exists e, plan_clauses w limit cs = Err e.
Proof.
  intros w limit. induction cs as [|c t IH]; intros H; cbn [existsb] in H; [discriminate|].
  cbn [plan_clauses]. destruct (nthN (w_fields w) (c_field c)) as [f|]; [|eexists; reflexivity].
  destruct (negb (nlen (c_vec c) =? f_dim f)) eqn:Ed; [eexists; reflexivity|].
  cbn [orb] in H. destruct (IH H) as [e He].
  match goal with |- context [if ?c then _ else _] => destruct c end; [eexists; reflexivity|].
  match goal with |- context [if ?c then _ else _] => destruct c end; [eexists; reflexivity|].
  rewrite He. eexists; reflexivity.
Qed.

Theorem dim_rejected : forall knn w r,
  wrong_dim w r = true -> exists e, run_search knn w r = ObsErr e.
Proof.
  intros knn w r H. unfold run_search, build_plan.
  destruct (r_limit r =? 0); [eexists; reflexivity|].
  destruct (8 <? nlen (r_clauses r)); [eexists; reflexivity|].
  destruct (plan_clauses_wrong_dim w (r_limit r) (r_clauses r) H) as [e He]. rewrite He. eexists; reflexivity.
Qed.

Lemma add_dim : forall dim len, add_accepts dim (Some len) = true -> len = dim.
Proof. intros dim len H. cbn in H. apply N.eqb_eq in H. exact H. Qed.

(** -- the literal reading of sentence 1 fails for hybrid requests ------------------------------------- *)

Definition refute_world : world :=
  {| w_fields := [{| f_dim := 1; f_metric := L2; f_m := 4; f_efc := 4 |}];
     w_segs := [[{| d_id := 1; d_deleted := false; d_pass := true; d_vpass := true;
                    d_text := Some (1 # 2)%Q; d_vecs := [Some [1%Z]] |};
                 {| d_id := 2; d_deleted := false; d_pass := true; d_vpass := true;
                    d_text := Some 1%Q; d_vecs := [None] |}]] |}.

Definition refute_request : request :=
  {| r_clauses := [{| c_field := 0; c_vec := [0%Z]; c_k := None; c_alpha := Some (1 # 2)%Q;
                      c_ef := None; c_cand := None; c_boost := None |}];
     r_hybrid := true; r_limit := 10; r_cand := None |}.

Lemma hybrid_missing_refuted :
  wf refute_world refute_request = true
  /\ known_class_1 refute_world refute_request = true
  /\ exists score other,
       M refute_world refute_request = ObsHits [other; (2, score, None)]
       /\ spec_search true refute_world refute_request (M refute_world refute_request) = false
       /\ spec_search false refute_world refute_request (M refute_world refute_request) = true.
Proof.
  split; [vm_compute; reflexivity|]. split; [vm_compute; reflexivity|].
  eexists. eexists. split; [vm_compute; reflexivity|]. split; vm_compute; reflexivity.
Qed.
