(** C29 — proofs about the HNSW model of Hnsw.v: the square-root bracket, order facts, sorting,
    the bounded result heap, and the main results: while at most m vectors are present the graph
    built by [add_vector] is complete and [hnsw_search] returns exactly k nearest neighbours. *)

From Coq Require Import List NArith ZArith QArith Qabs Bool Lia Lqa Permutation Sorted.
From SL Require Import C29.Hnsw.
Import ListNotations.
Open Scope N_scope.

(** -- the square root --------------------------------------------------------------------------- *)

Lemma four_pow : (4 ^ SB = 2 ^ SB * 2 ^ SB)%Z.
Proof. reflexivity. Qed.

Lemma two_pow_pos : (0 < 2 ^ SB)%Z.
Proof. reflexivity. Qed.

Lemma qsqrt_spec : forall n : Z, (0 <= n)%Z ->
  (qsqrt n * qsqrt n <= inject_Z n)%Q
  /\ (inject_Z n < (qsqrt n + Qmake 1 (Z.to_pos (2 ^ SB))) * (qsqrt n + Qmake 1 (Z.to_pos (2 ^ SB))))%Q.
Proof.
  intros n Hn. unfold qsqrt. rewrite four_pow.
  pose proof two_pow_pos as HD. set (D := (2 ^ SB)%Z) in *.
  assert (Hs : (0 <= n * (D * D))%Z) by nia.
  pose proof (Z.sqrt_spec _ Hs) as [H1 H2]. set (s := Z.sqrt (n * (D * D))) in *.
  assert (HP : Z.pos (Z.to_pos D) = D) by (apply Z2Pos.id; exact HD).
  unfold Qle, Qlt, Qmult, Qplus, inject_Z; cbn [Qnum Qden].
  rewrite !Pos2Z.inj_mul, !HP. split.
  - nia.
  - replace ((s * D + 1 * D) * (s * D + 1 * D) * 1)%Z with (D * D * ((s + 1) * (s + 1)))%Z by ring.
    unfold Z.succ in H2.
    assert (n * (D * D * (D * D)) < D * D * ((s + 1) * (s + 1)))%Z; [| lia].
    assert (0 < D * D)%Z by nia.
    replace (n * (D * D * (D * D)))%Z with (D * D * (n * (D * D)))%Z by ring.
    apply Z.mul_lt_mono_pos_l; assumption.
Qed.

Lemma qsqrt_nonneg : forall n, (0 <= qsqrt n)%Q.
Proof.
  intros n. unfold qsqrt, Qle; cbn [Qnum Qden]. pose proof (Z.sqrt_nonneg (n * 4 ^ SB)). lia.
Qed.

(** -- booleans on Q ------------------------------------------------------------------------------- *)

Lemma Qltb_true : forall a b, Qltb a b = true <-> (a < b)%Q.
Proof.
  intros a b. unfold Qltb. rewrite negb_true_iff. split; intro H.
  - apply Qnot_le_lt. intro Hle. apply Qle_bool_iff in Hle. congruence.
  - destruct (Qle_bool b a) eqn:E; [|reflexivity]. apply Qle_bool_iff in E. lra.
Qed.

Lemma Qltb_false : forall a b, Qltb a b = false <-> (b <= a)%Q.
Proof.
  intros a b. unfold Qltb. rewrite negb_false_iff. apply Qle_bool_iff.
Qed.

Lemma s_lt_true : forall a b : scored,
  s_lt a b = true <-> ((snd a < snd b)%Q \/ ((snd a == snd b)%Q /\ fst a < fst b)).
Proof.
  intros a b. unfold s_lt. rewrite orb_true_iff, andb_true_iff, Qltb_true, Qeq_bool_iff, N.ltb_lt. tauto.
Qed.

Lemma s_lt_false_le : forall a b : scored, s_lt a b = false -> (snd b <= snd a)%Q.
Proof.
  intros a b H. destruct (Qlt_le_dec (snd a) (snd b)) as [L|L]; [|exact L].
  assert (s_lt a b = true) by (apply s_lt_true; left; exact L). congruence.
Qed.

Lemma s_lt_irrefl : forall a, s_lt a a = false.
Proof.
  intros a. destruct (s_lt a a) eqn:E; [|reflexivity].
  apply s_lt_true in E. destruct E as [E|[_ E]]; [lra|lia].
Qed.

Lemma s_lt_asym : forall a b, s_lt a b = true -> s_lt b a = false.
Proof.
  intros a b H. destruct (s_lt b a) eqn:E; [|reflexivity].
  apply s_lt_true in H. apply s_lt_true in E.
  destruct H as [H|[H1 H2]], E as [E|[E1 E2]]; try lra; lia.
Qed.

Lemma s_lt_trans : forall a b c, s_lt a b = true -> s_lt b c = true -> s_lt a c = true.
Proof.
  intros a b c H1 H2. apply s_lt_true in H1. apply s_lt_true in H2. apply s_lt_true.
  destruct H1 as [H1|[H1 H1']], H2 as [H2|[H2 H2']].
  - left; lra.
  - left; lra.
  - left; lra.
  - right; split; [lra|lia].
Qed.

(** total on elements with different ids *)
Lemma s_lt_total : forall a b, fst a <> fst b -> s_lt a b = false -> s_lt b a = true.
Proof.
  intros a b Hne H. apply s_lt_true.
  pose proof (s_lt_false_le _ _ H) as Hle.
  destruct (Qlt_le_dec (snd b) (snd a)) as [L|L]; [left; exact L|].
  right. split; [lra|].
  destruct (N.lt_trichotomy (fst a) (fst b)) as [T|[T|T]]; [|contradiction|exact T].
  exfalso. assert (s_lt a b = true) by (apply s_lt_true; right; split; [lra|exact T]). congruence.
Qed.

(** -- insertion sort ------------------------------------------------------------------------------ *)

Section Sort.
  Context {A : Type} (le : A -> A -> bool).

  Lemma insert_perm : forall x l, Permutation (insert_by le x l) (x :: l).
  Proof.
    intros x l. induction l as [|y t IH]; cbn; [reflexivity|].
    destruct (le x y); [reflexivity|].
    rewrite IH. apply perm_swap.
  Qed.

  Lemma isort_perm : forall l, Permutation (isort le l) l.
  Proof.
    induction l as [|x t IH]; cbn; [reflexivity|].
    unfold isort in *. cbn. rewrite insert_perm. constructor. exact IH.
  Qed.

  Lemma isort_length : forall l, length (isort le l) = length l.
  Proof. intros l. apply Permutation_length, isort_perm. Qed.

  Lemma isort_in : forall l x, In x (isort le l) <-> In x l.
  Proof.
    intros l x. split; apply Permutation_in; [apply isort_perm | apply Permutation_sym, isort_perm].
  Qed.

  Hypothesis le_total : forall a b, le a b = false -> le b a = true.
  Hypothesis le_trans : forall a b c, le a b = true -> le b c = true -> le a c = true.

  Lemma insert_sorted : forall x l,
    StronglySorted (fun a b => le a b = true) l ->
    StronglySorted (fun a b => le a b = true) (insert_by le x l).
  Proof.
    intros x l H. induction H as [|y t Hs IH Hall]; cbn.
    - constructor; constructor.
    - destruct (le x y) eqn:E.
      + constructor; [constructor; assumption|].
        constructor; [exact E|].
        rewrite Forall_forall in *. intros z Hz. eapply le_trans; [exact E|apply Hall, Hz].
      + constructor; [exact IH|].
        rewrite Forall_forall in *. intros z Hz.
        apply (Permutation_in _ (insert_perm x t)) in Hz. destruct Hz as [<-|Hz].
        * apply le_total, E.
        * apply Hall, Hz.
  Qed.

  Lemma isort_sorted : forall l, StronglySorted (fun a b => le a b = true) (isort le l).
  Proof.
    induction l as [|x t IH]; [constructor|]. unfold isort in *. cbn. apply insert_sorted, IH.
  Qed.
End Sort.

Lemma in_skipn : forall {A} (l : list A) n x, In x (skipn n l) -> In x l.
Proof.
  intros A l n x H. rewrite <- (firstn_skipn n l). apply in_or_app. right. exact H.
Qed.

Lemma in_firstn : forall {A} (l : list A) n x, In x (firstn n l) -> In x l.
Proof.
  intros A l n x H. rewrite <- (firstn_skipn n l). apply in_or_app. left. exact H.
Qed.

Lemma firstn_skipn_sorted : forall {A} (R : A -> A -> Prop) (l : list A) n,
  StronglySorted R l -> forall a b, In a (firstn n l) -> In b (skipn n l) -> R a b.
Proof.
  intros A R l n H. revert n. induction H as [|x t Hs IH Hall]; intros n a b Ha Hb.
  - rewrite firstn_nil in Ha. destruct Ha.
  - destruct n; [destruct Ha|]. cbn in Ha, Hb. destruct Ha as [<-|Ha].
    + rewrite Forall_forall in Hall. apply Hall. eapply in_skipn; exact Hb.
    + eapply IH; eassumption.
Qed.


(** -- NoDup over append ----------------------------------------------------------------------------- *)

Lemma nodup_app : forall {A} (a b : list A),
  NoDup (a ++ b) <-> NoDup a /\ NoDup b /\ (forall x, In x a -> In x b -> False).
Proof.
  intros A a b. induction a as [|y t IH]; cbn.
  - split; [intro H; repeat split; [constructor|exact H|intros x []]|intros [_ [H _]]; exact H].
  - split.
    + intro H. inversion H as [|? ? Hn Ht]; subst. apply IH in Ht. destruct Ht as [T1 [T2 T3]].
      repeat split.
      * constructor; [|exact T1]. intro Hc. apply Hn. apply in_or_app. left. exact Hc.
      * exact T2.
      * intros x [<-|Hx] Hb; [apply Hn; apply in_or_app; right; exact Hb|eapply T3; eassumption].
    + intros [H1 [H2 H3]]. inversion H1 as [|? ? Hn Ht]; subst. constructor.
      * intro Hc. apply in_app_or in Hc. destruct Hc as [Hc|Hc]; [contradiction|].
        apply (H3 y); [left; reflexivity|exact Hc].
      * apply IH. repeat split; [exact Ht|exact H2|]. intros x Hx Hb. apply (H3 x); [right; exact Hx|exact Hb].
Qed.

Lemma NoDup_app_remove_r : forall {A} (a b : list A), NoDup (a ++ b) -> NoDup a.
Proof. intros A a b H. apply nodup_app in H. tauto. Qed.

Lemma NoDup_app_remove_l : forall {A} (a b : list A), NoDup (a ++ b) -> NoDup b.
Proof. intros A a b H. apply nodup_app in H. tauto. Qed.

Lemma NoDup_app_disjoint : forall {A} (a b : list A) x, NoDup (a ++ b) -> In x a -> In x b -> False.
Proof. intros A a b x H. apply nodup_app in H. destruct H as [_ [_ H]]. apply H. Qed.

Lemma NoDup_app_intro : forall {A} (a b : list A),
  NoDup a -> NoDup b -> (forall x, In x a -> In x b -> False) -> NoDup (a ++ b).
Proof. intros A a b H1 H2 H3. apply nodup_app. tauto. Qed.

Lemma NoDup_app_intro_mid : forall {A} (a b : list A) x,
  NoDup (a ++ b) -> ~ In x (a ++ b) -> NoDup (a ++ x :: b).
Proof.
  intros A a b x H Hn. apply nodup_app in H. destruct H as [H1 [H2 H3]]. apply nodup_app.
  repeat split.
  - exact H1.
  - constructor; [|exact H2]. intro Hc. apply Hn. apply in_or_app. right. exact Hc.
  - intros y Ha [<-|Hb]; [apply Hn; apply in_or_app; left; exact Ha|eapply H3; eassumption].
Qed.

(** -- heaps as lists --------------------------------------------------------------------------------- *)

Definition ids (l : list scored) : list N := map fst l.

Lemma memN_true : forall x l, memN x l = true <-> In x l.
Proof.
  intros x l. unfold memN. rewrite existsb_exists. split.
  - intros [y [Hy E]]. apply N.eqb_eq in E. subst. exact Hy.
  - intro H. exists x. split; [exact H|apply N.eqb_refl].
Qed.

Lemma memN_false : forall x l, memN x l = false <-> ~ In x l.
Proof.
  intros x l. rewrite <- memN_true. destruct (memN x l); intuition congruence.
Qed.

Lemma max_of_in : forall l x, In (max_of x l) (x :: l).
Proof.
  induction l as [|y t IH]; intros x; cbn; [left; reflexivity|].
  destruct (s_lt x y).
  - right. apply IH.
  - destruct (IH x) as [H|H]; [left; exact H|right; right; exact H].
Qed.

Lemma min_of_in : forall l x, In (min_of x l) (x :: l).
Proof.
  induction l as [|y t IH]; intros x; cbn; [left; reflexivity|].
  destruct (s_lt y x).
  - right. apply IH.
  - destruct (IH x) as [H|H]; [left; exact H|right; right; exact H].
Qed.

Lemma min_of_score : forall l x z, In z (x :: l) -> (snd (min_of x l) <= snd z)%Q.
Proof.
  induction l as [|y t IH]; intros x z Hz; cbn.
  - destruct Hz as [<-|[]]. lra.
  - destruct (s_lt y x) eqn:E.
    + assert (Hyx : (snd y <= snd x)%Q) by (apply s_lt_true in E; destruct E as [E|[E _]]; lra).
      destruct Hz as [<-|[<-|Hz]].
      * pose proof (IH y y (or_introl eq_refl)). lra.
      * apply IH. left; reflexivity.
      * apply IH. right; exact Hz.
    + pose proof (s_lt_false_le _ _ E) as Hxy.
      destruct Hz as [<-|[<-|Hz]].
      * apply IH. left; reflexivity.
      * pose proof (IH x x (or_introl eq_refl)). lra.
      * apply IH. right; exact Hz.
Qed.

Lemma remove_id_in : forall id l z, In z (remove_id id l) -> In z l.
Proof.
  induction l as [|y t IH]; intros z H; cbn in *; [exact H|].
  destruct (fst y =? id); [right; exact H|].
  destruct H as [H|H]; [left; exact H|right; apply IH, H].
Qed.

Lemma remove_id_keep : forall id l z, In z l -> fst z <> id -> In z (remove_id id l).
Proof.
  induction l as [|y t IH]; intros z H Hne; cbn in *; [exact H|].
  destruct (fst y =? id) eqn:E.
  - destruct H as [<-|H]; [|exact H]. apply N.eqb_eq in E. contradiction.
  - destruct H as [H|H]; [left; exact H|right; apply IH; assumption].
Qed.

Lemma remove_id_length : forall id l, In id (ids l) -> S (length (remove_id id l)) = length l.
Proof.
  induction l as [|y t IH]; intros H; cbn in *; [destruct H|].
  destruct (fst y =? id) eqn:E; [reflexivity|].
  destruct H as [H|H]; [apply N.eqb_neq in E; contradiction|].
  cbn. rewrite IH; [reflexivity|exact H].
Qed.

Lemma remove_id_ids : forall id l, NoDup (ids l) ->
  NoDup (ids (remove_id id l)) /\ ~ In id (ids (remove_id id l))
  /\ (forall x, In x (ids (remove_id id l)) -> In x (ids l)).
Proof.
  induction l as [|y t IH]; intros H; cbn in *.
  - repeat split; [constructor|intros []|intros x []].
  - inversion H as [|? ? Hny Ht]; subst. destruct (fst y =? id) eqn:E.
    + apply N.eqb_eq in E. subst. repeat split; [exact Ht|exact Hny|intros x Hx; right; exact Hx].
    + apply N.eqb_neq in E. destruct (IH Ht) as [I1 [I2 I3]]. cbn. repeat split.
      * constructor; [|exact I1]. intro Hin. apply Hny. apply I3. exact Hin.
      * intros [Hc|Hc]; [contradiction|apply I2, Hc].
      * intros x [Hx|Hx]; [left; exact Hx|right; apply I3, Hx].
Qed.

Lemma in_ids : forall (z : scored) l, In z l -> In (fst z) (ids l).
Proof. intros z l H. unfold ids. apply in_map. exact H. Qed.

Lemma nlen_cons : forall {A} (x : A) l, nlen (x :: l) = nlen l + 1.
Proof. intros. unfold nlen. cbn [length]. lia. Qed.

(** -- the bounded result heap keeps a top-ef ------------------------------------------------------- *)

Section Search.
  Variables (mt : metric) (st : store) (q : list Z) (ef : N).
  Hypothesis ef_pos : 1 <= ef.

  (** [r] = the result heap, [D] = what was seen and is not (or no longer) in it *)
  Record topinv (r D : list scored) : Prop := {
    ti_nodup : NoDup (ids r ++ ids D);
    ti_len : nlen r <= ef;
    ti_full : D <> [] -> nlen r = ef;
    ti_dom : forall d x, In d D -> In x r -> (snd d <= snd x)%Q;
    ti_sc : forall x, In x (r ++ D) -> sc mt st q (fst x) = Some (snd x)
  }.

  Lemma visit_visited : forall s nb, In nb (st_v s) -> visit mt st q ef s nb = s.
  Proof.
    intros s nb H. unfold visit. apply memN_true in H. rewrite H. reflexivity.
  Qed.

  Lemma visit_fresh : forall s D nb x,
    topinv (st_r s) D ->
    ~ In nb (st_v s) -> incl (ids (st_r s) ++ ids D) (st_v s) ->
    sc mt st q nb = Some x ->
    let s' := visit mt st q ef s nb in
    exists D',
      topinv (st_r s') D'
      /\ (forall id, In id (ids (st_r s') ++ ids D') <-> id = nb \/ In id (ids (st_r s) ++ ids D))
      /\ st_v s' = nb :: st_v s
      /\ (length (st_c s') <= S (length (st_c s)))%nat.
  Proof.
    intros s D nb x Hinv Hfresh Hincl Hsc. cbn zeta. unfold visit.
    apply memN_false in Hfresh as Hm. rewrite Hm, Hsc.
    assert (Hnew : ~ In nb (ids (st_r s) ++ ids D)) by (intro Hc; apply Hfresh, Hincl, Hc).
    destruct Hinv as [Hnd Hlen Hfull Hdom Hscs].
    destruct (nlen (st_r s) <? ef) eqn:Elt.
    - (* room left: admitted, nothing dropped, D is empty *)
      apply N.ltb_lt in Elt. cbn [orb].
      assert (HD : D = []).
      { destruct D as [|d0 D0]; [reflexivity|]. exfalso. assert (nlen (st_r s) = ef) by (apply Hfull; discriminate). lia. }
      subst D. rewrite nlen_cons.
      assert (Eno : (ef <? nlen (st_r s) + 1) = false) by (apply N.ltb_ge; lia).
      rewrite Eno. cbn [st_r st_c st_v]. exists []. split; [|split; [|split]].
      + constructor.
        * cbn [ids map app]. rewrite app_nil_r in *. constructor; [exact Hnew|exact Hnd].
        * rewrite nlen_cons. lia.
        * intro Hc. contradiction.
        * intros d y [].
        * intros y Hy. rewrite app_nil_r in Hy. destruct Hy as [<-|Hy]; [exact Hsc|].
          apply Hscs. rewrite app_nil_r. exact Hy.
      + intros id. cbn [ids map app]. rewrite !app_nil_r. cbn. split; intros [H|H]; auto.
      + reflexivity.
      + cbn. lia.
    - apply N.ltb_ge in Elt. assert (Hl : nlen (st_r s) = ef) by lia. cbn [orb].
      destruct (st_r s) as [|r0 rt] eqn:Er.
      { exfalso. unfold nlen in Hl. cbn in Hl. lia. }
      cbn [peek_min].
      pose proof (min_of_in rt r0) as Hwin.
      pose proof (min_of_score rt r0) as Hwmin.
      set (w := min_of r0 rt) in *.
      destruct (Qltb (snd w) x) eqn:Ex.
      + (* better than the current worst: admitted, the minimum of the enlarged heap leaves *)
        apply Qltb_true in Ex.
        assert (Efull : (ef <? nlen ((nb, x) :: r0 :: rt)) = true) by (apply N.ltb_lt; rewrite nlen_cons; lia).
        rewrite Efull. cbn [st_r st_c st_v].
        unfold drop_min. cbn [peek_min].
        pose proof (min_of_in (r0 :: rt) (nb, x)) as Hmin.
        pose proof (min_of_score (r0 :: rt) (nb, x)) as Hmsc.
        set (mn := min_of (nb, x) (r0 :: rt)) in *.
        assert (Hnd1 : NoDup (ids ((nb, x) :: r0 :: rt))).
        { cbn [ids map]. constructor.
          - intro Hc. apply Hnew. apply in_or_app. left. exact Hc.
          - apply NoDup_app_remove_r in Hnd. exact Hnd. }
        destruct (remove_id_ids (fst mn) _ Hnd1) as [R1 [R2 R3]].
        exists (mn :: D). split; [|split; [|split]].
        * constructor.
          -- (* NoDup *)
             cbn [ids map].
             apply NoDup_app_intro_mid.
             ++ apply NoDup_app_intro.
                ** exact R1.
                ** apply NoDup_app_remove_l in Hnd. exact Hnd.
                ** intros id H1 H2. apply R3 in H1. cbn [ids map] in H1. destruct H1 as [H1|H1].
                   --- cbn in H1. subst id. apply Hnew. apply in_or_app. right. exact H2.
                   --- exact (NoDup_app_disjoint _ _ id Hnd H1 H2).
             ++ intro Hc. apply in_app_or in Hc. destruct Hc as [Hc|Hc]; [exact (R2 Hc)|].
                destruct Hmin as [Hmin|Hmin].
                ** rewrite <- Hmin in Hc. cbn in Hc. apply Hnew. apply in_or_app. right. exact Hc.
                ** apply in_ids in Hmin. exact (NoDup_app_disjoint _ _ (fst mn) Hnd Hmin Hc).
          -- (* length *)
             pose proof (remove_id_length (fst mn) ((nb, x) :: r0 :: rt) (in_ids _ _ Hmin)) as HL.
             unfold nlen in *. cbn [length] in *. lia.
          -- intros _. pose proof (remove_id_length (fst mn) ((nb, x) :: r0 :: rt) (in_ids _ _ Hmin)) as HL.
             unfold nlen in *. cbn [length] in *. lia.
          -- intros d y Hd Hy. apply remove_id_in in Hy.
             destruct Hd as [<-|Hd]; [apply Hmsc; exact Hy|].
             destruct Hy as [<-|Hy]; cbn [snd].
             ++ pose proof (Hdom d w Hd Hwin). lra.
             ++ apply Hdom; assumption.
          -- intros y Hy. apply in_app_or in Hy. destruct Hy as [Hy|[<-|Hy]].
             ++ apply remove_id_in in Hy. destruct Hy as [<-|Hy]; [exact Hsc|].
                apply Hscs. apply in_or_app. left. exact Hy.
             ++ destruct Hmin as [<-|Hmin]; [exact Hsc|]. apply Hscs. apply in_or_app. left. exact Hmin.
             ++ apply Hscs. apply in_or_app. right. exact Hy.
        * (* the id set grows by nb *)
          intros id. cbn [ids map]. split.
          -- intro H. apply in_app_or in H. destruct H as [H|[H|H]].
             ++ apply R3 in H. cbn [ids map] in H. destruct H as [H|H]; [left; symmetry; exact H|].
                right. apply in_or_app. left. exact H.
             ++ subst id. destruct Hmin as [<-|Hmin]; [left; reflexivity|].
                right. apply in_or_app. left. apply in_ids in Hmin. exact Hmin.
             ++ right. apply in_or_app. right. exact H.
          -- intro H.
             assert (Hall : In id (ids ((nb, x) :: r0 :: rt)) \/ In id (ids D)).
             { destruct H as [->|H]; [left; left; reflexivity|].
               apply in_app_or in H. destruct H as [H|H]; [left; right; exact H|right; exact H]. }
             destruct Hall as [Hall|Hall]; [|apply in_or_app; right; right; exact Hall].
             destruct (N.eq_dec id (fst mn)) as [->|Hne].
             ++ apply in_or_app. right. left. reflexivity.
             ++ apply in_or_app. left. unfold ids in Hall. apply in_map_iff in Hall.
                destruct Hall as [z [Hz1 Hz2]]. subst id. apply in_ids. apply remove_id_keep; assumption.
        * reflexivity.
        * cbn. lia.
      + (* not better: stays out *)
        apply Qltb_false in Ex. cbn [st_r st_c st_v].
        exists ((nb, x) :: D). split; [|split; [|split]].
        * constructor.
          -- cbn [ids map]. apply NoDup_app_intro_mid; [exact Hnd|exact Hnew].
          -- exact Hlen.
          -- intros _. exact Hl.
          -- intros d y [<-|Hd] Hy; cbn [snd].
             ++ pose proof (Hwmin y Hy). lra.
             ++ apply Hdom; assumption.
          -- intros y Hy. apply in_app_or in Hy. destruct Hy as [Hy|[<-|Hy]].
             ++ apply Hscs. apply in_or_app. left. exact Hy.
             ++ exact Hsc.
             ++ apply Hscs. apply in_or_app. right. exact Hy.
        * intros id. cbn [ids map]. split; intro H.
          -- apply in_app_or in H. destruct H as [H|[H|H]].
             ++ right. apply in_or_app. left. exact H.
             ++ left. symmetry. exact H.
             ++ right. apply in_or_app. right. exact H.
          -- destruct H as [->|H]; [apply in_or_app; right; left; reflexivity|].
             apply in_app_or in H. destruct H as [H|H]; apply in_or_app; [left|right; right]; exact H.
        * reflexivity.
        * cbn. lia.
  Qed.

  Lemma fold_visit_visited : forall nbs s,
    (forall nb, In nb nbs -> In nb (st_v s)) -> fold_left (visit mt st q ef) nbs s = s.
  Proof.
    induction nbs as [|nb t IH]; intros s H; cbn; [reflexivity|].
    rewrite visit_visited by (apply H; left; reflexivity).
    apply IH. intros x Hx. apply H. right. exact Hx.
  Qed.

  Lemma fold_visit_fresh : forall nbs s D,
    NoDup nbs ->
    (forall nb, In nb nbs -> ~ In nb (st_v s) /\ exists x, sc mt st q nb = Some x) ->
    topinv (st_r s) D ->
    incl (ids (st_r s) ++ ids D) (st_v s) ->
    let s' := fold_left (visit mt st q ef) nbs s in
    exists D',
      topinv (st_r s') D'
      /\ (forall id, In id (ids (st_r s') ++ ids D') <-> In id nbs \/ In id (ids (st_r s) ++ ids D))
      /\ (forall id, In id (st_v s') <-> In id nbs \/ In id (st_v s))
      /\ (length (st_c s') <= length (st_c s) + length nbs)%nat.
  Proof.
    induction nbs as [|nb t IH]; intros s D Hnd Hall Hinv Hincl; cbn zeta; cbn [fold_left].
    - exists D. split; [exact Hinv|]. split; [intros id; cbn [In]; tauto|]. split; [intros id; cbn [In]; tauto|]. cbn. lia.
    - inversion Hnd as [|? ? Hnt Hndt]; subst.
      destruct (Hall nb (or_introl eq_refl)) as [Hfresh [x Hx]].
      destruct (visit_fresh s D nb x Hinv Hfresh Hincl Hx) as [D1 [I1 [I2 [I3 I4]]]].
      set (s1 := visit mt st q ef s nb) in *.
      assert (Hall1 : forall nb', In nb' t -> ~ In nb' (st_v s1) /\ exists x, sc mt st q nb' = Some x).
      { intros nb' Hin. destruct (Hall nb' (or_intror Hin)) as [Hf Hs]. split; [|exact Hs].
        rewrite I3. intros [Hc|Hc]; [subst nb'; contradiction|contradiction]. }
      assert (Hincl1 : incl (ids (st_r s1) ++ ids D1) (st_v s1)).
      { intros id Hid. apply I2 in Hid. rewrite I3. destruct Hid as [->|Hid]; [left; reflexivity|right; apply Hincl, Hid]. }
      destruct (IH s1 D1 Hndt Hall1 I1 Hincl1) as [D2 [J1 [J2 [J3 J4]]]].
      exists D2. split; [exact J1|]. split; [|split].
      + intros id. rewrite J2, I2. cbn [In]. split; intros H; intuition (subst; auto).
      + intros id. rewrite J3, I3. cbn [In]. split; intros H; intuition (subst; auto).
      + cbn [length]. lia.
  Qed.
End Search.

(** -- complete graphs ------------------------------------------------------------------------------ *)

Definition hasv (st : store) (id : N) : bool :=
  match vec_of st id with Some _ => true | None => false end.

(** the documents among the first [j] that have a vector *)
Definition nodes (st : store) (j : nat) : list N := filter (hasv st) (ids_upto j).

Lemma ids_upto_in : forall j a, In a (ids_upto j) <-> (a < N.of_nat j).
Proof.
  intros j a. unfold ids_upto. rewrite in_map_iff. split.
  - intros [k [<- Hk]]. apply in_seq in Hk. lia.
  - intro H. exists (N.to_nat a). split; [lia|]. apply in_seq. lia.
Qed.

Lemma ids_upto_nodup : forall j, NoDup (ids_upto j).
Proof.
  intros j. unfold ids_upto. apply FinFun.Injective_map_NoDup; [|apply seq_NoDup].
  intros a b H. lia.
Qed.

Lemma nodes_in : forall st j a, In a (nodes st j) <-> (a < N.of_nat j /\ hasv st a = true).
Proof. intros. unfold nodes. rewrite filter_In, ids_upto_in. tauto. Qed.

Lemma nodes_nodup : forall st j, NoDup (nodes st j).
Proof. intros. unfold nodes. apply NoDup_filter, ids_upto_nodup. Qed.

Lemma ids_upto_S : forall j, ids_upto (S j) = ids_upto j ++ [N.of_nat j].
Proof. intros j. unfold ids_upto. rewrite seq_S, map_app. reflexivity. Qed.

Lemma nodes_S : forall st j,
  nodes st (S j) = nodes st j ++ (if hasv st (N.of_nat j) then [N.of_nat j] else []).
Proof. intros. unfold nodes. rewrite ids_upto_S, filter_app. reflexivity. Qed.

Lemma filter_len_le : forall {A} (f : A -> bool) l, (length (filter f l) <= length l)%nat.
Proof. intros A f l. induction l as [|x t IH]; cbn; [lia|]. destruct (f x); cbn; lia. Qed.

Lemma nodes_length : forall st j, (length (nodes st j) <= j)%nat.
Proof.
  intros. unfold nodes. etransitivity; [apply filter_len_le|]. unfold ids_upto. rewrite map_length, seq_length. lia.
Qed.

Lemma hasv_sc : forall mt st q a, hasv st a = true -> exists x, sc mt st q a = Some x.
Proof.
  intros mt st q a H. unfold hasv in H. unfold sc. destruct (vec_of st a); [eexists; reflexivity|discriminate].
Qed.

Record complete (st : store) (j : nat) (g : graph) : Prop := {
  c_j : (j <= length st)%nat;
  c_len : length (g_nb g) = length st;
  c_entry : g_entry g = hd_error (nodes st j);
  c_nb : forall a, In a (nodes st j) ->
         NoDup (nbrs g a) /\ forall b, In b (nbrs g a) <-> (In b (nodes st j) /\ b <> a);
  c_rest : forall a, ~ In a (nodes st j) -> nbrs g a = []
}.

Lemma complete_nbrs_nodes : forall st j g c nb, complete st j g -> In nb (nbrs g c) -> In nb (nodes st j).
Proof.
  intros st j g c nb H Hin. destruct (in_dec N.eq_dec c (nodes st j)) as [Hc|Hc].
  - apply (c_nb _ _ _ H) in Hc. destruct Hc as [_ Hc]. apply Hc in Hin. tauto.
  - rewrite (c_rest _ _ _ H c Hc) in Hin. destruct Hin.
Qed.

Lemma pop_max_shrinks : forall l best rest, pop_max l = Some (best, rest) -> S (length rest) = length l.
Proof.
  intros l best rest H. destruct l as [|x t]; [discriminate|]. assert (E : rest = remove_id (fst (max_of x t)) (x :: t)) by (unfold pop_max in H; congruence).
  rewrite E. apply remove_id_length. apply in_ids. apply max_of_in.
Qed.

Lemma sloop_S : forall f mt st g q ef s,
  sloop (S f) mt st g q ef s =
  match pop_max (st_c s) with
  | None => Some (st_r s)
  | Some (best, rest) =>
      if match peek_min (st_r s) with
         | Some w => Qltb (snd best) (snd w) && (ef <=? nlen (st_r s))
         | None => false
         end
      then Some (st_r s)
      else sloop f mt st g q ef
             (fold_left (visit mt st q ef) (nbrs g (fst best))
                        {| st_c := rest; st_r := st_r s; st_v := st_v s |})
  end.
Proof. reflexivity. Qed.

Lemma sloop_drain : forall mt st g q ef fuel s,
  (forall c nb, In nb (nbrs g c) -> In nb (st_v s)) ->
  (length (st_c s) < fuel)%nat ->
  sloop fuel mt st g q ef s = Some (st_r s).
Proof.
  intros mt st g q ef. induction fuel as [|f IH]; intros s Hv Hf; [lia|]. cbn [sloop].
  destruct (pop_max (st_c s)) as [[best rest]|] eqn:Ep; [|reflexivity].
  match goal with |- (if ?c then _ else _) = _ => destruct c end; [reflexivity|].
  rewrite fold_visit_visited by (intros nb Hnb; cbn [st_v]; eapply Hv; exact Hnb).
  rewrite IH; [reflexivity| |].
  - intros c nb Hnb. cbn [st_v]. eapply Hv; exact Hnb.
  - cbn [st_c]. apply pop_max_shrinks in Ep. lia.
Qed.

(** the search on a complete graph sees every node: its result heap is a top-ef of all nodes *)
Lemma search_complete : forall mt st j g q ef,
  complete st j g -> nodes st j <> [] -> 1 <= ef ->
  exists r D,
    search_internal mt st g q ef = Some r
    /\ topinv mt st q ef r D
    /\ (forall id, In id (ids r ++ ids D) <-> In id (nodes st j)).
Proof.
  intros mt st j g q ef Hc Hne Hef.
  destruct (nodes st j) as [|e others] eqn:En; [contradiction|]. clear Hne.
  assert (He : In e (nodes st j)) by (rewrite En; left; reflexivity).
  pose proof (proj1 (nodes_in _ _ _) He) as [Hej Hev].
  destruct (hasv_sc mt st q e Hev) as [es Hes].
  unfold search_internal. rewrite (c_entry _ _ _ Hc), En. cbn [hd_error]. rewrite Hes.
  rewrite sloop_S. cbn [st_c st_r st_v].
  assert (Epop : pop_max [(e, es)] = Some ((e, es), [])).
  { unfold pop_max. cbn [max_of fst remove_id]. rewrite N.eqb_refl. reflexivity. }
  rewrite Epop. cbn [peek_min min_of snd fst].
  assert (Est : Qltb es es = false) by (apply Qltb_false; lra). rewrite Est. cbn [andb].
  destruct (c_nb _ _ _ Hc e He) as [Hnd Hnb].
  set (s0 := {| st_c := []; st_r := [(e, es)]; st_v := [e] |}).
  assert (Hinv0 : topinv mt st q ef (st_r s0) []).
  { constructor; cbn [st_r s0 ids map app].
    - constructor; [intros []|constructor].
    - unfold nlen. cbn. lia.
    - intro H. contradiction.
    - intros d x [].
    - intros x [<-|[]]. exact Hes. }
  assert (Hall : forall nb, In nb (nbrs g e) -> ~ In nb (st_v s0) /\ exists x, sc mt st q nb = Some x).
  { intros nb Hin. apply Hnb in Hin. destruct Hin as [Hin Hneq]. split.
    - cbn. intros [Hc'|[]]. congruence.
    - apply hasv_sc. apply nodes_in in Hin. tauto. }
  assert (Hincl0 : incl (ids (st_r s0) ++ ids []) (st_v s0)).
  { cbn. intros x Hx. exact Hx. }
  destruct (fold_visit_fresh mt st q ef Hef (nbrs g e) s0 [] Hnd Hall Hinv0 Hincl0) as [D [I1 [I2 [I3 I4]]]].
  set (s1 := fold_left (visit mt st q ef) (nbrs g e) s0) in *.
  exists (st_r s1), D. split; [|split].
  - apply sloop_drain.
    + intros c nb Hin. apply I3. apply (complete_nbrs_nodes _ _ _ _ _ Hc) in Hin.
      destruct (N.eq_dec nb e) as [->|Hneq]; [right; left; reflexivity|].
      left. apply Hnb. split; assumption.
    + cbn [st_c s0 length] in I4.
      assert (length (nbrs g e) <= length (nodes st j))%nat.
      { apply NoDup_incl_length; [exact Hnd|]. intros x Hx. apply Hnb in Hx. tauto. }
      pose proof (nodes_length st j). pose proof (c_j _ _ _ Hc). lia.
  - exact I1.
  - rewrite <- En. intros id. rewrite I2. cbn [st_r s0 ids map app In]. rewrite Hnb. split.
    + intros [[H _]|[H|[]]]; [exact H|subst; exact He].
    + intro H. destruct (N.eq_dec id e) as [->|Hneq]; [right; left; reflexivity|left; split; assumption].
Qed.

(** when the beam is at least as wide as the graph nothing is dropped *)
Lemma search_complete_all : forall mt st j g q ef,
  complete st j g -> nodes st j <> [] -> 1 <= ef -> N.of_nat (length (nodes st j)) <= ef ->
  exists r,
    search_internal mt st g q ef = Some r
    /\ NoDup (ids r)
    /\ (forall id, In id (ids r) <-> In id (nodes st j))
    /\ (forall x, In x r -> sc mt st q (fst x) = Some (snd x)).
Proof.
  intros mt st j g q ef Hc Hne Hef Hwide.
  destruct (search_complete mt st j g q ef Hc Hne Hef) as [r [D [Hs [Hinv Hids]]]].
  assert (HD : D = []).
  { destruct D as [|d0 D0]; [reflexivity|]. exfalso.
    assert (Hfull : nlen r = ef) by (apply (ti_full _ _ _ _ _ _ Hinv); discriminate).
    assert (Hl : (length (ids r ++ ids (d0 :: D0)) <= length (nodes st j))%nat).
    { apply NoDup_incl_length; [apply (ti_nodup _ _ _ _ _ _ Hinv)|]. intros x Hx. apply Hids, Hx. }
    rewrite app_length in Hl. unfold ids in Hl. rewrite !map_length in Hl. cbn [length] in Hl.
    unfold nlen in Hfull. lia. }
  subst D. exists r. split; [exact Hs|]. split; [|split].
  - pose proof (ti_nodup _ _ _ _ _ _ Hinv) as H. cbn [ids map] in H. rewrite app_nil_r in H. exact H.
  - intros id. rewrite <- Hids. cbn [ids map]. rewrite app_nil_r. tauto.
  - intros x Hx. apply (ti_sc _ _ _ _ _ _ Hinv). rewrite app_nil_r. exact Hx.
Qed.

(** -- neighbour table updates ------------------------------------------------------------------- *)

Lemma set_nth_length : forall {A} (l : list A) i x, length (set_nth l i x) = length l.
Proof. induction l as [|y t IH]; intros [|i] x; cbn; auto. Qed.

Lemma set_nth_same : forall {A} (l : list A) i x, (i < length l)%nat -> nth_error (set_nth l i x) i = Some x.
Proof.
  induction l as [|y t IH]; intros [|i] x H; cbn in *; try lia; [reflexivity|]. apply IH. lia.
Qed.

Lemma set_nth_other : forall {A} (l : list A) i k x, i <> k -> nth_error (set_nth l i x) k = nth_error l k.
Proof.
  induction l as [|y t IH]; intros [|i] [|k] x H; cbn in *; try reflexivity; try congruence.
  apply IH. congruence.
Qed.

Lemma nbrs_set_same : forall g id l, (N.to_nat id < length (g_nb g))%nat -> nbrs (set_nb g id l) id = l.
Proof.
  intros g id l H. unfold nbrs, set_nb, nthN. cbn [g_nb]. rewrite set_nth_same by exact H. reflexivity.
Qed.

Lemma nbrs_set_other : forall g id l a, a <> id -> nbrs (set_nb g id l) a = nbrs g a.
Proof.
  intros g id l a H. unfold nbrs, set_nb, nthN. cbn [g_nb]. rewrite set_nth_other by lia. reflexivity.
Qed.

Lemma firstn_all_le : forall {A} (l : list A) n, (length l <= n)%nat -> firstn n l = l.
Proof. intros. apply firstn_all2. assumption. Qed.

Lemma prune_perm : forall mt st m target l,
  (N.of_nat (length l) <= m) -> Permutation (prune mt st m target l) l.
Proof.
  intros mt st m target l H. unfold prune.
  rewrite firstn_all_le by (rewrite isort_length; lia). apply isort_perm.
Qed.

Lemma filter_all : forall {A} (f : A -> bool) l, (forall x, In x l -> f x = true) -> filter f l = l.
Proof.
  intros A f l. induction l as [|x t IH]; intros H; cbn; [reflexivity|].
  rewrite (H x (or_introl eq_refl)). f_equal. apply IH. intros y Hy. apply H. right. exact Hy.
Qed.

(** the back-link loop adds [id] to every listed node's neighbours and touches nothing else *)
Lemma backlink_fold : forall mt st m id l g0,
  NoDup l -> ~ In id l ->
  (forall n, In n l ->
     ~ In id (nbrs g0 n) /\ NoDup (nbrs g0 n)
     /\ N.of_nat (length (nbrs g0 n)) + 1 <= m /\ (N.to_nat n < length (g_nb g0))%nat) ->
  let g' := fold_left (backlink mt st m id) l g0 in
  g_entry g' = g_entry g0
  /\ length (g_nb g') = length (g_nb g0)
  /\ (forall a, In a l -> NoDup (nbrs g' a) /\ forall b, In b (nbrs g' a) <-> In b (nbrs g0 a) \/ b = id)
  /\ (forall a, ~ In a l -> nbrs g' a = nbrs g0 a).
Proof.
  intros mt st m id. induction l as [|n t IH]; intros g0 Hnd Hid Hpre; cbn zeta; cbn [fold_left].
  - split; [reflexivity|]. split; [reflexivity|]. split; [intros a0 []|reflexivity].
  - inversion Hnd as [|? ? Hnt Hndt]; subst.
    destruct (Hpre n (or_introl eq_refl)) as [P1 [P2 [P3 P4]]].
    set (g1 := backlink mt st m id g0 n).
    assert (Eg1 : g1 = set_nb g0 n (prune mt st m n (nbrs g0 n ++ [id]))).
    { unfold g1, backlink. apply memN_false in P1. rewrite P1. reflexivity. }
    assert (Hperm : Permutation (prune mt st m n (nbrs g0 n ++ [id])) (nbrs g0 n ++ [id])).
    { apply prune_perm. rewrite app_length. cbn [length]. lia. }
    assert (Hpre1 : forall n', In n' t ->
       ~ In id (nbrs g1 n') /\ NoDup (nbrs g1 n')
       /\ N.of_nat (length (nbrs g1 n')) + 1 <= m /\ (N.to_nat n' < length (g_nb g1))%nat).
    { intros n' Hn'. assert (n' <> n) by (intro; subst; contradiction).
      rewrite Eg1. rewrite nbrs_set_other by assumption. unfold set_nb. cbn [g_nb]. rewrite set_nth_length.
      apply Hpre. right. exact Hn'. }
    destruct (IH g1 Hndt (fun H => Hid (or_intror H)) Hpre1) as [J1 [J2 [J3 J4]]].
    split; [|split; [|split]].
    + rewrite J1, Eg1. reflexivity.
    + rewrite J2, Eg1. unfold set_nb. cbn [g_nb]. apply set_nth_length.
    + intros a [<-|Ha].
      * rewrite (J4 n Hnt), Eg1, nbrs_set_same by exact P4. split.
        -- eapply Permutation_NoDup; [apply Permutation_sym, Hperm|].
           apply NoDup_app_intro; [exact P2|constructor; [intros []|constructor]|].
           intros x Hx [<-|[]]. contradiction.
        -- intros b. split; intro H.
           ++ apply (Permutation_in _ Hperm) in H. apply in_app_or in H. destruct H as [H|[H|[]]]; auto.
           ++ apply (Permutation_in _ (Permutation_sym Hperm)). apply in_or_app.
              destruct H as [H|H]; [left; exact H|right; left; symmetry; exact H].
      * assert (a <> n) by (intro; subst; contradiction).
        destruct (J3 a Ha) as [K1 K2]. split; [exact K1|]. intros b. rewrite K2, Eg1, nbrs_set_other by assumption. tauto.
    + intros a Ha. assert (a <> n) by (intro; subst; apply Ha; left; reflexivity).
      rewrite J4 by (intro H'; apply Ha; right; exact H'). rewrite Eg1. apply nbrs_set_other. assumption.
Qed.

Lemma nodup_same_length : forall {A} (a b : list A),
  NoDup a -> NoDup b -> (forall x, In x a <-> In x b) -> length a = length b.
Proof.
  intros A a b Ha Hb H. apply Nat.le_antisymm; apply NoDup_incl_length; try assumption; intros x Hx; apply H, Hx.
Qed.

Lemma hd_error_none : forall {A} (l : list A), hd_error l = None -> l = [].
Proof. intros A [|x t] H; [reflexivity|discriminate]. Qed.

(** -- one insertion keeps the graph complete while at most m vectors are present --------------- *)

Lemma add_vector_complete : forall mt st m efc j g,
  complete st j g -> (j < length st)%nat -> 1 <= m ->
  N.of_nat (length (nodes st (S j))) <= m ->
  exists g', add_vector mt st m efc g (N.of_nat j) = Some g' /\ complete st (S j) g'.
Proof.
  intros mt st m efc j g Hc Hj Hm Hsmall.
  set (id := N.of_nat j) in *.
  assert (Hidn : ~ In id (nodes st j)) by (intro H; apply nodes_in in H; unfold id in H; lia).
  unfold add_vector. destruct (vec_of st id) as [v|] eqn:Ev.
  2:{ (* no vector: nothing changes *)
    assert (Hv : hasv st id = false) by (unfold hasv; rewrite Ev; reflexivity).
    assert (En : nodes st (S j) = nodes st j) by (rewrite nodes_S; fold id; rewrite Hv, app_nil_r; reflexivity).
    exists g. split; [reflexivity|]. destruct Hc as [C1 C2 C3 C4 C5].
    constructor; rewrite ?En; try assumption. }
  assert (Hv : hasv st id = true) by (unfold hasv; rewrite Ev; reflexivity).
  assert (En : nodes st (S j) = nodes st j ++ [id]) by (rewrite nodes_S; fold id; rewrite Hv; reflexivity).
  rewrite En, app_length in Hsmall. cbn [length] in Hsmall.
  destruct (g_entry g) as [e|] eqn:Ee.
  - (* an entry exists: search, link, back-link *)
    pose proof (c_entry _ _ _ Hc) as Hentry. rewrite Ee in Hentry.
    assert (Hne : nodes st j <> []) by (intro H0; rewrite H0 in Hentry; discriminate).
    assert (Hein : In e (nodes st j)).
    { destruct (nodes st j) as [|e0 t0]; [contradiction|]. cbn in Hentry. inversion Hentry. left. reflexivity. }
    set (ef := N.max efc (m * 2)).
    assert (Hef1 : 1 <= ef) by (unfold ef; lia).
    assert (Hwide : N.of_nat (length (nodes st j)) <= ef) by (unfold ef; lia).
    destruct (search_complete_all mt st j g v ef Hc Hne Hef1 Hwide) as [r [Hs [Hndr [Hidr Hscr]]]].
    rewrite Hs.
    assert (Hfil : filter (fun c : N * Q => negb (fst c =? id)) r = r).
    { apply filter_all. intros x Hx. apply negb_true_iff, N.eqb_neq. intro Hc'.
      apply Hidn. apply Hidr. rewrite <- Hc'. apply in_ids. exact Hx. }
    rewrite Hfil.
    set (cands := isort s_desc r).
    assert (Hlen : length cands = length (nodes st j)).
    { unfold cands. rewrite isort_length. transitivity (length (ids r)); [unfold ids; rewrite map_length; reflexivity|].
      apply nodup_same_length; [exact Hndr|apply nodes_nodup|exact Hidr]. }
    rewrite firstn_all_le by lia.
    set (idl := map fst cands).
    assert (Hperm : Permutation idl (ids r)) by (unfold idl, ids, cands; apply Permutation_map, isort_perm).
    assert (Hndl : NoDup idl) by (eapply Permutation_NoDup; [apply Permutation_sym, Hperm|exact Hndr]).
    assert (Hidl : forall x, In x idl <-> In x (nodes st j)).
    { intros x. rewrite <- Hidr. split; apply Permutation_in; [exact Hperm|apply Permutation_sym, Hperm]. }
    set (g1 := set_nb g id idl).
    assert (Hidlt : (N.to_nat id < length (g_nb g))%nat) by (rewrite (c_len _ _ _ Hc); unfold id; lia).
    assert (Hpre : forall n, In n idl ->
       ~ In id (nbrs g1 n) /\ NoDup (nbrs g1 n)
       /\ N.of_nat (length (nbrs g1 n)) + 1 <= m /\ (N.to_nat n < length (g_nb g1))%nat).
    { intros n Hn. apply Hidl in Hn. assert (n <> id) by (intro; subst; contradiction).
      unfold g1. rewrite nbrs_set_other by assumption.
      destruct (c_nb _ _ _ Hc n Hn) as [K1 K2]. split; [|split; [exact K1|split]].
      - intro Hc'. apply K2 in Hc'. tauto.
      - assert (Hl : (length (n :: nbrs g n) <= length (nodes st j))%nat).
        { apply NoDup_incl_length.
          - constructor; [|exact K1]. intro Hc'. apply K2 in Hc'. tauto.
          - intros x [<-|Hx]; [exact Hn|]. apply K2 in Hx. tauto. }
        cbn [length] in Hl. lia.
      - unfold set_nb. cbn [g_nb]. rewrite set_nth_length, (c_len _ _ _ Hc).
        apply nodes_in in Hn. lia. }
    assert (Hidl' : ~ In id idl) by (intro H; apply Hidn, Hidl, H).
    destruct (backlink_fold mt st m id idl g1 Hndl Hidl' Hpre) as [B1 [B2 [B3 B4]]].
    set (g2 := fold_left (backlink mt st m id) idl g1) in *.
    assert (Hnz : match nbrs g2 e with [] => true | _ :: _ => false end = false).
    { destruct (B3 e (proj2 (Hidl e) Hein)) as [_ K]. destruct (nbrs g2 e) eqn:E2; [|reflexivity].
      exfalso. assert (In id []) by (apply K; right; reflexivity). contradiction. }
    rewrite Hnz. cbn [andb]. exists g2. split; [reflexivity|].
    assert (Hg2id : nbrs g2 id = idl).
    { rewrite (B4 id Hidl'). unfold g1. apply nbrs_set_same. exact Hidlt. }
    constructor.
    + lia.
    + rewrite B2. unfold g1, set_nb. cbn [g_nb]. rewrite set_nth_length. apply (c_len _ _ _ Hc).
    + rewrite B1. unfold g1, set_nb. cbn [g_entry]. rewrite Ee, En.
      destruct (nodes st j) as [|e0 t0]; [contradiction|]. cbn in *. exact Hentry.
    + intros a Ha. rewrite En in Ha. apply in_app_or in Ha. destruct Ha as [Ha|[<-|[]]].
      * destruct (B3 a (proj2 (Hidl a) Ha)) as [K1 K2]. split; [exact K1|].
        assert (a <> id) by (intro; subst; contradiction).
        intros b. rewrite K2. unfold g1. rewrite nbrs_set_other by assumption.
        destruct (c_nb _ _ _ Hc a Ha) as [_ K3]. rewrite K3, En, in_app_iff. cbn [In].
        split; [intros [[H1 H2]|H1]|intros [[H1|[H1|[]]] H2]]; subst; auto.
      * rewrite Hg2id. split; [exact Hndl|]. intros b. rewrite Hidl, En, in_app_iff. cbn [In].
        split; [intro H; split; [left; exact H|intro; subst; contradiction]|].
        intros [[H|[H|[]]] H2]; [exact H|congruence].
    + intros a Ha. rewrite En in Ha.
      assert (Ha1 : ~ In a (nodes st j)) by (intro H; apply Ha, in_or_app; left; exact H).
      assert (Ha2 : a <> id) by (intro H; apply Ha, in_or_app; right; left; symmetry; exact H).
      rewrite B4 by (intro H; apply Ha1, Hidl, H). unfold g1. rewrite nbrs_set_other by assumption.
      apply (c_rest _ _ _ Hc a Ha1).
  - (* first vector: it becomes the entry *)
    pose proof (c_entry _ _ _ Hc) as Hentry. rewrite Ee in Hentry. symmetry in Hentry. apply hd_error_none in Hentry.
    eexists. split; [reflexivity|]. constructor; cbn [g_entry g_nb].
    + lia.
    + apply (c_len _ _ _ Hc).
    + rewrite En, Hentry. reflexivity.
    + intros a Ha. rewrite En, Hentry in Ha. destruct Ha as [<-|[]].
      assert (E0 : nbrs {| g_entry := Some id; g_nb := g_nb g |} id = nbrs g id) by reflexivity.
      rewrite E0, (c_rest _ _ _ Hc id Hidn). split; [constructor|].
      intros b. rewrite En, Hentry. cbn. split; [intros []|intros [[H|[]] H2]; congruence].
    + intros a Ha.
      assert (E0 : nbrs {| g_entry := Some id; g_nb := g_nb g |} a = nbrs g a) by reflexivity.
      rewrite E0. apply (c_rest _ _ _ Hc). rewrite Hentry. intros [].
Qed.

Lemma nodes_length_mono : forall st j n, (length (nodes st j) <= length (nodes st (j + n)))%nat.
Proof.
  intros st j n. induction n as [|n IH]; [rewrite Nat.add_0_r; lia|].
  rewrite Nat.add_succ_r, nodes_S, app_length. lia.
Qed.

Lemma add_all_complete : forall mt st m efc n j g,
  complete st j g -> (j + n <= length st)%nat -> 1 <= m ->
  N.of_nat (length (nodes st (j + n))) <= m ->
  exists g', add_all mt st m efc (map N.of_nat (seq j n)) g = Some g' /\ complete st (j + n) g'.
Proof.
  intros mt st m efc. induction n as [|n IH]; intros j g Hc Hj Hm Hs.
  - rewrite Nat.add_0_r. exists g. split; [reflexivity|exact Hc].
  - cbn [seq map add_all].
    assert (Hs1 : N.of_nat (length (nodes st (S j))) <= m).
    { pose proof (nodes_length_mono st (S j) n). replace (S j + n)%nat with (j + S n)%nat in H by lia. lia. }
    destruct (add_vector_complete mt st m efc j g Hc ltac:(lia) Hm Hs1) as [g1 [E1 C1]].
    rewrite E1. replace (j + S n)%nat with (S j + n)%nat in * by lia.
    apply IH; assumption.
Qed.

Lemma nthN_repeat_nil : forall n a, match nthN (repeat (@nil N) n) a with Some l => l | None => [] end = [].
Proof.
  intros n a. unfold nthN. destruct (nth_error (repeat [] n) (N.to_nat a)) eqn:E; [|reflexivity].
  apply nth_error_In in E. apply repeat_spec in E. exact E.
Qed.

Lemma complete_init : forall st, complete st 0 {| g_entry := None; g_nb := repeat [] (length st) |}.
Proof.
  intros st. constructor; cbn [g_entry g_nb].
  - lia.
  - apply repeat_length.
  - reflexivity.
  - intros a [].
  - intros a _. unfold nbrs. cbn [g_nb]. apply nthN_repeat_nil.
Qed.

(** [present] counts the same documents as [nodes] *)
Lemma vec_of_app_l : forall st x a, (N.to_nat a < length st)%nat -> vec_of (st ++ [x]) a = vec_of st a.
Proof.
  intros st x a H. unfold vec_of, nthN. rewrite nth_error_app1 by exact H. reflexivity.
Qed.

Lemma present_nodes : forall st, present st = N.of_nat (length (nodes st (length st))).
Proof.
  intros st. unfold present, nlen. f_equal.
  induction st as [|x st IH] using rev_ind; [reflexivity|].
  rewrite filter_app, !app_length. cbn [length filter].
  replace (length st + 1)%nat with (S (length st)) by lia.
  rewrite nodes_S, app_length.
  assert (E1 : nodes (st ++ [x]) (length st) = nodes st (length st)).
  { unfold nodes. apply filter_ext_in. intros a Ha. apply ids_upto_in in Ha. unfold hasv.
    rewrite vec_of_app_l by lia. reflexivity. }
  rewrite E1, IH. f_equal.
  unfold hasv, vec_of, nthN. rewrite Nat2N.id, nth_error_app2 by lia. rewrite Nat.sub_diag. cbn [nth_error].
  destruct x; reflexivity.
Qed.

(** -- the graph of a small segment is complete ---------------------------------------------------- *)

Theorem graph_complete : forall mt st m efc,
  present st <= N.max m 1 ->
  exists g, hnsw_build mt st m efc = Some g /\ complete st (length st) g.
Proof.
  intros mt st m efc H. unfold hnsw_build, ids_upto.
  apply (add_all_complete mt st (N.max m 1) (N.max efc 1) (length st) 0 _ (complete_init st)); cbn [Nat.add]; try lia.
  rewrite <- present_nodes. exact H.
Qed.

(** -- exact k nearest neighbours -------------------------------------------------------------------- *)

Definition is_topk (mt : metric) (st : store) (q : list Z) (k : N) (l : list (N * Q)) : Prop :=
  NoDup (ids l)
  /\ (forall x, In x l -> sc mt st q (fst x) = Some (snd x))
  /\ nlen l = N.min k (present st)
  /\ (forall id y, sc mt st q id = Some y -> ~ In id (ids l) -> forall x, In x l -> (y <= snd x)%Q).

Lemma s_lt_false : forall a b : N * Q,
  s_lt a b = false <-> ((snd b < snd a)%Q \/ ((snd b == snd a)%Q /\ fst b <= fst a)).
Proof.
  intros a b. split.
  - intro H. pose proof (s_lt_false_le _ _ H) as Hle.
    destruct (Qlt_le_dec (snd b) (snd a)) as [L|L]; [left; exact L|]. right. split; [lra|].
    destruct (N.le_gt_cases (fst b) (fst a)) as [T|T]; [exact T|]. exfalso.
    assert (s_lt a b = true) by (apply s_lt_true; right; split; [lra|lia]). congruence.
  - intros H. destruct (s_lt a b) eqn:E; [|reflexivity]. apply s_lt_true in E.
    destruct H as [H|[H1 H2]], E as [E|[E1 E2]]; try lra; lia.
Qed.

Lemma s_desc_total : forall a b, s_desc a b = false -> s_desc b a = true.
Proof.
  unfold s_desc. intros a b H. apply negb_false_iff in H. apply negb_true_iff. apply s_lt_asym. exact H.
Qed.

Lemma s_desc_trans : forall a b c, s_desc a b = true -> s_desc b c = true -> s_desc a c = true.
Proof.
  unfold s_desc. intros a b c H1 H2. apply negb_true_iff in H1, H2. apply negb_true_iff.
  apply s_lt_false in H1, H2. apply s_lt_false.
  destruct H1 as [H1|[H1 H1']], H2 as [H2|[H2 H2']].
  - left; lra.
  - left; lra.
  - left; lra.
  - right; split; [lra|lia].
Qed.

Lemma vec_of_lt : forall st id v, vec_of st id = Some v -> (N.to_nat id < length st)%nat.
Proof.
  intros st id v H. unfold vec_of, nthN in H. destruct (nth_error st (N.to_nat id)) eqn:E; [|discriminate].
  apply nth_error_Some. congruence.
Qed.

Theorem exact_small : forall mt st m efc q k ef,
  present st <= N.max m 1 ->
  exists g l,
    hnsw_build mt st m efc = Some g
    /\ hnsw_search mt st g q k ef = Some l
    /\ is_topk mt st q k l.
Proof.
  intros mt st m efc q k ef Hsmall.
  destruct (graph_complete mt st m efc Hsmall) as [g [Hb Hc]].
  exists g. unfold hnsw_search. destruct (k =? 0) eqn:Ek.
  { apply N.eqb_eq in Ek. subst k. exists []. split; [exact Hb|]. split; [reflexivity|].
    repeat split; [constructor|intros x []| |intros id y _ _ x []]. unfold nlen. cbn. lia. }
  apply N.eqb_neq in Ek.
  set (ef' := N.max (N.max ef k) 1).
  destruct (nodes st (length st)) as [|n0 nt] eqn:En.
  - (* no vectors at all *)
    assert (He : g_entry g = None) by (rewrite (c_entry _ _ _ Hc), En; reflexivity).
    exists []. split; [exact Hb|]. unfold search_internal. rewrite He. cbn [option_map isort fold_right firstn].
    rewrite firstn_nil. split; [reflexivity|].
    repeat split; [constructor|intros x []| |intros id y _ _ x []].
    rewrite present_nodes, En. unfold nlen. cbn. lia.
  - assert (Hne : nodes st (length st) <> []) by (rewrite En; discriminate).
    destruct (search_complete mt st (length st) g q ef' Hc Hne ltac:(unfold ef'; lia)) as [r [D [Hs [Hinv Hids]]]].
    rewrite Hs. cbn [option_map].
    set (sorted := isort s_desc r).
    exists (firstn (N.to_nat k) sorted). split; [exact Hb|]. split; [reflexivity|].
    pose proof (isort_perm s_desc r) as Hperm. fold sorted in Hperm.
    pose proof (isort_sorted s_desc s_desc_total s_desc_trans r) as Hsorted. fold sorted in Hsorted.
    destruct Hinv as [Hnd Hlen Hfull Hdom Hsc].
    assert (Hndr : NoDup (ids r)) by (apply NoDup_app_remove_r in Hnd; exact Hnd).
    assert (Hnds : NoDup (ids sorted)).
    { eapply Permutation_NoDup; [|exact Hndr]. unfold ids. apply Permutation_map, Permutation_sym, Hperm. }
    assert (Hsplit : sorted = firstn (N.to_nat k) sorted ++ skipn (N.to_nat k) sorted) by (symmetry; apply firstn_skipn).
    split; [|split; [|split]].
    + rewrite Hsplit in Hnds. unfold ids in Hnds. rewrite map_app in Hnds. apply NoDup_app_remove_r in Hnds. exact Hnds.
    + intros x Hx. apply Hsc. apply in_or_app. left. apply (Permutation_in _ Hperm). eapply in_firstn; exact Hx.
    + (* length *)
      unfold nlen. rewrite firstn_length. unfold sorted at 1. rewrite isort_length.
      rewrite present_nodes.
      assert (Hl : (length r + length D = length (nodes st (length st)))%nat).
      { transitivity (length (ids r ++ ids D)); [rewrite app_length; unfold ids; rewrite !map_length; reflexivity|].
        apply nodup_same_length; [exact Hnd|apply nodes_nodup|exact Hids]. }
      destruct D as [|d0 D0].
      * cbn [length] in Hl. lia.
      * assert (nlen r = ef') by (apply Hfull; discriminate). unfold nlen in *. cbn [length] in Hl. unfold ef' in *. lia.
    + intros id y Hy Hnot x Hx.
      assert (Hnode : In id (nodes st (length st))).
      { apply nodes_in. unfold sc in Hy. destruct (vec_of st id) as [v|] eqn:Ev; [|discriminate].
        split; [apply vec_of_lt in Ev; lia|unfold hasv; rewrite Ev; reflexivity]. }
      apply Hids in Hnode. apply in_app_or in Hnode.
      assert (Hxr : In x r) by (apply (Permutation_in _ Hperm); eapply in_firstn; exact Hx).
      destruct Hnode as [Hr|HD].
      * (* in the heap but cut by the truncation: the sort puts it after every kept element *)
        unfold ids in Hr. apply in_map_iff in Hr. destruct Hr as [z [Hz1 Hz2]].
        assert (Hzy : snd z = y).
        { assert (sc mt st q (fst z) = Some (snd z)) by (apply Hsc; apply in_or_app; left; exact Hz2).
          rewrite Hz1 in H. congruence. }
        assert (Hzs : In z sorted) by (apply (Permutation_in _ (Permutation_sym Hperm)); exact Hz2).
        rewrite Hsplit in Hzs. apply in_app_or in Hzs. destruct Hzs as [Hzs|Hzs].
        -- exfalso. apply Hnot. rewrite <- Hz1. apply in_ids. exact Hzs.
        -- pose proof (firstn_skipn_sorted _ sorted (N.to_nat k) Hsorted x z Hx Hzs) as Hd.
           unfold s_desc in Hd. apply negb_true_iff in Hd. apply s_lt_false_le in Hd. rewrite <- Hzy. exact Hd.
      * unfold ids in HD. apply in_map_iff in HD. destruct HD as [z [Hz1 Hz2]].
        assert (Hzy : snd z = y).
        { assert (sc mt st q (fst z) = Some (snd z)) by (apply Hsc; apply in_or_app; right; exact Hz2).
          rewrite Hz1 in H. congruence. }
        rewrite <- Hzy. apply Hdom; assumption.
Qed.
