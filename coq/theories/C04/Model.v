(** C04 — tie layer: a case is a history of API calls plus, after every call, what a fresh
    reader of the real index returned (sorted by id, duplicates kept). *)
From Coq Require Import List NArith Bool.
From SL Require Import Base.Tie Core.Model.
Import ListNotations.
Open Scope N_scope.

Definition case04 := (list api * list (list (N * N)))%type.

Definition conc_obs (h : list api) : list (list (N * N)) := map sort_by_id (run_obs init h).
Definition spec_obs (h : list api) : list (list (N * N)) := map sort_by_id (srun_obs sinit h).

(** Known class C04/1: the history contains a commit through a handle holding a stale recovered
    operation (see Core.Model.has_stale). *)
Definition known_class (h : list api) : N := if has_stale sinit h then 1 else 0.

(** A spec-violating observation counts as the known finding only when the faithful concrete
    machine (which has the stale-queue behaviour) predicts exactly that observation; a history in
    the class whose observation ALSO disagrees with the concrete machine is a different defect. *)
Definition check_case (c : case04) : N :=
  let (h, o) := c in
  let corr := obs_eqb (conc_obs h) o in
  let spec := obs_eqb (spec_obs h) o in
  if spec then (if corr then 0 else 1)
  else if corr && negb (known_class h =? 0) then 100 + known_class h else 2.
