(** C01 — the commit / compaction protocol against a crash-aware model of the index directory.

    The directory is modelled through the durability facts that decide what a reopen finds:
    which manifest the durable directory entry MANIFEST.json leads to, whether a renamed-in
    manifest is still waiting for the directory fsync, and for every segment whether its file
    contents were fsynced, whether its directory entries are durable and whether an unlink is
    pending.  These are the file-system rules of DESIGN.md section 3.3 specialised to the files
    the index uses:
      - fsync of a file makes its content durable, not its directory entry;
      - create / rename / unlink are pending until the next directory fsync; after a crash ANY
        SUBSET of the pending directory operations may have reached the disk;
      - a file whose content was not fsynced may hold anything after a crash.

    The storage operations of each API call ([tr]) are transcribed from api/writer.rs (commit),
    index/mod.rs (compact, cleanup_segments), storage/mod.rs (atomic_write), index/segment.rs
    (write_segment_stream), in the abstract alphabet the harness maps the real trace to. *)
From Coq Require Import List NArith Bool.
From SL Require Import Base.Tie Core.Model.
Import ListNotations.
Open Scope N_scope.

Inductive sop :=
| OWalOpen            (* open_append(wal.log): creates the file when missing, then dir fsync *)
| OWalWrite           (* one record appended *)
| OWalFsync
| OWalSetLen0
| OSegBegin (s : N)   (* first file of segment s created                      *)
| OSegSynced (s : N)  (* last file of segment s written and fsynced           *)
| OTmpWrite (m : manifest)  (* MANIFEST.tmp created and written               *)
| OTmpFsync
| ORename             (* MANIFEST.tmp -> MANIFEST.json                        *)
| ODirFsync
| OSegUnlink (s : N). (* the files of segment s unlinked                      *)

Record segst := { g_synced : bool; g_entry : bool; g_unlink : bool }.

Record disk := {
  k_man  : manifest * bool;            (* durable MANIFEST.json entry: content, content fsynced *)
  k_manp : option (manifest * bool);   (* renamed in, directory not yet fsynced                 *)
  k_tmp  : option (manifest * bool);   (* MANIFEST.tmp                                          *)
  k_segs : list (N * segst)
}.

Definition disk0 : disk := {| k_man := ([], true); k_manp := None; k_tmp := None; k_segs := [] |}.

Definition upd_seg (s : N) (f : segst -> segst) (l : list (N * segst)) : list (N * segst) :=
  map (fun p => if fst p =? s then (fst p, f (snd p)) else p) l.

Definition apply_sop (d : disk) (o : sop) : disk :=
  match o with
  | OWalOpen | OWalWrite | OWalFsync | OWalSetLen0 => d
  | OSegBegin s =>
      {| k_man := k_man d; k_manp := k_manp d; k_tmp := k_tmp d;
         k_segs := k_segs d ++ [(s, {| g_synced := false; g_entry := false; g_unlink := false |})] |}
  | OSegSynced s =>
      {| k_man := k_man d; k_manp := k_manp d; k_tmp := k_tmp d;
         k_segs := upd_seg s (fun g => {| g_synced := true; g_entry := g_entry g; g_unlink := g_unlink g |}) (k_segs d) |}
  | OTmpWrite m =>
      {| k_man := k_man d; k_manp := k_manp d; k_tmp := Some (m, false); k_segs := k_segs d |}
  | OTmpFsync =>
      {| k_man := k_man d; k_manp := k_manp d;
         k_tmp := match k_tmp d with Some (m, _) => Some (m, true) | None => None end;
         k_segs := k_segs d |}
  | ORename =>
      {| k_man := k_man d; k_manp := k_tmp d; k_tmp := None; k_segs := k_segs d |}
  | ODirFsync =>
      {| k_man := match k_manp d with Some x => x | None => k_man d end;
         k_manp := None; k_tmp := k_tmp d;
         k_segs := map (fun p => (fst p, {| g_synced := g_synced (snd p); g_entry := true; g_unlink := g_unlink (snd p) |}))
                       (filter (fun p => negb (g_unlink (snd p))) (k_segs d)) |}
  | OSegUnlink s =>
      {| k_man := k_man d; k_manp := k_manp d; k_tmp := k_tmp d;
         k_segs := upd_seg s (fun g => {| g_synced := g_synced g; g_entry := g_entry g; g_unlink := true |}) (k_segs d) |}
  end.

Definition run_sops (d : disk) (ops : list sop) : disk := fold_left apply_sop ops d.

(** What a reopen may find after a crash now. [None] = the index does not open / cannot be read. *)
Definition seg_safe (d : disk) (s : N) : bool :=
  match alookup s (k_segs d) with
  | Some g => g_synced g && g_entry g && negb (g_unlink g)
  | None => false
  end.

Definition man_outcomes (d : disk) (x : manifest * bool) : list (option (list (N * N))) :=
  let (m, synced) := x in
  Some (contents m) ::
  (if synced && forallb (fun sg => seg_safe d (sid sg)) m then [] else [None]).

Definition outcomes (d : disk) : list (option (list (N * N))) :=
  man_outcomes d (k_man d) ++
  match k_manp d with Some x => man_outcomes d x | None => [] end.

(** * The storage operations of each API call, given the state before it.
    [fixed]: the repaired atomic_write (directory fsync before the rename). *)
Definition atomic_manifest (fixed : bool) (m : manifest) : list sop :=
  [OTmpWrite m; OTmpFsync] ++ (if fixed then [ODirFsync] else []) ++ [ORename; ODirFsync].

Definition tr (fixed : bool) (s : istate) (a : api) : list sop :=
  match a with
  | NewWriter h =>
      (* a handle of the same name still alive is dropped first (its Drop syncs a non-empty queue) *)
      match alookup h (ws s) with
      | Some w => match wq w with [] => [] | _ :: _ => [OWalFsync] end
      | None => []
      end ++ [OWalOpen]
  | AddDoc h _ _ _ => match alookup h (ws s) with Some _ => [OWalWrite] | None => [] end
  | DelDoc h _ _ => match alookup h (ws s) with Some _ => [OWalWrite] | None => [] end
  | Commit h =>
      match alookup h (ws s) with
      | None => []
      | Some w =>
          match wq w with
          | [] => []
          | _ :: _ =>
              let '(m', _, wrote) := commit_core (man s) (nsid s) w in
              [OWalFsync] ++
              (if wrote then [OSegBegin (nsid s); OSegSynced (nsid s)] else []) ++
              atomic_manifest fixed m' ++
              [OWalWrite; OWalFsync; OWalSetLen0; OWalFsync]
          end
      end
  | Rollback h => match alookup h (ws s) with Some _ => [OWalSetLen0; OWalFsync] | None => [] end
  | DropWriter h =>
      match alookup h (ws s) with
      | Some w => match wq w with [] => [] | _ :: _ => [OWalFsync] end
      | None => []
      end
  | Compact =>
      match man s with
      | [] | [_] => []
      | _ =>
          let sg := {| sid := nsid s; sgen := maxgen (man s) + 1; sdocs := contents (man s); sdel := [] |} in
          [OSegBegin (nsid s); OSegSynced (nsid s)] ++ atomic_manifest fixed [sg] ++
          map (fun old => OSegUnlink (sid old)) (man s)
      end
  | Reopen =>
      (* every live handle is dropped *)
      concat (map (fun p => match wq (snd p) with [] => [] | _ :: _ => [OWalFsync] end) (ws s))
  end.

(** * Tie layer *)

(** abstract trace comparison modulo the naming of segments (first-appearance numbering) *)
Definition sop_seg (o : sop) : option N :=
  match o with OSegBegin s | OSegSynced s | OSegUnlink s => Some s | _ => None end.

Fixpoint index_of (x : N) (l : list N) (i : N) : option N :=
  match l with [] => None | y :: l' => if x =? y then Some i else index_of x l' (N.succ i) end.

(** shape code of an operation with its segment replaced by its first-appearance index *)
Definition sop_code (seen : list N) (o : sop) : N * N :=
  let si := match sop_seg o with
            | Some s => match index_of s seen 0 with Some i => i | None => N.of_nat (length seen) end
            | None => 0 end in
  (match o with
   | OWalOpen => 1 | OWalWrite => 2 | OWalFsync => 3 | OWalSetLen0 => 4 | OSegBegin _ => 5
   | OSegSynced _ => 6 | OTmpWrite _ => 7 | OTmpFsync => 8 | ORename => 9 | ODirFsync => 10
   | OSegUnlink _ => 11 end, si).

Fixpoint codes (seen : list N) (ops : list sop) : list (N * N) :=
  match ops with
  | [] => []
  | o :: ops' =>
      let seen' := match sop_seg o with
                   | Some s => if memN s seen then seen else seen ++ [s]
                   | None => seen end in
      sop_code seen o :: codes seen' ops'
  end.

(** A case: the history; per call the real abstract trace as (code, segment index) pairs, with
    segment indices in order of first appearance over the whole history; the crash-free contents
    after every call; and crash observations (call index, number of abstract operations of that
    call already issued, was that the whole call, recovered contents or None). *)
Record case01 := {
  c_hist  : list api;
  c_trace : list (list (N * N));
  c_after : list (list (N * N));
  c_crash : list (N * N * bool * option (list (N * N)))
}.

Fixpoint model_traces (fixed : bool) (s : istate) (h : list api) : list (list sop) :=
  match h with
  | [] => []
  | a :: h' => tr fixed s a :: model_traces fixed (step s a) h'
  end.

Fixpoint split_codes (lens : list nat) (cs : list (N * N)) : list (list (N * N)) :=
  match lens with
  | [] => []
  | n :: lens' => firstn n cs :: split_codes lens' (skipn n cs)
  end.

Definition model_codes (fixed : bool) (h : list api) : list (list (N * N)) :=
  let ts := model_traces fixed init h in
  split_codes (map (@length sop) ts) (codes [] (concat ts)).

Definition code_eqb (a b : N * N) : bool := (fst a =? fst b) && (snd a =? snd b).
Fixpoint codes_eqb (a b : list (N * N)) : bool :=
  match a, b with
  | [], [] => true
  | x :: a', y :: b' => code_eqb x y && codes_eqb a' b'
  | _, _ => false
  end.
Fixpoint traces_eqb (a b : list (list (N * N))) : bool :=
  match a, b with
  | [], [] => true
  | x :: a', y :: b' => codes_eqb x y && traces_eqb a' b'
  | _, _ => false
  end.

Definition opt_eqb (a b : option (list (N * N))) : bool :=
  match a, b with
  | None, None => true
  | Some x, Some y => plist_eqb (sort_by_id x) (sort_by_id y)
  | _, _ => false
  end.

(** state and disk before call k *)
Fixpoint state_at (fixed : bool) (s : istate) (d : disk) (h : list api) (k : nat) : istate * disk * option api :=
  match k, h with
  | O, a :: _ => (s, d, Some a)
  | O, [] => (s, d, None)
  | S k', a :: h' => state_at fixed (step s a) (run_sops d (tr fixed s a)) h' k'
  | S _, [] => (s, d, None)
  end.

Definition model_outcomes (fixed : bool) (h : list api) (k j : N) : list (option (list (N * N))) :=
  let '(s, d, oa) := state_at fixed init disk0 h (N.to_nat k) in
  match oa with
  | Some a => outcomes (run_sops d (firstn (N.to_nat j) (tr fixed s a)))
  | None => outcomes d
  end.

Definition nth_obs (l : list (list (N * N))) (k : N) : list (N * N) := nth (N.to_nat k) l [].

(** specification, from the crash-free observations alone: a crash inside call k recovers the
    contents before or after the call; a crash after the call returned recovers those after. *)
Definition crash_ok (after : list (list (N * N))) (c : N * N * bool * option (list (N * N))) : bool :=
  let '(k, _, whole, r) := c in
  let pre := if k =? 0 then [] else nth_obs after (k - 1) in
  let post := nth_obs after k in
  match r with
  | None => false
  | Some x => (if whole then false else opt_eqb (Some x) (Some pre)) || opt_eqb (Some x) (Some post)
  end.

Definition crash_in_model (fixed : bool) (h : list api) (c : N * N * bool * option (list (N * N))) : bool :=
  let '(k, j, _, r) := c in existsb (opt_eqb r) (model_outcomes fixed h k j).

Definition spec (c : case01) : bool := forallb (crash_ok (c_after c)) (c_crash c).

Definition corr (c : case01) : bool :=
  traces_eqb (model_codes true (c_hist c)) (c_trace c) &&
  obs_eqb (map sort_by_id (run_obs init (c_hist c))) (c_after c) &&
  forallb (crash_in_model true (c_hist c)) (c_crash c).

Definition check_case (c : case01) : N := verdict (corr c) (spec c) 0.
