(** C01/Proofs.v — every crash point of every history recovers the contents before or after the
    call in flight; a returned call's result is never lost. *)
From Coq Require Import List NArith Bool Lia Arith.
From SL Require Import Base.Tie Core.Model Core.AList Core.Entries C01.Model.
Import ListNotations.
Open Scope N_scope.

(** * Prefixes of an operation list *)
Definition all_prefixes (P : disk -> Prop) (d : disk) (ops : list sop) : Prop :=
  forall j, P (run_sops d (firstn j ops)).

Lemma all_prefixes_nil (P : disk -> Prop) d : P d -> all_prefixes P d [].
Proof. intros H j. destruct j; exact H. Qed.

Lemma all_prefixes_cons (P : disk -> Prop) d o ops :
  P d -> all_prefixes P (apply_sop d o) ops -> all_prefixes P d (o :: ops).
Proof. intros H0 H j. destruct j as [|j]; [exact H0|]. cbn. apply H. Qed.

Lemma run_sops_app d a b : run_sops d (a ++ b) = run_sops (run_sops d a) b.
Proof. unfold run_sops. apply fold_left_app. Qed.

Lemma all_prefixes_app (P : disk -> Prop) d a b :
  all_prefixes P d a -> all_prefixes P (run_sops d a) b -> all_prefixes P d (a ++ b).
Proof.
  intros Ha Hb j. rewrite firstn_app.
  destruct (Nat.le_gt_cases j (length a)) as [Hle|Hgt].
  - replace (j - length a)%nat with 0%nat by lia. cbn. rewrite app_nil_r. apply Ha.
  - rewrite firstn_all2 by lia. rewrite run_sops_app. apply Hb.
Qed.

Lemma all_prefixes_full (P : disk -> Prop) d ops : all_prefixes P d ops -> P (run_sops d ops).
Proof. intros H. specialize (H (length ops)). now rewrite firstn_all in H. Qed.

(** * Segment status *)
Definition seg_ready (d : disk) (s : N) : bool :=
  match alookup s (k_segs d) with
  | Some g => g_synced g && negb (g_unlink g)
  | None => false
  end.

Definition safe_all (d : disk) (m : manifest) : Prop := forall sg, In sg m -> seg_safe d (sid sg) = true.
Definition ready_all (d : disk) (m : manifest) : Prop := forall sg, In sg m -> seg_ready d (sid sg) = true.

Lemma safe_ready d s : seg_safe d s = true -> seg_ready d s = true.
Proof.
  unfold seg_safe, seg_ready. destruct (alookup s (k_segs d)); [|discriminate].
  intros H. apply andb_true_iff in H as [H H2]. apply andb_true_iff in H as [H H1]. now rewrite H, H2.
Qed.

Lemma alookup_map_keep {V} (f : N * V -> V) s (l : list (N * V)) :
  alookup s (map (fun p => (fst p, f p)) l) = option_map (fun v => f (s, v)) (alookup s l).
Proof.
  induction l as [|[k v] l IH]; cbn; [reflexivity|].
  destruct (s =? k) eqn:E; [apply N.eqb_eq in E; subst; reflexivity | exact IH].
Qed.

Lemma alookup_filter {V} (p : N * V -> bool) s (l : list (N * V)) v :
  alookup s l = Some v -> p (s, v) = true -> alookup s (filter p l) = Some v.
Proof.
  induction l as [|[k w] l IH]; cbn; [discriminate|].
  destruct (s =? k) eqn:E.
  - apply N.eqb_eq in E; subst k. intros H Hp. inversion H; subst w. rewrite Hp. cbn. now rewrite N.eqb_refl.
  - intros H Hp. destruct (p (k, w)); cbn; [rewrite E|]; auto.
Qed.

Lemma alookup_upd_seg s s' f l :
  alookup s (upd_seg s' f l) =
  if s =? s' then option_map f (alookup s l) else alookup s l.
Proof.
  unfold upd_seg. induction l as [|[k g] l IH]; cbn; [now destruct (s =? s')|].
  destruct (k =? s') eqn:E1; cbn.
  - apply N.eqb_eq in E1; subst k. destruct (s =? s') eqn:E2; [reflexivity|exact IH].
  - destruct (s =? k) eqn:E2.
    + apply N.eqb_eq in E2; subst k. rewrite E1. reflexivity.
    + exact IH.
Qed.

Lemma alookup_app_some {V} s (a b : list (N * V)) v :
  alookup s a = Some v -> alookup s (a ++ b) = Some v.
Proof. induction a as [|[k w] a IH]; cbn; [discriminate|]. destruct (s =? k); auto. Qed.

Lemma alookup_app_none {V} s (a b : list (N * V)) :
  alookup s a = None -> alookup s (a ++ b) = alookup s b.
Proof. induction a as [|[k w] a IH]; cbn; [reflexivity|]. destruct (s =? k); [discriminate|auto]. Qed.

(** segment status is preserved by every operation except the unlink of that very segment *)
Lemma seg_safe_step d o s :
  seg_safe d s = true -> o <> OSegUnlink s -> seg_safe (apply_sop d o) s = true.
Proof.
  unfold seg_safe. intros H Hne.
  destruct (alookup s (k_segs d)) as [g|] eqn:El; [|discriminate].
  destruct o as [| | | |s'|s'|m| | | |s']; cbn [apply_sop k_segs]; try (rewrite El; exact H).
  - erewrite alookup_app_some by exact El. exact H.
  - rewrite alookup_upd_seg, El. destruct (s =? s'); cbn; [|exact H].
    apply andb_true_iff in H as [H H2]. apply andb_true_iff in H as [_ H1]. now rewrite H1, H2.
  - rewrite (alookup_map_keep (fun p => {| g_synced := g_synced (snd p); g_entry := true; g_unlink := g_unlink (snd p) |})).
    erewrite alookup_filter; [| exact El |].
    + cbn. apply andb_true_iff in H as [H H2]. apply andb_true_iff in H as [H _]. now rewrite H, H2.
    + cbn. apply andb_true_iff in H as [_ H2]. exact H2.
  - rewrite alookup_upd_seg, El. destruct (s =? s') eqn:E; [|exact H].
    apply N.eqb_eq in E; subst s'. congruence.
Qed.

Lemma seg_ready_step d o s :
  seg_ready d s = true -> o <> OSegUnlink s -> seg_ready (apply_sop d o) s = true.
Proof.
  unfold seg_ready. intros H Hne.
  destruct (alookup s (k_segs d)) as [g|] eqn:El; [|discriminate].
  destruct o as [| | | |s'|s'|m| | | |s']; cbn [apply_sop k_segs]; try (rewrite El; exact H).
  - erewrite alookup_app_some by exact El. exact H.
  - rewrite alookup_upd_seg, El. destruct (s =? s'); cbn; [|exact H].
    apply andb_true_iff in H as [_ H2]. now rewrite H2.
  - rewrite (alookup_map_keep (fun p => {| g_synced := g_synced (snd p); g_entry := true; g_unlink := g_unlink (snd p) |})).
    erewrite alookup_filter; [| exact El |].
    + cbn. exact H.
    + cbn. apply andb_true_iff in H as [_ H2]. exact H2.
  - rewrite alookup_upd_seg, El. destruct (s =? s') eqn:E; [|exact H].
    apply N.eqb_eq in E; subst s'. congruence.
Qed.

Lemma dirfsync_makes_safe d s : seg_ready d s = true -> seg_safe (apply_sop d ODirFsync) s = true.
Proof.
  unfold seg_ready, seg_safe. cbn [apply_sop k_segs]. intros H.
  destruct (alookup s (k_segs d)) as [g|] eqn:El; [|discriminate].
  rewrite (alookup_map_keep (fun p => {| g_synced := g_synced (snd p); g_entry := true; g_unlink := g_unlink (snd p) |})).
  apply andb_true_iff in H as [H1 H2].
  erewrite alookup_filter; [| exact El | exact H2]. cbn. now rewrite H1, H2.
Qed.

Lemma new_seg_ready d n :
  alookup n (k_segs d) = None ->
  seg_ready (apply_sop (apply_sop d (OSegBegin n)) (OSegSynced n)) n = true.
Proof.
  intros Hn. unfold seg_ready. cbn [apply_sop k_segs].
  rewrite alookup_upd_seg, N.eqb_refl, alookup_app_none by exact Hn. cbn. rewrite N.eqb_refl. reflexivity.
Qed.

(** * Outcomes *)
Definition only (c0 c1 : list (N * N)) (d : disk) : Prop :=
  forall o, In o (outcomes d) -> o = Some c0 \/ o = Some c1.

Lemma man_outcomes_safe d m : safe_all d m -> man_outcomes d (m, true) = [Some (contents m)].
Proof.
  intros H. unfold man_outcomes. cbn [andb].
  replace (forallb (fun sg => seg_safe d (sid sg)) m) with true; [reflexivity|].
  symmetry. apply forallb_forall. exact H.
Qed.

(** The manifest switch: from a consistent disk whose new manifest's segments are written and
    fsynced, every prefix of the repaired atomic_write recovers the old or the new contents, and
    its end state is consistent with the new manifest. *)
Lemma atomic_manifest_ok d m0 m1 :
  k_man d = (m0, true) -> k_manp d = None -> safe_all d m0 -> ready_all d m1 ->
  all_prefixes (only (contents m0) (contents m1)) d (atomic_manifest true m1) /\
  let d' := run_sops d (atomic_manifest true m1) in
  k_man d' = (m1, true) /\ k_manp d' = None /\ safe_all d' m1 /\ safe_all d' m0 /\
  (forall s, alookup s (k_segs d) = None -> alookup s (k_segs d') = None) /\
  (forall s, seg_safe d s = true -> seg_safe d' s = true).
Proof.
  intros Hm Hp Hs0 Hr1. unfold atomic_manifest. cbn [app].
  set (d1 := apply_sop d (OTmpWrite m1)).
  set (d2 := apply_sop d1 OTmpFsync).
  set (d3 := apply_sop d2 ODirFsync).
  set (d4 := apply_sop d3 ORename).
  set (d5 := apply_sop d4 ODirFsync).
  assert (step_safe : forall dd o m, safe_all dd m -> (forall s, o <> OSegUnlink s) -> safe_all (apply_sop dd o) m).
  { intros dd o m H Hne sg Hin. apply seg_safe_step; auto. }
  assert (S0_1 : safe_all d1 m0) by (apply step_safe; auto; discriminate).
  assert (S0_2 : safe_all d2 m0) by (apply step_safe; auto; discriminate).
  assert (S0_3 : safe_all d3 m0) by (apply step_safe; auto; discriminate).
  assert (S0_4 : safe_all d4 m0) by (apply step_safe; auto; discriminate).
  assert (S0_5 : safe_all d5 m0) by (apply step_safe; auto; discriminate).
  assert (S1_3 : safe_all d3 m1).
  { intros sg Hin. apply dirfsync_makes_safe. unfold d2, d1.
    apply seg_ready_step; [|discriminate]. apply seg_ready_step; [|discriminate]. auto. }
  assert (S1_4 : safe_all d4 m1) by (apply step_safe; auto; discriminate).
  assert (S1_5 : safe_all d5 m1) by (apply step_safe; auto; discriminate).
  assert (O0 : forall dd, k_man dd = (m0, true) -> k_manp dd = None -> safe_all dd m0 ->
                          only (contents m0) (contents m1) dd).
  { intros dd H1 H2 H3 o Ho. unfold outcomes in Ho. rewrite H1, H2, app_nil_r in Ho.
    rewrite man_outcomes_safe in Ho by exact H3. destruct Ho as [<-|[]]. now left. }
  split.
  - apply all_prefixes_cons; [apply O0; auto|]. fold d1.
    apply all_prefixes_cons; [apply O0; auto|]. fold d2.
    apply all_prefixes_cons; [apply O0; auto|]. fold d3.
    apply all_prefixes_cons.
    { apply O0; auto; unfold d3; cbn [apply_sop k_man k_manp]; unfold d2, d1; cbn [apply_sop k_man k_manp]; rewrite ?Hp; auto. }
    fold d4. apply all_prefixes_cons.
    { intros o Ho. unfold outcomes in Ho.
      assert (E1 : k_man d4 = (m0, true)).
      { unfold d4, d3, d2, d1; cbn [apply_sop k_man k_manp]. now rewrite Hp. }
      assert (E2 : k_manp d4 = Some (m1, true)).
      { unfold d4, d3, d2, d1; cbn [apply_sop k_man k_manp k_tmp]. reflexivity. }
      rewrite E1, E2 in Ho. rewrite !man_outcomes_safe in Ho by assumption.
      destruct Ho as [<-|[<-|[]]]; auto. }
    fold d5. apply all_prefixes_nil.
    intros o Ho. unfold outcomes in Ho.
    assert (E1 : k_man d5 = (m1, true)) by (unfold d5, d4, d3, d2, d1; cbn [apply_sop k_man k_manp k_tmp]; reflexivity).
    assert (E2 : k_manp d5 = None) by reflexivity.
    rewrite E1, E2, app_nil_r in Ho. rewrite man_outcomes_safe in Ho by assumption.
    destruct Ho as [<-|[]]. now right.
  - cbv zeta. unfold run_sops; cbn [fold_left]. fold d1 d2 d3 d4 d5.
    split; [reflexivity|]. split; [reflexivity|]. split; [exact S1_5|]. split; [exact S0_5|]. split.
    + intros s Hn. unfold d5, d4, d3, d2, d1. cbn [apply_sop k_segs].
      rewrite !(alookup_map_keep (fun p => {| g_synced := g_synced (snd p); g_entry := true; g_unlink := g_unlink (snd p) |})).
      assert (F : forall (l : list (N * segst)) p, alookup s l = None -> alookup s (filter p l) = None).
      { induction l as [|[k g] l IH]; intros p; cbn; [reflexivity|]. destruct (s =? k) eqn:E; [discriminate|].
        intros H. destruct (p (k, g)); cbn; [rewrite E|]; auto. }
      rewrite F; [reflexivity|].
      rewrite (alookup_map_keep (fun p => {| g_synced := g_synced (snd p); g_entry := true; g_unlink := g_unlink (snd p) |})).
      rewrite F; [reflexivity | exact Hn].
    + intros s Hs. unfold d5, d4, d3, d2, d1. repeat (apply seg_safe_step; [|discriminate]). exact Hs.
Qed.

(** * The invariant between the index state and the disk at call boundaries *)
Definition DInv (s : istate) (d : disk) : Prop :=
  k_man d = (man s, true) /\ k_manp d = None /\ safe_all d (man s) /\
  (forall sg, In sg (man s) -> sid sg < nsid s) /\
  (forall n, nsid s <= n -> alookup n (k_segs d) = None).

Lemma DInv_init : DInv init disk0.
Proof.
  unfold DInv, safe_all; cbn. split; [reflexivity|]. split; [reflexivity|]. split; [intros sg []|].
  split; [intros sg []|]. intros; reflexivity.
Qed.

Lemma only_refl c d : k_man d = (c, true) -> k_manp d = None -> safe_all d c -> forall c1, only (contents c) c1 d.
Proof.
  intros H1 H2 H3 c1 o Ho. unfold outcomes in Ho. rewrite H1, H2, app_nil_r in Ho.
  rewrite man_outcomes_safe in Ho by exact H3. destruct Ho as [<-|[]]. now left.
Qed.

Lemma only_right c d : k_man d = (c, true) -> k_manp d = None -> safe_all d c -> forall c0, only c0 (contents c) d.
Proof.
  intros H1 H2 H3 c0 o Ho. unfold outcomes in Ho. rewrite H1, H2, app_nil_r in Ho.
  rewrite man_outcomes_safe in Ho by exact H3. destruct Ho as [<-|[]]. now right.
Qed.

Lemma wal_ops_neutral (P : disk -> Prop) d ops :
  P d -> Forall (fun o => o = OWalOpen \/ o = OWalWrite \/ o = OWalFsync \/ o = OWalSetLen0) ops ->
  all_prefixes P d ops /\ run_sops d ops = d.
Proof.
  intros HP. induction 1 as [|o ops Ho _ IH]; [split; [now apply all_prefixes_nil | reflexivity]|].
  assert (E : apply_sop d o = d) by (destruct Ho as [-> | [-> | [-> | ->]]]; reflexivity).
  destruct IH as [IH1 IH2]. split.
  - apply all_prefixes_cons; [exact HP|]. now rewrite E.
  - unfold run_sops in *; cbn [fold_left]. now rewrite E.
Qed.

Lemma sids_add_tombs T m : map sid (map (add_tombs T) m) = map sid m.
Proof. rewrite map_map. reflexivity. Qed.

Lemma contents_compact_seg n g m :
  contents [{| sid := n; sgen := g; sdocs := contents m; sdel := [] |}] = contents m.
Proof.
  unfold contents at 1. cbn [flat_map]. rewrite app_nil_r, seg_live_nodel by reflexivity.
  cbn [sdocs]. apply enum_from_map.
Qed.

Lemma safe_all_sids d m m' : map sid m' = map sid m -> safe_all d m -> safe_all d m'.
Proof.
  intros E H sg Hin. assert (Hs : In (sid sg) (map sid m)) by (rewrite <- E; now apply in_map).
  apply in_map_iff in Hs as [sg0 [E0 Hin0]]. rewrite <- E0. now apply H.
Qed.

Ltac wal_forall := cbn [app]; repeat first [apply Forall_nil | apply Forall_cons; [auto 6|]].

(** The main step lemma: every prefix of a call's operations recovers the contents before or after
    the call; the whole call leaves the invariant for the next state. *)
Lemma call_atomic s d a :
  DInv s d ->
  all_prefixes (only (contents (man s)) (contents (man (step s a)))) d (tr true s a) /\
  DInv (step s a) (run_sops d (tr true s a)).
Proof.
  intros [Hm [Hp [Hsafe [Hsid Hfresh]]]].
  assert (Hsame : forall s' ops, man s' = man s -> nsid s' = nsid s ->
            Forall (fun o => o = OWalOpen \/ o = OWalWrite \/ o = OWalFsync \/ o = OWalSetLen0) ops ->
            all_prefixes (only (contents (man s)) (contents (man s'))) d ops /\
            DInv s' (run_sops d ops)).
  { intros s' ops E1 E2 Hall.
    destruct (wal_ops_neutral (only (contents (man s)) (contents (man s'))) d ops) as [A B]; auto.
    - now apply only_refl.
    - split; [exact A|]. rewrite B. unfold DInv. rewrite E1, E2. repeat split; auto. }
  destruct a as [h|h c id ver|h c id|h|h|h| |]; cbn [tr].
  - (* NewWriter *)
    cbn [step]. apply Hsame; try reflexivity.
    destruct (alookup h (ws s)) as [w|]; [destruct (wq w)|]; wal_forall.
  - cbn [step]. destruct (alookup h (ws s)); apply Hsame; try reflexivity; wal_forall.
  - cbn [step]. destruct (alookup h (ws s)); apply Hsame; try reflexivity; wal_forall.
  - (* Commit *)
    cbn [step]. destruct (alookup h (ws s)) as [w|] eqn:Ew; [|apply Hsame; try reflexivity; constructor].
    destruct (wq w) as [|q0 qs] eqn:Eq; [apply Hsame; try reflexivity; constructor|].
    unfold commit_core, commit_with.
    set (L0 := if maxgen (man s) =? wgen w then wlive w else load_live (man s)).
    destruct (fold_left commit_op (wq w) (L0, [], [])) as [[L1 pnew] tomb].
    set (m1 := map (add_tombs tomb) (man s)).
    assert (Hsafe1 : safe_all d m1) by (eapply safe_all_sids; [apply sids_add_tombs | exact Hsafe]).
    destruct pnew as [|p pnew'] eqn:Epn.
    + (* delete-only commit: no segment written *)
      cbn [man nsid app].
      destruct (atomic_manifest_ok d (man s) m1 Hm Hp Hsafe) as [A [B1 [B2 [B3 [B4 [B5 B6]]]]]].
      { intros sg Hin. apply safe_ready. now apply Hsafe1. }
      split.
      * apply all_prefixes_cons; [now apply only_refl|]. cbn [apply_sop].
        change ([OTmpWrite m1; OTmpFsync; ODirFsync; ORename; ODirFsync; OWalWrite; OWalFsync; OWalSetLen0; OWalFsync])
          with (atomic_manifest true m1 ++ [OWalWrite; OWalFsync; OWalSetLen0; OWalFsync]).
        apply all_prefixes_app; [exact A|].
        apply wal_ops_neutral; [|wal_forall].
        apply (only_right m1); auto.
      * unfold run_sops at 1. cbn [fold_left apply_sop].
        change (fold_left apply_sop [OTmpWrite m1; OTmpFsync; ODirFsync; ORename; ODirFsync; OWalWrite; OWalFsync; OWalSetLen0; OWalFsync] d)
          with (run_sops (run_sops d (atomic_manifest true m1)) [OWalWrite; OWalFsync; OWalSetLen0; OWalFsync]).
        unfold DInv. cbn [man nsid]. repeat split; auto.
        -- intros sg Hin. apply in_map_iff in Hin as [sg0 [<- Hin0]]. cbn. specialize (Hsid _ Hin0). lia.
        -- intros n Hn. apply B5. apply Hfresh. lia.
    + (* a segment is written *)
      rewrite <- Epn. clear Epn p pnew'.
      set (n := nsid s). set (sg := {| sid := n; sgen := maxgen m1 + 1; sdocs := pnew; sdel := [] |}).
      cbn [man nsid app].
      set (da := apply_sop (apply_sop d (OSegBegin n)) (OSegSynced n)).
      assert (Hn_none : alookup n (k_segs d) = None) by (apply Hfresh; unfold n; lia).
      assert (Hman_a : k_man da = (man s, true) /\ k_manp da = None) by (unfold da; cbn; auto).
      assert (Hsafe_a : safe_all da (man s)).
      { intros sg0 Hin. unfold da. apply seg_safe_step; [|discriminate]. apply seg_safe_step; [|discriminate]. auto. }
      assert (Hready : ready_all da (m1 ++ [sg])).
      { intros sg0 Hin. apply in_app_iff in Hin as [Hin|[<-|[]]].
        - apply safe_ready. unfold da. apply seg_safe_step; [|discriminate]. apply seg_safe_step; [|discriminate]. now apply Hsafe1.
        - cbn [sid sg]. now apply new_seg_ready. }
      destruct Hman_a as [Hma Hpa].
      destruct (atomic_manifest_ok da (man s) (m1 ++ [sg]) Hma Hpa Hsafe_a Hready) as [A [B1 [B2 [B3 [B4 [B5 B6]]]]]].
      split.
      * apply all_prefixes_cons; [now apply only_refl|]. cbn [apply_sop].
        apply all_prefixes_cons; [now apply only_refl|].
        apply all_prefixes_cons.
        { apply only_refl; [cbn; exact Hm | cbn; exact Hp |].
          intros sg0 Hin. apply seg_safe_step; [|discriminate]. auto. }
        fold da.
        change ([OTmpWrite (m1 ++ [sg]); OTmpFsync; ODirFsync; ORename; ODirFsync; OWalWrite; OWalFsync; OWalSetLen0; OWalFsync])
          with (atomic_manifest true (m1 ++ [sg]) ++ [OWalWrite; OWalFsync; OWalSetLen0; OWalFsync]).
        apply all_prefixes_app; [exact A|].
        apply wal_ops_neutral; [|wal_forall].
        apply (only_right (m1 ++ [sg])); auto.
      * unfold run_sops at 1. cbn [fold_left apply_sop]. fold da.
        change (fold_left apply_sop [OTmpWrite (m1 ++ [sg]); OTmpFsync; ODirFsync; ORename; ODirFsync; OWalWrite; OWalFsync; OWalSetLen0; OWalFsync] da)
          with (run_sops (run_sops da (atomic_manifest true (m1 ++ [sg]))) [OWalWrite; OWalFsync; OWalSetLen0; OWalFsync]).
        unfold DInv. cbn [man nsid]. repeat split; auto.
        -- intros sg0 Hin. apply in_app_iff in Hin as [Hin|[<-|[]]].
           ++ apply in_map_iff in Hin as [sg1 [<- Hin1]]. cbn. specialize (Hsid _ Hin1). lia.
           ++ cbn. unfold n. lia.
        -- intros k Hk. apply B5. unfold da. cbn [apply_sop k_segs].
           rewrite alookup_upd_seg. assert (k =? n = false) by (apply N.eqb_neq; unfold n; lia).
           rewrite H. rewrite alookup_app_none by (apply Hfresh; lia). cbn.
           rewrite H. reflexivity.
  - (* Rollback *)
    cbn [step]. destruct (alookup h (ws s)); apply Hsame; try reflexivity; wal_forall.
  - (* DropWriter *)
    cbn [step]. apply Hsame; try reflexivity.
    destruct (alookup h (ws s)) as [w|]; [destruct (wq w)|]; wal_forall.
  - (* Compact *)
    assert (Htriv : all_prefixes (only (contents (man s)) (contents (man s))) d [] /\ DInv s (run_sops d []))
      by (apply Hsame; try reflexivity; constructor).
    cbn [step]. destruct (man s) as [|s1 [|s2 rest]] eqn:Em.
    1,2: rewrite ?Em; exact Htriv.
    clear Htriv.
    rewrite <- Em in *. clear Em s1 s2 rest.
    set (n := nsid s).
    set (sg := {| sid := n; sgen := maxgen (man s) + 1; sdocs := contents (man s); sdel := [] |}).
    cbn [man nsid].
    assert (Ec : contents [sg] = contents (man s)) by apply contents_compact_seg.
    set (da := apply_sop (apply_sop d (OSegBegin n)) (OSegSynced n)).
    assert (Hn_none : alookup n (k_segs d) = None) by (apply Hfresh; unfold n; lia).
    assert (Hsafe_a : safe_all da (man s)).
    { intros sg0 Hin. unfold da. apply seg_safe_step; [|discriminate]. apply seg_safe_step; [|discriminate]. auto. }
    assert (Hready : ready_all da [sg]).
    { intros sg0 [<-|[]]. cbn [sid sg]. now apply new_seg_ready. }
    assert (Hma : k_man da = (man s, true)) by (unfold da; cbn; exact Hm).
    assert (Hpa : k_manp da = None) by (unfold da; cbn; exact Hp).
    destruct (atomic_manifest_ok da (man s) [sg] Hma Hpa Hsafe_a Hready) as [A [B1 [B2 [B3 [B4 [B5 B6]]]]]].
    set (db := run_sops da (atomic_manifest true [sg])) in *.
    (* the unlinks never touch the new segment *)
    assert (Hun : forall olds dd, k_man dd = ([sg], true) -> k_manp dd = None -> safe_all dd [sg] ->
               (forall n', nsid s < n' -> alookup n' (k_segs dd) = None) ->
               Forall (fun x => x < n) olds ->
               all_prefixes (only (contents (man s)) (contents [sg])) dd (map OSegUnlink olds) /\
               let dd' := run_sops dd (map OSegUnlink olds) in
               k_man dd' = ([sg], true) /\ k_manp dd' = None /\ safe_all dd' [sg] /\
               (forall n', nsid s < n' -> alookup n' (k_segs dd') = None)).
    { induction olds as [|x olds IH]; intros dd H1 H2 H3 H4 Hlt; cbn [map].
      - split; [apply all_prefixes_nil; now apply (only_right [sg]) | cbn; auto].
      - inversion Hlt as [|? ? Hx Hlt']; subst.
        assert (H3' : safe_all (apply_sop dd (OSegUnlink x)) [sg]).
        { intros sg0 [<-|[]]. apply seg_safe_step; [apply H3; now left|]. cbn [sid sg]. intros E. inversion E. lia. }
        assert (H4' : forall n', nsid s < n' -> alookup n' (k_segs (apply_sop dd (OSegUnlink x))) = None).
        { intros n' Hn'. cbn [apply_sop k_segs]. rewrite alookup_upd_seg, H4 by exact Hn'. now destruct (n' =? x). }
        destruct (IH (apply_sop dd (OSegUnlink x)) H1 H2 H3' H4' Hlt') as [I1 I2]. split.
        + apply all_prefixes_cons; [now apply (only_right [sg])|exact I1].
        + exact I2. }
    assert (Holds : Forall (fun x => x < n) (map sid (man s))).
    { apply Forall_forall. intros x Hx. apply in_map_iff in Hx as [sg0 [<- Hin]]. now apply Hsid. }
    assert (Hfresh_b : forall n', nsid s < n' -> alookup n' (k_segs db) = None).
    { intros n' Hn'. apply B5. unfold da. cbn [apply_sop k_segs].
      rewrite alookup_upd_seg. assert (E : n' =? n = false) by (apply N.eqb_neq; unfold n; lia).
      rewrite E, alookup_app_none by (apply Hfresh; lia). cbn. now rewrite E. }
    destruct (Hun (map sid (man s)) db B1 B2 B3 Hfresh_b Holds) as [U1 [U2 [U3 [U4 U5]]]].
    rewrite map_map in U1, U2, U3, U4, U5.
    split.
    + rewrite Ec.
      apply all_prefixes_cons; [now apply only_refl|].
      apply all_prefixes_cons.
      { apply only_refl; [cbn; exact Hm | cbn; exact Hp |]. intros sg0 Hin. apply seg_safe_step; [|discriminate]. auto. }
      fold da.
      change ([OTmpWrite [sg]; OTmpFsync; ODirFsync; ORename; ODirFsync] ++ map (fun old => OSegUnlink (sid old)) (man s))
        with (atomic_manifest true [sg] ++ map (fun old => OSegUnlink (sid old)) (man s)).
      apply all_prefixes_app.
      * intros j o Ho. destruct (A j o Ho) as [E|E]; [now left | left; now rewrite E, Ec].
      * fold db. intros j o Ho. destruct (U1 j o Ho) as [E|E]; [now left | left; now rewrite E, Ec].
    + change (run_sops d ([OSegBegin n; OSegSynced n] ++ atomic_manifest true [sg] ++ map (fun old => OSegUnlink (sid old)) (man s)))
        with (run_sops da (atomic_manifest true [sg] ++ map (fun old => OSegUnlink (sid old)) (man s))).
      rewrite run_sops_app. fold db.
      unfold DInv. cbn [man nsid]. repeat split; auto.
      * intros sg0 [<-|[]]. cbn. unfold n. lia.
      * intros k Hk. apply U5. unfold n in *. lia.
  - (* Reopen *)
    cbn [step]. apply Hsame; try reflexivity.
    induction (ws s) as [|[h w] l IH]; cbn; [constructor|].
    apply Forall_app. split; [destruct (wq w); wal_forall | exact IH].
Qed.

(** * Histories *)
Fixpoint run_disk (s : istate) (d : disk) (h : list api) : istate * disk :=
  match h with
  | [] => (s, d)
  | a :: h' => run_disk (step s a) (run_sops d (tr true s a)) h'
  end.

Lemma run_disk_inv h : forall s d, DInv s d -> DInv (fst (run_disk s d h)) (snd (run_disk s d h)).
Proof.
  induction h as [|a h IH]; intros s d H; cbn; [exact H|].
  apply IH. now apply call_atomic.
Qed.

Theorem crash_atomic h a j :
  let '(s, d) := run_disk init disk0 h in
  forall o, In o (outcomes (run_sops d (firstn j (tr true s a)))) ->
    o = Some (contents (man s)) \/ o = Some (contents (man (step s a))).
Proof.
  pose proof (run_disk_inv h init disk0 DInv_init) as H.
  destruct (run_disk init disk0 h) as [s d]. cbn [fst snd] in H.
  destruct (call_atomic s d a H) as [A _]. apply A.
Qed.

Theorem crash_durable h a :
  let '(s, d) := run_disk init disk0 h in
  outcomes (run_sops d (tr true s a)) = [Some (contents (man (step s a)))].
Proof.
  pose proof (run_disk_inv h init disk0 DInv_init) as H.
  destruct (run_disk init disk0 h) as [s d]. cbn [fst snd] in H.
  destruct (call_atomic s d a H) as [_ [B1 [B2 [B3 _]]]].
  unfold outcomes. rewrite B1, B2, app_nil_r. now apply man_outcomes_safe.
Qed.
