(** C11 — cursor codec: byte-exact round trip of the v1 cursor and the rejection lemmas. *)
From Coq Require Import List NArith Bool Arith Lia.
From SL Require Import Base.Tie Base.Paging C11.Model.
Import ListNotations.
Open Scope N_scope.

Lemma lt16_cases : forall n, n < 16 ->
  n = 0 \/ n = 1 \/ n = 2 \/ n = 3 \/ n = 4 \/ n = 5 \/ n = 6 \/ n = 7 \/ n = 8 \/ n = 9 \/
  n = 10 \/ n = 11 \/ n = 12 \/ n = 13 \/ n = 14 \/ n = 15.
Proof. intros; lia. Qed.

Lemma digit_hexchar : forall n, n < 16 -> digit (hexchar n) = Some n.
Proof.
  intros n H. apply lt16_cases in H.
  repeat (destruct H as [H|H]; [subst; reflexivity|]). subst; reflexivity.
Qed.

Lemma hexchar_not_plus : forall n, n < 16 -> (hexchar n =? 43) = false.
Proof.
  intros n H. apply lt16_cases in H.
  repeat (destruct H as [H|H]; [subst; reflexivity|]). subst; reflexivity.
Qed.

Lemma byte_of_pair_hex2 : forall b, b < 256 ->
  byte_of_pair (hexchar (b / 16)) (hexchar (b mod 16)) = Some b.
Proof.
  intros b H. unfold byte_of_pair.
  assert (Hq : b / 16 < 16) by (apply N.div_lt_upper_bound; lia).
  assert (Hr : b mod 16 < 16) by (apply N.mod_lt; lia).
  rewrite hexchar_not_plus, !digit_hexchar by assumption.
  f_equal. pose proof (N.div_mod' b 16). lia.
Qed.

Definition bytes_ok (bs : list N) : Prop := Forall (fun b => b < 256) bs.

Lemma unhex_hex_encode : forall bs, bytes_ok bs -> unhex (hex_encode bs) = Some bs.
Proof.
  induction bs as [|b bs IH]; intros H; [reflexivity|].
  inversion H; subst.
  change (hex_encode (b :: bs)) with (hexchar (b / 16) :: hexchar (b mod 16) :: hex_encode bs).
  cbn [unhex]. rewrite byte_of_pair_hex2 by assumption. rewrite IH by assumption. reflexivity.
Qed.

Lemma hex_encode_length : forall bs, length (hex_encode bs) = (2 * length bs)%nat.
Proof. induction bs as [|b bs IH]; cbn [hex_encode flat_map hex2 app length] in *; [reflexivity|]. fold (hex_encode bs). lia. Qed.

Lemma unbe32_be32 : forall x,
  unbe32 (x / 256 / 256 / 256) ((x / 256 / 256) mod 256) ((x / 256) mod 256) (x mod 256) = x.
Proof.
  intros x. unfold unbe32.
  pose proof (N.div_mod' x 256). pose proof (N.div_mod' (x / 256) 256).
  pose proof (N.div_mod' (x / 256 / 256) 256). lia.
Qed.

Definition u32 (x : N) : Prop := x < 4294967296.

Lemma be32_bytes_ok : forall x, u32 x -> bytes_ok (be32 x).
Proof.
  intros x H. unfold be32, bytes_ok, u32 in *.
  repeat constructor; try (apply N.mod_lt; lia).
  repeat (apply N.div_lt_upper_bound; [lia|]). lia.
Qed.

(** a cursor the encoder can be given: version byte, u32 fields *)
Definition cursor_wf (c : cursor1) : Prop :=
  c_ver c < 256 /\ u32 (c_gen c) /\ u32 (c_score c) /\ u32 (c_seg c) /\ u32 (c_doc c) /\ u32 (c_ret c).

Lemma bytes_of_ok : forall c, cursor_wf c -> bytes_ok (bytes_of c).
Proof.
  intros c (Hv & Hg & Hs & He & Hd & Hr). unfold bytes_of, bytes_ok.
  repeat (apply Forall_app; split); try (apply be32_bytes_ok; assumption).
  constructor; [assumption|constructor].
Qed.

(** decoding an encoded cursor, with every check of [PaginationCursor::decode] made explicit *)
Lemma decode_encode_gen : forall c, cursor_wf c ->
  decode_v1 (encode_v1 c) =
    if negb (c_ver c =? CURSOR_VERSION) then Err BadVersion
    else if MAX_CURSOR_ADVANCE <? c_ret c then Err TooFar
    else Ok c.
Proof.
  intros c Hwf. unfold decode_v1, encode_v1.
  rewrite hex_encode_length. change (length (bytes_of c)) with 21%nat.
  change (negb (Nat.eqb (2 * 21) CURSOR_HEX_LEN)) with false. cbv iota.
  rewrite unhex_hex_encode by (apply bytes_of_ok; exact Hwf).
  unfold bytes_of, be32. cbn [app]. rewrite !unbe32_be32.
  destruct (negb (c_ver c =? CURSOR_VERSION)); [reflexivity|].
  destruct (MAX_CURSOR_ADVANCE <? c_ret c); [reflexivity|].
  destruct c; reflexivity.
Qed.

Theorem cursor_roundtrip : forall c, cursor_wf c ->
  c_ver c = CURSOR_VERSION -> c_ret c <= MAX_CURSOR_ADVANCE ->
  decode_v1 (encode_v1 c) = Ok c.
Proof.
  intros c Hwf Hv Hr. rewrite decode_encode_gen by exact Hwf.
  rewrite Hv. change (negb (CURSOR_VERSION =? CURSOR_VERSION)) with false. cbv iota.
  destruct (N.ltb_spec MAX_CURSOR_ADVANCE (c_ret c)); [lia|reflexivity].
Qed.

Theorem cursor_roundtrip_generation : forall c g, cursor_wf c ->
  c_ver c = CURSOR_VERSION -> c_ret c <= MAX_CURSOR_ADVANCE ->
  decode_cursor_fast (encode_v1 c) g = if c_gen c =? g then Ok c else Err Stale.
Proof. intros. unfold decode_cursor_fast. now rewrite cursor_roundtrip. Qed.

Theorem reject_bad_length : forall raw, length raw <> CURSOR_HEX_LEN -> decode_v1 raw = Err BadLength.
Proof.
  intros raw H. unfold decode_v1. destruct (Nat.eqb_spec (length raw) CURSOR_HEX_LEN); [contradiction|reflexivity].
Qed.

Theorem reject_version : forall c, cursor_wf c -> c_ver c <> CURSOR_VERSION ->
  decode_v1 (encode_v1 c) = Err BadVersion.
Proof.
  intros c Hwf Hv. rewrite decode_encode_gen by exact Hwf.
  destruct (N.eqb_spec (c_ver c) CURSOR_VERSION); [contradiction|reflexivity].
Qed.

Theorem reject_too_far : forall c, cursor_wf c -> c_ver c = CURSOR_VERSION ->
  MAX_CURSOR_ADVANCE < c_ret c -> decode_v1 (encode_v1 c) = Err TooFar.
Proof.
  intros c Hwf Hv Hr. rewrite decode_encode_gen by exact Hwf. rewrite Hv.
  change (negb (CURSOR_VERSION =? CURSOR_VERSION)) with false. cbv iota.
  destruct (N.ltb_spec MAX_CURSOR_ADVANCE (c_ret c)); [reflexivity|lia].
Qed.

Theorem reject_generation : forall c g, cursor_wf c -> c_gen c <> g ->
  exists e, decode_cursor_fast (encode_v1 c) g = Err e.
Proof.
  intros c g Hwf Hg. unfold decode_cursor_fast. rewrite decode_encode_gen by exact Hwf.
  destruct (negb (c_ver c =? CURSOR_VERSION)); [eexists; reflexivity|].
  destruct (MAX_CURSOR_ADVANCE <? c_ret c); [eexists; reflexivity|].
  destruct (N.eqb_spec (c_gen c) g); [contradiction|eexists; reflexivity].
Qed.

(** any decodable string of another generation is rejected, encoded by us or not *)
Theorem reject_foreign_generation : forall raw g c, decode_v1 raw = Ok c -> c_gen c <> g ->
  decode_cursor_fast raw g = Err Stale.
Proof.
  intros raw g c H Hg. unfold decode_cursor_fast. rewrite H.
  destruct (N.eqb_spec (c_gen c) g); [contradiction|reflexivity].
Qed.

(* ---- non-hex characters *)

Definition hexish (c : N) : bool :=
  match digit c with Some _ => true | None => c =? 43 end.

Lemma byte_of_pair_hexish : forall a b x, byte_of_pair a b = Some x -> hexish a = true /\ hexish b = true.
Proof.
  intros a b x. unfold byte_of_pair, hexish.
  destruct (N.eqb_spec a 43) as [E|E].
  - subst. intros H. rewrite H. split; [|reflexivity]. now destruct (digit 43).
  - destruct (digit a), (digit b); try discriminate. intros _. split; reflexivity.
Qed.

Lemma list_ind2 : forall (P : list N -> Prop),
  P [] -> (forall a, P [a]) -> (forall a b l, P l -> P (a :: b :: l)) -> forall l, P l.
Proof.
  intros P H0 H1 H2. fix F 1. intros [|a [|b l]]; [exact H0|apply H1|apply H2, F].
Qed.

Lemma unhex_hexish : forall raw bs, Nat.even (length raw) = true -> unhex raw = Some bs ->
  forallb hexish raw = true.
Proof.
  intros raw. induction raw as [|a|a b l IH] using list_ind2; intros bs Hev H.
  - reflexivity.
  - discriminate.
  - cbn [unhex] in H. destruct (byte_of_pair a b) eqn:E; [|discriminate].
    destruct (unhex l) eqn:E2; [|discriminate].
    apply byte_of_pair_hexish in E as [Ha Hb].
    cbn [forallb]. rewrite Ha, Hb. cbn. eapply IH; [|reflexivity]. exact Hev.
Qed.

(** a character that is neither a hex digit nor '+' anywhere in the string: rejected *)
Theorem reject_non_hex : forall raw c, In c raw -> hexish c = false ->
  exists e, decode_v1 raw = Err e.
Proof.
  intros raw c Hin Hc. unfold decode_v1.
  destruct (Nat.eqb_spec (length raw) CURSOR_HEX_LEN) as [Hl|Hl]; [|eexists; reflexivity].
  cbn [negb]. destruct (unhex raw) as [bs|] eqn:E; [|eexists; reflexivity].
  exfalso. assert (Hall : forallb hexish raw = true).
  { eapply unhex_hexish; [|exact E]. rewrite Hl. reflexivity. }
  rewrite forallb_forall in Hall. rewrite (Hall c Hin) in Hc. discriminate.
Qed.

(* ---- sort cursors *)

Theorem sort_cursor_roundtrip : forall g ret h nf seg doc, ret <= MAX_CURSOR_ADVANCE ->
  decode_sort (Some (encode_sort g ret h nf seg doc)) g h nf = Ok (encode_sort g ret h nf seg doc).
Proof.
  intros. unfold decode_sort, encode_sort. cbn [s_ver s_gen s_plan s_ret s_nvalues].
  rewrite !N.eqb_refl. cbn [negb].
  destruct (N.ltb_spec MAX_CURSOR_ADVANCE ret); [lia|reflexivity].
Qed.

Theorem sort_cursor_reject_foreign : forall payload g h nf,
  (forall s, payload = Some s -> s_gen s <> g \/ s_plan s <> h) ->
  exists e, decode_sort payload g h nf = Err e.
Proof.
  intros [s|] g h nf H; [|eexists; reflexivity]. unfold decode_sort.
  destruct (negb (s_ver s =? SORT_CURSOR_VERSION)); [eexists; reflexivity|].
  destruct (N.eqb_spec (s_gen s) g) as [Eg|Eg]; cbn [negb]; [|eexists; reflexivity].
  destruct (N.eqb_spec (s_plan s) h) as [Eh|Eh]; cbn [negb]; [|eexists; reflexivity].
  destruct (H s eq_refl); contradiction.
Qed.

(** the first byte of a v1 payload is the version byte 0x01: not JSON whitespace, not '{', not '['
    — so [serde_json::from_slice] (trusted) cannot parse it as a SortCursorState *)
Theorem v1_payload_not_json : forall c, c_ver c = CURSOR_VERSION ->
  exists rest, bytes_of c = 1 :: rest /\ ~ In 1 [32; 9; 10; 13; 123; 91].
Proof.
  intros c H. unfold bytes_of. rewrite H. eexists. split; [reflexivity|].
  cbn. intros F. repeat (destruct F as [F|F]; [discriminate|]). exact F.
Qed.
