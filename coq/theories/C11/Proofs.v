(** C11 — paging proofs: one page of the model is "the limit smallest keys after the cursor",
    a walk enumerates the sorted key set exactly once, totals are exact. *)
From Coq Require Import List NArith Bool Arith Lia Permutation.
From SL Require Import Base.Tie Base.Paging C11.Model.
Import ListNotations.
Open Scope N_scope.

(* ------------------------------------------------------------------ list facts *)

Lemma after_concat : forall cur ls, after cur (concat ls) = concat (map (after cur) ls).
Proof.
  intros [c|] ls; cbn [after].
  - induction ls as [|l ls IH]; cbn [concat map]; [reflexivity|]. now rewrite filter_app, IH.
  - induction ls as [|l ls IH]; cbn [concat map]; [reflexivity|]. now rewrite <- IH.
Qed.

Lemma nth_firstn_lt : forall (l : list N) i n d, (i < n)%nat -> nth i (firstn n l) d = nth i l d.
Proof.
  induction l as [|a l IH]; intros i n d H.
  - now rewrite firstn_nil.
  - destruct n as [|n]; [lia|]. destruct i as [|i]; cbn [firstn nth]; [reflexivity|]. apply IH. lia.
Qed.

Lemma last_firstn_nth : forall (l : list N) k d, (0 < k)%nat -> (k <= length l)%nat ->
  last (firstn k l) d = nth (k - 1) l d.
Proof.
  induction l as [|a l IH]; intros k d Hk Hl; cbn [length] in Hl; [lia|].
  destruct k as [|k]; [lia|]. destruct k as [|k].
  - reflexivity.
  - change (firstn (S (S k)) (a :: l)) with (a :: firstn (S k) l).
    destruct l as [|b l]; [cbn in Hl; lia|].
    change (firstn (S k) (b :: l)) with (b :: firstn k l).
    change (last (a :: b :: firstn k l) d) with (last (b :: firstn k l) d).
    change (b :: firstn k l) with (firstn (S k) (b :: l)).
    rewrite IH by (cbn [length] in *; lia).
    replace (S (S k) - 1)%nat with (S (S k - 1)) by lia. reflexivity.
Qed.

(* ------------------------------------------------------------------ the candidates *)

Lemma candidates_prefix : forall fast k cur segs,
  firstn k (candidates fast k cur segs) = topk k (after (cur_key cur) (concat segs)).
Proof.
  intros fast k cur segs. unfold candidates. destruct fast.
  - rewrite (map_ext _ (fun s => topk k (after (cur_key cur) s))) by (intros; apply push_fold_topk).
    rewrite <- (map_map (after (cur_key cur)) (topk k)).
    change (firstn k (sort ?x)) with (topk k x).
    rewrite topk_concat. now rewrite after_concat.
  - rewrite push_fold_topk. unfold topk at 2.
    rewrite sort_id by (apply wsorted_firstn, sort_wsorted).
    unfold topk. now rewrite firstn_firstn, Nat.min_id.
Qed.

(** what one page is, in terms of the sorted remainder [b] after the cursor *)
Lemma search_page_remainder : forall fast limit cand cur segs b,
  (0 < limit)%nat -> cur_ret cur <= MAX_CURSOR_ADVANCE -> saw_cursor cur segs = true ->
  after (cur_key cur) (sort (concat segs)) = b ->
  search_page fast limit cand cur segs =
    POk (firstn limit b)
        (if Nat.ltb limit (length b)
         then Some {| ck := last (firstn limit b) 0; cret := cur_ret cur + N.of_nat limit |}
         else None)
        (N.of_nat (length b) + cur_ret cur).
Proof.
  intros fast limit cand cur segs b Hl Hret Hsaw Hb. unfold search_page.
  destruct (Nat.eqb_spec limit 0); [lia|].
  destruct (N.ltb_spec MAX_CURSOR_ADVANCE (cur_ret cur)); [lia|].
  rewrite Hsaw. cbn [negb].
  set (k := S (Nat.max cand limit)).
  set (cs := candidates fast k cur segs).
  assert (Hk : (limit < k)%nat) by (unfold k; lia).
  assert (Hpre : firstn k cs = firstn k b).
  { unfold cs. rewrite candidates_prefix. unfold topk. now rewrite sort_after, Hb. }
  assert (Hlen : length (after (cur_key cur) (concat segs)) = length b).
  { rewrite <- Hb, <- sort_after. apply Permutation_length, sort_permutation. }
  rewrite Hlen.
  assert (Hfl : firstn limit cs = firstn limit b).
  { replace limit with (Init.Nat.min limit k) by lia. rewrite <- !firstn_firstn. now rewrite Hpre. }
  assert (Hlt : Nat.ltb limit (length cs) = Nat.ltb limit (length b)).
  { assert (E : length (firstn k cs) = length (firstn k b)) by now rewrite Hpre.
    rewrite !firstn_length in E.
    destruct (Nat.ltb_spec limit (length cs)), (Nat.ltb_spec limit (length b)); try reflexivity; lia. }
  rewrite Hlt, Hfl. destruct (Nat.ltb_spec limit (length b)) as [Hlb|Hlb]; [|].
  - f_equal. f_equal. f_equal.
    rewrite last_firstn_nth by lia.
    rewrite <- (nth_firstn_lt cs (limit - 1) k) by lia.
    rewrite Hpre. apply nth_firstn_lt. lia.
  - apply Nat.ltb_ge in Hlt. f_equal.
    rewrite (firstn_all2 (n:=limit) b) by lia.
    rewrite <- (firstn_all2 (n:=k) cs) by lia. rewrite Hpre. apply firstn_all2. lia.
Qed.

(* ------------------------------------------------------------------ the walk *)

Definition front_last_ok (limit : nat) (ps : list mpage) : Prop :=
  exists front lastp, ps = front ++ [lastp] /\ m_next lastp = None
    /\ Forall (fun p => m_next p <> None /\ length (m_hits p) = limit) front.

Lemma walk_search_from : forall fuel fast limit cand segs a b cur,
  (0 < limit)%nat -> sort (concat segs) = a ++ b -> ssorted (a ++ b) ->
  N.of_nat (length (a ++ b)) <= MAX_CURSOR_ADVANCE ->
  cur = match a with [] => None | _ => Some {| ck := last a 0; cret := N.of_nat (length a) |} end ->
  (length b < fuel)%nat ->
  exists ps, walk_search fuel fast limit cand cur segs = WOk ps
    /\ concat (map m_hits ps) = b
    /\ Forall (fun p => m_total p = N.of_nat (length (a ++ b))) ps
    /\ front_last_ok limit ps.
Proof.
  induction fuel as [|f IH]; intros fast limit cand segs a b cur Hl Hsort Hss Hmax Hcur Hfuel; [lia|].
  assert (Hret : cur_ret cur = N.of_nat (length a)) by (rewrite Hcur; destruct a; reflexivity).
  assert (Hafter : after (cur_key cur) (sort (concat segs)) = b).
  { rewrite Hsort, Hcur. destruct a as [|h a]; [reflexivity|].
    cbn [cur_key option_map ck]. apply after_last_prefix; [discriminate|exact Hss]. }
  assert (Hsaw : saw_cursor cur segs = true).
  { rewrite Hcur. destruct a as [|h a]; [reflexivity|]. cbn [saw_cursor ck].
    apply existsb_exists. exists (last (h :: a) 0). split; [|apply N.eqb_refl].
    eapply Permutation_in; [apply Permutation_sym, sort_permutation|].
    rewrite Hsort. apply in_or_app. left.
    assert (Hne : h :: a <> []) by discriminate.
    apply exists_last in Hne as (a' & z & E). rewrite E, last_last. apply in_or_app. right. now left. }
  assert (Hlenab : length (a ++ b) = (length a + length b)%nat) by apply app_length.
  cbn [walk_search].
  rewrite (search_page_remainder fast limit cand cur segs b Hl) by (try assumption; lia).
  destruct (Nat.ltb_spec limit (length b)) as [Hlt|Hge].
  - set (h := firstn limit b). set (r := skipn limit b).
    assert (Hbr : b = h ++ r) by (symmetry; apply firstn_skipn).
    assert (Hlh : length h = limit) by (unfold h; rewrite firstn_length_le; lia).
    assert (Hhne : h <> []) by (intro E; rewrite E in Hlh; cbn in Hlh; lia).
    assert (Hlr : (length r = length b - limit)%nat) by (unfold r; apply skipn_length).
    destruct (IH fast limit cand segs (a ++ h) r
                 (Some {| ck := last h 0; cret := cur_ret cur + N.of_nat limit |}))
      as (ps & Hw & Hc & Ht & front & lastp & Hps & Hlast & Hfront); try assumption.
    + rewrite <- app_assoc, <- Hbr. exact Hsort.
    + rewrite <- app_assoc, <- Hbr. exact Hss.
    + rewrite <- app_assoc, <- Hbr. exact Hmax.
    + destruct (a ++ h) eqn:E.
      * apply app_eq_nil in E. tauto.
      * rewrite <- E. f_equal. f_equal.
        -- apply exists_last in Hhne as (h'' & z & Ez). rewrite Ez.
           rewrite app_assoc, !last_last. reflexivity.
        -- rewrite Hret, app_length, Hlh. lia.
    + lia.
    + rewrite Hw. eexists. split; [reflexivity|]. split; [|split].
      * cbn [map concat m_hits]. now rewrite Hc.
      * constructor.
        -- cbn [m_total]. rewrite Hret. lia.
        -- rewrite <- app_assoc, <- Hbr in Ht. exact Ht.
      * exists ({| m_hits := h; m_next := Some {| ck := last h 0; cret := cur_ret cur + N.of_nat limit |};
                   m_total := N.of_nat (length b) + cur_ret cur |} :: front), lastp.
        split; [now rewrite Hps|]. split; [exact Hlast|].
        constructor; [|exact Hfront]. cbn [m_next m_hits]. split; [discriminate|exact Hlh].
  - eexists. split; [reflexivity|]. split; [|split].
    + cbn [map concat m_hits]. rewrite firstn_all2 by lia. apply app_nil_r.
    + constructor; [|constructor]. cbn [m_total]. rewrite Hret. lia.
    + exists [], {| m_hits := firstn limit b; m_next := None; m_total := N.of_nat (length b) + cur_ret cur |}.
      split; [reflexivity|]. split; [reflexivity|constructor].
Qed.

Theorem walk_search_complete : forall segs fast limit cand fuel,
  (0 < limit)%nat -> NoDup (concat segs) ->
  N.of_nat (length (concat segs)) <= MAX_CURSOR_ADVANCE ->
  (length (concat segs) < fuel)%nat ->
  exists ps, walk_search fuel fast limit cand None segs = WOk ps
    /\ concat (map m_hits ps) = sort (concat segs)
    /\ Forall (fun p => m_total p = N.of_nat (length (concat segs))) ps
    /\ front_last_ok limit ps.
Proof.
  intros segs fast limit cand fuel Hl Hnd Hmax Hfuel.
  assert (Hlen : length (sort (concat segs)) = length (concat segs))
    by (symmetry; apply Permutation_length, sort_permutation).
  destruct (walk_search_from fuel fast limit cand segs [] (sort (concat segs)) None)
    as (ps & H1 & H2 & H3 & H4); try assumption; try reflexivity.
  - cbn [app]. now apply sort_ssorted.
  - cbn [app]. now rewrite Hlen.
  - now rewrite Hlen.
  - exists ps. cbn [app] in H3. rewrite Hlen in H3. tauto.
Qed.

(** the single big request: a limit above the number of matches returns everything in one page *)
Theorem big_request : forall segs fast limit cand,
  (length (concat segs) < limit)%nat ->
  search_page fast limit cand None segs =
    POk (sort (concat segs)) None (N.of_nat (length (concat segs))).
Proof.
  intros segs fast limit cand Hl.
  assert (Hlen : length (sort (concat segs)) = length (concat segs))
    by (symmetry; apply Permutation_length, sort_permutation).
  rewrite (search_page_remainder fast limit cand None segs (sort (concat segs)));
    try reflexivity; try lia; [|cbn; unfold MAX_CURSOR_ADVANCE; lia].
  rewrite Hlen. destruct (Nat.ltb_spec limit (length (concat segs))); [lia|].
  rewrite firstn_all2 by lia. cbn [cur_ret]. now rewrite N.add_0_r.
Qed.

(** a cursor whose key is not the key of a matching document is refused *)
Theorem unknown_cursor_rejected : forall segs fast limit cand c,
  (0 < limit)%nat -> ~ In (ck c) (concat segs) ->
  exists e, search_page fast limit cand (Some c) segs = PErr e.
Proof.
  intros segs fast limit cand c Hl Hin. unfold search_page.
  destruct (Nat.eqb limit 0); [eexists; reflexivity|].
  destruct (MAX_CURSOR_ADVANCE <? cur_ret (Some c)); [eexists; reflexivity|].
  assert (E : saw_cursor (Some c) segs = false).
  { cbn [saw_cursor]. apply not_true_is_false. intros H. apply existsb_exists in H as (x & Hx & Ex).
    apply N.eqb_eq in Ex. subst. contradiction. }
  rewrite E. eexists; reflexivity.
Qed.

(** beyond MAX_CURSOR_ADVANCE returned hits the next cursor is refused (documented limit) *)
Theorem deep_cursor_rejected : forall segs fast limit cand c,
  MAX_CURSOR_ADVANCE < cret c -> (0 < limit)%nat ->
  search_page fast limit cand (Some c) segs = PErr CursorTooFar.
Proof.
  intros segs fast limit cand c H Hl. unfold search_page.
  destruct (Nat.eqb_spec limit 0); [lia|]. cbn [cur_ret].
  destruct (N.ltb_spec MAX_CURSOR_ADVANCE (cret c)); [reflexivity|lia].
Qed.

(* ------------------------------------------------------------------ model meets spec *)

Definition to_opage (c : case) (m : mpage) : opage :=
  {| o_err := false; o_hits := map (hit_of c) (m_hits m); o_total := m_total m;
     o_next := option_map (fun _ => OC2 0 None) (m_next m) |}.

Definition model_pages (c : case) : option (list opage) :=
  match walk_search (S (S (length (full c)))) (fast c) (N.to_nat (limit c)) (N.to_nat (cand c)) None (segs c) with
  | WOk ms => Some (map (to_opage c) ms)
  | _ => None
  end.

Definition with_pages (c : case) (ps : list opage) : case :=
  {| segs := segs c; full := full c; limit := limit c; cand := cand c; fast := fast c;
     exhaustive := exhaustive c; strategy := strategy c; gen := gen c; plan := plan c; nfields := nfields c;
     pages := ps; overrun := false; replays := [] |}.

Lemma list_eqb_refl_pairs : forall l : list (N * N), list_eqb pair_eqb l l = true.
Proof.
  induction l as [|[a b] l IH]; cbn [list_eqb]; [reflexivity|]. unfold pair_eqb at 1. cbn [fst snd].
  rewrite !N.eqb_refl. exact IH.
Qed.

Lemma list_eqb_N_eq : forall a b : list N, list_eqb N.eqb a b = true -> a = b.
Proof.
  induction a as [|x a IH]; intros [|y b] H; cbn in H; try reflexivity; try discriminate.
  apply andb_true_iff in H as [H1 H2]. apply N.eqb_eq in H1. subst. f_equal. now apply IH.
Qed.

Lemma map_nth_seq : forall (l : list (N * N)) d,
  map (fun k => nth (N.to_nat k) l d) (map N.of_nat (seq 0 (length l))) = l.
Proof.
  intros l d. rewrite map_map.
  rewrite (map_ext _ (fun i => nth i l d)) by (intros; now rewrite Nat2N.id).
  induction l as [|a l IH] using rev_ind; [reflexivity|].
  rewrite app_length. cbn [length]. rewrite Nat.add_1_r, seq_S, map_app. cbn [map Nat.add].
  rewrite app_nth2, Nat.sub_diag by lia. cbn [nth]. f_equal.
  rewrite <- IH at 2. apply map_ext_in. intros i Hi. apply in_seq in Hi.
  apply app_nth1. lia.
Qed.

Lemma last_has_no_cursor_cons : forall x rest, rest <> [] ->
  last_has_no_cursor (x :: rest) =
    match o_next x with None => false | Some _ => last_has_no_cursor rest end.
Proof. intros x [|y rest] H; [congruence|reflexivity]. Qed.

Lemma last_has_no_cursor_front : forall c front lastp,
  m_next lastp = None -> Forall (fun p => m_next p <> None) front ->
  last_has_no_cursor (map (to_opage c) (front ++ [lastp])) = true.
Proof.
  intros c front lastp Hl. induction front as [|p front IH]; intros Hf.
  - cbn. now rewrite Hl.
  - inversion Hf; subst. cbn [app map]. specialize (IH H2).
    rewrite last_has_no_cursor_cons.
    + cbn [to_opage o_next]. destruct (m_next p); [cbn; exact IH|contradiction].
    + rewrite map_app. intros E. apply app_eq_nil in E as [_ E]. discriminate.
Qed.

Theorem model_meets_spec : forall c, wf c = true -> nlen (full c) <= MAX_CURSOR_ADVANCE ->
  exists ps, model_pages c = Some ps /\ spec (with_pages c ps) = true.
Proof.
  intros c Hwf Hmax. unfold wf in Hwf. apply andb_true_iff in Hwf as [Hperm Hlim].
  apply list_eqb_N_eq in Hperm. apply N.ltb_lt in Hlim.
  set (l := concat (segs c)) in *.
  assert (Hlen : length l = length (full c)).
  { rewrite (Permutation_length (sort_permutation l)), Hperm, map_length, seq_length. reflexivity. }
  assert (Hnd : NoDup l).
  { eapply Permutation_NoDup; [apply Permutation_sym, sort_permutation|]. rewrite Hperm.
    apply FinFun.Injective_map_NoDup; [intros x y; apply Nat2N.inj|apply seq_NoDup]. }
  destruct (walk_search_complete (segs c) (fast c) (N.to_nat (limit c)) (N.to_nat (cand c))
              (S (S (length (full c))))) as (ms & Hw & Hc & Ht & front & lastp & Hms & Hlast & Hfront);
    try assumption; try lia.
  { fold l. rewrite Hlen. exact Hmax. }
  { fold l. lia. }
  unfold model_pages. rewrite Hw. eexists. split; [reflexivity|].
  unfold spec. cbn [with_pages overrun pages full exhaustive replays forallb negb andb].
  rewrite andb_true_r.
  repeat (apply andb_true_iff; split).
  - apply forallb_forall. intros p Hp. apply in_map_iff in Hp as (m & <- & _). reflexivity.
  - rewrite Hms. apply last_has_no_cursor_front; [exact Hlast|].
    eapply Forall_impl; [|exact Hfront]. cbn. tauto.
  - rewrite map_map.
    rewrite (map_ext _ (fun m => map (hit_of c) (m_hits m))) by reflexivity.
    rewrite <- (map_map m_hits (map (hit_of c))), <- concat_map, Hc.
    fold l. rewrite Hperm. unfold hit_of. rewrite map_nth_seq. apply list_eqb_refl_pairs.
  - apply forallb_forall. intros p Hp. apply in_map_iff in Hp as (m & <- & Hm).
    rewrite Forall_forall in Ht. specialize (Ht m Hm). cbn [to_opage o_total]. rewrite Ht.
    fold l. rewrite Hlen. unfold nlen. rewrite N.leb_refl, N.eqb_refl. now destruct (exhaustive c).
Qed.
