(** C11 — cursor pagination: model of the cursor codec and of one page of [IndexReader::search]
    (searchlite-core/src/api/reader.rs: PaginationCursor::{encode,decode}, decode_cursor,
    encode_cursor, search, search_segment/scan_segment accept, push_ranked).
    Definitions only; proofs are in Codec.v / Proofs.v.

    Keys: a hit's [SortKey] (sort values, then segment_ord, then doc_id) is a strict total order
    on the matching documents of one reader; the engine interns keys to [N] preserving that order
    (the key of a hit is its rank in the single big request), so [SortKey::cmp] is [<] on [N]. *)

From Coq Require Import List NArith Bool Arith.
From SL Require Import Base.Tie Base.Paging.
Import ListNotations.
Open Scope N_scope.

(** Constants of reader.rs; checks/c11.py re-reads them from the source on every run. *)
Definition CURSOR_VERSION : N := 1.
Definition CURSOR_HEX_LEN : nat := 42.       (* CURSOR_BYTES * 2, CURSOR_BYTES = 21 *)
Definition SORT_CURSOR_VERSION : N := 2.
Definition MAX_CURSOR_ADVANCE : N := 50000.

(* ------------------------------------------------------------------ hex layer (ASCII input) *)

Definition hexchar (n : N) : N := if n <? 10 then 48 + n else 87 + n.   (* b"0123456789abcdef" *)
Definition hex2 (b : N) : list N := [hexchar (b / 16); hexchar (b mod 16)].
Definition hex_encode (bs : list N) : list N := flat_map hex2 bs.

Definition digit (c : N) : option N :=
  if (48 <=? c) && (c <=? 57) then Some (c - 48)
  else if (97 <=? c) && (c <=? 102) then Some (c - 87)
  else if (65 <=? c) && (c <=? 70) then Some (c - 55)
  else None.

(** [u8::from_str_radix(two ASCII chars, 16)]: upper and lower case digits; a leading '+' followed
    by one digit is accepted too (Rust's integer parser strips one '+'). *)
Definition byte_of_pair (a b : N) : option N :=
  if a =? 43 then digit b
  else match digit a, digit b with
       | Some x, Some y => Some (16 * x + y)
       | _, _ => None
       end.

(** [raw.as_bytes().chunks_exact(2)] mapped through [from_str_radix]; an odd tail is dropped by
    chunks_exact (the length checks before the loop exclude it). *)
Fixpoint unhex (cs : list N) : option (list N) :=
  match cs with
  | a :: b :: r =>
      match byte_of_pair a b, unhex r with
      | Some x, Some l => Some (x :: l)
      | _, _ => None
      end
  | _ => Some []
  end.

Definition be32 (x : N) : list N :=
  [x / 256 / 256 / 256; (x / 256 / 256) mod 256; (x / 256) mod 256; x mod 256].
Definition unbe32 (b0 b1 b2 b3 : N) : N := ((b0 * 256 + b1) * 256 + b2) * 256 + b3.

(* ------------------------------------------------------------------ v1 (score) cursor *)

Record cursor1 := {
  c_ver : N; c_gen : N; c_score : N (* f32 bits *); c_seg : N; c_doc : N; c_ret : N }.

Definition bytes_of (c : cursor1) : list N :=
  [c_ver c] ++ be32 (c_gen c) ++ be32 (c_score c) ++ be32 (c_seg c) ++ be32 (c_doc c) ++ be32 (c_ret c).

Definition encode_v1 (c : cursor1) : list N := hex_encode (bytes_of c).

Inductive derr :=
  BadLength | BadHex | BadVersion | TooFar | Stale | BadJson | PlanMismatch | BadValues.

Inductive res (A : Type) := Ok (a : A) | Err (e : derr).
Arguments Ok {A} a.
Arguments Err {A} e.

Definition is_err {A} (r : res A) : bool := match r with Ok _ => false | Err _ => true end.

(** PaginationCursor::decode *)
Definition decode_v1 (raw : list N) : res cursor1 :=
  if negb (Nat.eqb (length raw) CURSOR_HEX_LEN) then Err BadLength
  else match unhex raw with
       | None => Err BadHex
       | Some [v; g0; g1; g2; g3; s0; s1; s2; s3; e0; e1; e2; e3; d0; d1; d2; d3; r0; r1; r2; r3] =>
           if negb (v =? CURSOR_VERSION) then Err BadVersion
           else
             let ret := unbe32 r0 r1 r2 r3 in
             if MAX_CURSOR_ADVANCE <? ret then Err TooFar
             else Ok {| c_ver := v; c_gen := unbe32 g0 g1 g2 g3; c_score := unbe32 s0 s1 s2 s3;
                        c_seg := unbe32 e0 e1 e2 e3; c_doc := unbe32 d0 d1 d2 d3; c_ret := ret |}
       | Some _ => Err BadLength
       end.

(** decode_cursor, score fast path *)
Definition decode_cursor_fast (raw : list N) (generation : N) : res cursor1 :=
  match decode_v1 raw with
  | Err e => Err e
  | Ok c => if c_gen c =? generation then Ok c else Err Stale
  end.

(* ------------------------------------------------------------------ v2 (sort) cursor *)

(** SortCursorState after [hex_decode] + [serde_json::from_slice] (trusted: serde); [None] = the
    payload did not parse.  The sort values themselves stay abstract ([s_nvalues] of them). *)
Record sortcur := {
  s_ver : N; s_gen : N; s_ret : N; s_plan : N; s_seg : N; s_doc : N; s_nvalues : N }.

(** decode_cursor, sort path: checks in the order of the code *)
Definition decode_sort (payload : option sortcur) (generation plan_hash nfields : N) : res sortcur :=
  match payload with
  | None => Err BadJson
  | Some s =>
      if negb (s_ver s =? SORT_CURSOR_VERSION) then Err BadVersion
      else if negb (s_gen s =? generation) then Err Stale
      else if negb (s_plan s =? plan_hash) then Err PlanMismatch
      else if MAX_CURSOR_ADVANCE <? s_ret s then Err TooFar
      else if negb (s_nvalues s =? nfields) then Err BadValues
      else Ok s
  end.

(** encode_cursor, sort path *)
Definition encode_sort (generation ret plan_hash nfields seg doc : N) : sortcur :=
  {| s_ver := SORT_CURSOR_VERSION; s_gen := generation; s_ret := ret; s_plan := plan_hash;
     s_seg := seg; s_doc := doc; s_nvalues := nfields |}.

(* ------------------------------------------------------------------ one page *)

(** what survives decoding: the key and the running count *)
Record cstate := { ck : N; cret : N }.

Inductive perr := ZeroLimit | CursorTooFar | StaleCursor.

Inductive presult :=
| PErr (e : perr)
| POk (hits : list N) (next : option cstate) (total : N).

Definition cur_key (cur : option cstate) : option N := option_map ck cur.
Definition cur_ret (cur : option cstate) : N := match cur with Some c => cret c | None => 0 end.

(** [accept] in search_segment / the loop of scan_segment: a matching document whose key is at or
    before the cursor key is skipped; seeing the cursor key itself sets [saw_cursor]. *)
Definition saw_cursor (cur : option cstate) (segs : list (list N)) : bool :=
  match cur with None => true | Some c => existsb (N.eqb (ck c)) (concat segs) end.

(** The ranked candidates of one request.
    score fast path: every segment ranks its own accepted documents with rank_limit = top_k, the
      per-segment lists are appended and [hits.sort_by(key)] runs over the lot;
    sort path: one heap bounded to top_k shared by all segments ([push_ranked]), then the sort. *)
Definition candidates (fast : bool) (top_k : nat) (cur : option cstate) (segs : list (list N)) : list N :=
  if fast then
    sort (concat (map (fun s => fold_left (push top_k) (after (cur_key cur) s) []) segs))
  else
    sort (fold_left (push top_k) (after (cur_key cur) (concat segs)) []).

(** IndexReader::search restricted to what paging depends on.  [cand] = candidate_size
    (0 = not set).  The cursor argument is the decoded state; decoding rejects
    [returned > MAX_CURSOR_ADVANCE] (both cursor versions). *)
Definition search_page (fast : bool) (limit cand : nat) (cur : option cstate) (segs : list (list N)) : presult :=
  if Nat.eqb limit 0 then PErr ZeroLimit
  else if MAX_CURSOR_ADVANCE <? cur_ret cur then PErr CursorTooFar
  else
    let top_k := S (Nat.max cand limit) in
    if negb (saw_cursor cur segs) then PErr StaleCursor
    else
      let hits := candidates fast top_k cur segs in
      let total := N.of_nat (length (after (cur_key cur) (concat segs))) + cur_ret cur in
      if Nat.ltb limit (length hits) then
        POk (firstn limit hits)
            (Some {| ck := nth (limit - 1) hits 0; cret := cur_ret cur + N.of_nat limit |})
            total
      else POk hits None total.

Record mpage := { m_hits : list N; m_next : option cstate; m_total : N }.

Inductive wresult :=
| WOk (pages : list mpage)
| WErr (done : list mpage) (e : perr)
| WFuel (done : list mpage).

(** follow next_cursor until it is absent *)
Fixpoint walk_search (fuel : nat) (fast : bool) (limit cand : nat) (cur : option cstate)
         (segs : list (list N)) : wresult :=
  match fuel with
  | O => WFuel []
  | S f =>
      match search_page fast limit cand cur segs with
      | PErr e => WErr [] e
      | POk hits nxt total =>
          let p := {| m_hits := hits; m_next := nxt; m_total := total |} in
          match nxt with
          | None => WOk [p]
          | Some c =>
              match walk_search f fast limit cand (Some c) segs with
              | WOk ps => WOk (p :: ps)
              | WErr ps e => WErr (p :: ps) e
              | WFuel ps => WFuel (p :: ps)
              end
          end
      end
  end.

(* ------------------------------------------------------------------ the tie *)

Inductive ocursor :=
| OC1 (chars : list N)                          (* a 42-character score cursor, as ASCII codes *)
| OC2 (hexlen : N) (payload : option sortcur).  (* a sort cursor: hex length and parsed payload *)

Record opage := { o_err : bool; o_hits : list (N * N); o_total : N; o_next : option ocursor }.

Record replay := {
  r_cur : ocursor; r_gen : N; r_plan : N; r_nfields : N; r_fast : bool;
  r_foreign : bool;   (* engine's label: presented to another generation or another sort order *)
  r_err : bool;       (* the implementation returned an error *)
  r_same : bool       (* when it did not: the page equals the page of the original cursor *)
}.

Record case := {
  segs : list (list N);      (* keys (= ranks in [full]) of the matching documents, per segment *)
  full : list (N * N);       (* the single big request: (interned id, score bits), in order *)
  limit : N; cand : N;
  fast : bool;               (* score fast path (default plan / [_score desc]) *)
  exhaustive : bool;         (* no WAND/BMW pruning on this request shape *)
  strategy : N;              (* execution: 0 bm25, 1 wand, 2 bmw *)
  gen : N; plan : N; nfields : N;
  pages : list opage;        (* the walk, page by page *)
  overrun : bool;            (* the walk did not end within |full| + 2 pages *)
  replays : list replay
}.

Definition pair_eqb (a b : N * N) : bool := (fst a =? fst b) && (snd a =? snd b).

Fixpoint list_eqb {A B} (eqb : A -> B -> bool) (a : list A) (b : list B) : bool :=
  match a, b with
  | [], [] => true
  | x :: a', y :: b' => eqb x y && list_eqb eqb a' b'
  | _, _ => false
  end.

Definition nlen {A} (l : list A) : N := N.of_nat (length l).

Fixpoint last_has_no_cursor (ps : list opage) : bool :=
  match ps with
  | [] => false
  | [p] => match o_next p with None => true | Some _ => false end
  | p :: ps' => match o_next p with None => false | Some _ => last_has_no_cursor ps' end
  end.

(** Executable specification, from the property text:
    the walk ends (absent cursor on its last page), no page is an error, the concatenation of the
    pages is the big request's hit list (same documents, same order, same score bits, hence every
    document exactly once); every total_hits_estimate is <= the number of matches and equal to it
    when execution is exhaustive; every replay against another generation / sort order errs. *)
Definition spec (c : case) : bool :=
  negb (overrun c)
  && forallb (fun p => negb (o_err p)) (pages c)
  && last_has_no_cursor (pages c)
  && list_eqb pair_eqb (concat (map o_hits (pages c))) (full c)
  && forallb (fun p => (o_total p <=? nlen (full c))
                       && (if exhaustive c then o_total p =? nlen (full c) else true)) (pages c)
  && forallb (fun r => if r_foreign r then r_err r else true) (replays c).

(** What the model predicts for a replayed cursor. *)
Definition replay_pred_err (r : replay) : bool :=
  match r_fast r, r_cur r with
  | true, OC1 chars => is_err (decode_cursor_fast chars (r_gen r))
  | true, OC2 hexlen _ => true            (* a sort cursor is longer than 42 characters: BadLength *)
  | false, OC1 _ => true                  (* 21 bytes starting with 0x01 are not a JSON document *)
  | false, OC2 _ payload => is_err (decode_sort payload (r_gen r) (r_plan r) (r_nfields r))
  end.

Definition replay_ok (r : replay) : bool :=
  match r_fast r, r_cur r with
  | true, OC2 hexlen _ => negb (hexlen =? 42) && r_err r
  | _, _ => if replay_pred_err r then r_err r else negb (r_err r) && r_same r
  end.

Definition hit_of (c : case) (k : N) : N * N := nth (N.to_nat k) (full c) (0, 0).

Definition cursor_ok (c : case) (m : cstate) (o : ocursor) : bool :=
  match fast c, o with
  | true, OC1 chars =>
      match decode_cursor_fast chars (gen c) with
      | Ok d => (c_ret d =? cret m) && (c_score d =? snd (hit_of c (ck m)))
                && list_eqb N.eqb (encode_v1 d) chars
      | Err _ => false
      end
  | false, OC2 hexlen payload =>
      match decode_sort payload (gen c) (plan c) (nfields c) with
      | Ok s => (s_ret s =? cret m) && negb (hexlen =? 42)
      | Err _ => false
      end
  | _, _ => false
  end.

Definition page_ok (c : case) (m : mpage) (o : opage) : bool :=
  negb (o_err o)
  && list_eqb pair_eqb (map (hit_of c) (m_hits m)) (o_hits o)
  && (if exhaustive c then o_total o =? m_total m else o_total o <=? m_total m)
  && match m_next m, o_next o with
     | None, None => true
     | Some ms, Some oc => cursor_ok c ms oc
     | _, _ => false
     end.

Definition corr (c : case) : bool :=
  match walk_search (S (S (length (full c)))) (fast c) (N.to_nat (limit c)) (N.to_nat (cand c)) None (segs c) with
  | WOk ms => list_eqb (fun m o => page_ok c m o) ms (pages c)
  | _ => false
  end
  && forallb replay_ok (replays c).

(** harness input sanity: the segments partition the ranks 0..|full|-1 *)
Definition wf (c : case) : bool :=
  list_eqb N.eqb (sort (concat (segs c))) (map N.of_nat (seq 0 (length (full c))))
  && (0 <? limit c).

(** No known class is left: the block-max pivot defect of query/wand.rs that made paged walks lose
    documents under [execution = bmw] was repaired in /repo ("fix: block-max WAND selected the pivot
    with current-block bounds ..."; see known_findings.jsonl, property C09). *)
Definition known_class (c : case) : N := 0.

Definition check_case (c : case) : N :=
  if wf c then verdict (corr c) (spec c) (known_class c) else 2.
