(** C17 — Corrupted index files are detected.  Model of the open path as a function of file
    bytes (searchlite-core/src/index/segment.rs SegmentReader::open + verify_checksums,
    terms.rs read_terms, docstore.rs DocStoreReader::get, fastfields.rs read_fields header),
    plus the WAL codec of Wal/Model.v.  Definitions only. *)

From Coq Require Import List NArith Arith PeanoNat Bool.
From SL Require Import Base.Bytes Base.Varint Base.Crc32 Base.Tie Wal.Model.
Import ListNotations.
Open Scope N_scope.

(** file classes (as the engine numbers them) *)
Definition F_MANIFEST : N := 0.
Definition F_META : N := 1.
Definition F_TERMS : N := 2.
Definition F_POST : N := 3.
Definition F_DOCS : N := 4.
Definition F_FAST : N := 5.
Definition F_WAL : N := 6.

(** outcome classes observed by the engine *)
Definition O_ERR : N := 0.      (* open / reader / search returned an error                  *)
Definition O_SAME : N := 1.     (* same results as the intact index                          *)
Definition O_DIFF : N := 2.     (* some search returned different results, silently          *)
Definition O_PANIC : N := 3.

Record seg_files := { sf_meta : list N; sf_terms : list N; sf_post : list N;
                      sf_docs : list N; sf_fast : list N }.

(** the [checksums] map of one SegmentMeta in MANIFEST.json ([None] = key absent) *)
Record seg_sums := { ss_meta : option N; ss_terms : option N; ss_post : option N;
                     ss_docs : option N; ss_fast : option N }.

Definition get_file (fs : seg_files) (which : N) : list N :=
  if which =? 1 then sf_meta fs else if which =? 2 then sf_terms fs
  else if which =? 3 then sf_post fs else if which =? 4 then sf_docs fs else sf_fast fs.

Definition set_file (fs : seg_files) (which : N) (b : list N) : seg_files :=
  if which =? 1 then {| sf_meta := b; sf_terms := sf_terms fs; sf_post := sf_post fs; sf_docs := sf_docs fs; sf_fast := sf_fast fs |}
  else if which =? 2 then {| sf_meta := sf_meta fs; sf_terms := b; sf_post := sf_post fs; sf_docs := sf_docs fs; sf_fast := sf_fast fs |}
  else if which =? 3 then {| sf_meta := sf_meta fs; sf_terms := sf_terms fs; sf_post := b; sf_docs := sf_docs fs; sf_fast := sf_fast fs |}
  else if which =? 4 then {| sf_meta := sf_meta fs; sf_terms := sf_terms fs; sf_post := sf_post fs; sf_docs := b; sf_fast := sf_fast fs |}
  else {| sf_meta := sf_meta fs; sf_terms := sf_terms fs; sf_post := sf_post fs; sf_docs := sf_docs fs; sf_fast := b |}.

Inductive open_res := OpenOk | OpenErr | OpenPanic.

(** ** parsers behind the gate, with their panics as outcomes *)

Section Parsers.
  Variable crc : list N -> N.

  (** terms.rs read_terms.  Layout: le64 count ++ data ++ le32 (crc data), data = repeated
      varint(len) ++ term ++ le64 offset.  Panics of the Rust code:
        - [Vec::with_capacity(term_count as usize)] with 32-byte elements: "capacity overflow"
          when term_count * 32 > isize::MAX (smaller counts may still fail to allocate and abort;
          that depends on the machine and is not modelled);
        - [cursor + len as usize] overflows (panic with overflow checks; without them the sum
          wraps below [cursor] and [&data[cursor..end]] panics).
      [read_u64] is the repaired one (Err on over-long varints). *)
  Fixpoint terms_loop (fuel : nat) (remaining : N) (total : N) (d : list N)
    : res (list (list N * N)) :=
    if remaining =? 0 then Ok []
    else
      match fuel with
      | O => Err            (* unreachable: every iteration consumes at least 9 bytes of [d] *)
      | S f =>
          match read_u64 ShChecked d with
          | Panic => Panic
          | Err => Err
          | Ok (len, n) =>
              let d1 := skipn n d in
              let cursor := total - nlen d1 in
              if 2 ^ 64 <=? cursor + len then Panic           (* cursor + len as usize *)
              else if nlen d1 <? len then Err                 (* end > data.len() *)
              else
                let term := firstn (N.to_nat len) d1 in
                let d2 := skipn (N.to_nat len) d1 in
                if nlen d2 <? 8 then Err                      (* cursor + 8 > data.len() *)
                else
                  let off := le_val (firstn 8 d2) in
                  match terms_loop f (remaining - 1) total (skipn 8 d2) with
                  | Ok ps => Ok ((term, off) :: ps)
                  | other => other
                  end
          end
      end.

  Definition terms_inner_crc_ok (buf : list N) : bool :=
    let payload := skipn 8 buf in
    let data := firstn (length payload - 4) payload in
    le_val (skipn (length payload - 4) payload) =? crc data.

  Definition read_terms (buf : list N) : res (list (list N * N)) :=
    if (length buf <? 12)%nat then Err
    else
      let count := le_val (firstn 8 buf) in
      let payload := skipn 8 buf in
      let data := firstn (length payload - 4) payload in
      if negb (terms_inner_crc_ok buf) then Err
      else if 2 ^ 63 - 1 <? count * 32 then Panic              (* capacity overflow *)
      else terms_loop (S (length data)) count (nlen data) data.

  (** docstore.rs DocStoreReader::get at a given offset (offsets come from the .meta file):
      seek, read 4 bytes, length cap, read the payload; JSON decoding is an oracle afterwards.
      No arithmetic on attacker-controlled values, no slicing: never panics. *)
  Definition MAX_DOCSTORE_BYTES : N := 33554432.

  Definition docstore_get (file : list N) (offset : N) : res (list N) :=
    let d := skipn (N.to_nat offset) file in         (* seek past the end is allowed; reads fail *)
    if (length d <? 4)%nat then Err                  (* read_exact(len_bytes) *)
    else
      let len := le_val (firstn 4 d) in
      if MAX_DOCSTORE_BYTES <? len then Err
      else
        let body := skipn 4 d in
        if nlen body <? len then Err                 (* read_exact(buf) *)
        else Ok (firstn (N.to_nat len) body).

  (** fastfields.rs read_fields, the header: short file = no fast fields (!), magic, count.
      The column decoders behind it are not modelled (oracle [columns_ok]). *)
  Definition FFV1 : list N := [70; 70; 86; 49].

  Definition fast_header (data : list N) : res (option N) :=
    if (length data <? 8)%nat then Ok None           (* Ok(HashMap::new()) *)
    else if negb (list_eqb (firstn 4 data) FFV1) then Err
    else Ok (Some (le_val (firstn 4 (skipn 4 data)))).
End Parsers.

(** ** the open path of one segment *)
Section Open.
  Variable crc : list N -> N.
  (** oracles: serde_json accepts the .meta file and it passes the doc_ids/doc_offsets and zstd
      checks; the parsers not modelled byte by byte accept their files *)
  Variable meta_ok : list N -> bool.
  Variable rest_ok : seg_files -> bool.

  Definition verify_one (expected : option N) (bytes : list N) : bool :=
    match expected with Some e => crc bytes =? e | None => true end.

  (** verify_checksums: meta, terms, postings, docstore, fast fields, in this order *)
  Definition verify_checksums (sums : seg_sums) (fs : seg_files) : bool :=
    verify_one (ss_meta sums) (sf_meta fs) && verify_one (ss_terms sums) (sf_terms fs)
    && verify_one (ss_post sums) (sf_post fs) && verify_one (ss_docs sums) (sf_docs fs)
    && verify_one (ss_fast sums) (sf_fast fs).

  (** SegmentReader::open: parse .meta (JSON), verify_checksums, read_terms, open the postings
      and docstore files, FastFieldsReader::open *)
  Definition open_segment (sums : seg_sums) (fs : seg_files) : open_res :=
    if negb (meta_ok (sf_meta fs)) then OpenErr
    else if negb (verify_checksums sums fs) then OpenErr
    else
      match read_terms crc (sf_terms fs) with
      | Panic => OpenPanic
      | Err => OpenErr
      | Ok _ =>
          match fast_header (sf_fast fs) with
          | Err => OpenErr
          | Panic => OpenPanic
          | Ok _ => if rest_ok fs then OpenOk else OpenErr
          end
      end.

  (** IndexReader::open: the segments of the manifest in order; the first failure is returned *)
  Fixpoint open_index (segs : list (seg_sums * seg_files)) : open_res :=
    match segs with
    | [] => OpenOk
    | (sums, fs) :: rest =>
        match open_segment sums fs with
        | OpenOk => open_index rest
        | other => other
        end
    end.

  (** the checksums a commit records (collect_checksums): all five files *)
  Definition committed_sums (fs : seg_files) : seg_sums :=
    {| ss_meta := Some (crc (sf_meta fs)); ss_terms := Some (crc (sf_terms fs));
       ss_post := Some (crc (sf_post fs)); ss_docs := Some (crc (sf_docs fs));
       ss_fast := Some (crc (sf_fast fs)) |}.
End Open.

(** ** the tie (engine harness/src/bin/c17.rs) *)

(** One probe: a single-byte change or a truncation of one file of a generated index. *)
Record corrupt_case := {
  k_index  : N;        (* which generated index                                              *)
  k_file   : N;        (* index into the table of original files                             *)
  k_class  : N;        (* F_MANIFEST .. F_WAL                                                *)
  k_kind   : N;        (* 0 = byte xor, 1 = truncation                                       *)
  k_pos    : N;        (* byte offset / new length                                           *)
  k_mask   : N;        (* xor mask (kind 0)                                                  *)
  k_sum    : N;        (* checksum recorded in MANIFEST.json for this file (classes 1..5)    *)
  k_obs    : N;        (* O_ERR / O_SAME / O_DIFF / O_PANIC (classes 0..5)                   *)
  (* write-ahead log only: *)
  k_wal_panic   : bool;
  k_wal_entries : list rec;    (* Wal::replay of the damaged log                             *)
  k_wal_pending : list rec;    (* Wal::last_pending_ops of the damaged log                   *)
  k_wal_orig    : list rec     (* Wal::replay of the intact log                              *)
}.

Inductive c17_case :=
| CCorrupt (c : corrupt_case)
| CCodec (c : codec_case).

Definition xor_byte (b mask : N) : N := N.lxor b mask.

Definition damaged (orig : list N) (c : corrupt_case) : list N :=
  if k_kind c =? 0 then
    set_nth orig (N.to_nat (k_pos c)) (xor_byte (nth (N.to_nat (k_pos c)) orig 0) (k_mask c))
  else firstn (N.to_nat (k_pos c)) orig.

(** records of the intact log that end at or before byte [pos] *)
Fixpoint intact_count (rs : list rec) (pos : N) : nat :=
  match rs with
  | [] => O
  | r :: rs' =>
      let l := nlen (encode_rec crc32 r) in
      if l <=? pos then S (intact_count rs' (pos - l)) else O
  end.

Definition all_decodable (_ : N) (_ : list N) : bool := true.

(** model prediction of the observation class for a checksummed segment file *)
Definition seg_predict (orig : list N) (c : corrupt_case) : N :=
  if crc32 (damaged orig c) =? k_sum c then O_SAME else O_ERR.

Definition check_corrupt (files : list (list N)) (c : corrupt_case) : N :=
  let orig := nth (N.to_nat (k_file c)) files [] in
  if k_class c =? F_WAL then
    (* spec: exactly the records wholly before the damage are recovered, nothing panics *)
    let k := intact_count (k_wal_orig c) (k_pos c) in
    let want := firstn k (k_wal_orig c) in
    let spec := negb (k_wal_panic c) && recs_eqb (k_wal_entries c) want
                && recs_eqb (k_wal_pending c) (pending want) in
    (* model: replay of the damaged bytes; and the intact log is what the model says it is *)
    let corr :=
      match replay_gen crc32 all_decodable ShChecked (damaged orig c) with
      | Ok (es, _) => negb (k_wal_panic c) && recs_eqb es (k_wal_entries c)
                      && recs_eqb (pending es) (k_wal_pending c)
      | _ => k_wal_panic c
      end
      && list_eqb (encode_all crc32 (k_wal_orig c)) orig in
    verdict corr spec 0
  else if k_class c =? F_MANIFEST then
    (* MANIFEST.json carries no checksum and its parser is not modelled: specification only.
       Known class 1: the damaged byte lies inside MANIFEST.json and the file still parses
       (opening and searching succeed) but the results differ. *)
    verdict_spec ((k_obs c =? O_ERR) || (k_obs c =? O_SAME))
                 (if k_obs c =? O_DIFF then 1 else 0)
  else
    let spec := (k_obs c =? O_ERR) || (k_obs c =? O_SAME) in
    let corr := (k_obs c =? seg_predict orig c) && (crc32 orig =? k_sum c) in
    verdict corr spec 0.

Definition check_case (files : list (list N)) (c : c17_case) : N :=
  match c with
  | CCorrupt k => check_corrupt files k
  | CCodec k => check_codec_case k
  end.
