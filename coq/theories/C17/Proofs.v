(** C17/Proofs.v — lemmas for "corrupted index files are detected". *)

From Coq Require Import List NArith Arith PeanoNat Lia Bool.
From SL Require Import Base.Bytes Base.Varint Base.Crc32 Wal.Model Wal.Proofs Wal.Theorems C17.Model.
Import ListNotations.
Open Scope N_scope.

(** what is assumed of the checksum in the generic statements; both hold of CRC-32
    ([crc32_detects_set_nth], [crc32_range]) *)
Definition crc_detects (crc : list N -> N) : Prop :=
  forall l i b, bytes_ok l -> byte_ok b -> (i < length l)%nat -> b <> nth i l 0 ->
                crc (set_nth l i b) <> crc l.

Definition crc_in_range (crc : list N -> N) : Prop := forall l, bytes_ok l -> crc l < 2 ^ 32.

Lemma crc32_crc_detects : crc_detects crc32.
Proof. intros l i b Hl Hb Hi Hne. apply crc32_detects_set_nth; assumption. Qed.

Lemma crc32_crc_in_range : crc_in_range crc32.
Proof. intros l Hl. apply crc32_range. exact Hl. Qed.

Section Gate.
  Variable crc : list N -> N.
  Variable meta_ok : list N -> bool.
  Variable rest_ok : seg_files -> bool.

  Notation open_segment := (open_segment crc meta_ok rest_ok).
  Notation open_index := (open_index crc meta_ok rest_ok).
  Notation committed_sums := (committed_sums crc).

  (** any change of one checksummed file that changes its CRC is rejected at open *)
  Theorem segment_file_changed fs which new :
    1 <= which <= 5 -> crc new <> crc (get_file fs which) ->
    open_segment (committed_sums fs) (set_file fs which new) = OpenErr.
  Proof.
    intros Hw Hne. unfold Model.open_segment.
    destruct (meta_ok _); [|reflexivity]. cbn [negb].
    assert (V : verify_checksums crc (committed_sums fs) (set_file fs which new) = false).
    { apply N.eqb_neq in Hne.
      assert (C : which = 1 \/ which = 2 \/ which = 3 \/ which = 4 \/ which = 5) by lia.
      unfold verify_checksums, Model.committed_sums, verify_one.
      destruct C as [->|[->|[->|[->| ->]]]]; cbn in Hne |- *; rewrite Hne;
        rewrite ?andb_false_r, ?andb_false_l; reflexivity. }
    rewrite V. reflexivity.
  Qed.

  Theorem segment_byte_flip :
    crc_detects crc ->
    forall fs which i b,
      1 <= which <= 5 -> bytes_ok (get_file fs which) -> byte_ok b ->
      (i < length (get_file fs which))%nat -> b <> nth i (get_file fs which) 0 ->
      open_segment (committed_sums fs) (set_file fs which (set_nth (get_file fs which) i b))
      = OpenErr.
  Proof.
    intros D fs which i b Hw Hl Hb Hi Hne. apply segment_file_changed; [exact Hw|].
    apply D; assumption.
  Qed.

  Theorem segment_truncation fs which n :
    1 <= which <= 5 -> crc (firstn n (get_file fs which)) <> crc (get_file fs which) ->
    open_segment (committed_sums fs) (set_file fs which (firstn n (get_file fs which))) = OpenErr.
  Proof. intros Hw H. apply segment_file_changed; assumption. Qed.

  (** at the level of the whole reader: the segments before the damaged one open, the damaged
      one is rejected, so IndexReader::open returns an error *)
  Theorem index_file_changed before sums fs after which new :
    Forall (fun s => open_segment (fst s) (snd s) = OpenOk) before ->
    sums = committed_sums fs -> 1 <= which <= 5 -> crc new <> crc (get_file fs which) ->
    open_index (before ++ (sums, set_file fs which new) :: after) = OpenErr.
  Proof.
    intros Hb -> Hw Hne. induction Hb as [|[s f] before Hs _ IH]; cbn [app Model.open_index].
    - rewrite segment_file_changed by assumption. reflexivity.
    - cbn [fst snd] in Hs. rewrite Hs. exact IH.
  Qed.

  (** the parsers behind the gate can panic, but only on files whose checksums all match *)
  Theorem open_panic_guarded sums fs :
    open_segment sums fs = OpenPanic ->
    verify_checksums crc sums fs = true /\ terms_inner_crc_ok crc (sf_terms fs) = true.
  Proof.
    unfold Model.open_segment. destruct (meta_ok _); cbn [negb]; [|discriminate].
    destruct (verify_checksums crc sums fs); cbn [negb]; [|discriminate].
    intros H. split; [reflexivity|].
    unfold read_terms in H.
    destruct (length (sf_terms fs) <? 12)%nat; [discriminate|].
    destruct (terms_inner_crc_ok crc (sf_terms fs)); [reflexivity|]. cbn [negb] in H. discriminate.
  Qed.
End Gate.

(** parsers that are total *)
Lemma docstore_get_no_panic file off : docstore_get file off <> Panic.
Proof.
  unfold docstore_get. destruct (_ <? 4)%nat; [discriminate|].
  destruct (MAX_DOCSTORE_BYTES <? _); [discriminate|]. destruct (_ <? _); discriminate.
Qed.

Lemma fast_header_no_panic data : fast_header data <> Panic.
Proof.
  unfold fast_header. destruct (_ <? 8)%nat; [discriminate|].
  destruct (negb _); discriminate.
Qed.

Lemma read_terms_panic_needs_crc crc buf :
  read_terms crc buf = Panic -> terms_inner_crc_ok crc buf = true.
Proof.
  unfold read_terms. destruct (_ <? 12)%nat; [discriminate|].
  destruct (terms_inner_crc_ok crc buf); [reflexivity|]. cbn [negb]. discriminate.
Qed.

(** ... and read_terms does panic on crafted files that carry a matching inner checksum:
    a 12-byte file announcing 2^62 terms, and a one-term file whose term length is 2^64-1 *)
Example read_terms_panics :
  read_terms crc32 [0; 0; 0; 0; 0; 0; 0; 64;  0; 0; 0; 0] = Panic
  /\ read_terms crc32 ([1; 0; 0; 0; 0; 0; 0; 0] ++ write_u64 (2 ^ 64 - 1)
                        ++ le32 (crc32 (write_u64 (2 ^ 64 - 1)))) = Panic.
Proof. vm_compute. split; reflexivity. Qed.

Lemma set_nth_ok l i b : bytes_ok l -> byte_ok b -> bytes_ok (set_nth l i b).
Proof.
  intros Hl Hb. revert i. induction l as [|x l IH]; intros [|i]; cbn [set_nth]; auto.
  - apply bytes_ok_cons in Hl. apply bytes_ok_cons. tauto.
  - apply bytes_ok_cons in Hl. apply bytes_ok_cons. split; [tauto|]. apply IH. tauto.
Qed.

(** ** write-ahead log *)
Section WalDamage.
  Variable crc : list N -> N.
  Variable decodable : N -> list N -> bool.
  Hypothesis crc_det : crc_detects crc.
  Hypothesis crc_rng : crc_in_range crc.

  Notation encode_rec := (encode_rec crc).
  Notation encode_all := (encode_all crc).
  Notation replay := (replay_with crc decodable).
  Notation valid_rec := (valid_rec decodable).

  Fixpoint intact (rs : list rec) (pos : nat) : nat :=
    match rs with
    | [] => O
    | r :: rs' =>
        let l := length (encode_rec r) in
        if (l <=? pos)%nat then S (intact rs' (pos - l)) else O
    end.

  (** truncation at any length: exactly the complete records survive (no CRC assumption) *)
  Theorem wal_truncation rs n :
    Forall valid_rec rs ->
    replay (firstn n (encode_all rs))
    = (firstn (intact rs n) rs, length (encode_all (firstn (intact rs n) rs))).
  Proof.
    intros H. revert n. induction H as [|r rs Hr Hrs IH]; intros n.
    - cbn [Model.encode_all flat_map]. rewrite firstn_nil. reflexivity.
    - cbn [intact]. rewrite (Proofs.encode_all_cons crc r rs).
      destruct (Nat.leb_spec (length (encode_rec r)) n) as [L|L].
      + rewrite firstn_app. rewrite firstn_all2 by exact L.
        pose proof (wal_replay_clean_prefix crc decodable [r]
                      (firstn (n - length (encode_rec r)) (encode_all rs))) as P.
        cbn [Model.encode_all flat_map] in P. rewrite app_nil_r in P.
        rewrite P by (constructor; [exact Hr|constructor]).
        rewrite IH. cbn [fst snd firstn app].
        rewrite (Proofs.encode_all_cons crc r (firstn _ rs)), app_length. reflexivity.
      + rewrite firstn_app.
        replace (n - length (encode_rec r))%nat with 0%nat by lia.
        cbn [firstn]. rewrite app_nil_r.
        pose proof (wal_replay_torn_tail crc decodable [] r (firstn n (encode_rec r))) as T.
        cbn [Model.encode_all flat_map app length] in T. rewrite T.
        * reflexivity.
        * constructor.
        * apply (valid_small crc decodable) in Hr. exact Hr.
        * apply firstn_strict_prefix. exact L.
  Qed.

  (** a changed byte anywhere after the length field of a record: replay stops in front of it *)
  Theorem wal_body_flip rs1 t p rs2 j b :
    Forall valid_rec rs1 -> nlen p < 2 ^ 64 -> bytes_ok (t :: p) -> byte_ok b ->
    let w := length (write_u64 (nlen p)) in
    (w <= j < length (encode_rec (t, p)))%nat ->
    b <> nth j (encode_rec (t, p)) 0 ->
    replay (encode_all rs1 ++ set_nth (encode_rec (t, p)) j b ++ encode_all rs2)
    = (rs1, length (encode_all rs1)).
  Proof.
    intros H1 HL Hok Hb w Hj Hne. subst w.
    rewrite (encode_rec_length crc decodable) in Hj.
    set (W := write_u64 (nlen p)) in *.
    set (c := le32 (crc (t :: p))).
    assert (E : encode_rec (t, p) = W ++ ((t :: p) ++ c)).
    { unfold Model.encode_rec. reflexivity. }
    rewrite E in Hne |- *.
    rewrite set_nth_app_r by lia.
    rewrite app_nth2 in Hne by lia.
    set (j' := (j - length W)%nat) in *.
    assert (Hj' : (j' < S (length p) + 4)%nat) by (unfold j'; lia).
    destruct (Nat.lt_ge_cases j' (S (length p))) as [In|Out].
    - (* inside tag :: payload *)
      rewrite set_nth_app_l by (cbn [length]; lia).
      rewrite app_nth1 in Hne by (cbn [length]; lia).
      pose proof (crc_det (t :: p) j' b Hok Hb) as D.
      specialize (D ltac:(cbn [length]; lia) Hne).
      pose proof (set_nth_length (t :: p) j' b) as SL.
      destruct (set_nth (t :: p) j' b) as [|t' p'] eqn:S; [cbn [length] in SL; lia|].
      cbn [length] in SL.
      rewrite <- !app_assoc. cbn [app].
      apply (wal_replay_bad_crc crc decodable rs1 (nlen p) t' p' c (encode_all rs2) H1 HL).
      + unfold nlen. f_equal. lia.
      + apply le32_length.
      + intros Eq. apply D. apply le32_inj in Eq; [exact Eq| |].
        * apply crc_rng. rewrite <- S. apply set_nth_ok; assumption.
        * apply crc_rng. exact Hok.
    - (* inside the stored checksum *)
      rewrite set_nth_app_r by (cbn [length]; lia).
      rewrite app_nth2 in Hne by (cbn [length]; lia).
      cbn [length] in Hne |- *.
      set (k := (j' - S (length p))%nat) in *.
      assert (Hk : (k < 4)%nat) by (unfold k; lia).
      rewrite <- !app_assoc. cbn [app].
      apply (wal_replay_bad_crc crc decodable rs1 (nlen p) t p (set_nth c k b) (encode_all rs2) H1 HL).
      + reflexivity.
      + rewrite set_nth_length. apply le32_length.
      + intros Eq. symmetry in Eq. revert Eq. apply set_nth_neq; [|exact Hne].
        unfold c. rewrite le32_length. exact Hk.
  Qed.
End WalDamage.

(** ** the tie's prediction function meets the executable specification *)
Lemma xor_byte_ok b mask : b < 256 -> mask < 256 -> byte_ok (xor_byte b mask).
Proof.
  intros Hb Hm. unfold byte_ok, xor_byte. change 256 with (2 ^ 8). apply lxor_lt_pow2; assumption.
Qed.

Lemma xor_byte_neq b mask : mask <> 0 -> xor_byte b mask <> b.
Proof.
  intros Hm E. unfold xor_byte in E. apply Hm.
  apply (f_equal (N.lxor b)) in E. rewrite <- N.lxor_assoc, N.lxor_nilpotent, N.lxor_0_l in E.
  exact E.
Qed.

Lemma seg_predict_meets_spec orig c :
  let o := seg_predict orig c in ((o =? O_ERR) || (o =? O_SAME)) = true.
Proof. unfold seg_predict. destruct (_ =? k_sum c); reflexivity. Qed.

Lemma seg_predict_flip orig c :
  bytes_ok orig -> k_kind c = 0 -> (N.to_nat (k_pos c) < length orig)%nat ->
  k_mask c <> 0 -> k_mask c < 256 -> k_sum c = crc32 orig ->
  seg_predict orig c = O_ERR.
Proof.
  intros Hok Hk Hp Hm0 Hm Hs. unfold seg_predict, damaged. rewrite Hk. cbn [N.eqb].
  assert (Hb : nth (N.to_nat (k_pos c)) orig 0 < 256).
  { unfold bytes_ok in Hok. rewrite Forall_forall in Hok. apply Hok. apply nth_In. exact Hp. }
  rewrite Hs.
  destruct (N.eqb_spec (crc32 (set_nth orig (N.to_nat (k_pos c))
              (xor_byte (nth (N.to_nat (k_pos c)) orig 0) (k_mask c)))) (crc32 orig)) as [E|E];
    [|reflexivity].
  exfalso. revert E. apply crc32_detects_set_nth; auto.
  - apply xor_byte_ok; assumption.
  - apply xor_byte_neq. exact Hm0.
Qed.
