(** C25 — the front ends as compositions over the Rust API.
    Definitions only.  Built on the queue machine of C23 (contents, log, [apply_ops]).

    Part 1: scripts.  The API layer ([api_call]) is what a library user does with one writer at a
            time; the CLI (searchlite-cli/src/main.rs cmd_add, cmd_delete, cmd_commit, cmd_search,
            cmd_compact), the HTTP handlers (C23's [step]) and the C FFI (searchlite_add_json,
            searchlite_commit, searchlite_search) are transcribed as their own machines, and
            [cli_calls], [http_calls], [ffi_calls] give the API calls each command amounts to.
    Part 2: request construction.  build_search_request_from_cli / parse_sort / parse_execution and
            the request literal inside searchlite_search, as functions from flags / arguments to
            the fields of SearchRequest.  Strings are lists of byte values (ASCII in the tie). *)

From Coq Require Import List NArith ZArith Bool.
From SL Require Import Base.Tie C23.Model.
Import ListNotations.
Open Scope N_scope.

(** * Part 1 — scripts *)

(** ** The API layer *)
Inductive api_call :=
  | ApiAdd (d : vdoc)           (* writer.add_document(doc)               *)
  | ApiDelete (ids : list id)   (* writer.delete_documents(ids)           *)
  | ApiCommit                   (* writer.commit()                        *)
  | ApiCompact                  (* index.compact()                        *)
  | ApiSearch.                  (* index.reader().search(match_all)       *)

Inductive api_result := AOk | AErr | AHits (l : contents).

(** Every call is made on a writer opened by [index.writer()], which replays the log, so the
    writer's pending list is the log; [add_document] validates before it appends. *)
Definition api_step (s : store) (c : api_call) : store * api_result :=
  match c with
  | ApiAdd (VGood i v) => ({| committed := committed s; wal := wal s ++ [OAdd i v] |}, AOk)
  | ApiAdd VInvalid => (s, AErr)
  | ApiDelete ids => ({| committed := committed s; wal := wal s ++ map ODel ids |}, AOk)
  | ApiCommit => ({| committed := apply_ops (committed s) (wal s); wal := [] |}, AOk)
  | ApiCompact => (s, AOk)
  | ApiSearch => (s, AHits (committed s))
  end.

Fixpoint api_run (s : store) (cs : list api_call) : store * list api_result :=
  match cs with
  | [] => (s, [])
  | c :: cs' =>
      let (s1, r) := api_step s c in
      let (s2, rs) := api_run s1 cs' in
      (s2, r :: rs)
  end.

(** ** The CLI: one process per command *)

(** A line of the ids file of `delete`. *)
Inductive idline := ILBlank | ILControl | ILId (i : id).

Inductive cli_cmd :=
  | CliAdd (ls : list line)      (* `add` and `update` are the same function *)
  | CliDelete (ls : list idline)
  | CliCommit | CliCompact | CliSearch.

(** What the process reports: exit status 0 / non-zero, and the hits printed by `search`. *)
Inductive cli_result := CExit (ok : bool) | CHits (l : contents).

(** cmd_add: one writer; for each line: blank => skip; not JSON => exit with an error; a JSON
    value that is not an object becomes the empty document (rejected for its missing id);
    [add_document(..)?] stops at the first failure.  What was added before stays in the log. *)
Fixpoint cli_add (w : list op) (ls : list line) : list op * bool :=
  match ls with
  | [] => (w, true)
  | LBlank :: r => cli_add w r
  | LBadJson :: _ => (w, false)
  | LNotObject :: _ => (w, false)
  | LDoc (VGood i v) :: r => cli_add (w ++ [OAdd i v]) r
  | LDoc VInvalid :: _ => (w, false)
  end.

(** cmd_delete: ids are trimmed lines; blank lines skipped; a control character => error before
    anything is queued; no id at all => error. *)
Fixpoint cli_ids (ls : list idline) : option (list id) :=
  match ls with
  | [] => Some []
  | ILBlank :: r => cli_ids r
  | ILControl :: _ => None
  | ILId i :: r => match cli_ids r with Some is => Some (i :: is) | None => None end
  end.

Definition cli_step (s : store) (c : cli_cmd) : store * cli_result :=
  match c with
  | CliAdd ls =>
      let (w, ok) := cli_add (wal s) ls in
      ({| committed := committed s; wal := w |}, CExit ok)
  | CliDelete ls =>
      match cli_ids ls with
      | None => (s, CExit false)
      | Some [] => (s, CExit false)
      | Some is => ({| committed := committed s; wal := wal s ++ map ODel is |}, CExit true)
      end
  | CliCommit => ({| committed := apply_ops (committed s) (wal s); wal := [] |}, CExit true)
  | CliCompact => (s, CExit true)
  | CliSearch => (s, CHits (committed s))
  end.

Fixpoint cli_run (s : store) (cs : list cli_cmd) : store * list cli_result :=
  match cs with
  | [] => (s, [])
  | c :: cs' =>
      let (s1, r) := cli_step s c in
      let (s2, rs) := cli_run s1 cs' in
      (s2, r :: rs)
  end.

(** The API calls a CLI command amounts to. *)
Fixpoint cli_add_calls (ls : list line) : list api_call :=
  match ls with
  | [] => []
  | LBlank :: r => cli_add_calls r
  | LBadJson :: _ => []
  | LNotObject :: _ => [ApiAdd VInvalid]
  | LDoc (VGood i v) :: r => ApiAdd (VGood i v) :: cli_add_calls r
  | LDoc VInvalid :: _ => [ApiAdd VInvalid]
  end.

Definition cli_calls (c : cli_cmd) : list api_call :=
  match c with
  | CliAdd ls => cli_add_calls ls
  | CliDelete ls =>
      match cli_ids ls with
      | None | Some [] => []
      | Some is => [ApiDelete is]
      end
  | CliCommit => [ApiCommit]
  | CliCompact => [ApiCompact]
  | CliSearch => [ApiSearch]
  end.

(** ** HTTP: C23's handlers; a rejected request amounts to no call at all *)
Definition vdoc_good (d : vdoc) : bool := match d with VGood _ _ => true | VInvalid => false end.

Definition docs_calls (o : option (list vdoc)) : list api_call :=
  match o with
  | Some ds => if forallb vdoc_good ds then map ApiAdd ds else []
  | None => []
  end.

Definition http_calls (r : req) : list api_call :=
  match r with
  | RAdd ls => docs_calls (parse_lines ls)
  | RBulk (Some bs) => docs_calls (parse_items bs)
  | RBulk None => []
  | RDelete (Some l) =>
      match parse_ids l with
      | Some [] | None => []
      | Some is => [ApiDelete is]
      end
  | RDelete None => []
  | RCommit => [ApiCommit]
  | RRefresh => []
  | RCompact => [ApiCompact]
  | RSearch => [ApiSearch]
  end.

(** ** The C FFI *)
Inductive ffi_cmd :=
  | FfiAddJson (d : option vdoc)   (* None: the text is not JSON; a non-object is the empty document = VInvalid *)
  | FfiCommit
  | FfiSearch.

Inductive ffi_result := FRet (code : Z) | FHits (l : contents).

Definition count_adds (q : list op) : N :=
  N.of_nat (length (filter (fun o => match o with OAdd _ _ => true | ODel _ => false end) q)).

(** searchlite_add_json: parse (-5), writer, add_document (-2), commit (-3), returns the
    position of the document among the pending adds; searchlite_commit returns 0. *)
Definition ffi_step (s : store) (c : ffi_cmd) : store * ffi_result :=
  match c with
  | FfiAddJson None => (s, FRet (-5)%Z)
  | FfiAddJson (Some VInvalid) => (s, FRet (-2)%Z)
  | FfiAddJson (Some (VGood i v)) =>
      ({| committed := apply_ops (committed s) (wal s ++ [OAdd i v]); wal := [] |},
       FRet (Z.of_N (count_adds (wal s))))
  | FfiCommit => ({| committed := apply_ops (committed s) (wal s); wal := [] |}, FRet 0%Z)
  | FfiSearch => (s, FHits (committed s))
  end.

Fixpoint ffi_run (s : store) (cs : list ffi_cmd) : store * list ffi_result :=
  match cs with
  | [] => (s, [])
  | c :: cs' =>
      let (s1, r) := ffi_step s c in
      let (s2, rs) := ffi_run s1 cs' in
      (s2, r :: rs)
  end.

Definition ffi_calls (c : ffi_cmd) : list api_call :=
  match c with
  | FfiAddJson None => []
  | FfiAddJson (Some VInvalid) => [ApiAdd VInvalid]
  | FfiAddJson (Some d) => [ApiAdd d; ApiCommit]
  | FfiCommit => [ApiCommit]
  | FfiSearch => [ApiSearch]
  end.

(** What a search through any front end shows. *)
Definition api_hits (rs : list api_result) : list contents :=
  flat_map (fun r => match r with AHits l => [l] | _ => [] end) rs.
Definition cli_hits (rs : list cli_result) : list contents :=
  flat_map (fun r => match r with CHits l => [l] | _ => [] end) rs.
Definition http_hits (rs : list resp) : list contents :=
  flat_map (fun r => match r with Hits l => [l] | _ => [] end) rs.
Definition ffi_hits (rs : list ffi_result) : list contents :=
  flat_map (fun r => match r with FHits l => [l] | _ => [] end) rs.

(** * Part 2 — request construction *)

Definition str := list N.

Inductive order := Asc | Desc.
Inductive exec := Bm25 | Wand | Bmw.
Inductive query := QString (s : str) | QNode (n : N).  (* a parsed QueryNode, by interned id *)

(** The fields of SearchRequest that a front end can influence; every other field is the
    constant written in both front ends: filter None, candidate_size None, fuzzy None,
    vector_query None, vector_filter None, highlight None, collapse None, suggest {}, rescore None,
    explain false, profile false. *)
Record srequest := {
  r_query : query;
  r_fields : option (list str);
  r_limit : N;
  r_return_hits : bool;
  r_sort : list (str * option order);
  r_cursor : option str;
  r_execution : exec;
  r_bmw_block_size : option N;
  r_return_stored : bool;
  r_highlight_field : option str;
  r_aggs : N                       (* interned aggregations map; 0 = empty *)
}.

(** ** string helpers (Rust: str::split(','), trim, to_ascii_lowercase, splitn(2, ':')) *)
Definition is_ws (c : N) : bool := (c =? 32) || ((9 <=? c) && (c <=? 13)).

Fixpoint trim_start (s : str) : str :=
  match s with
  | c :: r => if is_ws c then trim_start r else s
  | [] => []
  end.
Definition trim (s : str) : str := rev (trim_start (rev (trim_start s))).

Definition lower1 (c : N) : N := if (65 <=? c) && (c <=? 90) then c + 32 else c.
Definition lower (s : str) : str := map lower1 s.

(** [split c s]: always at least one piece, like Rust's split. *)
Fixpoint split (c : N) (s : str) : list str :=
  match s with
  | [] => [[]]
  | x :: r =>
      if x =? c then [] :: split c r
      else match split c r with
           | p :: ps => (x :: p) :: ps
           | [] => [[x]]
           end
  end.

(** splitn(2, c): the part before the first [c], and the rest if there is a [c]. *)
Fixpoint split_once (c : N) (s : str) : str * option str :=
  match s with
  | [] => ([], None)
  | x :: r =>
      if x =? c then ([], Some r)
      else let (a, b) := split_once c r in (x :: a, b)
  end.

Fixpoint str_eqb (a b : str) : bool :=
  match a, b with
  | [], [] => true
  | x :: a', y :: b' => (x =? y) && str_eqb a' b'
  | _, _ => false
  end.

Definition s_asc : str := [97; 115; 99].
Definition s_desc : str := [100; 101; 115; 99].
Definition s_bm25 : str := [98; 109; 50; 53].
Definition s_bmw : str := [98; 109; 119].
Definition comma : N := 44.
Definition colon : N := 58.

(** parse_sort: clauses separated by ',', trimmed, empty ones skipped; `field[:order]`; the field
    is what precedes the first ':' of the trimmed clause (not trimmed again); an order other
    than asc/desc (any case) is an error. *)
Fixpoint parse_clauses (cs : list str) : option (list (str * option order)) :=
  match cs with
  | [] => Some []
  | c :: r =>
      let t := trim c in
      match t with
      | [] => parse_clauses r
      | _ =>
          let (field, ord) := split_once colon t in
          let o : option (option order) :=
            match ord with
            | None => Some None
            | Some x =>
                if str_eqb (lower x) s_asc then Some (Some Asc)
                else if str_eqb (lower x) s_desc then Some (Some Desc)
                else None
            end in
          match o, parse_clauses r with
          | Some o', Some rest => Some ((field, o') :: rest)
          | _, _ => None
          end
      end
  end.

Definition parse_sort (v : option str) : option (list (str * option order)) :=
  match v with
  | None => Some []
  | Some raw => parse_clauses (split comma raw)
  end.

Definition parse_execution (v : str) : exec :=
  if str_eqb (lower v) s_bm25 then Bm25 else if str_eqb (lower v) s_bmw then Bmw else Wand.

(** The flags of `searchlite-cli search` (without --request); absent flags take clap's defaults:
    limit 10, execution "wand", return_hits true (the flag cannot turn it off), return_stored
    false. *)
Record cli_args := {
  c_query : option str;
  c_limit : N;
  c_execution : str;
  c_bmw_block_size : option N;
  c_fields : option str;
  c_return_stored : bool;
  c_highlight : option str;
  c_cursor : option str;
  c_sort : option str;
  c_aggs : N
}.

Definition cli_defaults (q : str) : cli_args :=
  {| c_query := Some q; c_limit := 10; c_execution := [119; 97; 110; 100]; c_bmw_block_size := None;
     c_fields := None; c_return_stored := false; c_highlight := None; c_cursor := None;
     c_sort := None; c_aggs := 0 |}.

(** build_search_request_from_cli (feature vectors off: no query => error). *)
Definition cli_request (a : cli_args) : option srequest :=
  match c_query a with
  | None => None
  | Some q =>
      if c_limit a =? 0 then None
      else match parse_sort (c_sort a) with
           | None => None
           | Some srt =>
               Some {| r_query := QString q;
                       r_fields := option_map (fun f => map trim (split comma f)) (c_fields a);
                       r_limit := c_limit a;
                       r_return_hits := true;
                       r_sort := srt;
                       r_cursor := c_cursor a;
                       r_execution := parse_execution (c_execution a);
                       r_bmw_block_size := c_bmw_block_size a;
                       r_return_stored := c_return_stored a;
                       r_highlight_field := c_highlight a;
                       r_aggs := c_aggs a |}
           end
  end.

(** searchlite_search(handle, query, limit, cursor, aggs_json, ..): the query text is a QueryNode
    when it parses as one ([node] = the engine's interned id of the parsed node), otherwise a
    query string. *)
Record ffi_args := {
  f_query : str;
  f_node : option N;      (* Some n: serde_json::from_str::<QueryNode>(query) succeeded *)
  f_limit : N;
  f_cursor : option str;
  f_aggs : N
}.

Definition ffi_request (a : ffi_args) : srequest :=
  {| r_query := match f_node a with Some n => QNode n | None => QString (f_query a) end;
     r_fields := None;
     r_limit := f_limit a;
     r_return_hits := true;
     r_sort := [];
     r_cursor := f_cursor a;
     r_execution := Wand;
     r_bmw_block_size := None;
     r_return_stored := true;
     r_highlight_field := None;
     r_aggs := f_aggs a |}.

(** ** equality tests for the tie *)
Definition opt_eqb {A} (e : A -> A -> bool) (a b : option A) : bool :=
  match a, b with Some x, Some y => e x y | None, None => true | _, _ => false end.
Fixpoint list_eqb {A} (e : A -> A -> bool) (a b : list A) : bool :=
  match a, b with
  | [], [] => true
  | x :: a', y :: b' => e x y && list_eqb e a' b'
  | _, _ => false
  end.
Definition order_eqb (a b : order) : bool :=
  match a, b with Asc, Asc | Desc, Desc => true | _, _ => false end.
Definition exec_eqb (a b : exec) : bool :=
  match a, b with Bm25, Bm25 | Wand, Wand | Bmw, Bmw => true | _, _ => false end.
Definition query_eqb (a b : query) : bool :=
  match a, b with
  | QString x, QString y => str_eqb x y
  | QNode x, QNode y => x =? y
  | _, _ => false
  end.
Definition sortspec_eqb (a b : str * option order) : bool :=
  str_eqb (fst a) (fst b) && opt_eqb order_eqb (snd a) (snd b).

Definition srequest_eqb (a b : srequest) : bool :=
  query_eqb (r_query a) (r_query b)
  && opt_eqb (list_eqb str_eqb) (r_fields a) (r_fields b)
  && (r_limit a =? r_limit b)
  && Bool.eqb (r_return_hits a) (r_return_hits b)
  && list_eqb sortspec_eqb (r_sort a) (r_sort b)
  && opt_eqb str_eqb (r_cursor a) (r_cursor b)
  && exec_eqb (r_execution a) (r_execution b)
  && opt_eqb N.eqb (r_bmw_block_size a) (r_bmw_block_size b)
  && Bool.eqb (r_return_stored a) (r_return_stored b)
  && opt_eqb str_eqb (r_highlight_field a) (r_highlight_field b)
  && (r_aggs a =? r_aggs b).

(** * The tie

    One case = one script run through a front end and, as the translated API calls, through the
    library, each on its own index, or one search request built by a front end.
    [same] is established by the engine on the real JSON: index contents (all stored documents)
    and every search result of the front end equal those of the library, byte for byte after
    canonical re-serialisation. *)
Inductive case :=
  | CaseCli (cs : list cli_cmd) (obs : list cli_result) (lib : list api_result) (same : bool)
  | CaseHttp (rs : list req) (obs : list resp) (lib : list api_result) (same : bool)
  | CaseFfi (cs : list ffi_cmd) (obs : list ffi_result) (lib : list api_result) (same : bool)
  | CaseCliRequest (a : cli_args) (mirror : option srequest) (cli_ok : bool) (same : bool)
  | CaseFfiRequest (a : ffi_args) (mirror : srequest) (same : bool).

Definition api_result_eqb (a b : api_result) : bool :=
  match a, b with
  | AOk, AOk | AErr, AErr => true
  | AHits l, AHits m => contents_eqb l m
  | _, _ => false
  end.
Definition cli_result_eqb (a b : cli_result) : bool :=
  match a, b with
  | CExit x, CExit y => Bool.eqb x y
  | CHits l, CHits m => contents_eqb l m
  | _, _ => false
  end.
Definition ffi_result_eqb (a b : ffi_result) : bool :=
  match a, b with
  | FRet x, FRet y => Z.eqb x y
  | FHits l, FHits m => contents_eqb l m
  | _, _ => false
  end.

(** S: the front end and the equivalent API calls show the same contents at every search, and the
    engine found the real results identical. *)
Definition spec_case (c : case) : bool :=
  match c with
  | CaseCli _ obs lib same => same && list_eqb contents_eqb (cli_hits obs) (api_hits lib)
  | CaseHttp _ obs lib same => same && list_eqb contents_eqb (http_hits obs) (api_hits lib)
  | CaseFfi _ obs lib same => same && list_eqb contents_eqb (ffi_hits obs) (api_hits lib)
  | CaseCliRequest _ mirror ok same =>
      (* [same]: the CLI and the library given the mirror request both fail, or both succeed with
         identical results; a request the flags do not yield must make the CLI fail *)
      same && (match mirror with Some _ => true | None => negb ok end)
  | CaseFfiRequest _ _ same => same
  end.

(** Correspondence: the observed outcomes are the model's, and the library ran exactly the calls
    the translation gives. *)
Definition corr_case (c : case) : bool :=
  match c with
  | CaseCli cs obs lib _ =>
      list_eqb cli_result_eqb (snd (cli_run init cs)) obs
      && list_eqb api_result_eqb (snd (api_run init (flat_map cli_calls cs))) lib
  | CaseHttp rs obs lib _ =>
      resps_eqb (snd (run init rs)) obs
      && list_eqb api_result_eqb (snd (api_run init (flat_map http_calls rs))) lib
  | CaseFfi cs obs lib _ =>
      list_eqb ffi_result_eqb (snd (ffi_run init cs)) obs
      && list_eqb api_result_eqb (snd (api_run init (flat_map ffi_calls cs))) lib
  | CaseCliRequest a mirror _ _ => opt_eqb srequest_eqb (cli_request a) mirror
  | CaseFfiRequest a mirror _ => srequest_eqb (ffi_request a) mirror
  end.

Definition check_case (c : case) : N := verdict (corr_case c) (spec_case c) 0.
