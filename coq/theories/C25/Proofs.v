(** C25 — proofs: each front-end script is observationally equal to its translated API script;
    request construction lemmas. *)
From Coq Require Import List Arith NArith ZArith Bool Lia.
From SL Require Import Base.Tie C23.Model C23.Proofs C25.Model.
Import ListNotations.
Open Scope N_scope.

(** ** api_run over concatenation *)
Lemma api_run_app : forall a b s,
  api_run s (a ++ b) =
  (fst (api_run (fst (api_run s a)) b), snd (api_run s a) ++ snd (api_run (fst (api_run s a)) b)).
Proof.
  induction a as [|c a IH]; intros b s.
  - cbn. now destruct (api_run s b).
  - cbn [app api_run]. destruct (api_step s c) as [s1 r]. rewrite IH.
    destruct (api_run s1 a) as [s2 rs]. cbn [fst snd].
    destruct (api_run s2 b) as [s3 rs']. reflexivity.
Qed.

Lemma api_hits_app : forall a b, api_hits (a ++ b) = api_hits a ++ api_hits b.
Proof. intros. unfold api_hits. apply flat_map_app. Qed.

(** ** generic: a front end whose every command agrees with its calls agrees on every script *)
Section Refine.
  Variables (cmd res : Type).
  Variable fstep : store -> cmd -> store * res.
  Variable calls : cmd -> list api_call.
  Variable hits1 : res -> list contents.
  Hypothesis step_ok : forall s c,
    fst (api_run s (calls c)) = fst (fstep s c)
    /\ api_hits (snd (api_run s (calls c))) = hits1 (snd (fstep s c)).

  Fixpoint frun (s : store) (cs : list cmd) : store * list res :=
    match cs with
    | [] => (s, [])
    | c :: cs' =>
        let (s1, r) := fstep s c in
        let (s2, rs) := frun s1 cs' in
        (s2, r :: rs)
    end.

  Lemma refine_run : forall cs s,
    fst (frun s cs) = fst (api_run s (flat_map calls cs))
    /\ flat_map hits1 (snd (frun s cs)) = api_hits (snd (api_run s (flat_map calls cs))).
  Proof.
    induction cs as [|c cs IH]; intros s.
    - cbn. auto.
    - cbn [flat_map frun]. rewrite api_run_app. cbn [fst snd].
      destruct (step_ok s c) as [H1 H2].
      destruct (fstep s c) as [s1 r] eqn:E. cbn [fst snd] in H1, H2.
      destruct (frun s1 cs) as [s2 rs] eqn:E2. cbn [fst snd flat_map].
      rewrite api_hits_app, H1, H2.
      pose proof (IH s1) as [I1 I2]. rewrite E2 in I1, I2. cbn [fst snd] in I1, I2.
      rewrite <- I1, <- I2. auto.
  Qed.
End Refine.

Lemma flat_map_single : forall (A B : Type) (f : A -> list B) (l : list A),
  flat_map (fun r => flat_map f [r]) l = flat_map f l.
Proof.
  intros A B f l. induction l as [|x l IH]; simpl; [reflexivity|].
  rewrite app_nil_r. f_equal. exact IH.
Qed.

(** ** CLI *)
Lemma cli_add_calls_ok : forall ls s,
  fst (api_run s (cli_add_calls ls)) = {| committed := committed s; wal := fst (cli_add (wal s) ls) |}
  /\ api_hits (snd (api_run s (cli_add_calls ls))) = [].
Proof.
  induction ls as [|l ls IH]; intros s.
  - cbn. destruct s; auto.
  - destruct l as [| | |[i v|]]; cbn [cli_add_calls cli_add].
    + apply IH.
    + cbn. destruct s; auto.
    + cbn. destruct s; auto.
    + cbn [api_run api_step].
      pose proof (IH {| committed := committed s; wal := wal s ++ [OAdd i v] |}) as [H1 H2].
      destruct (api_run {| committed := committed s; wal := wal s ++ [OAdd i v] |} (cli_add_calls ls)) as [s2 rs].
      cbn [fst snd] in *. cbn [committed wal] in H1. split; [exact H1|].
      unfold api_hits in *. cbn [flat_map]. exact H2.
    + cbn. destruct s; auto.
Qed.

Lemma cli_step_ok : forall s c,
  fst (api_run s (cli_calls c)) = fst (cli_step s c)
  /\ api_hits (snd (api_run s (cli_calls c))) = cli_hits [snd (cli_step s c)].
Proof.
  intros s c. destruct c as [ls|ls| | |]; cbn [cli_calls cli_step].
  - destruct (cli_add_calls_ok ls s) as [H1 H2]. rewrite H1, H2.
    destruct (cli_add (wal s) ls) as [w ok]. cbn. auto.
  - destruct (cli_ids ls) as [[|i is]|]; cbn; auto.
  - cbn. auto.
  - cbn. auto.
  - cbn. auto.
Qed.

Lemma cli_run_is_frun : forall cs s, cli_run s cs = frun _ _ cli_step s cs.
Proof.
  induction cs as [|c cs IH]; intros s; [reflexivity|].
  cbn. destruct (cli_step s c) as [s1 r]. now rewrite IH.
Qed.

Lemma cli_refines_api : forall cs s,
  fst (cli_run s cs) = fst (api_run s (flat_map cli_calls cs))
  /\ cli_hits (snd (cli_run s cs)) = api_hits (snd (api_run s (flat_map cli_calls cs))).
Proof.
  intros cs s. rewrite cli_run_is_frun.
  pose proof (refine_run _ _ cli_step cli_calls (fun r => cli_hits [r]) (fun s' c => cli_step_ok s' c) cs s) as [H1 H2].
  split; [exact H1|]. rewrite <- H2. unfold cli_hits. symmetry. apply flat_map_single.
Qed.

(** ** HTTP *)
Lemma adds_all_good : forall ds s, all_good ds = true ->
  fst (api_run s (map ApiAdd ds)) = {| committed := committed s; wal := wal s ++ goods ds |}
  /\ api_hits (snd (api_run s (map ApiAdd ds))) = [].
Proof.
  induction ds as [|d ds IH]; intros s H.
  - cbn. rewrite app_nil_r. destruct s; auto.
  - cbn in H. apply andb_true_iff in H as [Hd H]. destruct d as [i v|]; [|discriminate].
    cbn [map api_run api_step].
    pose proof (IH {| committed := committed s; wal := wal s ++ [OAdd i v] |} H) as [H1 H2].
    destruct (api_run {| committed := committed s; wal := wal s ++ [OAdd i v] |} (map ApiAdd ds)) as [s2 rs].
    cbn [fst snd] in *. cbn [committed wal] in H1. rewrite H1. split.
    + cbn [goods flat_map vdoc_ops]. now rewrite <- app_assoc.
    + unfold api_hits in *. cbn [flat_map]. exact H2.
Qed.

Lemma docs_calls_ok : forall s ds,
  ds <> [] ->
  fst (api_run s (docs_calls (Some ds))) = fst (ingest RbSavepoint s ds)
  /\ api_hits (snd (api_run s (docs_calls (Some ds)))) = [].
Proof.
  intros s ds _. rewrite ingest_char. cbn [docs_calls].
  change (forallb vdoc_good ds) with (all_good ds).
  destruct (all_good ds) eqn:E.
  - destruct (adds_all_good ds s E) as [H1 H2]. rewrite H1, H2. auto.
  - cbn. auto.
Qed.

Lemma http_step_ok : forall s r,
  fst (api_run s (http_calls r)) = fst (step s r)
  /\ api_hits (snd (api_run s (http_calls r))) = http_hits [snd (step s r)].
Proof.
  intros s r. unfold step. destruct r as [ls|b|b| | | |]; cbn [http_calls step_rb].
  - destruct (parse_lines ls) as [[|d ds]|] eqn:E.
    + cbn. auto.
    + destruct (docs_calls_ok s (d :: ds)) as [H1 H2]; [discriminate|].
      rewrite H1, H2. rewrite ingest_char. destruct (all_good (d :: ds)); cbn; auto.
    + cbn. auto.
  - destruct b as [[|b bs]|]; [cbn; auto| |cbn; auto].
    destruct (parse_items (b :: bs)) as [ds|] eqn:E; [|cbn; auto].
    destruct ds as [|d ds]; [cbn in E; destruct b; [discriminate|]; destruct (parse_items bs); discriminate|].
    destruct (docs_calls_ok s (d :: ds)) as [H1 H2]; [discriminate|].
    rewrite H1, H2. rewrite ingest_char. destruct (all_good (d :: ds)); cbn; auto.
  - destruct b as [[|d l]|]; [cbn; auto| |cbn; auto].
    destruct (parse_ids (d :: l)) as [[|i is]|] eqn:E; [| |cbn; auto].
    + cbn in E. destruct d; [|discriminate]. destruct (parse_ids l); discriminate.
    + cbn. auto.
  - cbn. auto.
  - cbn. auto.
  - cbn. auto.
  - cbn. auto.
Qed.

Lemma run_is_frun : forall rs s, run s rs = frun _ _ step s rs.
Proof.
  induction rs as [|r rs IH]; intros s; [reflexivity|].
  unfold run, step in *. cbn. destruct (step_rb RbSavepoint s r) as [s1 o]. now rewrite IH.
Qed.

Lemma http_refines_api : forall rs s,
  fst (run s rs) = fst (api_run s (flat_map http_calls rs))
  /\ http_hits (snd (run s rs)) = api_hits (snd (api_run s (flat_map http_calls rs))).
Proof.
  intros rs s. rewrite run_is_frun.
  pose proof (refine_run _ _ step http_calls (fun r => http_hits [r]) (fun s' c => http_step_ok s' c) rs s) as [H1 H2].
  split; [exact H1|]. rewrite <- H2. unfold http_hits. symmetry. apply flat_map_single.
Qed.

(** ** FFI *)
Lemma ffi_step_ok : forall s c,
  fst (api_run s (ffi_calls c)) = fst (ffi_step s c)
  /\ api_hits (snd (api_run s (ffi_calls c))) = ffi_hits [snd (ffi_step s c)].
Proof.
  intros s c. destruct c as [[[i v|]|]| |]; cbn; auto.
Qed.

Lemma ffi_run_is_frun : forall cs s, ffi_run s cs = frun _ _ ffi_step s cs.
Proof.
  induction cs as [|c cs IH]; intros s; [reflexivity|].
  cbn. destruct (ffi_step s c) as [s1 r]. now rewrite IH.
Qed.

Lemma ffi_refines_api : forall cs s,
  fst (ffi_run s cs) = fst (api_run s (flat_map ffi_calls cs))
  /\ ffi_hits (snd (ffi_run s cs)) = api_hits (snd (api_run s (flat_map ffi_calls cs))).
Proof.
  intros cs s. rewrite ffi_run_is_frun.
  pose proof (refine_run _ _ ffi_step ffi_calls (fun r => ffi_hits [r]) (fun s' c => ffi_step_ok s' c) cs s) as [H1 H2].
  split; [exact H1|]. rewrite <- H2. unfold ffi_hits. symmetry. apply flat_map_single.
Qed.

(** ** request construction *)
Lemma cli_request_eq : forall a q srt,
  c_query a = Some q -> c_limit a <> 0 -> parse_sort (c_sort a) = Some srt ->
  cli_request a =
  Some {| r_query := QString q;
          r_fields := option_map (fun f => map trim (split comma f)) (c_fields a);
          r_limit := c_limit a; r_return_hits := true; r_sort := srt; r_cursor := c_cursor a;
          r_execution := parse_execution (c_execution a);
          r_bmw_block_size := c_bmw_block_size a; r_return_stored := c_return_stored a;
          r_highlight_field := c_highlight a; r_aggs := c_aggs a |}.
Proof.
  intros a q srt Hq Hl Hs. unfold cli_request. rewrite Hq, Hs.
  destruct (N.eqb_spec (c_limit a) 0); [contradiction|reflexivity].
Qed.

Lemma cli_request_rejects : forall a,
  (c_query a = None \/ c_limit a = 0 \/ parse_sort (c_sort a) = None) -> cli_request a = None.
Proof.
  intros a [H|[H|H]]; unfold cli_request.
  - now rewrite H.
  - destruct (c_query a); [|reflexivity]. now rewrite H.
  - destruct (c_query a); [|reflexivity]. destruct (c_limit a =? 0); [reflexivity|]. now rewrite H.
Qed.

(** `search -q Q` with no other flag is the API request with the documented defaults. *)
Lemma cli_request_defaults : forall q,
  cli_request (cli_defaults q) =
  Some {| r_query := QString q; r_fields := None; r_limit := 10; r_return_hits := true; r_sort := [];
          r_cursor := None; r_execution := Wand; r_bmw_block_size := None; r_return_stored := false;
          r_highlight_field := None; r_aggs := 0 |}.
Proof. reflexivity. Qed.

Lemma ffi_request_eq : forall a,
  ffi_request a =
  {| r_query := match f_node a with Some n => QNode n | None => QString (f_query a) end;
     r_fields := None; r_limit := f_limit a; r_return_hits := true; r_sort := [];
     r_cursor := f_cursor a; r_execution := Wand; r_bmw_block_size := None; r_return_stored := true;
     r_highlight_field := None; r_aggs := f_aggs a |}.
Proof. reflexivity. Qed.

(** parse_execution only knows three names. *)
Lemma parse_execution_cases : forall v,
  (lower v = s_bm25 /\ parse_execution v = Bm25)
  \/ (lower v = s_bmw /\ parse_execution v = Bmw)
  \/ (lower v <> s_bm25 /\ lower v <> s_bmw /\ parse_execution v = Wand).
Proof.
  assert (E : forall a b, str_eqb a b = true <-> a = b).
  { induction a as [|x a IH]; intros [|y b]; cbn; split; intros H; try discriminate; try reflexivity.
    - apply andb_true_iff in H as [H1 H2]. apply N.eqb_eq in H1. apply IH in H2. now subst.
    - inversion H; subst. rewrite N.eqb_refl. cbn. now apply IH. }
  intros v. unfold parse_execution.
  destruct (str_eqb (lower v) s_bm25) eqn:A.
  - left. split; [now apply E|reflexivity].
  - destruct (str_eqb (lower v) s_bmw) eqn:B.
    + right; left. split; [now apply E|reflexivity].
    + right; right. repeat split; try reflexivity; intros H; apply E in H; congruence.
Qed.

(** a sort flag without ':' clauses yields the fields in order with no explicit order *)
Lemma parse_sort_none : parse_sort None = Some [].
Proof. reflexivity. Qed.

Lemma hits_eqb_refl : forall l : list contents, list_eqb contents_eqb l l = true.
Proof.
  induction l as [|x l IH]; [reflexivity|].
  cbn [list_eqb]. rewrite contents_eqb_refl. exact IH.
Qed.

(** the model of a case meets the case specification when the observation is the model's and the
    engine's comparison succeeded *)
Lemma model_meets_spec_cli : forall cs,
  spec_case (CaseCli cs (snd (cli_run init cs)) (snd (api_run init (flat_map cli_calls cs))) true) = true.
Proof.
  intros cs. cbn [spec_case andb].
  destruct (cli_refines_api cs init) as [_ H]. rewrite H.
  apply hits_eqb_refl.
Qed.

Lemma model_meets_spec_http : forall rs,
  spec_case (CaseHttp rs (snd (run init rs)) (snd (api_run init (flat_map http_calls rs))) true) = true.
Proof.
  intros rs. cbn [spec_case andb].
  destruct (http_refines_api rs init) as [_ H]. rewrite H.
  apply hits_eqb_refl.
Qed.

Lemma model_meets_spec_ffi : forall cs,
  spec_case (CaseFfi cs (snd (ffi_run init cs)) (snd (api_run init (flat_map ffi_calls cs))) true) = true.
Proof.
  intros cs. cbn [spec_case andb].
  destruct (ffi_refines_api cs init) as [_ H]. rewrite H.
  apply hits_eqb_refl.
Qed.
