#!/bin/sh
# regenerates _CoqProject from the files present (one logical root: SL)
cd "$(dirname "$0")"
{ echo "-Q theories SL"; echo "-arg -w -arg -notation-overridden,-deprecated-hint-without-locality,-deprecated-instance-without-locality"; find theories -name '*.v' | LC_ALL=C sort; } > _CoqProject.new
if ! cmp -s _CoqProject.new _CoqProject 2>/dev/null; then mv _CoqProject.new _CoqProject; coq_makefile -f _CoqProject -o Makefile >/dev/null; else rm _CoqProject.new; [ -f Makefile ] || coq_makefile -f _CoqProject -o Makefile >/dev/null; fi
