//! Query-layer fixtures shared by the paging / collapse / rescore / composite engines (C11, C18,
//! C19, C30): a schema with sortable single- and multi-valued fast fields, a corpus generator with
//! many ties, and request construction through the public JSON form of `SearchRequest`.
use crate::Rng;
use searchlite_core::api::reader::{IndexReader, SearchResult};
use searchlite_core::api::types::{Document, SearchRequest, StorageType};
use searchlite_core::Index;
use serde_json::{json, Value};

pub const WORDS: [&str; 5] = ["rust", "fast", "index", "wal", "heap"];
pub const TAGS: [&str; 4] = ["a", "b", "c", "d"];

/// text `body`; fast+stored keywords `tag` (single) and `tags` (multi); fast+stored i64 `n`, `m`
/// (multi) and f64 `x`, `y` (multi, with -0.0 and multiples of 0.1).  Everything is stored so that `Index::compact` accepts the schema.
pub fn schema() -> searchlite_core::Schema {
  serde_json::from_value(json!({
    "doc_id_field": "_id",
    "text_fields": [{"name":"body","analyzer":"default","stored":true,"indexed":true}],
    "keyword_fields": [
      {"name":"tag","stored":true,"indexed":true,"fast":true},
      {"name":"tags","stored":true,"indexed":true,"fast":true}],
    "numeric_fields": [
      {"name":"n","i64":true,"fast":true,"stored":true},
      {"name":"m","i64":true,"fast":true,"stored":true},
      {"name":"x","i64":false,"fast":true,"stored":true},
      {"name":"y","i64":false,"fast":true,"stored":true}],
    "nested_fields": [],
    "vector_fields": []
  }))
  .expect("qx schema")
}

#[derive(Clone, Debug)]
pub struct DocSpec {
  pub id: u64,
  pub batch: usize,
  pub json: Value,
}

/// One document body: few words from a tiny vocabulary (many equal tf / length combinations),
/// small value ranges (many sort-value ties), missing and multi-valued fields.
pub fn gen_doc_fields(rng: &mut Rng) -> Value {
  let mut body = String::new();
  for _ in 0..(1 + rng.below(4)) {
    body.push_str(*rng.pick(&WORDS[..]));
    body.push(' ');
  }
  let mut d = serde_json::Map::new();
  d.insert("body".into(), json!(body.trim()));
  if !rng.chance(1, 5) {
    d.insert("tag".into(), json!(*rng.pick(&TAGS[..])));
  }
  match rng.below(4) {
    0 => {}
    1 => {
      d.insert("tags".into(), json!([*rng.pick(&TAGS[..])]));
    }
    _ => {
      let k = 2 + rng.below(2);
      let v: Vec<&str> = (0..k).map(|_| *rng.pick(&TAGS[..])).collect();
      d.insert("tags".into(), json!(v));
    }
  }
  if !rng.chance(1, 5) {
    d.insert("n".into(), json!(rng.range(-2, 3)));
  }
  match rng.below(4) {
    0 => {}
    1 => {
      d.insert("m".into(), json!([rng.range(0, 4)]));
    }
    _ => {
      let k = 2 + rng.below(2);
      let v: Vec<i64> = (0..k).map(|_| rng.range(0, 4)).collect();
      d.insert("m".into(), json!(v));
    }
  }
  if !rng.chance(1, 5) {
    let xs = [-1.5, -0.5, 0.0, 0.25, 0.5, 2.0, 1e9];
    d.insert("x".into(), json!(*rng.pick(&xs[..])));
  }
  match rng.below(4) {
    0 => {}
    k => {
      let ys = [-0.7, -0.2, -0.0, 0.0, 0.1, 0.3, 0.7, 0.9, 1.1, 1.7, 2.3];
      let v: Vec<f64> = (0..k).map(|_| *rng.pick(&ys[..])).collect();
      d.insert("y".into(), json!(v));
    }
  }
  Value::Object(d)
}

pub fn to_document(id: u64, fields: &Value) -> Document {
  let mut m: std::collections::BTreeMap<String, Value> =
    fields.as_object().unwrap().iter().map(|(k, v)| (k.clone(), v.clone())).collect();
  m.insert("_id".into(), json!(format!("d{id:05}")));
  Document { fields: m }
}

pub fn parse_id(s: &str) -> u64 {
  s.trim_start_matches('d').parse().expect("doc id")
}

pub struct World {
  pub dir: tempfile::TempDir,
  pub index: Index,
  pub docs: Vec<DocSpec>,
  pub deleted: Vec<u64>,
  pub batches: usize,
  pub next_id: u64,
}

impl World {
  /// `nseg` commits; a batch is sometimes a copy of the previous batch's field values under new
  /// ids, which gives segments with identical statistics and so BM25 score ties across segments.
  pub fn build(rng: &mut Rng, nseg: usize, min_docs: u64, max_docs: u64, storage: StorageType) -> World {
    let dir = crate::fixtures::scratch();
    let index = Index::create(dir.path(), schema(), crate::fixtures::opts(dir.path(), storage))
      .expect("create index");
    let mut w = World { dir, index, docs: Vec::new(), deleted: Vec::new(), batches: 0, next_id: 0 };
    let mut prev: Vec<Value> = Vec::new();
    for _ in 0..nseg {
      let fields: Vec<Value> = if !prev.is_empty() && rng.chance(1, 3) {
        prev.clone()
      } else {
        let n = min_docs + rng.below(max_docs - min_docs + 1);
        (0..n).map(|_| gen_doc_fields(rng)).collect()
      };
      w.commit_batch(&fields);
      prev = fields;
    }
    w
  }

  pub fn commit_batch(&mut self, fields: &[Value]) {
    let mut wr = self.index.writer().expect("writer");
    for f in fields {
      let id = self.next_id;
      self.next_id += 1;
      wr.add_document(&to_document(id, f)).expect("add");
      self.docs.push(DocSpec { id, batch: self.batches, json: f.clone() });
    }
    wr.commit().expect("commit");
    self.batches += 1;
  }

  /// delete-only commit
  pub fn delete(&mut self, ids: &[u64]) {
    let mut wr = self.index.writer().expect("writer");
    let s: Vec<String> = ids.iter().map(|i| format!("d{i:05}")).collect();
    wr.delete_documents(&s).expect("delete");
    wr.commit().expect("commit");
    self.deleted.extend_from_slice(ids);
  }

  pub fn reader(&self) -> IndexReader {
    self.index.reader().expect("reader")
  }

  pub fn generation(&self) -> u64 {
    self.index.manifest().segments.iter().map(|s| s.generation as u64).max().unwrap_or(0)
  }

  pub fn batch_of(&self, id: u64) -> usize {
    self.docs.iter().find(|d| d.id == id).map(|d| d.batch).unwrap_or(0)
  }

  pub fn fields_of(&self, id: u64) -> &Value {
    &self.docs.iter().find(|d| d.id == id).expect("doc").json
  }
}

/// Request from its JSON form (`query`, `limit`, ... as in the HTTP/CLI API).
pub fn request(mut v: Value) -> SearchRequest {
  let o = v.as_object_mut().unwrap();
  o.entry("return_stored").or_insert(json!(false));
  serde_json::from_value(v).expect("search request json")
}

/// `search` with panics reported as errors (`Err("panic: ..")`).
pub fn search(reader: &IndexReader, req: &SearchRequest) -> Result<SearchResult, String> {
  match std::panic::catch_unwind(std::panic::AssertUnwindSafe(|| reader.search(req))) {
    Ok(Ok(r)) => Ok(r),
    Ok(Err(e)) => Err(format!("{e:#}")),
    Err(p) => {
      let msg = p
        .downcast_ref::<String>()
        .cloned()
        .or_else(|| p.downcast_ref::<&str>().map(|s| s.to_string()))
        .unwrap_or_default();
      Err(format!("panic: {msg}"))
    }
  }
}

pub fn gen_query(rng: &mut Rng) -> (Value, bool) {
  // (query json, has_terms)
  match rng.below(6) {
    0 | 1 => (json!({"type":"match_all"}), false),
    2 | 3 => (json!({"type":"term","field":"body","value": *rng.pick(&WORDS[..])}), true),
    _ => {
      // two distinct words: a repeated word ("heap heap") trips a debug_assert in search_segment
      // ("Inconsistent leaf for term key") in debug builds — not a paging matter, reported separately
      let a = rng.below(WORDS.len() as u64) as usize;
      let b = (a + 1 + rng.below(WORDS.len() as u64 - 1) as usize) % WORDS.len();
      (json!(format!("{} {}", WORDS[a], WORDS[b])), true)
    }
  }
}

pub fn gen_filter(rng: &mut Rng) -> Option<Value> {
  match rng.below(6) {
    0 => Some(json!({"I64Range": {"field":"n","min":-1,"max":2}})),
    1 => Some(json!({"KeywordIn": {"field":"tag","values":["a","b","c"]}})),
    _ => None,
  }
}

pub const SORT_FIELDS: [&str; 7] = ["_score", "tag", "tags", "n", "m", "x", "y"];

pub fn gen_sort(rng: &mut Rng) -> Vec<Value> {
  let one = |rng: &mut Rng| -> Value {
    let f = *rng.pick(&SORT_FIELDS[..]);
    match rng.below(3) {
      0 => json!({"field": f}),
      1 => json!({"field": f, "order": "asc"}),
      _ => json!({"field": f, "order": "desc"}),
    }
  };
  match rng.below(12) {
    0 | 1 | 2 => vec![],
    3 => vec![json!({"field":"_score","order":"desc"})],
    // led by the score, ties broken by a field (not the fast path, but "a better score sorts first")
    10 | 11 => vec![json!({"field":"_score","order":"desc"}), one(rng)],
    4 | 5 | 6 => vec![one(rng)],
    7 | 8 => vec![one(rng), one(rng)],
    _ => vec![one(rng), one(rng), one(rng)],
  }
}

pub fn is_fast_path(sort: &[Value]) -> bool {
  sort.is_empty()
    || (sort.len() == 1
      && sort[0]["field"] == "_score"
      && (sort[0].get("order").is_none() || sort[0]["order"] == "desc"))
}
