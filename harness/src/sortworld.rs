//! Fixtures shared by the ordering / scoring / explain engines (C10, C20): a schema with two text
//! fields and the sortable fast fields of `qx`, a corpus generator with many ties, a generator
//! of scored query trees (rendered both as request JSON and as the Gallina `qnode` of
//! C10/Model.v), segment introspection through the public `IndexReader::segments`, and exact
//! rational printers for f32 / f64 values.
use crate::{coq, qx, Rng};
use searchlite_core::api::reader::IndexReader;
use searchlite_core::api::types::StorageType;
use searchlite_core::verif::fastfields::doc_length_key;
use searchlite_core::Index;
use serde_json::{json, Value};
use std::collections::BTreeMap;

pub const WORDS: [&str; 7] = ["rust", "fast", "index", "wal", "heap", "tree", "disk"];
pub const TEXT_FIELDS: [&str; 2] = ["title", "body"];

pub fn schema() -> searchlite_core::Schema {
  serde_json::from_value(json!({
    "doc_id_field": "_id",
    "text_fields": [
      {"name":"title","analyzer":"default","stored":true,"indexed":true},
      {"name":"body","analyzer":"default","stored":true,"indexed":true}],
    "keyword_fields": [
      {"name":"tag","stored":true,"indexed":true,"fast":true},
      {"name":"tags","stored":true,"indexed":true,"fast":true}],
    "numeric_fields": [
      {"name":"n","i64":true,"fast":true,"stored":true},
      {"name":"m","i64":true,"fast":true,"stored":true},
      {"name":"x","i64":false,"fast":true,"stored":true},
      {"name":"y","i64":false,"fast":true,"stored":true}],
    "nested_fields": [],
    "vector_fields": []
  }))
  .expect("sortworld schema")
}

/// the `qx` document (body, tag, tags, n, m, x, y with missing and multi-valued fields) with a
/// longer body over the larger vocabulary and an optional short title
pub fn gen_doc(rng: &mut Rng) -> Value {
  let mut d = qx::gen_doc_fields(rng);
  let o = d.as_object_mut().unwrap();
  let mut body = String::new();
  for _ in 0..(1 + rng.below(6)) {
    body.push_str(*rng.pick(&WORDS[..]));
    body.push(' ');
  }
  o.insert("body".into(), json!(body.trim()));
  if !rng.chance(1, 4) {
    let mut t = String::new();
    for _ in 0..(1 + rng.below(3)) {
      t.push_str(*rng.pick(&WORDS[..]));
      t.push(' ');
    }
    o.insert("title".into(), json!(t.trim()));
  }
  d
}

pub struct SWorld {
  pub dir: tempfile::TempDir,
  pub index: Index,
  pub next_id: u64,
  pub batches: usize,
  pub docs: Vec<Value>,
}

impl SWorld {
  pub fn build(rng: &mut Rng, nseg: usize, min_docs: u64, max_docs: u64, storage: StorageType) -> SWorld {
    let dir = crate::fixtures::scratch();
    let index = Index::create(dir.path(), schema(), crate::fixtures::opts(dir.path(), storage)).expect("create index");
    let mut w = SWorld { dir, index, next_id: 0, batches: 0, docs: Vec::new() };
    let mut prev: Vec<Value> = Vec::new();
    for _ in 0..nseg {
      // a repeated batch gives segments with identical statistics: exact score ties across segments
      let fields: Vec<Value> = if !prev.is_empty() && rng.chance(1, 3) {
        prev.clone()
      } else {
        let n = min_docs + rng.below(max_docs - min_docs + 1);
        (0..n).map(|_| gen_doc(rng)).collect()
      };
      let mut wr = w.index.writer().expect("writer");
      for f in &fields {
        wr.add_document(&qx::to_document(w.next_id, f)).expect("add");
        w.next_id += 1;
        w.docs.push(f.clone());
      }
      wr.commit().expect("commit");
      w.batches += 1;
      prev = fields;
    }
    w
  }

  pub fn delete(&mut self, ids: &[u64]) {
    let mut wr = self.index.writer().expect("writer");
    let s: Vec<String> = ids.iter().map(|i| format!("d{i:05}")).collect();
    wr.delete_documents(&s).expect("delete");
    wr.commit().expect("commit");
  }

  pub fn reader(&self) -> IndexReader {
    self.index.reader().expect("reader")
  }
}

// ------------------------------------------------------------------------------------------------
// exact rationals

/// exact value of a finite f64 as (numerator, denominator = 2^k)
pub fn q_of_f64(v: f64) -> String {
  assert!(v.is_finite(), "non-finite value in a rational");
  if v == 0.0 {
    return "(Qmake 0%Z 1%positive)".into();
  }
  let bits = v.to_bits();
  let neg = bits >> 63 == 1;
  let ex = ((bits >> 52) & 0x7ff) as i64;
  let frac = bits & ((1u64 << 52) - 1);
  let (mut m, mut e) = if ex == 0 { (frac as u128, -1074i64) } else { ((frac | (1u64 << 52)) as u128, ex - 1075) };
  while m % 2 == 0 && e < 0 {
    m /= 2;
    e += 1;
  }
  let sign = if neg { "-" } else { "" };
  if e >= 0 {
    assert!(e < 60, "value too large for the printer");
    format!("(Qmake ({sign}{})%Z 1%positive)", m << e)
  } else {
    format!("(Qmake ({sign}{m})%Z (2 ^ {})%positive)", -e)
  }
}

pub fn q_of_f32(v: f32) -> String {
  q_of_f64(v as f64)
}

// ------------------------------------------------------------------------------------------------
// filters with an independent evaluation (single-valued fields only)

pub const NFILTERS: usize = 4;

pub fn filter_json(i: usize) -> Value {
  match i {
    0 => json!({"I64Range": {"field":"n","min":-1,"max":1}}),
    1 => json!({"KeywordIn": {"field":"tag","values":["a","b"]}}),
    2 => json!({"KeywordEq": {"field":"tag","value":"c"}}),
    _ => json!({"F64Range": {"field":"x","min":0.0,"max":1.0}}),
  }
}

// ------------------------------------------------------------------------------------------------
// scored query trees

#[derive(Clone, Debug)]
pub enum Fun {
  Weight { w: f32, flt: Option<usize> },
  Field { fld: usize, factor: f32, recip: bool, missing: f64, flt: Option<usize> },
}

pub const NUM_FIELDS: [&str; 3] = ["n", "x", "m"];

#[derive(Clone, Debug)]
pub enum QN {
  All,
  /// json is the request form of this leaf (term) — composite forms carry their own json
  Leaf { ws: Vec<(String, String, f32)>, boost: f32 },
  Bool { must: Vec<QN>, should: Vec<QN>, boost: f32 },
  DisMax { qs: Vec<QN>, tie: f32, boost: f32 },
  Const { flt: usize, boost: f32 },
  Func { q: Box<QN>, fs: Vec<Fun>, sm: usize, bm: usize, maxb: Option<f32>, boost: f32 },
  /// a node whose request form differs from its scoring shape (query_string, multi_match)
  Alias { json: Value, shape: Box<QN> },
}

pub const SMODES: [&str; 5] = ["sum", "multiply", "max", "min", "avg"];
pub const SMODES_COQ: [&str; 5] = ["SMSum", "SMMultiply", "SMMax", "SMMin", "SMAvg"];
pub const BMODES: [&str; 5] = ["multiply", "sum", "replace", "max", "min"];
pub const BMODES_COQ: [&str; 5] = ["BMMultiply", "BMSum", "BMReplace", "BMMax", "BMMin"];

fn boost_json(o: &mut serde_json::Map<String, Value>, b: f32) {
  if b != 1.0 {
    o.insert("boost".into(), json!(b));
  }
}

impl QN {
  pub fn json(&self) -> Value {
    match self {
      QN::All => json!({"type":"match_all"}),
      QN::Leaf { ws, boost } => {
        let (f, t, _) = &ws[0];
        let mut v = json!({"type":"term","field":f,"value":t});
        boost_json(v.as_object_mut().unwrap(), *boost);
        v
      }
      QN::Bool { must, should, boost } => {
        let mut v = json!({"type":"bool",
          "must": must.iter().map(|q| q.json()).collect::<Vec<_>>(),
          "should": should.iter().map(|q| q.json()).collect::<Vec<_>>()});
        boost_json(v.as_object_mut().unwrap(), *boost);
        v
      }
      QN::DisMax { qs, tie, boost } => {
        let mut v = json!({"type":"dis_max","queries": qs.iter().map(|q| q.json()).collect::<Vec<_>>(), "tie_breaker": tie});
        boost_json(v.as_object_mut().unwrap(), *boost);
        v
      }
      QN::Const { flt, boost } => {
        let mut v = json!({"type":"constant_score","filter": filter_json(*flt)});
        boost_json(v.as_object_mut().unwrap(), *boost);
        v
      }
      QN::Func { q, fs, sm, bm, maxb, boost } => {
        let funcs: Vec<Value> = fs
          .iter()
          .map(|f| match f {
            Fun::Weight { w, flt } => {
              let mut v = json!({"type":"weight","weight": w});
              if let Some(i) = flt {
                v["filter"] = filter_json(*i);
              }
              v
            }
            Fun::Field { fld, factor, recip, missing, flt } => {
              let mut v = json!({"type":"field_value_factor","field": NUM_FIELDS[*fld], "factor": factor, "missing": missing});
              if *recip {
                v["modifier"] = json!("reciprocal");
              }
              if let Some(i) = flt {
                v["filter"] = filter_json(*i);
              }
              v
            }
          })
          .collect();
        let mut v = json!({"type":"function_score","query": q.json(), "functions": funcs,
          "score_mode": SMODES[*sm], "boost_mode": BMODES[*bm]});
        if let Some(m) = maxb {
          v["max_boost"] = json!(m);
        }
        boost_json(v.as_object_mut().unwrap(), *boost);
        v
      }
      QN::Alias { json, .. } => json.clone(),
    }
  }

  /// term keys ("field:term") in the tree
  pub fn keys(&self, out: &mut Vec<String>) {
    match self {
      QN::All | QN::Const { .. } => {}
      QN::Leaf { ws, .. } => {
        for (f, t, _) in ws {
          out.push(format!("{f}:{t}"));
        }
      }
      QN::Bool { must, should, .. } => {
        for q in must.iter().chain(should.iter()) {
          q.keys(out);
        }
      }
      QN::DisMax { qs, .. } => {
        for q in qs {
          q.keys(out);
        }
      }
      QN::Func { q, .. } => q.keys(out),
      QN::Alias { shape, .. } => shape.keys(out),
    }
  }

  pub fn has_custom(&self) -> bool {
    match self {
      QN::All | QN::Leaf { .. } => false,
      QN::Const { .. } | QN::Func { .. } => true,
      QN::Bool { must, should, .. } => must.iter().chain(should.iter()).any(|q| q.has_custom()),
      QN::DisMax { qs, .. } => qs.iter().any(|q| q.has_custom()),
      QN::Alias { shape, .. } => shape.has_custom(),
    }
  }

  pub fn kind_counts(&self, out: &mut BTreeMap<String, u64>) {
    let mut bump = |k: &str| *out.entry(format!("node_{k}")).or_insert(0) += 1;
    match self {
      QN::All => bump("match_all"),
      QN::Leaf { boost, .. } => {
        bump("term");
        if *boost != 1.0 {
          bump("boosted_term");
        }
      }
      QN::Bool { must, should, boost } => {
        bump("bool");
        if *boost != 1.0 {
          bump("boosted_bool");
        }
        for q in must.iter().chain(should.iter()) {
          q.kind_counts(out);
        }
      }
      QN::DisMax { qs, .. } => {
        bump("dis_max");
        for q in qs {
          q.kind_counts(out);
        }
      }
      QN::Const { .. } => bump("constant_score"),
      QN::Func { q, fs, sm, bm, maxb, .. } => {
        bump("function_score");
        bump(&format!("score_mode_{}", SMODES[*sm]));
        bump(&format!("boost_mode_{}", BMODES[*bm]));
        if maxb.is_some() {
          bump("max_boost");
        }
        for f in fs {
          match f {
            Fun::Weight { flt, .. } => bump(if flt.is_some() { "fn_weight_filtered" } else { "fn_weight" }),
            Fun::Field { recip, .. } => bump(if *recip { "fn_field_value_reciprocal" } else { "fn_field_value" }),
          }
        }
        q.kind_counts(out);
      }
      QN::Alias { json, shape } => {
        bump(&format!("alias_{}", json["type"].as_str().unwrap_or("string")));
        if let Some(t) = json.get("match_type").and_then(|v| v.as_str()) {
          bump(&format!("multi_match_{t}"));
        }
        shape.kind_counts(out);
      }
    }
  }

  pub fn coq(&self, keys: &[String]) -> String {
    let kid = |f: &str, t: &str| keys.iter().position(|k| *k == format!("{f}:{t}")).expect("key interned");
    match self {
      QN::All => "QAll".into(),
      QN::Leaf { ws, boost } => {
        let l: Vec<String> = ws.iter().map(|(f, t, fb)| format!("({}%N, {})", kid(f, t), q_of_f32(*fb))).collect();
        format!("(QLeaf {} {})", coq::list(&l), q_of_f32(*boost))
      }
      QN::Bool { must, should, boost } => format!(
        "(QBool {} {} {})",
        coq::list(&must.iter().map(|q| q.coq(keys)).collect::<Vec<_>>()),
        coq::list(&should.iter().map(|q| q.coq(keys)).collect::<Vec<_>>()),
        q_of_f32(*boost)
      ),
      QN::DisMax { qs, tie, boost } => format!(
        "(QDisMax {} {} {})",
        coq::list(&qs.iter().map(|q| q.coq(keys)).collect::<Vec<_>>()),
        q_of_f32(*tie),
        q_of_f32(*boost)
      ),
      QN::Const { flt, boost } => format!("(QConst {}%nat {})", flt, q_of_f32(*boost)),
      QN::Func { q, fs, sm, bm, maxb, boost } => {
        let fo = |o: &Option<usize>| coq::opt(o.map(|i| format!("{i}%nat")));
        let l: Vec<String> = fs
          .iter()
          .map(|f| match f {
            Fun::Weight { w, flt } => format!("(FWeight {} {})", q_of_f32(*w), fo(flt)),
            Fun::Field { fld, factor, recip, missing, flt } => format!(
              "(FFieldValue {}%nat {} {} {} {})",
              fld,
              q_of_f32(*factor),
              if *recip { "MReciprocal" } else { "MNone" },
              q_of_f64(*missing),
              fo(flt)
            ),
          })
          .collect();
        format!(
          "(QFunc {} {} {} {} {} {})",
          q.coq(keys),
          coq::list(&l),
          SMODES_COQ[*sm],
          BMODES_COQ[*bm],
          coq::opt(maxb.map(q_of_f32)),
          q_of_f32(*boost)
        )
      }
      QN::Alias { shape, .. } => shape.coq(keys),
    }
  }
}

pub struct QGen {
  /// unused (field, word) keys: a term key scored under two leaves trips the known debug
  /// assertion in search_segment (C16 finding), so every key is used at most once per query
  free: Vec<(usize, usize)>,
}

const BOOSTS: [f32; 8] = [1.0, 1.0, 2.0, 0.5, 1.5, 1.2, 0.0, 0.0];

impl QGen {
  pub fn new(rng: &mut Rng) -> QGen {
    let mut free = Vec::new();
    for f in 0..TEXT_FIELDS.len() {
      for w in 0..WORDS.len() {
        free.push((f, w));
      }
    }
    // shuffle
    for i in (1..free.len()).rev() {
      let j = rng.below(i as u64 + 1) as usize;
      free.swap(i, j);
    }
    QGen { free }
  }

  fn boost(rng: &mut Rng) -> f32 {
    *rng.pick(&BOOSTS[..])
  }

  fn take_key(&mut self, rng: &mut Rng) -> Option<(usize, usize)> {
    // prefer body (longer texts) two times out of three
    if self.free.is_empty() {
      return None;
    }
    let want_body = !rng.chance(1, 3);
    let pos = self.free.iter().position(|(f, _)| (*f == 1) == want_body).unwrap_or(0);
    Some(self.free.remove(pos))
  }

  /// takes the word `w` on every text field if all are free
  fn take_word_all_fields(&mut self) -> Option<usize> {
    for w in 0..WORDS.len() {
      if (0..TEXT_FIELDS.len()).all(|f| self.free.contains(&(f, w))) {
        self.free.retain(|(_, w2)| *w2 != w);
        return Some(w);
      }
    }
    None
  }

  pub fn term(&mut self, rng: &mut Rng) -> QN {
    match self.take_key(rng) {
      Some((f, w)) => QN::Leaf { ws: vec![(TEXT_FIELDS[f].into(), WORDS[w].into(), 1.0)], boost: Self::boost(rng) },
      None => QN::All,
    }
  }

  /// query_string / multi_match over both text fields
  pub fn multi(&mut self, rng: &mut Rng) -> QN {
    let mut words = Vec::new();
    for _ in 0..(1 + rng.below(2)) {
      if let Some(w) = self.take_word_all_fields() {
        words.push(w);
      }
    }
    if words.is_empty() {
      return self.term(rng);
    }
    let text: String = words.iter().map(|w| WORDS[*w]).collect::<Vec<_>>().join(" ");
    let boost = Self::boost(rng);
    let fb: Vec<f32> = (0..TEXT_FIELDS.len()).map(|_| *rng.pick(&[1.0f32, 1.0, 2.0, 0.5][..])).collect();
    let specs: Vec<Value> = (0..TEXT_FIELDS.len())
      .map(|f| if fb[f] == 1.0 { json!({"field": TEXT_FIELDS[f]}) } else { json!({"field": TEXT_FIELDS[f], "boost": fb[f]}) })
      .collect();
    let leaf_for_word = |w: usize, fb: &[f32]| QN::Leaf {
      ws: (0..TEXT_FIELDS.len()).map(|f| (TEXT_FIELDS[f].to_string(), WORDS[w].to_string(), fb[f])).collect(),
      boost: 1.0,
    };
    match rng.below(4) {
      0 => {
        // query string over the default fields (no field boosts): one leaf per word
        let mut j = json!({"type":"query_string","query": text});
        boost_json(j.as_object_mut().unwrap(), boost);
        let ones = vec![1.0f32; TEXT_FIELDS.len()];
        QN::Alias {
          json: j,
          shape: Box::new(QN::Bool { must: vec![], should: words.iter().map(|w| leaf_for_word(*w, &ones)).collect(), boost }),
        }
      }
      1 => {
        let mut j = json!({"type":"query_string","query": text, "fields": specs});
        boost_json(j.as_object_mut().unwrap(), boost);
        QN::Alias {
          json: j,
          shape: Box::new(QN::Bool { must: vec![], should: words.iter().map(|w| leaf_for_word(*w, &fb)).collect(), boost }),
        }
      }
      2 => {
        // most_fields: one leaf for all words and fields
        let mut j = json!({"type":"multi_match","query": text, "fields": specs, "match_type": "most_fields"});
        boost_json(j.as_object_mut().unwrap(), boost);
        let mut ws = Vec::new();
        for w in &words {
          for f in 0..TEXT_FIELDS.len() {
            ws.push((TEXT_FIELDS[f].to_string(), WORDS[*w].to_string(), fb[f]));
          }
        }
        QN::Alias { json: j, shape: Box::new(QN::Leaf { ws, boost }) }
      }
      _ => {
        // best_fields: one leaf per field, dis_max with tie_breaker
        let tie = *rng.pick(&[0.0f32, 0.25, 0.5, 1.0][..]);
        let mut j = json!({"type":"multi_match","query": text, "fields": specs, "match_type": "best_fields", "tie_breaker": tie});
        boost_json(j.as_object_mut().unwrap(), boost);
        let qs = (0..TEXT_FIELDS.len())
          .map(|f| QN::Leaf {
            ws: words.iter().map(|w| (TEXT_FIELDS[f].to_string(), WORDS[*w].to_string(), fb[f])).collect(),
            boost: 1.0,
          })
          .collect();
        QN::Alias { json: j, shape: Box::new(QN::DisMax { qs, tie, boost }) }
      }
    }
  }

  fn funcs(rng: &mut Rng) -> Vec<Fun> {
    let n = rng.below(4) as usize; // 0 functions is allowed
    (0..n)
      .map(|_| {
        let flt = if rng.chance(1, 3) { Some(rng.below(NFILTERS as u64) as usize) } else { None };
        if rng.chance(1, 2) {
          Fun::Weight { w: *rng.pick(&[2.0f32, 0.5, 3.0, 1.2, 0.0][..]), flt }
        } else {
          Fun::Field {
            fld: rng.below(NUM_FIELDS.len() as u64) as usize,
            factor: *rng.pick(&[1.0f32, 2.0, 0.5][..]),
            recip: rng.chance(1, 4),
            missing: *rng.pick(&[0.0f64, 1.0, 2.5][..]),
            flt,
          }
        }
      })
      .collect()
  }

  /// a node whose boolean matcher the model knows (term, match_all, constant_score,
  /// function_score over those) — safe under optional clauses
  pub fn simple(&mut self, rng: &mut Rng, depth: usize) -> QN {
    match rng.below(8) {
      0 => QN::All,
      1 => QN::Const { flt: rng.below(NFILTERS as u64) as usize, boost: Self::boost(rng) },
      2 if depth > 0 => {
        let inner = match rng.below(3) {
          0 => QN::All,
          _ => self.term(rng),
        };
        QN::Func {
          q: Box::new(inner),
          fs: Self::funcs(rng),
          sm: rng.below(5) as usize,
          bm: rng.below(5) as usize,
          maxb: if rng.chance(1, 3) { Some(*rng.pick(&[1.0f32, 2.5, 4.0][..])) } else { None },
          boost: Self::boost(rng),
        }
      }
      3 => self.multi(rng),
      _ => self.term(rng),
    }
  }

  pub fn node(&mut self, rng: &mut Rng, depth: usize) -> QN {
    if depth == 0 {
      return self.simple(rng, 0);
    }
    match rng.below(10) {
      0 | 1 => {
        let nm = rng.below(3) as usize;
        let ns = rng.below(3) as usize;
        let must: Vec<QN> = (0..nm).map(|_| self.node(rng, depth - 1)).collect();
        let should: Vec<QN> = (0..ns).map(|_| self.simple(rng, depth - 1)).collect();
        if must.is_empty() && should.is_empty() {
          return self.term(rng);
        }
        QN::Bool { must, should, boost: Self::boost(rng) }
      }
      2 => {
        let n = 2 + rng.below(2) as usize;
        let qs: Vec<QN> = (0..n).map(|_| self.simple(rng, depth - 1)).collect();
        QN::DisMax { qs, tie: *rng.pick(&[0.0f32, 0.3, 0.5, 1.0][..]), boost: Self::boost(rng) }
      }
      3 => {
        let inner = self.node(rng, depth - 1);
        QN::Func {
          q: Box::new(inner),
          fs: Self::funcs(rng),
          sm: rng.below(5) as usize,
          bm: rng.below(5) as usize,
          maxb: if rng.chance(1, 3) { Some(*rng.pick(&[1.0f32, 2.5, 4.0][..])) } else { None },
          boost: Self::boost(rng),
        }
      }
      _ => self.simple(rng, depth),
    }
  }
}

// ------------------------------------------------------------------------------------------------
// segment introspection

pub struct DocInfo {
  pub id: u64,
  pub seg: u32,
  pub doc: u32,
  pub deleted: bool,
}

/// every document slot of every segment
pub fn doc_table(reader: &IndexReader) -> Vec<DocInfo> {
  let mut out = Vec::new();
  for (ord, seg) in reader.segments.iter().enumerate() {
    for d in 0..seg.meta.doc_count {
      let id = qx::parse_id(seg.doc_id(d).expect("doc id"));
      out.push(DocInfo { id, seg: ord as u32, doc: d, deleted: seg.is_deleted(d) });
    }
  }
  out
}

pub fn sort_field_kind(f: &str) -> &'static str {
  match f {
    "_score" => "FScore",
    "tag" | "tags" => "FKeyword",
    "n" | "m" => "FI64",
    "x" | "y" => "FF64",
    _ => panic!("unknown sort field {f}"),
  }
}

/// Gallina `rvals` of one plan field of one document, read from the segment's fast fields
pub fn rvals(reader: &IndexReader, seg: u32, doc: u32, field: &str) -> String {
  let ff = reader.segments[seg as usize].fast_fields();
  match sort_field_kind(field) {
    "FScore" => "RNone".into(),
    "FKeyword" => {
      let vs: Vec<String> = ff.str_values(field, doc).iter().map(|s| coq::bytes(s.as_bytes())).collect();
      format!("(RStr {})", coq::list(&vs))
    }
    "FI64" => {
      let vs: Vec<String> = ff.i64_values(field, doc).iter().map(|v| coq::z(*v)).collect();
      format!("(RI64 {})", coq::list(&vs))
    }
    _ => {
      let vs: Vec<String> = ff.f64_values(field, doc).iter().map(|v| format!("{}", v.to_bits())).collect();
      format!("(RF64 {})", coq::list(&vs))
    }
  }
}

/// does the document pass pool filter `i` (own evaluation over the stored fast values of the
/// single-valued fields n, tag, x)
pub fn passes(reader: &IndexReader, seg: u32, doc: u32, i: usize) -> bool {
  let ff = reader.segments[seg as usize].fast_fields();
  match i {
    0 => ff.i64_values("n", doc).iter().any(|v| (-1..=1).contains(v)),
    1 => ff.str_values("tag", doc).iter().any(|s| *s == "a" || *s == "b"),
    2 => ff.str_values("tag", doc).iter().any(|s| *s == "c"),
    _ => ff.f64_values("x", doc).iter().any(|v| (0.0..=1.0).contains(v)),
  }
}

/// Gallina `sdoc` of one document for the given term keys
pub fn sdoc(reader: &IndexReader, seg: u32, doc: u32, keys: &[String], postings: &BTreeMap<(u32, usize), Vec<(u32, u32)>>) -> String {
  let sr = &reader.segments[seg as usize];
  let ff = sr.fast_fields();
  let mut ts = Vec::new();
  for (ki, key) in keys.iter().enumerate() {
    if let Some(p) = postings.get(&(seg, ki)) {
      if let Some((_, tf)) = p.iter().find(|(d, _)| *d == doc) {
        let field = key.split(':').next().unwrap();
        let dl = ff.i64_value(&doc_length_key(field), doc).unwrap_or(0).max(0);
        ts.push(format!("{{| ts_key := {ki}; ts_tf := {tf}; ts_dl := {dl} |}}"));
      }
    }
  }
  let flags: Vec<&str> = (0..NFILTERS).map(|i| coq::b(passes(reader, seg, doc, i))).collect();
  let nums: Vec<String> = NUM_FIELDS
    .iter()
    .map(|f| {
      let v = ff.f64_value(f, doc).or_else(|| ff.i64_value(f, doc).map(|v| v as f64));
      coq::opt(v.map(q_of_f64))
    })
    .collect();
  format!(
    "{{| sd_terms := {}; sd_flags := {}; sd_nums := {}; sd_oracle := [] |}}",
    coq::list(&ts),
    coq::list(&flags),
    coq::list(&nums)
  )
}

/// postings of every key in every segment: (segment, key index) -> [(doc, tf)]
pub fn postings_of(reader: &IndexReader, keys: &[String]) -> BTreeMap<(u32, usize), Vec<(u32, u32)>> {
  let mut out = BTreeMap::new();
  for (ord, seg) in reader.segments.iter().enumerate() {
    for (ki, key) in keys.iter().enumerate() {
      if let Some(p) = seg.postings(key) {
        out.insert((ord as u32, ki), p.iter().map(|e| (e.doc_id, e.term_freq)).collect());
      }
    }
  }
  out
}

/// Gallina `segstat` list; idf computed here in f64 from (live docs, df) — the oracle the model
/// re-checks with `idf_plausible`
pub fn segstats(reader: &IndexReader, keys: &[String], postings: &BTreeMap<(u32, usize), Vec<(u32, u32)>>) -> String {
  let mut segs = Vec::new();
  for (ord, seg) in reader.segments.iter().enumerate() {
    let docs = seg.live_docs();
    let mut ks = Vec::new();
    for (ki, key) in keys.iter().enumerate() {
      if let Some(p) = postings.get(&(ord as u32, ki)) {
        let df = p.len() as f64;
        let idf = ((docs as f64 - df + 0.5) / (df + 0.5)).ln().max(0.0) + 1.0;
        let field = key.split(':').next().unwrap();
        ks.push(format!(
          "{{| ks_key := {ki}; ks_df := {}; ks_avgdl := {}; ks_idf := {} |}}",
          p.len(),
          q_of_f32(seg.avg_field_length(field)),
          q_of_f64(idf)
        ));
      }
    }
    segs.push(format!("{{| sg_docs := {docs}; sg_keys := {} |}}", coq::list(&ks)));
  }
  coq::list(&segs)
}

pub fn plan_coq(sort: &[Value]) -> String {
  let fs: Vec<String> = sort
    .iter()
    .map(|s| {
      let f = s["field"].as_str().unwrap();
      let ord = match s.get("order").and_then(|o| o.as_str()) {
        Some("asc") => "Asc",
        Some("desc") => "Desc",
        _ => {
          if f == "_score" {
            "Desc"
          } else {
            "Asc"
          }
        }
      };
      format!("{{| pf_kind := {}; pf_order := {ord} |}}", sort_field_kind(f))
    })
    .collect();
  coq::list(&fs)
}

pub fn sort_uses_score(sort: &[Value]) -> bool {
  sort.is_empty() || sort.iter().any(|s| s["field"] == "_score")
}
