//! Printers for Gallina literals (N scope is open in the generated files).

pub fn n(v: u64) -> String {
  format!("{v}")
}

pub fn z(v: i64) -> String {
  if v < 0 {
    format!("({v})%Z")
  } else {
    format!("{v}%Z")
  }
}

pub fn b(v: bool) -> &'static str {
  if v {
    "true"
  } else {
    "false"
  }
}

pub fn list<T: AsRef<str>>(xs: &[T]) -> String {
  let mut s = String::from("[");
  for (i, x) in xs.iter().enumerate() {
    if i > 0 {
      s.push_str("; ");
    }
    s.push_str(x.as_ref());
  }
  s.push(']');
  s
}

pub fn bytes(xs: &[u8]) -> String {
  let v: Vec<String> = xs.iter().map(|x| x.to_string()).collect();
  list(&v)
}

pub fn nlist(xs: &[u64]) -> String {
  let v: Vec<String> = xs.iter().map(|x| x.to_string()).collect();
  list(&v)
}

pub fn opt(x: Option<String>) -> String {
  match x {
    Some(s) => format!("(Some {s})"),
    None => "None".into(),
  }
}

pub fn pair(a: &str, b: &str) -> String {
  format!("({a}, {b})")
}
