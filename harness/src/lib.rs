//! Shared pieces of the correspondence harness: deterministic PRNG, Gallina literal printers,
//! fixtures.  Every random choice of every engine derives from one `Rng` seeded from
//! `VERIF_SEED`, so a disagreement replays exactly.

pub mod coq;
pub mod rng;
pub mod fixtures;
pub mod qx;
pub mod hist;
pub mod crashfs;
pub mod faulty;
pub mod walcodec;
pub mod aggworld;
pub mod http;
pub mod sched;
pub mod sortworld;

pub use rng::Rng;

use std::collections::BTreeMap;

/// Common CLI: `--seed N --n N --out DIR [--tier quick|thorough] [--replay FILE]`
pub struct Args {
  pub seed: u64,
  pub n: usize,
  pub out: std::path::PathBuf,
  pub tier: String,
  pub replay: Option<std::path::PathBuf>,
  pub extra: BTreeMap<String, String>,
}

pub fn parse_args() -> Args {
  let mut a = Args {
    seed: 1,
    n: 100,
    out: std::path::PathBuf::from("."),
    tier: "quick".into(),
    replay: None,
    extra: BTreeMap::new(),
  };
  let v: Vec<String> = std::env::args().skip(1).collect();
  let mut i = 0;
  while i < v.len() {
    let k = v[i].clone();
    let val = v.get(i + 1).cloned().unwrap_or_default();
    match k.as_str() {
      "--seed" => a.seed = val.parse().expect("seed"),
      "--n" => a.n = val.parse().expect("n"),
      "--out" => a.out = val.into(),
      "--tier" => a.tier = val,
      "--replay" => a.replay = Some(val.into()),
      other => {
        a.extra.insert(other.trim_start_matches("--").to_string(), val);
      }
    }
    i += 2;
  }
  std::fs::create_dir_all(&a.out).expect("out dir");
  a
}

/// Writes the case shards and the JSON side file.
/// `header` = the `Require` lines and anything else before the case list;
/// `ty` = Gallina type of one case; `chk` = name of the `check_case` function.
pub fn write_cases(
  out: &std::path::Path,
  header: &str,
  ty: &str,
  chk: &str,
  cases: &[String],
  shard: usize,
) -> Vec<String> {
  let mut files = Vec::new();
  for (k, chunk) in cases.chunks(shard.max(1)).enumerate() {
    let name = format!("cases_{k}.v");
    let mut s = String::new();
    s.push_str("From Coq Require Import List NArith ZArith Bool.\nImport ListNotations.\n");
    s.push_str("From SL Require Import Base.Tie.\n");
    s.push_str(header);
    s.push_str("\nOpen Scope N_scope.\n");
    s.push_str(&format!("Definition cases : list ({ty}) := [\n"));
    s.push_str(&chunk.join(";\n"));
    s.push_str("\n].\n");
    s.push_str(&format!(
      "Eval vm_compute in (report_from {chk} {} cases).\n",
      k * shard.max(1)
    ));
    std::fs::write(out.join(&name), s).expect("write cases");
    files.push(name);
  }
  files
}

pub fn write_json(out: &std::path::Path, name: &str, v: &serde_json::Value) {
  std::fs::write(out.join(name), serde_json::to_vec_pretty(v).unwrap()).expect("write json");
}
