/// splitmix64 — small, deterministic, no dependency.
#[derive(Clone)]
pub struct Rng(pub u64);

impl Rng {
  pub fn new(seed: u64) -> Self {
    // scramble the seed so that neighbouring seeds give unrelated streams
    let mut z = seed.wrapping_add(0xD1B54A32D192ED03).wrapping_mul(0x9E3779B97F4A7C15);
    z = (z ^ (z >> 30)).wrapping_mul(0xBF58476D1CE4E5B9);
    z = (z ^ (z >> 27)).wrapping_mul(0x94D049BB133111EB);
    Rng(z ^ (z >> 31))
  }
  pub fn next(&mut self) -> u64 {
    self.0 = self.0.wrapping_add(0x9E3779B97F4A7C15);
    let mut z = self.0;
    z = (z ^ (z >> 30)).wrapping_mul(0xBF58476D1CE4E5B9);
    z = (z ^ (z >> 27)).wrapping_mul(0x94D049BB133111EB);
    z ^ (z >> 31)
  }
  /// uniform in 0..n (n > 0)
  pub fn below(&mut self, n: u64) -> u64 {
    self.next() % n.max(1)
  }
  pub fn range(&mut self, lo: i64, hi_incl: i64) -> i64 {
    lo + self.below((hi_incl - lo + 1) as u64) as i64
  }
  pub fn chance(&mut self, num: u64, den: u64) -> bool {
    self.below(den) < num
  }
  pub fn pick<'a, T>(&mut self, xs: &'a [T]) -> &'a T {
    &xs[self.below(xs.len() as u64) as usize]
  }
  pub fn fork(&mut self) -> Rng {
    Rng::new(self.next())
  }
}
