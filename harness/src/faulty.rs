//! Fault-injecting `Storage` (C03): wraps `InMemoryStorage`, counts every storage / file call and
//! fails chosen ones either before or after their effect.
use anyhow::{anyhow, Result};
use parking_lot::Mutex;
use searchlite_core::storage::{DynFile, InMemoryStorage, Storage, StorageFile};
use std::io::{Read, Seek, SeekFrom, Write};
use std::path::{Path, PathBuf};
use std::sync::Arc;

#[derive(Clone, Debug, PartialEq, Eq)]
pub enum When {
  Before,
  After,
}

#[derive(Default)]
pub struct Ctl {
  pub enabled: bool,
  pub count: usize,
  pub faults: Vec<(usize, When)>,
  /// (call index, label) of every counted call
  pub log: Vec<(usize, String)>,
  pub fired: Vec<(usize, String, When)>,
}

pub type Shared = Arc<Mutex<Ctl>>;

pub struct FaultyStorage {
  inner: InMemoryStorage,
  pub ctl: Shared,
}

fn leaf(p: &Path) -> String {
  let n = p.file_name().map(|s| s.to_string_lossy().to_string()).unwrap_or_default();
  if n == "MANIFEST.json" || n == "wal.log" {
    n
  } else if let Some(ext) = n.rsplit('.').next() {
    format!("seg.{ext}")
  } else {
    n
  }
}

/// returns (fail_before, fail_after)
fn gate(ctl: &Shared, label: String) -> (bool, bool) {
  let mut c = ctl.lock();
  if !c.enabled {
    return (false, false);
  }
  let i = c.count;
  c.count += 1;
  c.log.push((i, label.clone()));
  let hit = c.faults.iter().find(|(k, _)| *k == i).map(|(_, w)| w.clone());
  match hit {
    Some(w) => {
      c.fired.push((i, label, w.clone()));
      (w == When::Before, w == When::After)
    }
    None => (false, false),
  }
}

fn injected() -> anyhow::Error {
  anyhow!("injected storage fault")
}
fn injected_io() -> std::io::Error {
  std::io::Error::new(std::io::ErrorKind::Other, "injected storage fault")
}

impl FaultyStorage {
  pub fn new(root: PathBuf) -> (Arc<Self>, Shared) {
    let ctl: Shared = Arc::new(Mutex::new(Ctl::default()));
    (Arc::new(Self { inner: InMemoryStorage::new(root), ctl: ctl.clone() }), ctl)
  }
  fn wrap(&self, f: DynFile, path: &Path) -> DynFile {
    Box::new(FaultyFile { inner: f, ctl: self.ctl.clone(), name: leaf(path) })
  }
}

macro_rules! guarded {
  ($self:ident, $label:expr, $body:expr) => {{
    let (b, a) = gate(&$self.ctl, $label);
    if b {
      return Err(injected());
    }
    let r = $body;
    if a {
      return Err(injected());
    }
    r
  }};
}

impl Storage for FaultyStorage {
  fn root(&self) -> &Path {
    self.inner.root()
  }
  fn ensure_dir(&self, path: &Path) -> Result<()> {
    self.inner.ensure_dir(path)
  }
  fn exists(&self, path: &Path) -> bool {
    self.inner.exists(path)
  }
  fn open_read(&self, path: &Path) -> Result<DynFile> {
    let f = guarded!(self, format!("open_read {}", leaf(path)), self.inner.open_read(path))?;
    Ok(self.wrap(f, path))
  }
  fn open_write(&self, path: &Path) -> Result<DynFile> {
    let f = guarded!(self, format!("open_write {}", leaf(path)), self.inner.open_write(path))?;
    Ok(self.wrap(f, path))
  }
  fn open_append(&self, path: &Path) -> Result<DynFile> {
    let f = guarded!(self, format!("open_append {}", leaf(path)), self.inner.open_append(path))?;
    Ok(self.wrap(f, path))
  }
  fn read_to_end(&self, path: &Path) -> Result<Vec<u8>> {
    guarded!(self, format!("read_to_end {}", leaf(path)), self.inner.read_to_end(path))
  }
  fn write_all(&self, path: &Path, data: &[u8]) -> Result<()> {
    guarded!(self, format!("write_all {}", leaf(path)), self.inner.write_all(path, data))
  }
  fn atomic_write(&self, path: &Path, data: &[u8]) -> Result<()> {
    guarded!(self, format!("atomic_write {}", leaf(path)), self.inner.atomic_write(path, data))
  }
  fn remove(&self, path: &Path) -> Result<()> {
    guarded!(self, format!("remove {}", leaf(path)), self.inner.remove(path))
  }
  fn remove_dir_all(&self, path: &Path) -> Result<()> {
    self.inner.remove_dir_all(path)
  }
}

struct FaultyFile {
  inner: DynFile,
  ctl: Shared,
  name: String,
}

impl Read for FaultyFile {
  fn read(&mut self, buf: &mut [u8]) -> std::io::Result<usize> {
    // reads are counted once per handle through open_read / read_to_end, not per chunk
    self.inner.read(buf)
  }
}
impl Write for FaultyFile {
  fn write(&mut self, buf: &[u8]) -> std::io::Result<usize> {
    let (b, a) = gate(&self.ctl, format!("write {}", self.name));
    if b {
      return Err(injected_io());
    }
    let n = self.inner.write(buf)?;
    if a {
      return Err(injected_io());
    }
    Ok(n)
  }
  fn flush(&mut self) -> std::io::Result<()> {
    self.inner.flush()
  }
}
impl Seek for FaultyFile {
  fn seek(&mut self, pos: SeekFrom) -> std::io::Result<u64> {
    self.inner.seek(pos)
  }
}
impl StorageFile for FaultyFile {
  fn set_len(&mut self, len: u64) -> Result<()> {
    let (b, a) = gate(&self.ctl, format!("set_len {}", self.name));
    if b {
      return Err(injected());
    }
    self.inner.set_len(len)?;
    if a {
      return Err(injected());
    }
    Ok(())
  }
  fn sync_all(&mut self) -> Result<()> {
    let (b, a) = gate(&self.ctl, format!("sync {}", self.name));
    if b {
      return Err(injected());
    }
    self.inner.sync_all()?;
    if a {
      return Err(injected());
    }
    Ok(())
  }
}
