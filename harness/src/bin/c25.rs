//! C25 engine: the same generated scripts and request files through the CLI binary, a live HTTP
//! server, the C FFI — and, as the translated API calls, through the library on a second index.
//! Canonical JSON of index contents and of every search result is compared pairwise here
//! (`same`); the abstract outcomes go to C25/Model.v.
use serde_json::{json, Value};
use slv::http::{self, Server};
use slv::{coq, parse_args, write_cases, write_json, Rng};
use std::collections::BTreeMap;
use std::ffi::CString;
use std::os::raw::c_char;
use std::path::{Path, PathBuf};
use std::process::Command;

use searchlite_core::api::builder::IndexBuilder;
use searchlite_core::api::types::{Aggregation, Document, ExecutionStrategy, IndexOptions, Query, QueryNode, SearchRequest, SortOrder, SortSpec, StorageType};
use searchlite_core::{Index, Schema};
use searchlite_ffi::{searchlite_add_json, searchlite_commit, searchlite_index_close, searchlite_index_open, searchlite_search};

const NIDS: u64 = 5;

/// External form of document id number `i`. Every fourth id contains an inner blank: an id is one
/// string for every front end, whatever characters it holds.
fn id_str(i: u64) -> String {
  if i % 4 == 3 { format!("d{i} x") } else { format!("d{i}") }
}

fn id_num(s: &str) -> Option<u64> {
  let t = s.strip_prefix('d')?;
  let t = t.strip_suffix(" x").unwrap_or(t);
  let i = t.parse::<u64>().ok()?;
  if id_str(i) == s { Some(i) } else { None }
}

fn opts(path: &Path, create: bool) -> IndexOptions {
  IndexOptions {
    path: path.to_path_buf(),
    create_if_missing: create,
    enable_positions: true,
    bm25_k1: 0.9,
    bm25_b: 0.4,
    storage: StorageType::Filesystem,
    vector_defaults: None,
  }
}

fn schema() -> Schema {
  serde_json::from_value(http::schema_json()).expect("schema")
}

fn create_index(path: &Path) {
  IndexBuilder::create(path, schema(), opts(path, true)).expect("create index");
}

fn good_json(i: u64, v: u64) -> Value {
  json!({"_id": id_str(i), "body": format!("w{v} common rust"), "tag": if v % 2 == 0 { "t" } else { "u" }, "n": v})
}

fn invalid_json(rng: &mut Rng) -> Value {
  let i = rng.below(NIDS);
  match rng.below(6) {
    5 => json!({"_id": id_str(i), "boty": "a field the schema does not have"}),
    0 => json!({"body": "no id"}),
    1 => json!({"_id": "", "body": "x"}),
    2 => json!({"_id": id_str(i), "n": "x"}),
    3 => json!({"_id": id_str(i), "body": 5}),
    _ => json!({"_id": 7}),
  }
}

fn to_doc(v: &Value) -> Document {
  let mut fields = BTreeMap::new();
  if let Some(o) = v.as_object() {
    for (k, x) in o {
      fields.insert(k.clone(), x.clone());
    }
  }
  Document { fields }
}

// ------------------------------------------------------------------------------ the library side

#[derive(Clone, Debug)]
enum Call {
  Add(Value, bool), // document JSON (or a non-object = empty document), expected validity
  Delete(Vec<u64>),
  Commit,
  Compact,
  Search,
}

#[allow(dead_code)]
fn call_coq(c: &Call) -> String {
  match c {
    Call::Add(d, true) => {
      let i = id_num(d["_id"].as_str().unwrap()).unwrap();
      format!("ApiAdd (VGood {i} {})", d["n"].as_u64().unwrap())
    }
    Call::Add(_, false) => "ApiAdd VInvalid".into(),
    Call::Delete(ids) => format!("ApiDelete {}", coq::nlist(ids)),
    Call::Commit => "ApiCommit".into(),
    Call::Compact => "ApiCompact".into(),
    Call::Search => "ApiSearch".into(),
  }
}

/// The search requests compared at every search point (R0 = the whole contents).
fn probe_requests(rng: &mut Rng) -> Vec<Value> {
  let mut v = vec![json!({"query": {"type": "match_all"}, "limit": 1000, "return_stored": true, "sort": [{"field": "n", "order": "asc"}]})];
  let pool = [
    json!({"query": "common", "limit": 3, "return_stored": true}),
    json!({"query": "w3 OR rust", "limit": 5, "return_stored": false, "sort": [{"field": "n", "order": "desc"}]}),
    json!({"query": {"type": "term", "field": "tag", "value": "t"}, "limit": 2, "return_stored": false, "aggs": {"c": {"type": "terms", "field": "tag"}}}),
    json!({"query": "rust", "limit": 4, "return_stored": true, "execution": "bm25", "highlight_field": "body"}),
    json!({"query": "common", "limit": 2, "return_stored": true, "sort": [{"field": "nope"}]}),
  ];
  let a = rng.below(pool.len() as u64) as usize;
  let b = (a + 1 + rng.below(pool.len() as u64 - 1) as usize) % pool.len();
  v.push(pool[a].clone());
  v.push(pool[b].clone());
  v
}

/// (id, n) sorted, from a match_all result with stored fields.
fn hits_of(result: &Value) -> Option<Vec<(u64, u64)>> {
  let mut m = Vec::new();
  for h in result.get("hits")?.as_array()? {
    let id = id_num(h.get("doc_id")?.as_str()?)?;
    let n = h.pointer("/fields/n")?.as_u64()?;
    m.push((id, n));
  }
  m.sort();
  Some(m)
}

fn hits_coq(m: &[(u64, u64)]) -> String {
  let v: Vec<String> = m.iter().map(|(i, n)| format!("({i}, {n})")).collect();
  coq::list(&v)
}

/// Result of one search through some front end: Ok(json) or Err(()) when it failed.
type SearchOut = Result<Value, ()>;

fn lib_search(index: &Path, req: &Value) -> SearchOut {
  let r: SearchRequest = serde_json::from_value(req.clone()).map_err(|_| ())?;
  let idx = Index::open(opts(index, false)).map_err(|_| ())?;
  let reader = idx.reader().map_err(|_| ())?;
  let res = reader.search(&r).map_err(|_| ())?;
  serde_json::to_string(&res).map_err(|_| ()).and_then(|t| serde_json::from_str(&t).map_err(|_| ())) // through text, as every front end does (f32 scores)
}

/// Runs the calls of one front-end command with one writer, as a library user would.
/// Returns the api_result literals and, for searches, the probe results.
fn lib_exec(index: &Path, calls: &[Call], probes: &[Value], out: &mut Vec<String>, searches: &mut Vec<Vec<SearchOut>>) {
  if calls.is_empty() {
    return;
  }
  let idx = Index::open(opts(index, false)).expect("lib open");
  let needs_writer = calls.iter().any(|c| matches!(c, Call::Add(..) | Call::Delete(_) | Call::Commit));
  let mut writer = if needs_writer { Some(idx.writer().expect("lib writer")) } else { None };
  for c in calls {
    match c {
      Call::Add(d, _) => {
        let r = writer.as_mut().unwrap().add_document(&to_doc(d));
        out.push(if r.is_ok() { "AOk".into() } else { "AErr".into() });
      }
      Call::Delete(ids) => {
        let ids: Vec<String> = ids.iter().map(|i| id_str(*i)).collect();
        let r = writer.as_mut().unwrap().delete_documents(&ids);
        out.push(if r.is_ok() { "AOk".into() } else { "AErr".into() });
      }
      Call::Commit => {
        let r = writer.as_mut().unwrap().commit();
        out.push(if r.is_ok() { "AOk".into() } else { "AErr".into() });
      }
      Call::Compact => {
        drop(writer.take());
        let r = idx.compact();
        out.push(if r.is_ok() { "AOk".into() } else { "AErr".into() });
      }
      Call::Search => {
        let rs: Vec<SearchOut> = probes.iter().map(|p| lib_search(index, p)).collect();
        let hits = rs[0].as_ref().ok().and_then(hits_of);
        out.push(match hits {
          Some(m) => format!("AHits {}", hits_coq(&m)),
          None => "AErr".into(),
        });
        searches.push(rs);
      }
    }
  }
}

// ------------------------------------------------------------------------------ script generation

#[derive(Clone, Debug)]
enum LineK {
  Blank(String),
  BadJson(String),
  NotObject(String),
  Good(u64, u64),
  Invalid(Value),
}

fn line_text(l: &LineK) -> String {
  match l {
    LineK::Blank(s) | LineK::BadJson(s) | LineK::NotObject(s) => s.clone(),
    LineK::Good(i, v) => good_json(*i, *v).to_string(),
    LineK::Invalid(d) => d.to_string(),
  }
}

fn line_coq(l: &LineK) -> String {
  match l {
    LineK::Blank(_) => "LBlank".into(),
    LineK::BadJson(_) => "LBadJson".into(),
    LineK::NotObject(_) => "LNotObject".into(),
    LineK::Good(i, v) => format!("LDoc (VGood {i} {v})"),
    LineK::Invalid(_) => "LDoc VInvalid".into(),
  }
}

fn gen_lines(rng: &mut Rng, ver: &mut u64, p_bad: u64) -> Vec<LineK> {
  let n = 1 + rng.below(4);
  let mut v = Vec::new();
  for _ in 0..n {
    *ver += 1;
    v.push(LineK::Good(rng.below(NIDS), *ver));
  }
  if rng.chance(p_bad, 100) {
    let pos = rng.below(v.len() as u64 + 1) as usize;
    let l = match rng.below(4) {
      0 => LineK::BadJson(rng.pick(&["{\"_id\": \"d1\"", "not json"][..]).to_string()),
      1 => LineK::NotObject(rng.pick(&["[1,2]", "\"str\"", "42"][..]).to_string()),
      _ => LineK::Invalid(invalid_json(rng)),
    };
    v.insert(pos, l);
  }
  if rng.chance(1, 4) {
    let pos = rng.below(v.len() as u64 + 1) as usize;
    v.insert(pos, LineK::Blank(rng.pick(&["", "   "][..]).to_string()));
  }
  v
}

// ------------------------------------------------------------------------------ CLI

struct Cli {
  bin: PathBuf,
}

impl Cli {
  fn run(&self, args: &[&str]) -> (bool, String) {
    let out = Command::new(&self.bin).args(args).env_remove("RUST_LOG").output().expect("spawn searchlite-cli");
    (out.status.success(), String::from_utf8_lossy(&out.stdout).to_string())
  }
  fn search_file(&self, index: &Path, scratch: &Path, req: &Value) -> SearchOut {
    let f = scratch.join("request.json");
    std::fs::write(&f, req.to_string()).unwrap();
    let (ok, stdout) = self.run(&["search", &index.to_string_lossy(), "--request", &f.to_string_lossy()]);
    if !ok {
      return Err(());
    }
    serde_json::from_str(&stdout).map_err(|_| ())
  }
}

fn compare_searches(a: &[Vec<SearchOut>], b: &[Vec<SearchOut>]) -> (bool, Option<String>) {
  if a.len() != b.len() {
    return (false, Some(format!("{} search points vs {}", a.len(), b.len())));
  }
  for (k, (x, y)) in a.iter().zip(b.iter()).enumerate() {
    for (j, (p, q)) in x.iter().zip(y.iter()).enumerate() {
      if p != q {
        return (false, Some(format!("search point {k} probe {j}: front end {:?} vs library {:?}", p.as_ref().map(|v| v.to_string()), q.as_ref().map(|v| v.to_string()))));
      }
    }
  }
  (true, None)
}

fn case_cli(rng: &mut Rng, cli: &Cli) -> (String, Value, bool) {
  let dir = slv::fixtures::scratch();
  let (a, b) = (dir.path().join("front"), dir.path().join("lib"));
  let sp = dir.path().join("schema.json");
  std::fs::write(&sp, http::schema_json().to_string()).unwrap();
  let (ok, _) = cli.run(&["init", &a.to_string_lossy(), &sp.to_string_lossy()]);
  assert!(ok, "cli init failed");
  create_index(&b);
  let probes = probe_requests(rng);
  let mut ver = 0u64;
  let n = 5 + rng.below(7);
  let mut cmds: Vec<String> = Vec::new();
  let mut obs: Vec<String> = Vec::new();
  let mut lib: Vec<String> = Vec::new();
  let (mut fs, mut ls): (Vec<Vec<SearchOut>>, Vec<Vec<SearchOut>>) = (Vec::new(), Vec::new());
  let mut log: Vec<Value> = Vec::new();
  let mut script: Vec<u64> = (0..n).map(|_| rng.below(100)).collect();
  script.push(60); // commit
  script.push(90); // search
  let mut nt = false;
  for sel in script {
    let mut calls: Vec<Call> = Vec::new();
    match sel {
      0..=39 => {
        let lines = gen_lines(rng, &mut ver, 40);
        let text: String = lines.iter().map(|l| line_text(l) + "\n").collect();
        let f = dir.path().join("docs.jsonl");
        std::fs::write(&f, &text).unwrap();
        let sub = if rng.chance(1, 3) { "update" } else { "add" };
        let (ok, _) = cli.run(&[sub, &a.to_string_lossy(), &f.to_string_lossy()]);
        // mirror of cli_add_calls
        for l in &lines {
          match l {
            LineK::Blank(_) => continue,
            LineK::BadJson(_) => break,
            LineK::NotObject(s) => {
              calls.push(Call::Add(serde_json::from_str(s).unwrap(), false));
              break;
            }
            LineK::Good(i, v) => calls.push(Call::Add(good_json(*i, *v), true)),
            LineK::Invalid(d) => {
              calls.push(Call::Add(d.clone(), false));
              break;
            }
          }
        }
        if !ok && calls.iter().any(|c| matches!(c, Call::Add(_, true))) {
          nt = true;
        }
        let lc: Vec<String> = lines.iter().map(line_coq).collect();
        cmds.push(format!("CliAdd {}", coq::list(&lc)));
        obs.push(format!("CExit {ok}"));
        log.push(json!({"cmd": sub, "file": text, "exit_ok": ok}));
      }
      40..=54 => {
        let k = 1 + rng.below(3);
        let mut lines: Vec<(String, String)> = (0..k).map(|_| { let i = rng.below(NIDS + 1); (format!("ILId {i}"), format!(" {} ", id_str(i))) }).collect();
        match rng.below(6) {
          0 => lines.insert(rng.below(lines.len() as u64 + 1) as usize, ("ILControl".into(), "d1\u{0007}x".into())),
          1 => lines = vec![("ILBlank".into(), "  ".into())],
          2 => lines.insert(0, ("ILBlank".into(), "".into())),
          _ => {}
        }
        let text: String = lines.iter().map(|l| l.1.clone() + "\n").collect();
        let f = dir.path().join("ids.txt");
        std::fs::write(&f, &text).unwrap();
        let (ok, _) = cli.run(&["delete", &a.to_string_lossy(), &f.to_string_lossy()]);
        let has_ctrl = lines.iter().any(|l| l.0 == "ILControl");
        let ids: Vec<u64> = lines.iter().filter(|l| l.0.starts_with("ILId")).map(|l| l.0[5..].parse().unwrap()).collect();
        if !has_ctrl && !ids.is_empty() {
          calls.push(Call::Delete(ids));
        }
        let lc: Vec<String> = lines.iter().map(|l| l.0.clone()).collect();
        cmds.push(format!("CliDelete {}", coq::list(&lc)));
        obs.push(format!("CExit {ok}"));
        log.push(json!({"cmd": "delete", "file": text, "exit_ok": ok}));
      }
      55..=74 => {
        let (ok, _) = cli.run(&["commit", &a.to_string_lossy()]);
        calls.push(Call::Commit);
        cmds.push("CliCommit".into());
        obs.push(format!("CExit {ok}"));
        log.push(json!({"cmd": "commit", "exit_ok": ok}));
      }
      75..=84 => {
        let (ok, _) = cli.run(&["compact", &a.to_string_lossy()]);
        calls.push(Call::Compact);
        cmds.push("CliCompact".into());
        obs.push(format!("CExit {ok}"));
        log.push(json!({"cmd": "compact", "exit_ok": ok}));
      }
      _ => {
        let rs: Vec<SearchOut> = probes.iter().map(|p| cli.search_file(&a, dir.path(), p)).collect();
        let hits = rs[0].as_ref().ok().and_then(hits_of);
        calls.push(Call::Search);
        cmds.push("CliSearch".into());
        obs.push(match &hits {
          Some(m) => format!("CHits {}", hits_coq(m)),
          None => "CExit false".into(),
        });
        log.push(json!({"cmd": "search", "hits": hits.map(|m| hits_coq(&m))}));
        fs.push(rs);
      }
    }
    lib_exec(&b, &calls, &probes, &mut lib, &mut ls);
  }
  let (same, why) = compare_searches(&fs, &ls);
  let lit = format!("CaseCli {} {} {} {}", coq::list(&cmds), coq::list(&obs), coq::list(&lib), same);
  (lit, json!({"front": "cli", "script": log, "probes": probes, "same": same, "difference": why, "nt": nt}), nt)
}

// ------------------------------------------------------------------------------ HTTP

fn http_search(port: u16, req: &Value) -> SearchOut {
  match http::post_json(port, "/search", &req.to_string()) {
    Ok(r) if r.status == 200 => r.json().ok_or(()),
    _ => Err(()),
  }
}

fn case_http(rng: &mut Rng, rt: &tokio::runtime::Runtime) -> (String, Value, bool) {
  let dir = slv::fixtures::scratch();
  let (a, b) = (dir.path().join("front"), dir.path().join("lib"));
  let srv = Server::start(rt, &a, &[]);
  let init = http::post_json(srv.port, "/init", &http::schema_json().to_string());
  assert!(matches!(&init, Ok(r) if r.status == 200), "http init failed");
  create_index(&b);
  let probes = probe_requests(rng);
  let mut ver = 0u64;
  let n = 5 + rng.below(8);
  let mut script: Vec<u64> = (0..n).map(|_| rng.below(100)).collect();
  script.push(60);
  script.push(95);
  let (mut cmds, mut obs, mut lib) = (Vec::new(), Vec::new(), Vec::new());
  let (mut fs, mut ls): (Vec<Vec<SearchOut>>, Vec<Vec<SearchOut>>) = (Vec::new(), Vec::new());
  let mut log: Vec<Value> = Vec::new();
  let mut nt = false;
  let answer = |r: &Result<http::Reply, http::NoReply>| -> String {
    match r {
      Ok(r) => {
        let j = r.json().unwrap_or(Value::Null);
        if r.status == 200 {
          if let Some(n) = j.get("queued").and_then(|v| v.as_u64()) {
            return format!("Queued {n}");
          }
          for (k, lit) in [("committed", "Committed"), ("refreshed", "Refreshed"), ("compacted", "Compacted")] {
            if j.get(k) == Some(&json!(true)) {
              return lit.into();
            }
          }
          return "Other 200".into();
        }
        let k = match j.pointer("/error/type").and_then(|v| v.as_str()) {
          Some("invalid_document") => "EInvalidDocument",
          Some("add_failed") => "EAddFailed",
          Some("invalid_request") => "EInvalidRequest",
          Some("missing_documents") => "EMissingDocuments",
          Some("missing_ids") => "EMissingIds",
          Some("invalid_id") => "EInvalidId",
          _ => "EOtherKind",
        };
        format!("Rejected {} {k}", r.status)
      }
      Err(_) => "Other 0".into(),
    }
  };
  for sel in script {
    let mut calls: Vec<Call> = Vec::new();
    match sel {
      0..=24 | 25..=44 => {
        let bulk = sel >= 25;
        let mut lines = gen_lines(rng, &mut ver, 35);
        if bulk {
          lines.retain(|l| !matches!(l, LineK::Blank(_) | LineK::BadJson(_)));
        }
        let accepted = lines.iter().all(|l| matches!(l, LineK::Good(..) | LineK::Blank(_)));
        if accepted {
          for l in &lines {
            if let LineK::Good(i, v) = l {
              calls.push(Call::Add(good_json(*i, *v), true));
            }
          }
        } else if lines.iter().any(|l| matches!(l, LineK::Good(..))) {
          nt = true;
        }
        let reply = if bulk {
          let docs: Vec<Value> = lines.iter().map(|l| serde_json::from_str::<Value>(&line_text(l)).unwrap()).collect();
          let items: Vec<String> = lines
            .iter()
            .map(|l| match l {
              LineK::NotObject(_) => "BNotObject".to_string(),
              LineK::Good(i, v) => format!("BDoc (VGood {i} {v})"),
              _ => "BDoc VInvalid".to_string(),
            })
            .collect();
          cmds.push(format!("RBulk (Some {})", coq::list(&items)));
          http::post_json(srv.port, "/bulk", &json!({ "docs": docs }).to_string())
        } else {
          let text: String = lines.iter().map(|l| line_text(l) + "\n").collect();
          let lc: Vec<String> = lines.iter().map(line_coq).collect();
          cmds.push(format!("RAdd {}", coq::list(&lc)));
          http::request(srv.port, "POST", "/add", &[("Content-Type", "application/x-ndjson")], text.as_bytes())
        };
        let a = answer(&reply);
        log.push(json!({"cmd": if bulk { "/bulk" } else { "/add" }, "class": cmds.last(), "answer": a}));
        obs.push(a);
      }
      45..=56 => {
        let k = 1 + rng.below(3);
        let mut ids: Vec<(String, String)> = (0..k).map(|_| { let i = rng.below(NIDS + 1); (format!("IdOk {i}"), id_str(i)) }).collect();
        if rng.chance(1, 4) {
          ids.insert(rng.below(ids.len() as u64 + 1) as usize, ("IdBad".into(), rng.pick(&["", " d1", "d\u{0001}"][..]).to_string()));
        }
        if ids.iter().all(|x| x.0 != "IdBad") {
          calls.push(Call::Delete(ids.iter().map(|x| x.0[5..].parse().unwrap()).collect()));
        }
        let lc: Vec<String> = ids.iter().map(|x| x.0.clone()).collect();
        cmds.push(format!("RDelete (Some {})", coq::list(&lc)));
        let body = json!({"ids": ids.iter().map(|x| x.1.clone()).collect::<Vec<_>>()}).to_string();
        let a = answer(&http::post_json(srv.port, "/delete", &body));
        log.push(json!({"cmd": "/delete", "body": body, "answer": a}));
        obs.push(a);
      }
      57..=74 => {
        calls.push(Call::Commit);
        cmds.push("RCommit".into());
        let a = answer(&http::request(srv.port, "POST", "/commit", &[], b""));
        log.push(json!({"cmd": "/commit", "answer": a}));
        obs.push(a);
      }
      75..=79 => {
        cmds.push("RRefresh".into());
        obs.push(answer(&http::request(srv.port, "POST", "/refresh", &[], b"")));
      }
      80..=86 => {
        calls.push(Call::Compact);
        cmds.push("RCompact".into());
        obs.push(answer(&http::request(srv.port, "POST", "/compact", &[], b"")));
      }
      _ => {
        let rs: Vec<SearchOut> = probes.iter().map(|p| http_search(srv.port, p)).collect();
        let hits = rs[0].as_ref().ok().and_then(hits_of);
        calls.push(Call::Search);
        cmds.push("RSearch".into());
        obs.push(match &hits {
          Some(m) => format!("Hits {}", hits_coq(m)),
          None => "Other 0".into(),
        });
        log.push(json!({"cmd": "/search", "hits": hits.map(|m| hits_coq(&m))}));
        fs.push(rs);
      }
    }
    lib_exec(&b, &calls, &probes, &mut lib, &mut ls);
  }
  srv.stop();
  let (same, why) = compare_searches(&fs, &ls);
  let lit = format!("CaseHttp {} {} {} {}", coq::list(&cmds), coq::list(&obs), coq::list(&lib), same);
  (lit, json!({"front": "http", "script": log, "probes": probes, "same": same, "difference": why, "nt": nt}), nt)
}

// ------------------------------------------------------------------------------ FFI

unsafe fn ffi_search(h: *mut searchlite_ffi::IndexHandle, query: &str, limit: usize, cursor: Option<&str>, aggs: Option<&str>) -> SearchOut {
  let q = CString::new(query).unwrap();
  let cur = cursor.map(|c| CString::new(c).unwrap());
  let ag = aggs.map(|a| CString::new(a).unwrap());
  let mut buf = vec![0u8; 1 << 20];
  let n = searchlite_search(
    h,
    q.as_ptr(),
    limit,
    cur.as_ref().map(|c| c.as_ptr()).unwrap_or(std::ptr::null()),
    ag.as_ref().map(|c| c.as_ptr()).unwrap_or(std::ptr::null()),
    aggs.map(|a| a.len()).unwrap_or(0),
    buf.as_mut_ptr() as *mut c_char,
    buf.len(),
  );
  if n == 0 {
    return Err(());
  }
  serde_json::from_slice(&buf[..n]).map_err(|_| ())
}

const AGGS1: &str = r#"{"c":{"type":"terms","field":"tag"}}"#;

/// the request searchlite_search builds, written independently here
fn ffi_mirror(query: &str, limit: usize, cursor: Option<&str>, aggs: Option<&str>) -> Option<SearchRequest> {
  let q: Query = match serde_json::from_str::<QueryNode>(query) {
    Ok(n) => Query::Node(n),
    Err(_) => Query::String(query.to_string()),
  };
  let aggs_map: BTreeMap<String, Aggregation> = match aggs {
    Some(a) => serde_json::from_str(a).ok()?,
    None => BTreeMap::new(),
  };
  let mut r: SearchRequest = serde_json::from_value(json!({"query": "x", "limit": 1, "return_stored": true})).unwrap();
  r.query = q;
  r.limit = limit;
  r.cursor = cursor.map(|c| c.to_string());
  r.aggs = aggs_map;
  r.execution = ExecutionStrategy::Wand;
  r.return_hits = true;
  r.return_stored = true;
  Some(r)
}

fn lib_search_req(index: &Path, r: &SearchRequest) -> SearchOut {
  let idx = Index::open(opts(index, false)).map_err(|_| ())?;
  let reader = idx.reader().map_err(|_| ())?;
  let res = reader.search(r).map_err(|_| ())?;
  serde_json::to_string(&res).map_err(|_| ()).and_then(|t| serde_json::from_str(&t).map_err(|_| ())) // through text, as every front end does (f32 scores)
}

fn case_ffi(rng: &mut Rng) -> (String, Value, bool) {
  let dir = slv::fixtures::scratch();
  let (a, b) = (dir.path().join("front"), dir.path().join("lib"));
  create_index(&a);
  create_index(&b);
  let pa = CString::new(a.to_string_lossy().to_string()).unwrap();
  let h = unsafe { searchlite_index_open(pa.as_ptr(), false) };
  assert!(!h.is_null(), "ffi open");
  // FFI probes: (query text, limit, aggs) — the library runs the mirror request
  let ffi_probes: Vec<(String, usize, Option<&str>)> = vec![
    (json!({"type": "match_all"}).to_string(), 1000, None),
    ("common".to_string(), 3, None),
    (json!({"type": "term", "field": "tag", "value": "t"}).to_string(), 2, Some(AGGS1)),
  ];
  let mut ver = 0u64;
  let n = 4 + rng.below(8);
  let mut script: Vec<u64> = (0..n).map(|_| rng.below(100)).collect();
  script.push(95);
  let (mut cmds, mut obs, mut lib) = (Vec::new(), Vec::new(), Vec::new());
  let (mut fs, mut ls): (Vec<Vec<SearchOut>>, Vec<Vec<SearchOut>>) = (Vec::new(), Vec::new());
  let mut log: Vec<Value> = Vec::new();
  let mut nt = false;
  for sel in script {
    let mut calls: Vec<Call> = Vec::new();
    match sel {
      0..=64 => {
        ver += 1;
        let (text, class): (String, &str) = match rng.below(10) {
          0 => ("{\"_id\": ".to_string(), "None"),
          1 => ("[1,2]".to_string(), "Some VInvalid"),
          2 | 3 => (invalid_json(rng).to_string(), "Some VInvalid"),
          _ => (good_json(rng.below(NIDS), ver).to_string(), "good"),
        };
        let c = CString::new(text.clone()).unwrap();
        let ret = unsafe { searchlite_add_json(h, c.as_ptr(), text.len()) };
        let v: Value = serde_json::from_str(&text).unwrap_or(Value::Null);
        match class {
          "None" => cmds.push("FfiAddJson None".to_string()),
          "Some VInvalid" => {
            calls.push(Call::Add(v.clone(), false));
            cmds.push("FfiAddJson (Some VInvalid)".to_string());
            nt = true;
          }
          _ => {
            calls.push(Call::Add(v.clone(), true));
            calls.push(Call::Commit);
            cmds.push(format!("FfiAddJson (Some (VGood {} {}))", id_num(v["_id"].as_str().unwrap()).unwrap(), v["n"].as_u64().unwrap()));
          }
        }
        obs.push(format!("FRet {}", coq::z(ret as i64)));
        log.push(json!({"cmd": "add_json", "text": text, "ret": ret}));
      }
      65..=79 => {
        let ret = unsafe { searchlite_commit(h) };
        calls.push(Call::Commit);
        cmds.push("FfiCommit".into());
        obs.push(format!("FRet {}", coq::z(ret as i64)));
      }
      _ => {
        let rs: Vec<SearchOut> = ffi_probes.iter().map(|(q, l, ag)| unsafe { ffi_search(h, q, *l, None, *ag) }).collect();
        let hits = rs[0].as_ref().ok().and_then(hits_of);
        cmds.push("FfiSearch".into());
        obs.push(match &hits {
          Some(m) => format!("FHits {}", hits_coq(m)),
          None => "FRet 0%Z".into(),
        });
        // library: the mirror requests
        let lrs: Vec<SearchOut> = ffi_probes.iter().map(|(q, l, ag)| ffi_mirror(q, *l, None, *ag).ok_or(()).and_then(|r| lib_search_req(&b, &r))).collect();
        let lhits = lrs[0].as_ref().ok().and_then(hits_of);
        lib.push(match lhits {
          Some(m) => format!("AHits {}", hits_coq(&m)),
          None => "AErr".into(),
        });
        log.push(json!({"cmd": "search", "hits": hits.map(|m| hits_coq(&m))}));
        fs.push(rs);
        ls.push(lrs);
      }
    }
    let mut dummy = Vec::new();
    lib_exec(&b, &calls, &[], &mut lib, &mut dummy);
  }
  unsafe { searchlite_index_close(h) };
  let (same, why) = compare_searches(&fs, &ls);
  let lit = format!("CaseFfi {} {} {} {}", coq::list(&cmds), coq::list(&obs), coq::list(&lib), same);
  (lit, json!({"front": "ffi", "script": log, "same": same, "difference": why, "nt": nt}), nt)
}

// ------------------------------------------------------------------------------ request construction

fn str_coq(s: &str) -> String {
  coq::bytes(s.as_bytes())
}
fn opt_str_coq(s: &Option<String>) -> String {
  match s {
    Some(x) => format!("(Some {})", str_coq(x)),
    None => "None".into(),
  }
}

fn request_coq(r: &SearchRequest, node_id: Option<u64>, aggs_id: u64) -> String {
  let q = match (&r.query, node_id) {
    (Query::String(s), _) => format!("QString {}", str_coq(s)),
    (Query::Node(_), Some(n)) => format!("QNode {n}"),
    (Query::Node(_), None) => "QNode 0".into(),
  };
  let fields = match &r.fields {
    Some(fs) => format!("(Some {})", coq::list(&fs.iter().map(|f| str_coq(f)).collect::<Vec<_>>())),
    None => "None".into(),
  };
  let sort: Vec<String> = r
    .sort
    .iter()
    .map(|s| {
      let o = match s.order {
        Some(SortOrder::Asc) => "(Some Asc)",
        Some(SortOrder::Desc) => "(Some Desc)",
        None => "None",
      };
      format!("({}, {o})", str_coq(&s.field))
    })
    .collect();
  let exec = match r.execution {
    ExecutionStrategy::Bm25 => "Bm25",
    ExecutionStrategy::Wand => "Wand",
    ExecutionStrategy::Bmw => "Bmw",
  };
  format!(
    "{{| r_query := {q}; r_fields := {fields}; r_limit := {}; r_return_hits := {}; r_sort := {}; r_cursor := {}; r_execution := {exec}; r_bmw_block_size := {}; r_return_stored := {}; r_highlight_field := {}; r_aggs := {aggs_id} |}}",
    r.limit,
    r.return_hits,
    coq::list(&sort),
    opt_str_coq(&r.cursor),
    match r.bmw_block_size { Some(b) => format!("(Some {b})"), None => "None".into() },
    r.return_stored,
    opt_str_coq(&r.highlight_field),
  )
}

struct CliFlags {
  query: Option<String>,
  limit: Option<usize>,
  execution: Option<String>,
  bmw: Option<usize>,
  fields: Option<String>,
  return_stored: bool,
  highlight: Option<String>,
  cursor: Option<String>,
  sort: Option<String>,
  aggs: bool,
}

/// The request `searchlite-cli search` is expected to build — written here from the CLI's
/// documentation of its flags, independently of the Coq model (which check_case compares it to).
fn cli_mirror(f: &CliFlags) -> Option<SearchRequest> {
  let q = f.query.clone()?;
  let limit = f.limit.unwrap_or(10);
  if limit == 0 {
    return None;
  }
  let mut sort = Vec::new();
  if let Some(raw) = &f.sort {
    for clause in raw.split(',') {
      let t = clause.trim();
      if t.is_empty() {
        continue;
      }
      let (field, order) = match t.split_once(':') {
        Some((a, b)) => (a.to_string(), match b.to_ascii_lowercase().as_str() { "asc" => Some(SortOrder::Asc), "desc" => Some(SortOrder::Desc), _ => return None }),
        None => (t.to_string(), None),
      };
      sort.push(SortSpec { field, order });
    }
  }
  let mut r: SearchRequest = serde_json::from_value(json!({"query": "x", "limit": 1, "return_stored": false})).unwrap();
  r.query = Query::String(q);
  r.limit = limit;
  r.fields = f.fields.as_ref().map(|s| s.split(',').map(|x| x.trim().to_string()).collect());
  r.sort = sort;
  r.execution = match f.execution.as_deref().unwrap_or("wand").to_ascii_lowercase().as_str() { "bm25" => ExecutionStrategy::Bm25, "bmw" => ExecutionStrategy::Bmw, _ => ExecutionStrategy::Wand };
  r.bmw_block_size = f.bmw;
  r.return_stored = f.return_stored;
  r.highlight_field = f.highlight.clone();
  r.cursor = f.cursor.clone();
  r.return_hits = true;
  if f.aggs {
    r.aggs = serde_json::from_str(AGGS1).unwrap();
  }
  Some(r)
}

fn case_cli_request(rng: &mut Rng, cli: &Cli, corpus: &Path) -> (String, Value, bool) {
  let f = CliFlags {
    query: if rng.chance(1, 15) { None } else { Some(rng.pick(&["common", "rust w3", "body:w2", "zzz", "tag:t"][..]).to_string()) },
    limit: match rng.below(6) { 0 => None, 1 => Some(0), _ => Some(1 + rng.below(6) as usize) },
    execution: match rng.below(6) { 0 => None, 1 => Some("bm25".into()), 2 => Some("BMW".into()), 3 => Some("Bm25".into()), 4 => Some("fastest".into()), _ => Some("wand".into()) },
    bmw: if rng.chance(1, 4) { Some(1 + rng.below(64) as usize) } else { None },
    fields: match rng.below(5) { 0 => Some("body".into()), 1 => Some(" body , tag".into()), 2 => Some("tag,,body".into()), _ => None },
    return_stored: rng.chance(1, 2),
    highlight: if rng.chance(1, 4) { Some("body".into()) } else { None },
    cursor: if rng.chance(1, 12) { Some("zz".into()) } else { None },
    sort: match rng.below(9) { 0 => Some("n".into()), 1 => Some(" n:DESC , tag".into()), 2 => Some("n:asc,,".into()), 3 => Some("n:up".into()), 4 => Some("n : asc".into()), 5 => Some("tag:Desc,n".into()), 6 => Some("body".into()), _ => None },
    aggs: rng.chance(1, 5),
  };
  let mut args: Vec<String> = vec!["search".into(), corpus.to_string_lossy().to_string()];
  let mut push = |k: &str, v: Option<String>| {
    if let Some(v) = v {
      args.push(format!("--{k}={v}"));
    }
  };
  push("query", f.query.clone());
  push("limit", f.limit.map(|l| l.to_string()));
  push("execution", f.execution.clone());
  push("bmw-block-size", f.bmw.map(|b| b.to_string()));
  push("fields", f.fields.clone());
  push("highlight", f.highlight.clone());
  push("cursor", f.cursor.clone());
  push("sort", f.sort.clone());
  if f.aggs {
    push("aggs", Some(AGGS1.to_string()));
  }
  if f.return_stored {
    args.push("--return-stored".into());
  }
  let argv: Vec<&str> = args.iter().map(|s| s.as_str()).collect();
  let (ok, stdout) = cli.run(&argv);
  let cli_out: SearchOut = if ok { serde_json::from_str(&stdout).map_err(|_| ()) } else { Err(()) };
  let mirror = cli_mirror(&f);
  let lib_out: SearchOut = match &mirror {
    Some(r) => lib_search_req(corpus, r),
    None => Err(()),
  };
  let same = cli_out == lib_out;
  let a = format!(
    "{{| c_query := {}; c_limit := {}; c_execution := {}; c_bmw_block_size := {}; c_fields := {}; c_return_stored := {}; c_highlight := {}; c_cursor := {}; c_sort := {}; c_aggs := {} |}}",
    opt_str_coq(&f.query),
    f.limit.unwrap_or(10),
    str_coq(f.execution.as_deref().unwrap_or("wand")),
    match f.bmw { Some(b) => format!("(Some {b})"), None => "None".into() },
    opt_str_coq(&f.fields),
    f.return_stored,
    opt_str_coq(&f.highlight),
    opt_str_coq(&f.cursor),
    opt_str_coq(&f.sort),
    if f.aggs { 1 } else { 0 },
  );
  let m = match &mirror {
    Some(r) => format!("(Some {})", request_coq(r, None, if f.aggs { 1 } else { 0 })),
    None => "None".into(),
  };
  let nt = f.sort.is_some() || f.fields.is_some();
  let lit = format!("CaseCliRequest {a} {m} {ok} {same}");
  (lit, json!({"front": "cli-request", "argv": args[2..].to_vec(), "cli_ok": ok, "library_ok": lib_out.is_ok(), "same": same, "nt": nt}), nt)
}

fn case_ffi_request(rng: &mut Rng, h: *mut searchlite_ffi::IndexHandle, corpus: &Path, nodes: &mut Vec<String>) -> (String, Value, bool) {
  let query: String = match rng.below(8) {
    0 => json!({"type": "match_all"}).to_string(),
    1 => json!({"type": "term", "field": "tag", "value": rng.pick(&["t", "u"][..])}).to_string(),
    2 => "{\"type\": \"term\"".to_string(), // broken JSON: treated as a query string
    3 => json!({"type": "nonsense"}).to_string(),
    4 => "\"quoted\"".to_string(),
    _ => rng.pick(&["common", "rust w3", "body:w2", "zzz", "w1 OR w4"][..]).to_string(),
  };
  let limit = if rng.chance(1, 10) { 0 } else { 1 + rng.below(6) as usize };
  let cursor: Option<&str> = if rng.chance(1, 10) { Some("zz") } else { None };
  let aggs: Option<&str> = if rng.chance(1, 4) { Some(AGGS1) } else { None };
  let front = unsafe { ffi_search(h, &query, limit, cursor, aggs) };
  let mirror = ffi_mirror(&query, limit, cursor, aggs).unwrap();
  let lib_out = lib_search_req(corpus, &mirror);
  let same = front == lib_out;
  let is_node = matches!(mirror.query, Query::Node(_));
  let node_id = if is_node {
    let pos = nodes.iter().position(|n| *n == query).unwrap_or_else(|| { nodes.push(query.clone()); nodes.len() - 1 });
    Some(pos as u64 + 1)
  } else {
    None
  };
  let a = format!(
    "{{| f_query := {}; f_node := {}; f_limit := {limit}; f_cursor := {}; f_aggs := {} |}}",
    str_coq(&query),
    match node_id { Some(n) => format!("(Some {n})"), None => "None".into() },
    opt_str_coq(&cursor.map(|c| c.to_string())),
    if aggs.is_some() { 1 } else { 0 },
  );
  let lit = format!("CaseFfiRequest {a} {} {same}", request_coq(&mirror, node_id, if aggs.is_some() { 1 } else { 0 }));
  (lit, json!({"front": "ffi-request", "query": query, "limit": limit, "cursor": cursor, "aggs": aggs, "ffi_ok": front.is_ok(), "library_ok": lib_out.is_ok(), "same": same, "nt": is_node}), is_node)
}

fn main() {
  let args = parse_args();
  let mut rng = Rng::new(args.seed);
  let cli = Cli { bin: PathBuf::from(args.extra.get("cli").expect("--cli <path to searchlite-cli>")) };
  assert!(cli.bin.exists(), "searchlite-cli binary not found at {:?}", cli.bin);
  let rt = http::runtime();
  let progress = args.out.join("progress.txt");
  let mut cases: Vec<String> = Vec::new();
  let mut meta: Vec<Value> = Vec::new();
  let mut dist: BTreeMap<String, u64> = BTreeMap::new();
  let mut record = |kind: &str, r: (String, Value, bool), cases: &mut Vec<String>, meta: &mut Vec<Value>| {
    *dist.entry(format!("cases:{kind}")).or_insert(0) += 1;
    if r.2 {
      *dist.entry(format!("nontrivial:{kind}")).or_insert(0) += 1;
    }
    if r.1.get("same") != Some(&json!(true)) {
      *dist.entry(format!("different:{kind}")).or_insert(0) += 1;
    }
    cases.push(r.0);
    meta.push(r.1);
  };
  // a committed corpus for the request-construction cases (two segments, one deletion)
  let cdir = slv::fixtures::scratch();
  let corpus = cdir.path().join("corpus");
  create_index(&corpus);
  {
    let idx = Index::open(opts(&corpus, false)).unwrap();
    let mut w = idx.writer().unwrap();
    for v in 1..=6u64 {
      w.add_document(&to_doc(&good_json(v % NIDS, v))).unwrap();
    }
    w.commit().unwrap();
    for v in 7..=9u64 {
      w.add_document(&to_doc(&good_json(v % NIDS + 1, v))).unwrap();
    }
    w.delete_documents(&["d1".to_string()]).unwrap();
    w.commit().unwrap();
  }
  let n = args.n;
  for k in 0..n {
    std::fs::write(&progress, format!("cli script {k}\n")).ok();
    let r = case_cli(&mut rng, &cli);
    record("cli", r, &mut cases, &mut meta);
  }
  for k in 0..4 * n {
    std::fs::write(&progress, format!("http script {k}\n")).ok();
    let r = case_http(&mut rng, &rt);
    record("http", r, &mut cases, &mut meta);
  }
  for k in 0..4 * n {
    std::fs::write(&progress, format!("ffi script {k}\n")).ok();
    let r = case_ffi(&mut rng);
    record("ffi", r, &mut cases, &mut meta);
  }
  for k in 0..4 * n {
    std::fs::write(&progress, format!("cli request {k}\n")).ok();
    let r = case_cli_request(&mut rng, &cli, &corpus);
    record("cli-request", r, &mut cases, &mut meta);
  }
  {
    let pc = CString::new(corpus.to_string_lossy().to_string()).unwrap();
    let h = unsafe { searchlite_index_open(pc.as_ptr(), false) };
    assert!(!h.is_null());
    let mut nodes: Vec<String> = Vec::new();
    for k in 0..6 * n {
      std::fs::write(&progress, format!("ffi request {k}\n")).ok();
      let r = case_ffi_request(&mut rng, h, &corpus, &mut nodes);
      record("ffi-request", r, &mut cases, &mut meta);
    }
    unsafe { searchlite_index_close(h) };
  }
  std::fs::remove_file(&progress).ok();
  let files = write_cases(&args.out, "From Coq Require Import ZArith.\nFrom SL Require Import C23.Model C25.Model.", "case", "check_case", &cases, 100);
  let mut d = serde_json::Map::new();
  for (k, v) in dist {
    d.insert(k, json!(v));
  }
  write_json(&args.out, "cases.json", &json!({"files": files, "cases": meta, "distribution": d}));
}
