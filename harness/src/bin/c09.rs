//! C09 engine: the same request under execution = bm25 (exhaustive), wand and bmw, through the real
//! `IndexReader::search`, over corpora whose posting lists span many blocks; scored query trees with
//! boosts, dis_max, function_score, script_score, rank_feature, constant_score; limits 1..50, block
//! sizes 1..300; first pages and pages after a cursor.  Scores are exported as integers
//! (score * 2^24, exact for f32 in the generated range) so that the comparison runs inside Coq.
use searchlite_core::api::types::StorageType;
use serde_json::{json, Value};
use slv::qx::{self, World};
use slv::{coq, parse_args, write_cases, write_json, Rng};
use std::collections::BTreeMap;

const VOCAB: [&str; 8] = ["alpha", "beta", "gamma", "delta", "eps", "zeta", "eta", "theta"];
// inclusion probability of each word, in 1/16
const FREQ: [u64; 8] = [12, 9, 7, 5, 4, 3, 2, 1];

fn gen_doc(rng: &mut Rng) -> Value {
  let mut words: Vec<&str> = Vec::new();
  for (i, w) in VOCAB.iter().enumerate() {
    if rng.chance(FREQ[i], 16) {
      let tf = 1 + if rng.chance(1, 3) { rng.below(4) } else { 0 };
      for _ in 0..tf {
        words.push(w);
      }
    }
  }
  if words.is_empty() {
    words.push("pad");
  }
  for _ in 0..rng.below(6) {
    words.push("pad");
  }
  let mut d = serde_json::Map::new();
  // one document in sixteen has no body at all, one an empty one: field length 0 is a length too
  // (score upper bounds are computed from the shortest document of a segment)
  match rng.below(16) {
    0 => {}
    1 => {
      d.insert("body".into(), json!(""));
    }
    _ => {
      d.insert("body".into(), json!(words.join(" ")));
    }
  }
  d.insert("tag".into(), json!(*rng.pick(&qx::TAGS[..])));
  if !rng.chance(1, 6) {
    d.insert("n".into(), json!(rng.below(20)));
  }
  if !rng.chance(1, 6) {
    d.insert("x".into(), json!((rng.below(50) as f64) / 10.0));
  }
  Value::Object(d)
}

fn term(rng: &mut Rng, boost: bool) -> Value {
  // weighted towards frequent words so that posting lists are long
  let w = VOCAB[(rng.below(8).min(rng.below(8))) as usize];
  if boost && rng.chance(1, 2) {
    json!({"type":"term","field":"body","value":w,"boost": *rng.pick(&[0.5, 2.0, 3.0, 7.5, 0.0][..])})
  } else {
    json!({"type":"term","field":"body","value":w})
  }
}

fn distinct_terms(rng: &mut Rng, n: usize, boost: bool) -> Vec<Value> {
  let mut out: Vec<Value> = Vec::new();
  let mut guard = 0;
  while out.len() < n && guard < 100 {
    guard += 1;
    let t = term(rng, boost);
    if !out.iter().any(|o| o["value"] == t["value"]) {
      out.push(t);
    }
  }
  out
}

/// (query, kind)
fn gen_query(rng: &mut Rng) -> (Value, &'static str) {
  let nterms = 1 + rng.below(6) as usize;
  let base = |rng: &mut Rng| -> Value {
    let ts = distinct_terms(rng, nterms, true);
    if rng.chance(1, 3) && ts.len() >= 2 {
      json!({"type":"bool","must":[ts[0].clone()],"should": ts[1..].to_vec()})
    } else {
      json!({"type":"bool","should": ts})
    }
  };
  match rng.below(10) {
    0 | 1 => {
      let ts = distinct_terms(rng, nterms, false);
      let q: Vec<&str> = ts.iter().map(|t| t["value"].as_str().unwrap()).collect();
      (json!(q.join(" ")), "query_string")
    }
    2 | 3 => (base(rng), "bool_boosts"),
    4 => {
      let ts = distinct_terms(rng, nterms.max(2), true);
      (json!({"type":"dis_max","queries": ts, "tie_breaker": *rng.pick(&[0.0, 0.3, 1.0][..])}), "dis_max")
    }
    5 | 6 => {
      let f = match rng.below(3) {
        0 => json!({"type":"weight","weight": *rng.pick(&[0.25, 2.0, 10.0][..])}),
        1 => json!({"type":"field_value_factor","field":"n","factor":1.5,"modifier":"log1p","missing":1.0}),
        _ => json!({"type":"field_value_factor","field":"x","missing":0.5}),
      };
      let bm = *rng.pick(&["multiply", "sum", "replace", "max", "min"][..]);
      (json!({"type":"function_score","query": base(rng), "functions":[f], "boost_mode": bm}), "function_score")
    }
    7 => {
      let s = *rng.pick(&["_score * 3", "_score + n * w", "n + 1", "_score / (1 + x)", "0 - _score"][..]);
      (json!({"type":"script_score","query": base(rng), "script": s, "params": {"w": 0.25}}), "script_score")
    }
    8 => {
      let ts = distinct_terms(rng, nterms, true);
      let rf = json!({"type":"rank_feature","field":"n","modifier": *rng.pick(&["none","log1p","sqrt"][..]), "missing": 0.0,
                      "boost": *rng.pick(&[0.1, 1.0, 4.0][..])});
      let mut sh = ts[1..].to_vec();
      sh.push(rf);
      (json!({"type":"bool","must":[ts[0].clone()],"should": sh}), "rank_feature")
    }
    _ => {
      let ts = distinct_terms(rng, nterms, true);
      let cs = json!({"type":"constant_score","filter":{"KeywordEq":{"field":"tag","value": *rng.pick(&qx::TAGS[..])}},"boost": *rng.pick(&[0.5, 5.0][..])});
      let mut sh = ts[1..].to_vec();
      sh.push(cs);
      (json!({"type":"bool","must":[ts[0].clone()],"should": sh}), "constant_score")
    }
  }
}

fn fixed(score: f32) -> i64 {
  // score * 2^24 as an integer; f32 has 24 significant bits, so this is exact for |score| < 2^38 or so
  // when the score is >= 2^-24 in magnitude granularity; rounding only drops bits below 2^-24
  (score as f64 * 16_777_216.0).round() as i64
}

fn hits_of(r: &searchlite_core::api::reader::SearchResult) -> Vec<(u64, i64)> {
  r.hits.iter().map(|h| (qx::parse_id(&h.doc_id), fixed(h.score))).collect()
}

fn coq_hits(v: &[(u64, i64)]) -> String {
  coq::list(&v.iter().map(|(id, s)| format!("({id}, {})", coq::z(*s))).collect::<Vec<_>>())
}

fn main() {
  let args = parse_args();
  let mut rng = Rng::new(args.seed);
  let thorough = args.tier == "thorough";
  let progress = args.out.join("progress.txt");
  let mut lits: Vec<String> = Vec::new();
  let mut meta: Vec<Value> = Vec::new();
  let mut dist: BTreeMap<String, u64> = BTreeMap::new();
  let bump = |dist: &mut BTreeMap<String, u64>, k: &str, n: u64| {
    *dist.entry(k.to_string()).or_insert(0) += n;
  };
  for wi in 0..args.n {
    let nseg = 1 + rng.below(2) as usize;
    let storage = if rng.chance(1, 2) { StorageType::InMemory } else { StorageType::Filesystem };
    // every third world is small (tiny cloned segments, qx vocabulary): there the stress requests walk
    // deep with a cursor, which is where block-max skipping first went wrong
    let small = wi % 3 == 2;
    let mut w = if small {
      World::build(&mut rng, 1 + wi % 2 + 1, 5, 35, storage)
    } else {
      World::build(&mut rng, 0, 3, 3, storage)
    };
    let mut longest = 0usize;
    for _ in 0..(if small { 0 } else { nseg }) {
      let ndocs = if thorough && rng.chance(1, 4) { 1000 + rng.below(1000) } else { 100 + rng.below(500) } as usize;
      let docs: Vec<Value> = (0..ndocs).map(|_| gen_doc(&mut rng)).collect();
      longest = longest.max(docs.iter().filter(|d| d["body"].as_str().unwrap_or("").contains("alpha")).count());
      w.commit_batch(&docs);
    }
    if rng.chance(1, 4) {
      let ids: Vec<u64> = (0..5).map(|_| rng.below(w.next_id)).collect();
      w.delete(&ids);
    }
    bump(&mut dist, "longest_posting_list_sum", longest as u64);
    let reader = w.reader();
    let big = w.docs.len() + 5;
    let nconf = if small { 40 } else if thorough { 10 } else { 6 };
    for ci in 0..nconf {
      // a third of the requests stresses block-max skipping: blocks of 1-3 postings, 2-3 plain terms
      // (the threshold has to sink to the level of single-term documents: larger k or a cursor)
      let stress = small || rng.chance(1, 3);
      let (query, kind) = if small {
        let a = rng.below(qx::WORDS.len() as u64) as usize;
        let b = (a + 1 + rng.below(qx::WORDS.len() as u64 - 1) as usize) % qx::WORDS.len();
        (json!(format!("{} {}", qx::WORDS[a], qx::WORDS[b])), "query_string")
      } else if stress {
        let nt = 2 + rng.below(2) as usize;
        let ts = distinct_terms(&mut rng, nt, false);
        let q: Vec<&str> = ts.iter().map(|t| t["value"].as_str().unwrap()).collect();
        (json!(q.join(" ")), "query_string")
      } else {
        gen_query(&mut rng)
      };
      let limit = if small { 1 + rng.below(4) as usize } else { 1 + rng.below(50) as usize };
      let block: Option<u64> = if stress {
        Some(1 + rng.below(3))
      } else {
        match rng.below(4) {
          0 => None,
          1 => Some(1 + rng.below(8)),
          _ => Some(1 + rng.below(300)),
        }
      };
      let explicit_sort = rng.chance(1, 5);
      let mk = |execution: &str, limit: usize, cursor: Option<&str>| -> Value {
        let mut r = json!({"query": query, "execution": execution, "limit": limit});
        if let Some(b) = block {
          r["bmw_block_size"] = json!(b);
        }
        if explicit_sort {
          r["sort"] = json!([{"field":"_score","order":"desc"}]);
        }
        if let Some(c) = cursor {
          r["cursor"] = json!(c);
        }
        r
      };
      std::fs::write(&progress, format!("world {wi} conf {ci} {}\n", mk("bm25", big, None))).ok();
      let full = match qx::search(&reader, &qx::request(mk("bm25", big, None))) {
        Ok(r) => r,
        Err(e) => panic!("exhaustive request failed: {e}: {}", mk("bm25", big, None)),
      };
      let full_hits = hits_of(&full);
      if full_hits.is_empty() {
        bump(&mut dist, "empty_result_sets", 1);
        continue;
      }
      // page 1 and, when there is one, the page after the cursor
      let p1 = qx::search(&reader, &qx::request(mk("bm25", limit, None))).expect("bm25 page 1");
      let mut stages: Vec<(&'static str, Option<String>, Vec<(u64, i64)>)> = vec![("first_page", None, hits_of(&p1))];
      let mut next = p1.next_cursor.clone();
      let max_pages = if small { 40 } else { 1 };
      let mut page = 0;
      while let Some(c) = next {
        if page >= max_pages {
          break;
        }
        page += 1;
        let p = qx::search(&reader, &qx::request(mk("bm25", limit, Some(&c)))).expect("bm25 next page");
        stages.push(("after_cursor", Some(c), hits_of(&p)));
        next = p.next_cursor.clone();
      }
      // small worlds: the whole walk is one case (pages concatenated; every strategy gets bm25's cursors)
      let groups: Vec<(&'static str, Vec<(Option<String>, Vec<(u64, i64)>)>)> = if small {
        vec![("walk", stages.iter().map(|s| (s.1.clone(), s.2.clone())).collect())]
      } else {
        stages.iter().map(|s| (s.0, vec![(s.1.clone(), s.2.clone())])).collect()
      };
      for (stage, pages) in groups {
        let reference: Vec<(u64, i64)> = pages.iter().flat_map(|p| p.1.clone()).collect();
        let cursor: Option<String> = pages.last().and_then(|p| p.0.clone());
        let mut obs: Vec<(String, bool, Vec<(u64, i64)>)> = Vec::new();
        for ex in ["wand", "bmw"] {
          let mut all: Vec<(u64, i64)> = Vec::new();
          let mut failed = false;
          for (cur, _) in pages.iter() {
            let r = mk(ex, limit, cur.as_deref());
            std::fs::write(&progress, format!("world {wi} conf {ci} {r}\n")).ok();
            match qx::search(&reader, &qx::request(r)) {
              Ok(x) => all.extend(hits_of(&x)),
              Err(e) => {
                failed = true;
                bump(&mut dist, &format!("errors_{ex}"), 1);
                bump(&mut dist, &format!("error_text: {}", &e[..e.len().min(60)]), 1);
              }
            }
          }
          obs.push((ex.to_string(), failed, all));
        }
        let custom = matches!(kind, "function_score" | "script_score" | "rank_feature" | "constant_score");
        let last = reference.last().map(|h| h.1).unwrap_or(0);
        let band = 8 * (17i64.max(last.abs() / 1_000_000));
        let near: Vec<(u64, i64)> = full_hits.iter().filter(|h| (h.1 - last).abs() <= band).cloned().collect();
        lits.push(format!(
          "{{| near := {}; reference := {}; wand_err := {}; wand := {}; bmw_err := {}; bmw := {}; custom := {} |}}",
          coq_hits(&near), coq_hits(&reference), coq::b(obs[0].1), coq_hits(&obs[0].2), coq::b(obs[1].1),
          coq_hits(&obs[1].2), coq::b(custom)
        ));
        let pruned_possible = full_hits.len() > limit + 1;
        bump(&mut dist, &format!("kind_{kind}"), 1);
        if stress {
          bump(&mut dist, "block_max_stress_requests", 1);
        }
        if small {
          bump(&mut dist, "small_world_walk_pages", 1);
        }
        bump(&mut dist, &format!("stage_{stage}"), 1);
        bump(&mut dist, match block { None => "block_default", Some(b) if b <= 8 => "block_1_8", _ => "block_9_300" }, 1);
        bump(&mut dist, if limit <= 5 { "limit_1_5" } else if limit <= 20 { "limit_6_20" } else { "limit_21_50" }, 1);
        if pruned_possible {
          bump(&mut dist, "matches_exceed_k", 1);
        }
        meta.push(json!({"request": mk("wand|bmw", limit, cursor.as_deref()), "kind": kind, "stage": stage,
          "matches": full_hits.len(), "returned_bm25": reference.len(), "returned_wand": obs[0].2.len(),
          "returned_bmw": obs[1].2.len(), "segments": nseg, "docs": w.docs.len(),
          "nt": pruned_possible}));
      }
    }
  }
  std::fs::remove_file(&progress).ok();
  let files = write_cases(&args.out, "From SL Require Import C09.Model.", "case", "check_case", &lits, 25);
  write_json(&args.out, "cases.json", &json!({"files": files, "cases": meta, "distribution": dist}));
}
