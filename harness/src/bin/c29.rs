//! C29 engine: vector and hybrid search against the real index (searchlite-core built with the
//! `vectors` feature).
//!
//! One world = a schema with 1-2 vector fields (dimension 1-8, cosine / L2, HNSW m and
//! ef_construction), 1-4 commits of documents with integer-valued vectors (some missing), updates
//! and deletions.  The segment layout (segment order, internal document order) and the HNSW graphs
//! are read back from the reader; everything else the Coq side needs (tombstones, vectors, filter
//! verdicts) comes from the engine's own copy of the documents.  Requests: vector-only (one clause,
//! several clauses), hybrid (text query + `vector_query`, or bool{must text, should vectors}),
//! with filters, vector_filters, explicit k / candidate_size / ef_search / boost / alpha, plus
//! wrong-dimension / bad alpha / bad boost requests and wrong-dimension adds.
use searchlite_core::api::builder::IndexBuilder;
use searchlite_core::api::types::{Filter, SearchRequest, StorageType};
use searchlite_core::Index;
use serde_json::{json, Value};
use slv::fixtures::{doc, opts, scratch};
use slv::{coq, parse_args, write_cases, write_json, Rng};
use std::collections::BTreeMap;

const WORDS: [&str; 6] = ["rust", "search", "vector", "index", "fast", "lite"];
const TAGS: [&str; 3] = ["x", "y", "z"];

#[derive(Clone)]
struct FieldDef {
  name: String,
  dim: usize,
  cosine: bool,
  m: usize,
  efc: usize,
  explicit_hnsw: bool,
}

#[derive(Clone)]
struct DocV {
  uid: u64,
  ext: String,
  body: String,
  tag: String,
  n: i64,
  vecs: Vec<Option<Vec<i64>>>,
  live: bool,
}

#[derive(Clone, Debug)]
enum F {
  TagEq(String),
  NotTag(String),
  NRange(i64, i64),
  TagIn(Vec<String>),
}

impl F {
  fn to_filter(&self) -> Filter {
    match self {
      F::TagEq(t) => Filter::KeywordEq { field: "tag".into(), value: t.clone() },
      F::NotTag(t) => Filter::Not(Box::new(Filter::KeywordEq { field: "tag".into(), value: t.clone() })),
      F::NRange(a, b) => Filter::I64Range { field: "n".into(), min: *a, max: *b },
      F::TagIn(ts) => Filter::KeywordIn { field: "tag".into(), values: ts.clone() },
    }
  }
  fn eval(&self, d: &DocV) -> bool {
    match self {
      F::TagEq(t) => d.tag == *t,
      F::NotTag(t) => d.tag != *t,
      F::NRange(a, b) => *a <= d.n && d.n <= *b,
      F::TagIn(ts) => ts.contains(&d.tag),
    }
  }
}

fn gen_filter(rng: &mut Rng) -> F {
  match rng.below(4) {
    0 => F::TagEq(rng.pick(&TAGS[..]).to_string()),
    1 => F::NotTag(rng.pick(&TAGS[..]).to_string()),
    2 => {
      let a = rng.range(0, 6);
      F::NRange(a, a + rng.range(1, 6))
    }
    _ => F::TagIn(vec![rng.pick(&TAGS[..]).to_string(), rng.pick(&TAGS[..]).to_string()]),
  }
}

#[derive(Clone)]
struct ClauseG {
  field: usize,
  vec: Vec<i64>,
  k: Option<u64>,
  alpha: Option<(i64, u64)>, // numerator / denominator (dyadic, exact in f32)
  ef: Option<u64>,
  cand: Option<u64>,
  boost: Option<(i64, u64)>,
}

fn ratio_f64(r: (i64, u64)) -> f64 {
  r.0 as f64 / r.1 as f64
}

fn clause_json(c: &ClauseG, fields: &[FieldDef], with_type: bool) -> Value {
  let mut o = serde_json::Map::new();
  if with_type {
    o.insert("type".into(), json!("vector"));
  }
  o.insert("field".into(), json!(fields[c.field].name));
  o.insert("vector".into(), json!(c.vec.iter().map(|x| *x as f64).collect::<Vec<f64>>()));
  if let Some(k) = c.k {
    o.insert("k".into(), json!(k));
  }
  if let Some(a) = c.alpha {
    o.insert("alpha".into(), json!(ratio_f64(a)));
  }
  if let Some(e) = c.ef {
    o.insert("ef_search".into(), json!(e));
  }
  if let Some(cs) = c.cand {
    o.insert("candidate_size".into(), json!(cs));
  }
  if let Some(b) = c.boost {
    o.insert("boost".into(), json!(ratio_f64(b)));
  }
  Value::Object(o)
}

/// exact rational value of an f32 as a Gallina Q literal
fn q_of_f32(x: f32) -> String {
  if x == f32::NEG_INFINITY {
    // several missing-vector penalties (f32::MIN) summed: the model's NEG_INF sentinel
    return "(Qmake (-(2 ^ 200))%Z 1%positive)".into();
  }
  assert!(x.is_finite(), "non-finite score {x}");
  let bits = x.to_bits();
  let neg = bits >> 31 == 1;
  let e = ((bits >> 23) & 0xff) as i32;
  let frac = (bits & 0x7f_ffff) as u128;
  let (mut m, mut ex) = if e == 0 { (frac, -149) } else { (frac | 0x80_0000, e - 150) };
  if m == 0 {
    return "(Qmake 0%Z 1%positive)".into();
  }
  while m % 2 == 0 && ex < 0 {
    m /= 2;
    ex += 1;
  }
  let sign = if neg { "-" } else { "" };
  if ex >= 0 {
    let v = m << ex;
    format!("(Qmake ({sign}{v})%Z 1%positive)")
  } else {
    format!("(Qmake ({sign}{m})%Z (2 ^ {})%positive)", -ex)
  }
}

fn q_ratio(r: (i64, u64)) -> String {
  format!("(Qmake ({})%Z {}%positive)", r.0, r.1)
}

fn zlist(v: &[i64]) -> String {
  coq::list(&v.iter().map(|x| coq::z(*x)).collect::<Vec<_>>())
}

fn ovec(v: &Option<Vec<i64>>) -> String {
  match v {
    Some(v) => format!("(Some {})", zlist(v)),
    None => "None".into(),
  }
}

fn on(v: Option<u64>) -> String {
  match v {
    Some(x) => format!("(Some {x})"),
    None => "None".into(),
  }
}

fn oq(v: Option<(i64, u64)>) -> String {
  match v {
    Some(x) => format!("(Some {})", q_ratio(x)),
    None => "None".into(),
  }
}

fn err_kind(msg: &str) -> u64 {
  if msg.contains("expects dimension") {
    1
  } else if msg.contains("vector alpha") {
    2
  } else if msg.contains("vector boost") {
    3
  } else if msg.contains("unknown vector field") {
    4
  } else if msg.contains("limit > 0") {
    5
  } else if msg.contains("too many vector clauses") {
    6
  } else {
    9
  }
}

fn gen_vec(rng: &mut Rng, dim: usize, wide: bool) -> Vec<i64> {
  (0..dim).map(|_| if wide { rng.range(-12, 12) } else { rng.range(-3, 3) }).collect()
}

fn main() {
  let args = parse_args();
  let mut rng = Rng::new(args.seed);
  let thorough = args.tier == "thorough";
  let nworlds = args.n;
  let progress = args.out.join("progress.txt");
  let mut cases: Vec<String> = Vec::new();
  let mut meta: Vec<Value> = Vec::new();
  let mut dist: BTreeMap<String, u64> = BTreeMap::new();
  let bump = |k: &str, dist: &mut BTreeMap<String, u64>| *dist.entry(k.to_string()).or_insert(0) += 1;

  for wi in 0..nworlds {
    // ------------------------------------------------------------------ schema
    let nfields = 1 + rng.below(2) as usize;
    let mut fields: Vec<FieldDef> = Vec::new();
    for fi in 0..nfields {
      let explicit = !rng.chance(1, 6);
      let (m, efc) = if explicit {
        (*rng.pick(&[2usize, 2, 3, 3, 4, 4, 6, 8, 16]), *rng.pick(&[1usize, 2, 4, 8, 64]))
      } else {
        (16, 64)
      };
      fields.push(FieldDef {
        name: format!("v{fi}"),
        dim: 1 + rng.below(8) as usize,
        cosine: rng.chance(1, 2),
        m,
        efc,
        explicit_hnsw: explicit,
      });
    }
    let vfields: Vec<Value> = fields
      .iter()
      .map(|f| {
        let mut o = json!({"name": f.name, "dim": f.dim, "metric": if f.cosine { "Cosine" } else { "L2" }});
        if f.explicit_hnsw {
          o["hnsw"] = json!({"m": f.m, "ef_construction": f.efc});
        }
        o
      })
      .collect();
    let schema: searchlite_core::Schema = serde_json::from_value(json!({
      "doc_id_field": "_id",
      "text_fields": [{"name":"body","analyzer":"default","stored":true,"indexed":true}],
      "keyword_fields": [{"name":"tag","stored":true,"indexed":true,"fast":true}],
      "numeric_fields": [{"name":"n","i64":true,"fast":true,"stored":true},
                         {"name":"uid","i64":true,"fast":true,"stored":true}],
      "nested_fields": [],
      "vector_fields": vfields
    }))
    .expect("schema");
    let dir = scratch();
    let o = opts(dir.path(), StorageType::Filesystem);
    IndexBuilder::create(dir.path(), schema, o.clone()).expect("create");
    let idx = Index::open(o).expect("open");

    // ------------------------------------------------------------------ documents
    let wide = rng.chance(1, 3);
    let nbatches = 1 + rng.below(4) as usize;
    let mut docs: Vec<DocV> = Vec::new(); // by uid
    let mut next_ext = 0usize;
    let mut rejected_uids: Vec<u64> = Vec::new();
    for b in 0..nbatches {
      let mut w = idx.writer().expect("writer");
      let big = rng.chance(1, 4);
      let ndocs = 1 + rng.below(if big { 14 } else { 8 }) as usize;
      for _ in 0..ndocs {
        let live_exts: Vec<String> = docs.iter().filter(|d| d.live).map(|d| d.ext.clone()).collect();
        // deletion of an existing document
        if b > 0 && !live_exts.is_empty() && rng.chance(1, 6) {
          let ext = rng.pick(&live_exts).clone();
          w.delete_document(&ext).expect("delete");
          for d in docs.iter_mut().filter(|d| d.ext == ext) {
            d.live = false;
          }
          bump("deletes", &mut dist);
          continue;
        }
        let ext = if !live_exts.is_empty() && rng.chance(1, 7) {
          bump("updates", &mut dist);
          rng.pick(&live_exts).clone()
        } else {
          next_ext += 1;
          format!("d{:03}", (next_ext * 37) % 1000)
        };
        let uid = docs.len() as u64 + rejected_uids.len() as u64 + 1000 * (wi as u64 + 1);
        let mut body = String::new();
        for _ in 0..(1 + rng.below(4)) {
          body.push_str(*rng.pick(&WORDS[..]));
          body.push(' ');
        }
        let vecs: Vec<Option<Vec<i64>>> = fields
          .iter()
          .map(|f| if rng.chance(1, 4) { None } else { Some(gen_vec(&mut rng, f.dim, wide)) })
          .collect();
        let d = DocV {
          uid,
          ext: ext.clone(),
          body,
          tag: rng.pick(&TAGS[..]).to_string(),
          n: rng.range(0, 9),
          vecs,
          live: true,
        };
        let mut j = json!({"_id": d.ext, "body": d.body, "tag": d.tag, "n": d.n, "uid": d.uid});
        for (f, v) in fields.iter().zip(d.vecs.iter()) {
          match v {
            Some(v) => j[&f.name] = json!(v.iter().map(|x| *x as f64).collect::<Vec<f64>>()),
            None => {
              if rng.chance(1, 2) {
                j[&f.name] = Value::Null
              }
            }
          }
        }
        // wrong-dimension add attempt (must be rejected and leave no trace)
        if rng.chance(1, 8) {
          let f = rng.pick(&fields).clone();
          let bad_len = if rng.chance(1, 2) { f.dim + 1 + rng.below(2) as usize } else { f.dim - 1 };
          let mut jb = j.clone();
          jb[&f.name] = json!((0..bad_len).map(|_| rng.range(-3, 3) as f64).collect::<Vec<f64>>());
          jb["_id"] = json!(format!("bad{}", rejected_uids.len()));
          let bad_uid = 900_000 + rejected_uids.len() as u64 + 1000 * wi as u64;
          jb["uid"] = json!(bad_uid);
          std::fs::write(&progress, format!("world {wi} wrong-dimension add {jb}\n")).ok();
          let r = w.add_document(&doc(jb));
          if r.is_ok() {
            // accepted although the dimension is wrong (a violation, reported through the case):
            // take it out again so that the commit can go on
            w.delete_document(&format!("bad{}", rejected_uids.len())).ok();
          }
          rejected_uids.push(bad_uid);
          cases.push(format!("CaseAdd {} (Some {}) {}", f.dim, bad_len, coq::b(r.is_ok())));
          meta.push(json!({"kind": "add", "dim": f.dim, "len": bad_len, "accepted": r.is_ok(), "nt": true}));
          bump("adds_wrong_dim", &mut dist);
        }
        std::fs::write(&progress, format!("world {wi} add {j}\n")).ok();
        let r = w.add_document(&doc(j));
        if rng.chance(1, 6) {
          let f0 = &fields[0];
          let v = d.vecs[0].as_ref().map(|v| v.len() as u64);
          cases.push(format!("CaseAdd {} {} {}", f0.dim, on(v), coq::b(r.is_ok())));
          meta.push(json!({"kind": "add", "dim": f0.dim, "len": v, "accepted": r.is_ok(), "nt": false}));
        }
        r.expect("valid add");
        for old in docs.iter_mut().filter(|x| x.ext == ext) {
          old.live = false;
        }
        docs.push(d);
      }
      w.commit().expect("commit");
    }

    // ------------------------------------------------------------------ layout read back
    let reader = idx.reader().expect("reader");
    let mut layout: Vec<Vec<usize>> = Vec::new(); // per segment: indices into docs
    for seg in reader.segments.iter() {
      let mut v = Vec::new();
      for di in 0..seg.meta.doc_count {
        let stored = seg.get_doc(di as u32).expect("stored doc");
        let uid = stored.get("uid").and_then(|x| x.as_i64()).expect("uid") as u64;
        let pos = docs.iter().position(|d| d.uid == uid).unwrap_or_else(|| panic!("unknown uid {uid} in the index"));
        if seg.is_deleted(di as u32) == docs[pos].live {
          eprintln!("note: tombstone state of uid {uid} differs from the history");
        }
        v.push(pos);
      }
      layout.push(v);
    }
    bump(&format!("segments_{}", layout.len()), &mut dist);

    // ------------------------------------------------------------------ graph cases
    for (si, seg) in reader.segments.iter().enumerate() {
      for (fi, f) in fields.iter().enumerate() {
        let Some((index, _)) = seg.vector_components(&f.name) else { continue };
        let g = index.graph();
        let store: Vec<String> = layout[si].iter().map(|&p| ovec(&docs[p].vecs[fi])).collect();
        let present = layout[si].iter().filter(|&&p| docs[p].vecs[fi].is_some()).count();
        let nb: Vec<String> = g
          .neighbors
          .iter()
          .map(|l| coq::nlist(&l.iter().map(|x| *x as u64).collect::<Vec<_>>()))
          .collect();
        cases.push(format!(
          "CaseGraph {} {} {} {} {} {}",
          if f.cosine { "Cosine" } else { "L2" },
          f.m,
          f.efc,
          coq::list(&store),
          on(g.entry.map(|e| e as u64)),
          coq::list(&nb)
        ));
        let small = present <= f.m;
        meta.push(json!({"kind": "graph", "world": wi, "segment": si, "field": f.name, "present": present,
                         "m": f.m, "small": small, "nt": present >= 2}));
        bump(if small { "graphs_small" } else { "graphs_large" }, &mut dist);
      }
    }

    // ------------------------------------------------------------------ requests
    let nreq = if thorough { 10 } else { 7 };
    let nprobe = 6;
    for ri in 0..(nreq + nprobe) {
      // the last [nprobe] requests of a world are narrow-beam probes: one vector-only clause,
      // k = candidate_size in 1..3, ef_search = 1, no filters
      let probe = ri >= nreq;
      let kind = if probe { 0 } else { rng.below(10) }; // 0-3 single, 4-5 multi, 6-8 hybrid vector_query, 9 hybrid bool
      let hybrid = kind >= 6;
      let nclauses = match kind {
        0..=3 => 1,
        4..=5 => 2 + rng.below(2) as usize,
        6..=8 => 1,
        _ => 1 + rng.below(2) as usize,
      };
      let legacy = kind == 6;
      let tight = probe || rng.chance(1, 3);
      let mut clauses: Vec<ClauseG> = Vec::new();
      let mut bad = "";
      for _ in 0..nclauses {
        let fi = rng.below(fields.len() as u64) as usize;
        let f = &fields[fi];
        let mut vec = if rng.chance(1, 3) && !docs.is_empty() {
          // near a stored vector: exact ties and zero distances
          docs[rng.below(docs.len() as u64) as usize].vecs[fi].clone().unwrap_or_else(|| gen_vec(&mut rng, f.dim, wide))
        } else {
          gen_vec(&mut rng, f.dim, wide)
        };
        if !probe && rng.chance(1, 12) {
          bad = "dim";
          if rng.chance(1, 2) || vec.len() == 1 {
            vec.push(1)
          } else {
            vec.pop();
          }
        }
        let alpha = if legacy {
          Some(*rng.pick(&[(1i64, 4u64), (1, 2), (3, 4), (0, 1), (1, 8)]))
        } else if hybrid {
          *rng.pick(&[None, Some((1, 4)), Some((1, 2)), Some((3, 4)), Some((0, 1)), Some((1, 8))])
        } else {
          *rng.pick(&[Some((0, 1)), Some((0, 1)), None, Some((1, 2)), Some((1, 4)), Some((1, 1))])
        };
        if probe {
          // aim next to the graph's entry point (the first document of a segment that has a
          // vector), one step towards another document of the same segment: the entry scores
          // well and the neighbour order of the entry (by closeness to the entry) differs from the
          // order by closeness to the query
          let segs: Vec<&Vec<usize>> =
            layout.iter().filter(|sg| sg.iter().filter(|&&p| docs[p].vecs[fi].is_some()).count() >= 3).collect();
          if !segs.is_empty() {
            let sg = *rng.pick(&segs[..]);
            let with: Vec<&Vec<i64>> = sg.iter().filter_map(|&p| docs[p].vecs[fi].as_ref()).collect();
            let e = with[0];
            // a far document: late in the entry's neighbour list; the query sits between the two,
            // nearer to the entry
            let far = |x: &Vec<i64>| x.iter().zip(e.iter()).map(|(a, b)| (a - b) * (a - b)).sum::<i64>();
            let mut t = with[1];
            for x in with.iter().skip(1) {
              if far(x) > far(t) || (far(x) == far(t) && rng.chance(1, 2)) {
                t = x;
              }
            }
            let num = *rng.pick(&[3i64, 4, 4, 5]);
            vec = e.iter().zip(t.iter()).map(|(a, b)| a + (((b - a) * num) as f64 / 10.0).round() as i64).collect();
          }
        }
        let mut c = ClauseG {
          field: fi,
          vec,
          k: *rng.pick(&[None, None, Some(1), Some(2), Some(3), Some(5)]),
          alpha,
          ef: *rng.pick(&[None, None, Some(1), Some(2), Some(4), Some(64)]),
          cand: *rng.pick(&[None, None, None, Some(1), Some(2), Some(3), Some(5)]),
          boost: *rng.pick(&[None, None, Some((1, 2)), Some((2, 1)), Some((3, 2)), Some((0, 1))]),
        };
        if tight {
          // small budgets: the graph search runs with a beam narrower than the segment
          c.k = Some(1 + rng.below(3));
          c.cand = Some(1 + rng.below(3));
          c.ef = Some(1 + rng.below(2));
        }
        if probe {
          c.cand = c.k;
          c.ef = Some(1);
          c.alpha = Some((0, 1));
          c.boost = None;
        }
        if legacy {
          c.k = None;
          c.ef = None;
          c.cand = None;
          c.boost = None;
        }
        if !legacy && !probe && rng.chance(1, 30) {
          bad = "alpha";
          c.alpha = Some(*rng.pick(&[(3, 2), (-1, 4)]));
        }
        if !legacy && !probe && rng.chance(1, 30) {
          bad = "boost";
          c.boost = Some((-1, 2));
        }
        clauses.push(c);
      }
      // a hybrid request whose every alpha is 1 takes the plain text path: not a vector request
      if hybrid && clauses.iter().all(|c| c.alpha == Some((1, 1))) {
        clauses[0].alpha = Some((1, 2));
      }
      let mut limit = *rng.pick(&[1u64, 2, 3, 3, 5, 6, 20]);
      if probe {
        limit = clauses[0].k.unwrap_or(3);
      }
      let rcand: Option<u64> = if !hybrid && rng.chance(1, 4) { Some(*rng.pick(&[1u64, 2, 4, 50])) } else { None };
      let filter = if !probe && rng.chance(1, 3) { Some(gen_filter(&mut rng)) } else { None };
      let vfilter = if !probe && rng.chance(1, 3) { Some(gen_filter(&mut rng)) } else { None };
      let text_word = rng.pick(&WORDS[..]).to_string();
      let text_q = if rng.chance(1, 2) {
        json!({"type":"term","field":"body","value": text_word})
      } else {
        // two different words (a repeated term trips the known C16 debug assertion)
        let other = WORDS[(WORDS.iter().position(|w| *w == text_word).unwrap() + 1 + rng.below(5) as usize) % 6];
        json!({"type":"query_string","query": format!("{} {}", text_word, other)})
      };
      // the request
      let mut req = json!({"limit": limit, "return_stored": true, "highlight_field": null});
      let mut text_only = req.clone();
      text_only["limit"] = json!(10_000);
      match kind {
        0..=3 => req["query"] = clause_json(&clauses[0], &fields, true),
        4..=5 => {
          req["query"] = json!({"type":"bool","should": clauses.iter().map(|c| clause_json(c, &fields, true)).collect::<Vec<_>>()})
        }
        6 => {
          let c = &clauses[0];
          req["query"] = text_q.clone();
          req["vector_query"] = json!([fields[c.field].name, c.vec.iter().map(|x| *x as f64).collect::<Vec<f64>>(), ratio_f64(c.alpha.unwrap())]);
          text_only["query"] = text_q.clone();
        }
        7..=8 => {
          req["query"] = text_q.clone();
          req["vector_query"] = clause_json(&clauses[0], &fields, false);
          text_only["query"] = text_q.clone();
        }
        _ => {
          req["query"] = json!({"type":"bool","must":[text_q.clone()],
                                "should": clauses.iter().map(|c| clause_json(c, &fields, true)).collect::<Vec<_>>()});
          text_only["query"] = json!({"type":"bool","must":[text_q.clone()]});
        }
      }
      if let Some(c) = rcand {
        req["candidate_size"] = json!(c);
      }
      if let Some(f) = &filter {
        req["filter"] = serde_json::to_value(f.to_filter()).unwrap();
        text_only["filter"] = req["filter"].clone();
      }
      if let Some(f) = &vfilter {
        req["vector_filter"] = serde_json::to_value(f.to_filter()).unwrap();
      }
      std::fs::write(&progress, format!("world {wi} request {ri}: {req}\n")).ok();
      let sreq: SearchRequest = serde_json::from_value(req.clone()).expect("request json");
      // text oracle
      let mut text_scores: BTreeMap<u64, f32> = BTreeMap::new();
      if hybrid {
        let treq: SearchRequest = serde_json::from_value(text_only.clone()).expect("text request");
        let tres = reader.search(&treq).expect("text-only search");
        for h in tres.hits.iter() {
          let uid = h.fields.as_ref().and_then(|f| f.get("uid")).and_then(|x| x.as_i64()).expect("uid") as u64;
          text_scores.insert(uid, h.score);
        }
      }
      let res = std::panic::catch_unwind(std::panic::AssertUnwindSafe(|| reader.search(&sreq)));
      let obs = match res {
        Err(_) => "ObsErr 77".to_string(),
        Ok(Err(e)) => format!("ObsErr {}", err_kind(&format!("{e:#}"))),
        Ok(Ok(r)) => {
          let hs: Vec<String> = r
            .hits
            .iter()
            .map(|h| {
              let uid = h.fields.as_ref().and_then(|f| f.get("uid")).and_then(|x| x.as_i64()).expect("uid") as u64;
              format!(
                "({}, {}, {})",
                uid,
                q_of_f32(h.score),
                match h.vector_score {
                  Some(v) => format!("Some {}", q_of_f32(v)),
                  None => "None".into(),
                }
              )
            })
            .collect();
          format!("ObsHits {}", coq::list(&hs))
        }
      };
      // the world as this request sees it
      let segs: Vec<String> = layout
        .iter()
        .map(|seg| {
          coq::list(
            &seg
              .iter()
              .map(|&p| {
                let d = &docs[p];
                format!(
                  "{{| d_id := {}; d_deleted := {}; d_pass := {}; d_vpass := {}; d_text := {}; d_vecs := {} |}}",
                  d.uid,
                  coq::b(!d.live),
                  coq::b(filter.as_ref().map(|f| f.eval(d)).unwrap_or(true)),
                  coq::b(vfilter.as_ref().map(|f| f.eval(d)).unwrap_or(true)),
                  match text_scores.get(&d.uid) {
                    Some(s) => format!("(Some {})", q_of_f32(*s)),
                    None => "None".into(),
                  },
                  coq::list(&d.vecs.iter().map(ovec).collect::<Vec<_>>())
                )
              })
              .collect::<Vec<_>>(),
          )
        })
        .collect();
      let wf: Vec<String> = fields
        .iter()
        .map(|f| {
          format!(
            "{{| f_dim := {}; f_metric := {}; f_m := {}; f_efc := {} |}}",
            f.dim,
            if f.cosine { "Cosine" } else { "L2" },
            f.m,
            f.efc
          )
        })
        .collect();
      let cls: Vec<String> = clauses
        .iter()
        .map(|c| {
          format!(
            "{{| c_field := {}; c_vec := {}; c_k := {}; c_alpha := {}; c_ef := {}; c_cand := {}; c_boost := {} |}}",
            c.field,
            zlist(&c.vec),
            on(c.k),
            oq(c.alpha),
            on(c.ef),
            on(c.cand),
            oq(c.boost)
          )
        })
        .collect();
      cases.push(format!(
        "CaseSearch {{| w_fields := {}; w_segs := {} |}} {{| r_clauses := {}; r_hybrid := {}; r_limit := {}; r_cand := {} |}} ({})",
        coq::list(&wf),
        coq::list(&segs),
        coq::list(&cls),
        coq::b(hybrid),
        limit,
        on(rcand),
        obs
      ));
      // measured distribution
      let small = clauses.iter().all(|c| {
        layout.iter().all(|seg| seg.iter().filter(|&&p| docs[p].vecs[c.field].is_some()).count() <= fields[c.field].m)
      });
      let binding = clauses.iter().any(|c| {
        let k = c.k.unwrap_or(limit).max(1);
        let cs = c.cand.unwrap_or(k.max(limit).max(10) * 2).max(k);
        layout.iter().any(|seg| (seg.iter().filter(|&&p| docs[p].vecs[c.field].is_some()).count() as u64) > cs)
      });
      let nhits = obs.matches("Qmake").count();
      let is_err = obs.starts_with("ObsErr");
      bump(
        match kind {
          0..=3 => "req_vector_only_single",
          4..=5 => "req_vector_only_multi",
          6 => "req_hybrid_legacy",
          7..=8 => "req_hybrid_structured",
          _ => "req_hybrid_bool",
        },
        &mut dist,
      );
      if filter.is_some() {
        bump("req_with_filter", &mut dist);
      }
      if vfilter.is_some() {
        bump("req_with_vector_filter", &mut dist);
      }
      if is_err {
        bump("req_rejected", &mut dist);
      }
      if !bad.is_empty() {
        bump(&format!("req_bad_{bad}"), &mut dist);
      }
      if small {
        bump("req_small_segments", &mut dist);
      }
      if binding {
        bump("req_binding_budget", &mut dist);
      }
      if small && binding {
        bump("req_small_and_binding", &mut dist);
      }
      if tight && !legacy {
        bump("req_tight_budgets", &mut dist);
      }
      if probe {
        bump("req_narrow_beam_probe", &mut dist);
      }
      if clauses.iter().any(|c| fields[c.field].cosine) {
        bump("req_cosine", &mut dist);
      } else {
        bump("req_l2", &mut dist);
      }
      meta.push(json!({"kind": "search", "world": wi, "request": req, "segments": layout.iter().map(|s| s.len()).collect::<Vec<_>>(),
                       "fields": fields.iter().map(|f| json!({"dim": f.dim, "cosine": f.cosine, "m": f.m, "efc": f.efc})).collect::<Vec<_>>(),
                       "small": small, "binding": binding, "bad": bad, "rejected": is_err,
                       "nt": is_err || nhits > 0}));
    }
  }
  std::fs::remove_file(&progress).ok();
  let files = write_cases(&args.out, "From Coq Require Import QArith.\nFrom SL Require Import C29.Hnsw C29.Model.", "vcase", "check_case", &cases, 12);
  write_json(
    &args.out,
    "cases.json",
    &json!({"files": files, "cases": meta, "distribution": dist}),
  );
}
