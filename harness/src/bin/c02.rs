//! C02 engine: single-handle-at-a-time histories on the real FsStorage with up to three crashes.
//! A crash picks an operation boundary of the call in flight and one crash image of the shadow
//! file system (crashfs.rs); the image becomes the live directory, the index is reopened, a
//! writer is created to observe the recovered queue (hook IndexWriter::verif_pending) and dropped,
//! and the history goes on. At the end a healthy writer commits and the contents are recorded.
use searchlite_core::api::types::StorageType;
use searchlite_core::storage::verif_trace;
use searchlite_core::Index;
use slv::crashfs::{Image, Inode, ShadowFs};
use slv::hist::{apply, Api, Sys, IDS};
use slv::{coq, parse_args, write_cases, write_json, Rng};
use std::collections::BTreeMap;

fn lit_contents(c: &[(String, i64)]) -> String {
  let lits: Vec<String> = c
    .iter()
    .map(|(id, v)| {
      let i = IDS.iter().position(|x| x == id).map(|x| x as u64).unwrap_or(999);
      coq::pair(&i.to_string(), &(if *v < 0 { 999_999 } else { *v as u64 }).to_string())
    })
    .collect();
  coq::list(&lits)
}

fn lit_queue(q: &[(String, Option<i64>)]) -> String {
  let lits: Vec<String> = q
    .iter()
    .map(|(id, v)| {
      let i = IDS.iter().position(|x| x == id).map(|x| x as u64).unwrap_or(999);
      match v {
        Some(n) => format!("PAdd {i} {}", if *n < 0 { 999_999 } else { *n as u64 }),
        None => format!("PDel {i}"),
      }
    })
    .collect();
  coq::list(&lits)
}

fn shadow_from_image(img: &Image) -> ShadowFs {
  let mut fs = ShadowFs::default();
  for (n, c) in img.files.iter() {
    fs.inodes.push(Inode { vol: c.clone(), dur: c.clone() });
    let i = fs.inodes.len() - 1;
    fs.vdir.insert(n.clone(), i);
    fs.ddir.insert(n.clone(), i);
  }
  fs
}

/// the operations of one call on wal.log, as the codes of C02.History.call_trace
fn log_codes(ops: &[verif_trace::FsOp]) -> Vec<u64> {
  use verif_trace::FsOp;
  let is_log = |p: &std::path::Path| p.file_name().map(|n| n == "wal.log").unwrap_or(false);
  let mut out = Vec::new();
  for op in ops {
    match op {
      FsOp::Write { path, .. } if is_log(path) => out.push(1),
      FsOp::Fsync(p) if is_log(p) => out.push(2),
      FsOp::SetLen(p, 0) if is_log(p) => out.push(3),
      FsOp::SetLen(p, _) if is_log(p) => out.push(4),
      _ => {}
    }
  }
  out
}

fn next_call(rng: &mut Rng, live: &mut bool, call: &mut u64, ver: &mut u64) -> Api {
  if !*live {
    *live = true;
    return Api::NewWriter(1);
  }
  let r = rng.below(100);
  if r < 45 {
    *call += 1;
    *ver += 1;
    Api::Add(1, *call, rng.below(IDS.len() as u64), *ver)
  } else if r < 62 {
    *call += 1;
    Api::Del(1, *call, rng.below(IDS.len() as u64))
  } else if r < 80 {
    Api::Commit(1)
  } else if r < 85 {
    Api::Rollback(1)
  } else if r < 94 {
    *live = false;
    Api::Drop(1)
  } else if r < 97 {
    Api::Compact
  } else {
    *live = false;
    Api::Reopen
  }
}

fn main() {
  let args = parse_args();
  let mut rng = Rng::new(args.seed);
  let thorough = args.tier == "thorough";
  std::panic::set_hook(Box::new(|_| {}));
  let mut cases = Vec::new();
  let mut meta = Vec::new();
  let mut dist: BTreeMap<String, usize> = BTreeMap::new();
  for case_no in 0..args.n {
    let scratch = slv::fixtures::scratch();
    let mut gen_no = 0u32;
    let mut dir = scratch.path().join(format!("idx{gen_no}"));
    let mut opts = slv::fixtures::opts(&dir, StorageType::Filesystem);
    let mut fs = ShadowFs::default();
    verif_trace::start();
    let idx = Index::create(&dir, slv::fixtures::basic_schema(), opts.clone()).expect("create");
    for op in verif_trace::take() {
      fs.apply(&op);
    }
    let mut sys = Sys { idx: Some(idx), writers: BTreeMap::new(), opts: opts.clone(), mem: None };
    let len = if thorough { 15 + rng.below(45) as usize } else { 8 + rng.below(22) as usize };
    let ncrash = 1 + rng.below(3) as usize;
    let mut crash_at: Vec<usize> = (0..ncrash).map(|_| 1 + rng.below(len as u64 - 1) as usize).collect();
    crash_at.sort();
    crash_at.dedup();
    let (mut live, mut call, mut ver) = (false, 0u64, 0u64);
    let mut evs: Vec<String> = Vec::new();
    let mut traces: Vec<String> = Vec::new();
    let mut evs_json: Vec<serde_json::Value> = Vec::new();
    let mut broken = false;
    for k in 0..len {
      let a = next_call(&mut rng, &mut live, &mut call, &mut ver);
      verif_trace::start();
      let res = apply(&mut sys, &a);
      let ops = verif_trace::take();
      if res.is_err() {
        *dist.entry("call_err".into()).or_insert(0) += 1;
      }
      if !crash_at.contains(&k) {
        for op in &ops {
          fs.apply(op);
        }
        evs.push(format!("ECall ({})", a.coq()));
        let codes = log_codes(&ops);
        traces.push(coq::nlist(&codes));
        evs_json.push(serde_json::json!({"call": a.coq(), "result": res.err(), "log_ops": codes}));
        continue;
      }
      // crash inside (or right after) this call
      let changing: Vec<usize> = {
        let mut probe = fs.clone();
        ops.iter().enumerate().filter(|(_, op)| probe.apply(op)).map(|(i, _)| i).collect()
      };
      let (cut, whole) = if changing.is_empty() {
        (0usize, true)
      } else {
        let pick = rng.below(changing.len() as u64 + 1) as usize;
        if pick == changing.len() { (ops.len(), true) } else { (changing[pick] + 1, changing[pick] + 1 == ops.len()) }
      };
      for op in &ops[..cut] {
        fs.apply(op);
      }
      // did the call complete a log fsync before the crash point?
      let synced = ops[..cut].iter().any(|op| matches!(op, searchlite_core::storage::verif_trace::FsOp::Fsync(p) if p.file_name().map(|n| n == "wal.log").unwrap_or(false)));
      let images = fs.images(if thorough { 8 } else { 3 }, &mut rng);
      let (img, desc) = images[rng.below(images.len() as u64) as usize].clone();
      *dist.entry(format!("crash_in_{}", a.coq().split(' ').next().unwrap())).or_insert(0) += 1;
      // the process dies: nothing of the old in-memory state survives
      sys.writers.clear();
      sys.idx = None;
      gen_no += 1;
      dir = scratch.path().join(format!("idx{gen_no}"));
      img.materialize(&dir);
      fs = shadow_from_image(&img);
      opts = slv::fixtures::opts(&dir, StorageType::Filesystem);
      opts.create_if_missing = false;
      live = false;
      verif_trace::start();
      let opened = std::panic::catch_unwind(|| Index::open(opts.clone())).unwrap_or_else(|_| Err(anyhow::anyhow!("panic in open")));
      let (cont, queue, idx_opt) = match opened {
        Err(e) => (Err(e.to_string()), Err("index did not open".to_string()), None),
        Ok(idx) => {
          let cont = slv::fixtures::contents(&idx).map_err(|e| e.to_string());
          let queue = std::panic::catch_unwind(std::panic::AssertUnwindSafe(|| idx.writer()))
            .unwrap_or_else(|_| Err(anyhow::anyhow!("panic in writer()")))
            .map(|w| {
              w.verif_pending()
                .into_iter()
                .map(|(id, d)| (id, d.map(|d| d.fields.get("n").and_then(|v| v.as_i64()).unwrap_or(-1))))
                .collect::<Vec<_>>()
            })
            .map_err(|e| e.to_string());
          (cont, queue, Some(idx))
        }
      };
      for op in verif_trace::take() {
        fs.apply(&op);
      }
      let c_lit = match &cont { Ok(c) => format!("(Some {})", lit_contents(c)), Err(_) => "None".into() };
      let q_lit = match &queue { Ok(q) => format!("(Some {})", lit_queue(q)), Err(_) => "None".into() };
      evs.push(format!("ECrash ({}) {} {} {} {}", a.coq(), coq::b(whole), coq::b(synced), c_lit, q_lit));
      traces.push("[]".to_string());
      evs_json.push(serde_json::json!({"crash_in": a.coq(), "after_ops": cut, "of_ops": ops.len(), "whole": whole, "log_synced_in_call": synced,
        "image": desc, "files": img.files.iter().map(|(n, c)| (n.clone(), c.len())).collect::<BTreeMap<_, _>>(),
        "recovered_contents": cont, "recovered_queue": queue}));
      match idx_opt {
        Some(idx) => {
          sys = Sys { idx: Some(idx), writers: BTreeMap::new(), opts: opts.clone(), mem: None };
        }
        None => {
          broken = true;
          break;
        }
      }
    }
    // final healthy commit
    let mut final_c: Vec<(String, i64)> = Vec::new();
    let mut final_err: Option<String> = None;
    if !broken {
      sys.writers.clear();
      let r: anyhow::Result<Vec<(String, i64)>> = (|| {
        let idx = sys.idx.as_ref().unwrap();
        let mut w = idx.writer()?;
        w.commit()?;
        drop(w);
        slv::fixtures::contents(idx)
      })();
      match r {
        Ok(c) => final_c = c,
        Err(e) => {
          final_err = Some(e.to_string());
          final_c = vec![("final-commit-failed".into(), -1)];
        }
      }
    }
    cases.push(coq::pair(&coq::pair(&coq::list(&evs), &lit_contents(&final_c)), &coq::list(&traces)));
    meta.push(serde_json::json!({"case": case_no, "events": evs_json, "final_contents": final_c, "final_error": final_err,
      "nt": true}));
  }
  let files = write_cases(&args.out, "From SL Require Import Core.Model C02.Model C02.History.", "case02t", "check_case_t", &cases, 50);
  write_json(&args.out, "cases.json", &serde_json::json!({"files": files, "cases": meta, "distribution": dist}));
}
