//! C05 engine: 2-4 real writer threads (+ an optional compaction thread), each running a
//! generated script through its own IndexWriter on FsStorage, under the deterministic scheduler
//! (`slv::sched`).  Workers park at every instrumented point of the writer critical sections
//! (before the lock request, after the acquisition, after every stage of the body); the
//! controller decides who runs next: depth-first enumeration with a preemption bound (2 quick,
//! 3 thorough) followed by random schedules.  A worker waiting to request the lock is considered
//! enabled only while the REAL lock is free (`Index::verif_writer_locked`), the controller never
//! enforces mutual exclusion itself - so a missing lock shows up as overlapping sections in the
//! recorded log.  One case per schedule: scripts, the recorded event log (Acq / Sh label / Rel /
//! Loc per thread), the final contents, the contents after reopening, and every call's result.
use searchlite_core::api::types::StorageType;
use searchlite_core::Index;
use slv::hist::{doc, Api, IDS};
use slv::sched::{Choice, Ctl, Dfs, Ev};
use slv::{coq, parse_args, write_cases, write_json, Rng};
use std::collections::BTreeMap;
use std::sync::Arc;
use std::time::Duration;

#[derive(Clone)]
struct Scenario {
  setup: Vec<Api>,
  scripts: Vec<(usize, Vec<Api>)>,
  compaction: bool,
}

fn gen_scenario(rng: &mut Rng, nthreads: usize, compaction: bool, max_calls: usize) -> Scenario {
  let (mut call, mut ver) = (0u64, 0u64);
  let mut setup = vec![Api::NewWriter(9)];
  let nseg = rng.below(3);
  for _ in 0..nseg {
    for _ in 0..1 + rng.below(2) {
      call += 1;
      ver += 1;
      setup.push(Api::Add(9, call, rng.below(IDS.len() as u64), ver));
    }
    setup.push(Api::Commit(9));
  }
  let mut scripts = Vec::new();
  let mut budget = max_calls.saturating_sub(nthreads + usize::from(compaction));
  for t in 1..=nthreads {
    let h = t as u64;
    let mut s = vec![Api::NewWriter(h)];
    let extra = 1 + rng.below(3) as usize;
    let mut pending = false;
    for k in 0..extra {
      if budget == 0 {
        break;
      }
      budget -= 1;
      let r = rng.below(100);
      let last = k + 1 == extra || budget == 0;
      if (last && pending && r < 85) || (pending && r < 35) {
        s.push(Api::Commit(h));
        pending = false;
      } else if pending && r < 42 {
        s.push(Api::Rollback(h));
        pending = false;
      } else if r < 80 {
        call += 1;
        ver += 1;
        s.push(Api::Add(h, call, rng.below(IDS.len() as u64), ver));
        pending = true;
      } else {
        call += 1;
        s.push(Api::Del(h, call, rng.below(IDS.len() as u64)));
        pending = true;
      }
    }
    scripts.push((t, s));
  }
  if compaction {
    scripts.push((nthreads + 1, vec![Api::Compact]));
  }
  Scenario { setup, scripts, compaction }
}

const SECTIONS: [&str; 6] = ["new", "add", "delete", "commit", "rollback", "compact"];

fn label(section: &str, stage: &str) -> Option<&'static str> {
  Some(match (section, stage) {
    ("new", "loaded") => "LLoaded",
    ("add", "wal_appended") | ("delete", "wal_appended") => "LAppended",
    ("commit", "wal_synced") => "LSynced",
    ("commit", "manifest_read") => "LManRead",
    ("commit", "live_loaded") => "LLive",
    ("commit", "segment_written") => "LSegment",
    ("commit", "manifest_stored") => "LStored",
    ("commit", "marker_written") => "LMarker",
    ("commit", "published") => "LPublished",
    ("commit", "truncated") => "LTruncated",
    ("rollback", "truncated") => "LRbTruncated",
    ("compact", "reader_opened") => "LReader",
    ("compact", "segment_written") => "LCSegment",
    ("compact", "manifest_stored") => "LCStored",
    ("compact", "published") => "LCPublished",
    ("compact", "cleaned") => "LCleaned",
    _ => return None,
  })
}

struct RunOut {
  trace: Vec<Choice>,
  log: Vec<Ev>,
  stuck: bool,
  fin: Result<Vec<(String, i64)>, String>,
  reopened: Result<Vec<(String, i64)>, String>,
}

fn run_schedule(ctl: &Arc<Ctl>, sc: &Scenario, dfs: &Dfs, rnd: Option<&mut Rng>) -> RunOut {
  let dir = slv::fixtures::scratch();
  let opts = slv::fixtures::opts(dir.path(), StorageType::Filesystem);
  let idx = Arc::new(Index::create(dir.path(), slv::fixtures::basic_schema(), opts.clone()).expect("create"));
  {
    let mut w = idx.writer().expect("writer");
    for a in &sc.setup {
      match a {
        Api::Add(_, _, id, v) => {
          w.add_document(&doc(*id, *v)).expect("setup add");
        }
        Api::Commit(_) => w.commit().expect("setup commit"),
        _ => {}
      }
    }
  }
  ctl.reset(Arc::new(|_tid, section, stage| {
    (section == "user" && stage == "before_drop")
      || (SECTIONS.contains(&section)
        && stage != "released"
        && !(section == "compact" && (stage == "segment_written" || stage == "manifest_stored")))
  }));
  let mut handles = Vec::new();
  for (tid, script) in sc.scripts.iter().cloned() {
    let (idx, ctl2) = (idx.clone(), ctl.clone());
    handles.push(ctl.spawn(tid, move || {
      let mut w = None;
      for (i, a) in script.iter().enumerate() {
        let e = |x: anyhow::Error| x.to_string();
        let r: Result<u64, String> = match a {
          Api::NewWriter(_) => idx.writer().map_err(e).map(|x| {
            w = Some(x);
            0
          }),
          Api::Add(_, _, id, v) => w.as_mut().unwrap().add_document(&doc(*id, *v)).map(|n| n as u64 + 1).map_err(e),
          Api::Del(_, _, id) => w.as_mut().unwrap().delete_document(IDS[*id as usize]).map(|_| 0).map_err(e),
          Api::Commit(_) => w.as_mut().unwrap().commit().map(|_| 0).map_err(e),
          Api::Rollback(_) => w.as_mut().unwrap().rollback().map(|_| 0).map_err(e),
          Api::Compact => idx.compact().map(|_| 0).map_err(e),
          _ => Ok(0),
        };
        match r {
          Ok(v) => ctl2.note("user", "ret", &format!("{i}:{v}")),
          Err(e) => ctl2.note("user", "ret", &format!("{i}:999999:{e}")),
        }
      }
      if w.is_some() {
        // the handle is dropped (log sync without the lock) at a schedulable instant
        ctl2.point("user", "before_drop", "");
      }
      drop(w);
    }));
  }
  let to = Duration::from_secs(5);
  let mut stuck = !ctl.wait_quiescent(to);
  let mut trace = Vec::new();
  let mut prev: Option<usize> = None;
  let mut rnd = rnd;
  while !stuck {
    let parked = ctl.parked();
    if parked.is_empty() {
      break;
    }
    let locked = idx.verif_writer_locked();
    let options: Vec<usize> = parked.iter().filter(|p| !(p.2 == "enter" && locked)).map(|p| p.0).collect();
    if options.is_empty() {
      stuck = true;
      break;
    }
    let prev_enabled = prev.filter(|p| options.contains(p));
    let chosen = match rnd.as_deref_mut() {
      Some(r) => {
        // mostly keep running the same worker so that whole sections run, switch with 1/4
        match prev_enabled {
          Some(p) if !r.chance(1, 4) => p,
          _ => *r.pick(&options),
        }
      }
      None => dfs.choose(trace.len(), &options, prev_enabled),
    };
    trace.push(Choice { chosen, options, prev_enabled });
    stuck = !ctl.step(chosen, to);
    prev = Some(chosen);
  }
  if stuck {
    ctl.abandon();
  }
  for h in handles {
    let _ = h.join();
  }
  let log = ctl.log();
  let fin = slv::fixtures::contents(&idx).map_err(|e| e.to_string());
  drop(idx);
  let reopened = Index::open(opts).and_then(|i| slv::fixtures::contents(&i)).map_err(|e| e.to_string());
  RunOut { trace, log, stuck, fin, reopened }
}

fn contents_lit(c: &[(String, i64)]) -> String {
  let l: Vec<String> = c
    .iter()
    .map(|(id, v)| {
      let i = IDS.iter().position(|x| x == id).map(|x| x as u64).unwrap_or(999);
      coq::pair(&i.to_string(), &(if *v < 0 { 999_999 } else { *v as u64 }).to_string())
    })
    .collect();
  coq::list(&l)
}

struct ScenOut {
  cases: Vec<String>,
  meta: Vec<serde_json::Value>,
  stats: BTreeMap<String, usize>,
  summary: serde_json::Value,
}

fn explore(sc: &Scenario, bound: usize, dfs_cap: usize, n_random: usize, mut rng: Rng) -> ScenOut {
  let ctl = Ctl::install();
  let setup_l: Vec<String> = sc.setup.iter().map(|a| a.coq()).collect();
  let scripts_l: Vec<String> = sc
    .scripts
    .iter()
    .map(|(t, s)| coq::pair(&t.to_string(), &coq::list(&s.iter().map(|a| a.coq()).collect::<Vec<_>>())))
    .collect();
  let mut dfs = Dfs::new(Some(bound));
  let mut o = ScenOut { cases: Vec::new(), meta: Vec::new(), stats: BTreeMap::new(), summary: serde_json::Value::Null };
  let (mut runs, mut dfs_runs, mut dfs_complete) = (0usize, 0usize, false);
  let mut orders: std::collections::BTreeSet<Vec<usize>> = Default::default();
  loop {
    let random = dfs.done || dfs_runs >= dfs_cap;
    if random && runs >= dfs_runs + n_random {
      break;
    }
    let out = if random { run_schedule(&ctl, sc, &dfs, Some(&mut rng)) } else { run_schedule(&ctl, sc, &dfs, None) };
    runs += 1;
    let mut bump = |k: &str, n: usize| *o.stats.entry(k.to_string()).or_insert(0) += n;
    // log -> events
    let mut evs = Vec::new();
    let mut acq_order = Vec::new();
    let mut results: BTreeMap<usize, Vec<String>> = BTreeMap::new();
    let mut errors = Vec::new();
    for e in &out.log {
      let (s, st) = (e.section.as_str(), e.stage.as_str());
      if SECTIONS.contains(&s) {
        if st == "acquired" {
          evs.push(format!("({}, Acq)", e.tid));
          acq_order.push(e.tid);
        } else if st == "released" {
          evs.push(format!("({}, Rel)", e.tid));
        } else if let Some(l) = label(s, st) {
          evs.push(format!("({}, Sh {l})", e.tid));
        }
      } else if (s, st) == ("drop", "wal_sync") {
        bump("drop_sync_events", 1);
        evs.push(format!("({}, Loc)", e.tid));
      } else if (s, st) == ("user", "ret") {
        let mut it = e.data.splitn(3, ':');
        let _i = it.next();
        let v = it.next().unwrap_or("999999").to_string();
        if let Some(msg) = it.next() {
          errors.push(format!("thread {}: {msg}", e.tid));
        }
        results.entry(e.tid).or_default().push(v);
      } else if (s, st) == ("thread", "panic") {
        errors.push(format!("thread {} panicked", e.tid));
        results.entry(e.tid).or_default().push("888888".into());
      }
    }
    if out.stuck {
      bump("stuck_runs", 1);
      evs.push("(0, Rel)".to_string());
    }
    let switches = out.trace.windows(2).filter(|w| w[0].chosen != w[1].chosen).count();
    let preempt = out.trace.iter().filter(|c| matches!(c.prev_enabled, Some(p) if p != c.chosen)).count();
    bump("context_switches", switches);
    bump("preemptions", preempt);
    bump("call_errors", errors.len());
    orders.insert(acq_order.clone());
    let ores: Vec<String> = sc
      .scripts
      .iter()
      .map(|(t, _)| coq::pair(&t.to_string(), &coq::list(results.get(t).map(|v| v.as_slice()).unwrap_or(&[]))))
      .collect();
    let fin = out.fin.clone().unwrap_or_else(|_| vec![("?".into(), -1)]);
    let outcome = format!(
      "{{| ofinal := {}; oreopen := {}; ores := {} |}}",
      contents_lit(&fin),
      match &out.reopened {
        Ok(c) => format!("Some {}", contents_lit(c)),
        Err(_) => "None".into(),
      },
      coq::list(&ores)
    );
    o.cases.push(format!("({}, {}, {}, {})", coq::list(&setup_l), coq::list(&scripts_l), coq::list(&evs), outcome));
    o.meta.push(serde_json::json!({
      "setup": setup_l, "scripts": sc.scripts.iter().map(|(t, s)| (t.to_string(), s.iter().map(|a| a.coq()).collect::<Vec<_>>())).collect::<BTreeMap<_, _>>(),
      "schedule": out.trace.iter().map(|c| c.chosen).collect::<Vec<_>>(), "random": random,
      "acquisition_order": acq_order, "events": evs.len(), "final": out.fin, "reopened": out.reopened,
      "results": results, "errors": errors, "stuck": out.stuck,
      "nt": switches >= 2,
    }));
    if !random {
      dfs_runs += 1;
      dfs.advance(&out.trace);
      if dfs.done {
        dfs_complete = true;
      }
    }
  }
  o.summary = serde_json::json!({
    "threads": sc.scripts.len(), "compaction_thread": sc.compaction,
    "calls": sc.scripts.iter().map(|s| s.1.len()).sum::<usize>(),
    "schedules": runs, "dfs_schedules": dfs_runs, "dfs_exhausted_within_bound": dfs_complete, "preemption_bound": bound,
    "distinct_acquisition_orders": orders.len(),
  });
  o
}

fn main() {
  let args = parse_args();
  let mut rng = Rng::new(args.seed);
  let thorough = args.tier == "thorough";
  let bound = if thorough { 3 } else { 2 };
  let nscen = if thorough { 40 } else { 14 };
  let (dfs_cap, n_random) = if thorough { (400, 150) } else { (90, 50) };
  let mut jobs = Vec::new();
  for i in 0..nscen {
    let nthreads = 2 + (i % 3);
    let compaction = i % 2 == 1;
    let max_calls = if i % 5 == 4 { 10 } else { 7 };
    jobs.push((gen_scenario(&mut rng, nthreads, compaction, max_calls), rng.fork()));
  }
  // a fixed scenario (always explored): three committed segments, one handle that is opened, then
  // deletes / re-adds documents committed before and commits, a compaction thread and a second
  // writer - the handle's cache of live documents has to survive (or be refreshed after) a
  // compaction that ran between its creation and its commit
  jobs.push((
    Scenario {
      setup: vec![
        Api::NewWriter(9), Api::Add(9, 901, 0, 901), Api::Add(9, 902, 1, 902), Api::Commit(9),
        Api::Add(9, 903, 2, 903), Api::Commit(9), Api::Add(9, 904, 3, 904), Api::Commit(9),
      ],
      scripts: vec![
        (1, vec![Api::NewWriter(1), Api::Del(1, 905, 0), Api::Add(1, 906, 2, 906), Api::Commit(1)]),
        (2, vec![Api::NewWriter(2), Api::Del(2, 907, 1), Api::Commit(2)]),
        (3, vec![Api::Compact]),
      ],
      compaction: true,
    },
    rng.fork(),
  ));
  // a second fixed scenario: a handle whose first commit only deletes (it writes no segment, the
  // manifest's newest generation stays), another handle that commits a new document once, and
  // the first handle then deleting / replacing that document: whatever the handle remembers
  // about "the generation I last saw" must not make it trust a stale cache of live documents
  jobs.push((
    Scenario {
      setup: vec![Api::NewWriter(9), Api::Add(9, 911, 0, 911), Api::Add(9, 912, 1, 912), Api::Commit(9)],
      scripts: vec![
        (1, vec![Api::NewWriter(1), Api::Del(1, 913, 0), Api::Commit(1), Api::Del(1, 914, 2), Api::Add(1, 915, 3, 915), Api::Commit(1)]),
        (2, vec![Api::NewWriter(2), Api::Add(2, 916, 2, 916), Api::Add(2, 917, 3, 917), Api::Commit(2)]),
      ],
      compaction: false,
    },
    rng.fork(),
  ));
  let njobs = jobs.len();
  let queue = Arc::new(std::sync::Mutex::new(jobs.into_iter().enumerate().collect::<Vec<_>>()));
  let results: Arc<std::sync::Mutex<BTreeMap<usize, ScenOut>>> = Arc::new(std::sync::Mutex::new(BTreeMap::new()));
  let par: usize = args.extra.get("par").and_then(|p| p.parse().ok()).unwrap_or(6);
  let mut pool = Vec::new();
  for _ in 0..par.min(njobs).max(1) {
    let (queue, results) = (queue.clone(), results.clone());
    pool.push(std::thread::spawn(move || loop {
      let job = queue.lock().unwrap().pop();
      let Some((i, (sc, r))) = job else { break };
      let out = explore(&sc, bound, dfs_cap, n_random, r);
      results.lock().unwrap().insert(i, out);
    }));
  }
  for p in pool {
    p.join().expect("explorer thread");
  }
  let results = std::mem::take(&mut *results.lock().unwrap());
  let (mut cases, mut meta, mut per) = (Vec::new(), Vec::new(), Vec::new());
  let mut stats: BTreeMap<String, usize> = BTreeMap::new();
  for (_, o) in results {
    cases.extend(o.cases);
    meta.extend(o.meta);
    for (k, v) in o.stats {
      *stats.entry(k).or_insert(0) += v;
    }
    per.push(o.summary);
  }
  let shard = (cases.len() + 15) / 16 + 1;
  let files = write_cases(&args.out, "From SL Require Import Core.Model C05.Model.", "case05", "check_case", &cases, shard);
  write_json(
    &args.out,
    "cases.json",
    &serde_json::json!({"files": files, "cases": meta,
      "distribution": {"schedules": cases.len(), "scenarios": per, "totals": stats}}),
  );
}
