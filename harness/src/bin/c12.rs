//! C12 engine: the same live corpus committed under several segment layouts (one segment, many
//! segments, with deleted documents and with updated documents whose old copy is tombstoned), random
//! aggregation trees of the exact kinds to depth 3; the real response of every layout is translated
//! into the model's `resp` terms and checked in Coq against the merge model and the one-pass spec.
use serde_json::{json, Value};
use slv::aggworld::*;
use slv::{coq, parse_args, write_cases, write_json, Rng};
use std::collections::BTreeMap;

fn term_ids() -> BTreeMap<String, i64> {
  let mut all: Vec<String> = TAGS.iter().chain(CATS.iter()).map(|s| s.to_string()).collect();
  all.push("none".to_string());
  all.sort();
  all.dedup();
  all.into_iter().enumerate().map(|(i, s)| (s, i as i64)).collect()
}

fn z(v: i64) -> String {
  coq::z(v)
}

/// f64 -> number of halves (must be integral)
fn halves(v: f64) -> i64 {
  let h = v * 2.0;
  assert!((h - h.round()).abs() < 1e-9, "value {v} is not a multiple of 0.5");
  h.round() as i64
}

fn kw_field(name: &str) -> usize {
  match name {
    "tag" => 0,
    "cats" => 1,
    other => panic!("keyword field {other}"),
  }
}

fn num_field(name: &str) -> usize {
  match name {
    "n" => 0,
    "ms" => 1,
    "price" => 2,
    other => panic!("numeric field {other}"),
  }
}

fn opt_z(v: Option<i64>) -> String {
  match v {
    Some(x) => format!("(Some {})", z(x)),
    None => "None".into(),
  }
}

fn opt_n(v: Option<u64>) -> String {
  match v {
    Some(x) => format!("(Some {x}%N)"),
    None => "None".into(),
  }
}

fn filt_coq(f: &Value, ids: &BTreeMap<String, i64>) -> String {
  let (k, v) = f.as_object().unwrap().iter().next().unwrap();
  match k.as_str() {
    "KeywordEq" => format!("(FKwEq {} {})", kw_field(v["field"].as_str().unwrap()), z(ids[v["value"].as_str().unwrap()])),
    "KeywordIn" => {
      let vs: Vec<String> = v["values"].as_array().unwrap().iter().map(|x| z(ids[x.as_str().unwrap()])).collect();
      format!("(FKwIn {} {})", kw_field(v["field"].as_str().unwrap()), coq::list(&vs))
    }
    "I64Range" => format!(
      "(FRange {} {} {})",
      num_field(v["field"].as_str().unwrap()),
      z(v["min"].as_i64().unwrap() * 2),
      z(v["max"].as_i64().unwrap() * 2)
    ),
    "And" => format!("(FAnd {} {})", filt_coq(&v[0], ids), filt_coq(&v[1], ids)),
    "Or" => format!("(FOr {} {})", filt_coq(&v[0], ids), filt_coq(&v[1], ids)),
    "Not" => format!("(FNot {})", filt_coq(v, ids)),
    other => panic!("filter {other}"),
  }
}

fn subs_coq(a: &Value, ids: &BTreeMap<String, i64>) -> String {
  let subs: Vec<String> = match a.get("aggs").and_then(|s| s.as_object()) {
    Some(m) => m.values().map(|s| agg_coq(s, ids)).collect(), // serde_json maps are sorted by name
    None => Vec::new(),
  };
  coq::list(&subs)
}

fn agg_coq(a: &Value, ids: &BTreeMap<String, i64>) -> String {
  let missing_num = |a: &Value| opt_z(a.get("missing").and_then(|m| m.as_f64()).map(halves));
  match a["type"].as_str().unwrap() {
    "terms" => format!(
      "(ATerms {} {} {}%N {} {})",
      kw_field(a["field"].as_str().unwrap()),
      opt_n(a.get("size").and_then(|s| s.as_u64())),
      a.get("min_doc_count").and_then(|s| s.as_u64()).unwrap_or(1),
      opt_z(a.get("missing").and_then(|m| m.as_str()).map(|s| ids[s])),
      subs_coq(a, ids)
    ),
    "rare_terms" => format!(
      "(ARare {} {}%N {} {})",
      kw_field(a["field"].as_str().unwrap()),
      a.get("max_doc_count").and_then(|s| s.as_u64()).unwrap_or(1),
      opt_n(a.get("size").and_then(|s| s.as_u64())),
      subs_coq(a, ids)
    ),
    "range" => {
      let rs: Vec<String> = a["ranges"]
        .as_array()
        .unwrap()
        .iter()
        .map(|r| {
          format!(
            "({}, {})",
            opt_z(r.get("from").and_then(|x| x.as_f64()).map(halves)),
            opt_z(r.get("to").and_then(|x| x.as_f64()).map(halves))
          )
        })
        .collect();
      format!("(ARange {} {} {} {})", num_field(a["field"].as_str().unwrap()), coq::list(&rs), missing_num(a), subs_coq(a, ids))
    }
    "histogram" => {
      let bounds = a.get("extended_bounds").map(|b| (halves(b["min"].as_f64().unwrap()), halves(b["max"].as_f64().unwrap())));
      let mdc = a.get("min_doc_count").and_then(|s| s.as_u64()).unwrap_or(if bounds.is_some() { 0 } else { 1 });
      format!(
        "(AHist {} {} {} {}%N {} {} {})",
        num_field(a["field"].as_str().unwrap()),
        z(halves(a["interval"].as_f64().unwrap())),
        z(halves(a.get("offset").and_then(|o| o.as_f64()).unwrap_or(0.0))),
        mdc,
        match bounds {
          Some((lo, hi)) => format!("(Some ({}, {}))", z(lo), z(hi)),
          None => "None".into(),
        },
        missing_num(a),
        subs_coq(a, ids)
      )
    }
    "filter" => format!("(AFilter {} {})", filt_coq(&a["filter"], ids), subs_coq(a, ids)),
    "stats" => format!("(AMetric MStats {} {})", num_field(a["field"].as_str().unwrap()), missing_num(a)),
    "extended_stats" => format!("(AMetric MExtStats {} {})", num_field(a["field"].as_str().unwrap()), missing_num(a)),
    "value_count" => format!("(AMetric MValueCount {} {})", num_field(a["field"].as_str().unwrap()), missing_num(a)),
    "percentiles" => {
      let ps: Vec<String> = a["percents"].as_array().unwrap().iter().map(|p| z(p.as_f64().unwrap() as i64)).collect();
      format!("(AMetric (MPercentiles {}) {} {})", coq::list(&ps), num_field(a["field"].as_str().unwrap()), missing_num(a))
    }
    "percentile_ranks" => {
      let ts: Vec<String> = a["values"].as_array().unwrap().iter().map(|p| z(halves(p.as_f64().unwrap()))).collect();
      format!("(AMetric (MRanks {}) {} {})", coq::list(&ts), num_field(a["field"].as_str().unwrap()), missing_num(a))
    }
    "cardinality" => {
      let f = a["field"].as_str().unwrap();
      if f == "tag" || f == "cats" {
        format!("(ACard true {})", kw_field(f))
      } else {
        format!("(ACard false {})", num_field(f))
      }
    }
    other => panic!("aggregation kind {other}"),
  }
}

fn micro(v: f64) -> String {
  format!("({}, 1000000%Z)", z((v * 1e6).round() as i64))
}

fn near_int(v: f64) -> i64 {
  assert!((v - v.round()).abs() < 1e-3 * v.abs().max(1.0).min(1e3), "expected an integer, got {v}");
  v.round() as i64
}

fn sub_resps(a: &Value, r: Option<&Value>, ids: &BTreeMap<String, i64>) -> String {
  let defs = a.get("aggs").and_then(|s| s.as_object());
  let mut out = Vec::new();
  if let (Some(defs), Some(resps)) = (defs, r.and_then(|x| x.as_object())) {
    for (name, def) in defs.iter() {
      if let Some(x) = resps.get(name) {
        out.push(resp_coq(def, x, ids));
      }
    }
  }
  coq::list(&out)
}

/// Translates the response `r` of aggregation `a` into a `resp` term.
fn resp_coq(a: &Value, r: &Value, ids: &BTreeMap<String, i64>) -> String {
  let kind = a["type"].as_str().unwrap();
  assert_eq!(r["type"].as_str().unwrap(), kind, "response kind");
  let f = |k: &str| r[k].as_f64().unwrap_or_else(|| panic!("number {k} in {r}"));
  match kind {
    "terms" | "rare_terms" | "range" | "histogram" => {
      let bs: Vec<String> = r["buckets"]
        .as_array()
        .unwrap()
        .iter()
        .enumerate()
        .map(|(i, b)| {
          let key = match kind {
            "terms" | "rare_terms" => ids[b["key"].as_str().expect("terms key")],
            "range" => i as i64,
            _ => halves(b["key"].as_f64().expect("histogram key")),
          };
          format!("({}, {}%N, {})", z(key), b["doc_count"].as_u64().unwrap(), sub_resps(a, b.get("aggregations"), ids))
        })
        .collect();
      format!("(RBuckets {})", coq::list(&bs))
    }
    "filter" => format!("(RBuckets [({}, {}%N, {})])", z(0), r["doc_count"].as_u64().unwrap(), sub_resps(a, r.get("aggregations"), ids)),
    "stats" | "extended_stats" => {
      let n = r["count"].as_u64().unwrap();
      let head = format!(
        "{}%N {} {} {} {}",
        n,
        z(halves(f("sum"))),
        z(halves(f("min"))),
        z(halves(f("max"))),
        z(near_int(f("avg") * n as f64 * 2.0))
      );
      if kind == "stats" {
        format!("(RStats {head})")
      } else {
        let var = f("variance");
        let sd = f("std_deviation");
        assert!((sd * sd - var).abs() <= 1e-9 * var.abs().max(1.0), "std_deviation^2 != variance");
        format!("(RExt {head} {})", z(near_int(var * (n * n) as f64 * 4.0)))
      }
    }
    "value_count" | "cardinality" => format!("(RCount {}%N)", r["value"].as_u64().unwrap()),
    "percentiles" => {
      let vs: Vec<String> = a["percents"]
        .as_array()
        .unwrap()
        .iter()
        .map(|p| micro(r["values"][format!("{}", p.as_f64().unwrap())].as_f64().expect("percentile value") * 2.0))
        .collect();
      format!("(RQ {})", coq::list(&vs))
    }
    "percentile_ranks" => {
      let vs: Vec<String> = a["values"]
        .as_array()
        .unwrap()
        .iter()
        .map(|p| micro(r["values"][format!("{}", p.as_f64().unwrap())].as_f64().expect("rank value")))
        .collect();
      format!("(RQ {})", coq::list(&vs))
    }
    other => panic!("response kind {other}"),
  }
}

fn strip_shard_size(v: &mut Value) {
  match v {
    Value::Object(m) => {
      m.remove("shard_size");
      for x in m.values_mut() {
        strip_shard_size(x);
      }
    }
    Value::Array(a) => a.iter_mut().for_each(strip_shard_size),
    _ => {}
  }
}

fn doc_coq(d: &DocSpec, ids: &BTreeMap<String, i64>) -> String {
  let l = |v: Vec<i64>| coq::list(&v.into_iter().map(z).collect::<Vec<_>>());
  format!(
    "{{| kws := [{}; {}]; nums := [{}; {}; {}] |}}",
    l(d.tag.iter().map(|t| ids[*t]).collect()),
    l(d.cats.iter().map(|t| ids[*t]).collect()),
    l(d.n.iter().map(|n| n * 2).collect()),
    l(d.ms.iter().map(|n| n * 2).collect()),
    l(d.price.iter().map(|p| halves(*p)).collect())
  )
}

fn threshold_sensitive(v: &Value) -> bool {
  match v {
    Value::Object(m) => {
      let t = m.get("type").and_then(|t| t.as_str());
      ((t == Some("terms") || t == Some("histogram")) && (m.get("min_doc_count").and_then(|x| x.as_u64()).unwrap_or(1) >= 2 || m.contains_key("size")))
        || t == Some("rare_terms")
        || m.values().any(threshold_sensitive)
    }
    Value::Array(a) => a.iter().any(threshold_sensitive),
    _ => false,
  }
}

fn main() {
  let args = parse_args();
  let mut rng = Rng::new(args.seed);
  let thorough = args.tier == "thorough";
  let ids = term_ids();
  let mut cases: Vec<String> = Vec::new();
  let mut ccases: Vec<String> = Vec::new();
  let mut cmeta: Vec<Value> = Vec::new();
  let mut meta: Vec<Value> = Vec::new();
  let mut dist: BTreeMap<String, u64> = BTreeMap::new();
  let mut agg_stats = AggStats::default();
  let progress = args.out.join("progress.txt");
  for wi in 0..args.n {
    let mut r = rng.fork();
    let ndocs = (6 + r.below(if thorough { 60 } else { 34 })) as usize;
    let docs: Vec<DocSpec> = (0..ndocs).map(|i| gen_doc(&mut r, i)).collect();
    let deleted: Vec<usize> = (0..ndocs).filter(|_| r.chance(1, 8)).collect();
    // documents that exist first with other content and are then re-added (old copy tombstoned)
    let updated: Vec<usize> = (0..ndocs).filter(|i| !deleted.contains(i) && r.chance(1, 8)).collect();
    let old_versions: BTreeMap<usize, DocSpec> = updated.iter().map(|&i| (i, gen_doc(&mut r, i))).collect();
    // root request: match_all, optionally restricted by a filter the harness evaluates itself
    let root_tag = if r.chance(1, 3) { Some(*r.pick(&TAGS[..3])) } else { None };
    let matched = |d: &DocSpec| root_tag.map(|t| d.tag == Some(t)).unwrap_or(true);
    let mut st = AggStats::default();
    let mut aggs = gen_aggs(&mut r, 3, false, &mut st);
    strip_shard_size(&mut aggs);
    for (k, n) in st.kinds.iter() {
      *agg_stats.kinds.entry(k.clone()).or_insert(0) += n;
    }
    agg_stats.max_depth = agg_stats.max_depth.max(st.max_depth);
    *dist.entry(format!("agg_depth:{}", st.max_depth)).or_insert(0) += 1;
    let sensitive = threshold_sensitive(&aggs);
    let agg_lits: Vec<String> = aggs.as_object().unwrap().values().map(|a| agg_coq(a, &ids)).collect();

    // layouts of the same live corpus
    let mut layouts: Vec<(&str, Vec<Vec<(usize, bool)>>)> = Vec::new(); // (doc, old version?)
    let one: Vec<(usize, bool)> = (0..ndocs).map(|i| (i, false)).collect();
    layouts.push(("one_segment", vec![one.clone()]));
    for name in ["random_a", "random_b"] {
      let nseg = 2 + r.below(5) as usize;
      let mut b: Vec<Vec<(usize, bool)>> = vec![Vec::new(); nseg];
      for i in 0..ndocs {
        b[r.below(nseg as u64) as usize].push((i, false));
      }
      layouts.push((name, b));
    }
    {
      // updates: old versions spread over the early commits, final versions later
      let nseg = 2 + r.below(3) as usize;
      let mut b: Vec<Vec<(usize, bool)>> = vec![Vec::new(); nseg + 1];
      for i in 0..ndocs {
        if updated.contains(&i) {
          let first = r.below(nseg as u64) as usize;
          b[first].push((i, true));
          let second = first + 1 + r.below((nseg - first) as u64) as usize;
          b[second].push((i, false));
        } else {
          b[r.below(nseg as u64 + 1) as usize].push((i, false));
        }
      }
      layouts.push(("with_updates", b));
    }
    if ndocs <= 14 {
      layouts.push(("doc_per_segment", (0..ndocs).map(|i| vec![(i, false)]).collect()));
    }
    for (lname, batches) in layouts.iter() {
      let batches: Vec<&Vec<(usize, bool)>> = batches.iter().filter(|b| !b.is_empty()).collect();
      std::fs::write(&progress, format!("world {wi} layout {lname}\n")).ok();
      // build
      let dir = slv::fixtures::scratch();
      let index = searchlite_core::Index::create(
        dir.path(),
        schema(),
        slv::fixtures::opts(dir.path(), searchlite_core::api::types::StorageType::Filesystem),
      )
      .expect("create index");
      {
        let mut w = index.writer().expect("writer");
        for b in batches.iter() {
          for (i, old) in b.iter() {
            let d = if *old { &old_versions[i] } else { &docs[*i] };
            w.add_document(&slv::fixtures::doc(doc_json(d))).expect("add");
          }
          w.commit().expect("commit");
        }
        if !deleted.is_empty() {
          for &i in deleted.iter() {
            w.delete_document(&ext_id(i)).expect("delete");
          }
          w.commit().expect("commit deletes");
        }
      }
      let reader = index.reader().expect("reader");
      let mut req = json!({"query": {"type":"match_all"}, "limit": 1, "return_stored": false, "aggs": aggs});
      if let Some(t) = root_tag {
        req["filter"] = json!({"KeywordEq": {"field": "tag", "value": t}});
      }
      let res = reader.search(&request(req)).expect("search");
      let resp = serde_json::to_value(&res.aggregations).unwrap();
      // ---- composite aggregation over the same layout (C12/Composite.v)
      {
        let mut kw_all: Vec<&str> = TAGS.iter().copied().chain(CATS.iter().copied()).collect();
        kw_all.sort();
        kw_all.dedup();
        let rank = |s: &str| kw_all.iter().position(|x| *x == s).unwrap() as i64;
        let mut cr = Rng::new(args.seed ^ (wi as u64 * 7919 + 13));
        let nsrc = 1 + cr.below(2) as usize;
        let mut srcs_json = Vec::new();
        let mut srcs_coq = Vec::new();
        let mut names = Vec::new();
        for k in 0..nsrc {
          let name = format!("s{k}");
          match cr.below(3) {
            0 => {
              srcs_json.push(json!({"type":"terms","name":name,"field":"tag"}));
              srcs_coq.push("Composite.STerms 0".to_string());
            }
            1 => {
              srcs_json.push(json!({"type":"terms","name":name,"field":"cats"}));
              srcs_coq.push("Composite.STerms 1".to_string());
            }
            _ => {
              let halves = *cr.pick(&[2i64, 5, 8][..]); // intervals 1.0, 2.5, 4.0
              srcs_json.push(json!({"type":"histogram","name":name,"field":"price","interval": halves as f64 / 2.0}));
              srcs_coq.push(format!("Composite.SHist 2 {halves}%Z"));
            }
          }
          names.push(name);
        }
        let size = if cr.chance(1, 2) { 1 + cr.below(6) as usize } else { 500 };
        let mut creq = json!({"query": {"type":"match_all"}, "limit": 1, "return_stored": false,
          "aggs": {"c": {"type":"composite","sources": srcs_json, "size": size}}});
        if let Some(t) = root_tag {
          creq["filter"] = json!({"KeywordEq": {"field": "tag", "value": t}});
        }
        let cres = reader.search(&request(creq.clone())).expect("composite search");
        let cj = serde_json::to_value(&cres.aggregations).unwrap();
        let zl = |v: Vec<i64>| coq::list(&v.iter().map(|x| coq::z(*x)).collect::<Vec<_>>());
        let obs: Vec<String> = cj["c"]["buckets"]
          .as_array()
          .map(|bs| {
            bs.iter()
              .map(|b| {
                let key: Vec<i64> = names
                  .iter()
                  .map(|n| match &b["key"][n] {
                    Value::String(s) => rank(s),
                    other => (other.as_f64().unwrap_or(f64::NAN) * 2.0).round() as i64,
                  })
                  .collect();
                format!("({}, {}%N)", zl(key), b["doc_count"].as_u64().unwrap_or(0))
              })
              .collect()
          })
          .unwrap_or_default();
        let segs: Vec<String> = batches
          .iter()
          .map(|b| {
            let ds: Vec<String> = b
              .iter()
              .filter(|(i, old)| !*old && !deleted.contains(i) && matched(&docs[*i]))
              .map(|(i, _)| {
                let d = &docs[*i];
                let tag: Vec<i64> = d.tag.iter().map(|t| rank(t)).collect();
                let cats: Vec<i64> = d.cats.iter().map(|t| rank(t)).collect();
                let price: Vec<i64> = d.price.iter().map(|p| (p * 2.0).round() as i64).collect();
                coq::list(&[zl(tag), zl(cats), zl(price)])
              })
              .collect();
            coq::list(&ds)
          })
          .collect();
        ccases.push(format!(
          "{{| Composite.cc_srcs := {}; Composite.cc_size := {}%nat; Composite.cc_segs := {}; Composite.cc_obs := {} |}}",
          coq::list(&srcs_coq), size, coq::list(&segs), coq::list(&obs)
        ));
        cmeta.push(json!({"world": wi, "layout": lname, "composite_request": creq["aggs"]["c"], "buckets": cj["c"]["buckets"],
          "nt": obs.len() >= 2 && batches.len() >= 2}));
        *dist.entry("composite_cases".into()).or_insert(0) += 1;
      }
      // what the model sees: the matched live documents of every segment
      let mut nmatched = 0usize;
      let seg_lits: Vec<String> = batches
        .iter()
        .map(|b| {
          let ds: Vec<String> = b
            .iter()
            .filter(|(i, old)| !*old && !deleted.contains(i) && matched(&docs[*i]))
            .map(|(i, _)| {
              nmatched += 1;
              doc_coq(&docs[*i], &ids)
            })
            .collect();
          coq::list(&ds)
        })
        .collect();
      let obs: Vec<String> = aggs.as_object().unwrap().iter().map(|(name, a)| resp_coq(a, &resp[name], &ids)).collect();
      cases.push(format!(
        "{{| k_aggs := {}; k_segs := {}; k_obs := {} |}}",
        coq::list(&agg_lits),
        coq::list(&seg_lits),
        coq::list(&obs)
      ));
      let nt = batches.len() >= 2 && nmatched > 0;
      *dist.entry(format!("layout:{lname}")).or_insert(0) += 1;
      *dist.entry(format!("segments:{}", match batches.len() { 1 => "1", 2..=3 => "2-3", 4..=6 => "4-6", _ => "7+" })).or_insert(0) += 1;
      if sensitive && nt {
        *dist.entry("threshold_or_size_in_tree_and_multi_segment".into()).or_insert(0) += 1;
      }
      if nt {
        *dist.entry("nontrivial".into()).or_insert(0) += 1;
      }
      meta.push(json!({
        "world": wi, "ndocs": ndocs, "layout": lname, "segment_sizes": batches.iter().map(|b| b.len()).collect::<Vec<_>>(),
        "deleted": deleted, "updated": updated, "root_filter_tag": root_tag, "matched_live_docs": nmatched,
        "aggs": aggs, "response": resp, "nt": nt,
      }));
    }
    if !deleted.is_empty() {
      *dist.entry("worlds_with_deletions".into()).or_insert(0) += 1;
    }
    if !updated.is_empty() {
      *dist.entry("worlds_with_updates".into()).or_insert(0) += 1;
    }
    if root_tag.is_some() {
      *dist.entry("worlds_with_root_filter".into()).or_insert(0) += 1;
    }
  }
  std::fs::remove_file(&progress).ok();
  let mut files = write_cases(&args.out, "From SL Require Import C12.Model.\nOpen Scope Z_scope.", "case", "check_case", &cases, 25);
  // composite cases: their own check function, indices continue after the regular cases
  let base = cases.len();
  for (k, chunk) in ccases.chunks(40).enumerate() {
    let name = format!("ccases_{k}.v");
    let mut t = String::from("From Coq Require Import List NArith ZArith Bool.\nImport ListNotations.\nFrom SL Require Import Base.Tie.\nFrom SL Require C12.Composite.\nOpen Scope Z_scope.\n");
    t.push_str("Definition cases : list Composite.ccase := [\n");
    t.push_str(&chunk.join(";\n"));
    t.push_str("\n].\n");
    t.push_str(&format!("Open Scope N_scope.\nEval vm_compute in (report_from Composite.check_composite {} cases).\n", base + k * 40));
    std::fs::write(args.out.join(&name), t).expect("write composite cases");
    files.push(name);
  }
  meta.extend(cmeta.into_iter());
  let nt = meta.iter().filter(|m| m["nt"] == json!(true)).count();
  write_json(
    &args.out,
    "cases.json",
    &json!({
      "files": files, "cases": meta,
      "distribution": {"worlds": args.n, "cases": dist, "aggregation_kinds": agg_stats.kinds, "max_agg_depth": agg_stats.max_depth},
      "nontrivial": nt,
    }),
  );
}
