//! C23 engine: random sequences of valid and invalid /add, /bulk, /delete, /commit, /refresh,
//! /compact, /search against a live searchlite-http server (one fresh server + index per
//! sequence); writes (request classes, canonical answers) cases for C23/Model.v.
use serde_json::{json, Value};
use slv::http::{self, NoReply, Reply, Server};
use slv::{coq, parse_args, write_cases, write_json, Rng};
use std::collections::BTreeMap;

#[derive(Clone, Debug)]
enum VDoc {
  Good(u64, u64),
  Invalid(Value), // the JSON object sent
}

#[derive(Clone, Debug)]
enum Line {
  Blank(String),
  BadJson(String),
  NotObject(String),
  Doc(VDoc),
}

#[derive(Clone, Debug)]
enum BItem {
  NotObject(Value),
  Doc(VDoc),
}

#[derive(Clone, Debug)]
enum DId {
  Ok(u64),
  Bad(String),
}

#[derive(Clone, Debug)]
enum Req {
  Add(Vec<Line>, bool),               // crlf
  Bulk(Result<Vec<BItem>, (String, bool)>), // Err: (raw body, send as text/plain)
  Delete(Result<Vec<DId>, (String, bool)>),
  Commit,
  Refresh,
  Compact,
  Search,
}

const NIDS: u64 = 5;

fn good_json(i: u64, v: u64) -> Value {
  json!({"_id": format!("d{i}"), "body": format!("w{v} common"), "tag": "t", "n": v})
}

fn gen_vdoc(rng: &mut Rng, ver: &mut u64, p_invalid: u64) -> VDoc {
  if rng.chance(p_invalid, 100) {
    let i = rng.below(NIDS);
    let d = match rng.below(10) {
      9 => json!({"_id": format!("d{i}"), "boty": "a field the schema does not have"}),
      0 => json!({"body": "no id"}),
      1 => json!({"_id": "", "body": "empty id"}),
      2 => json!({"_id": "   ", "body": "blank id"}),
      3 => json!({"_id": 7, "body": "numeric id"}),
      4 => json!({"_id": format!("d{i}"), "n": "x"}),
      5 => json!({"_id": format!("d{i}"), "body": 5}),
      6 => json!({"_id": format!("d{i}"), "tag": {"a": 1}}),
      7 => json!({"_id": format!("d{i}"), "n": 1.5}),
      _ => json!({"_id": null, "body": "null id", "n": 3}),
    };
    VDoc::Invalid(d)
  } else {
    *ver += 1;
    VDoc::Good(rng.below(NIDS), *ver)
  }
}

fn gen_docs(rng: &mut Rng, ver: &mut u64, bad: bool) -> Vec<VDoc> {
  // bad: exactly the requested number of invalid documents (>= 1), most often behind a
  // non-empty prefix of valid ones (they are appended to the log before the failure)
  let n = 1 + rng.below(4) as usize;
  let mut v: Vec<VDoc> = (0..n).map(|_| gen_vdoc(rng, ver, 0)).collect();
  if bad {
    let pos = if rng.chance(3, 4) { 1 + rng.below(v.len() as u64) as usize } else { 0 };
    let d = gen_vdoc(rng, ver, 100);
    v.insert(pos.min(v.len()), d);
    if rng.chance(1, 3) {
      v.push(gen_vdoc(rng, ver, 30));
    }
  }
  v
}

fn gen_req(rng: &mut Rng, ver: &mut u64) -> Req {
  let bad = rng.chance(35, 100);
  match rng.below(100) {
    0..=29 => {
      // /add
      // 0..=2 a document failing validation; 3 an unparsable line; 4 a non-object line; 5 both
      let flavour = if bad { rng.below(6) } else { 99 };
      let mut lines: Vec<Line> = gen_docs(rng, ver, flavour <= 2 || flavour == 5).into_iter().map(Line::Doc).collect();
      if flavour == 3 || flavour == 5 {
        let pos = rng.below(lines.len() as u64 + 1) as usize;
        let s = rng.pick(&["{\"_id\": \"d1\"", "not json", "{'_id':'d1'}", "{\"_id\":\"d1\",}"][..]).to_string();
        lines.insert(pos, Line::BadJson(s));
      }
      if flavour == 4 {
        let pos = rng.below(lines.len() as u64 + 1) as usize;
        let s = rng.pick(&["[1,2]", "\"str\"", "42", "null", "true"][..]).to_string();
        lines.insert(pos, Line::NotObject(s));
      }
      if rng.chance(1, 3) {
        let pos = rng.below(lines.len() as u64 + 1) as usize;
        lines.insert(pos, Line::Blank(rng.pick(&["", "   ", "\t"][..]).to_string()));
      }
      if rng.chance(1, 25) {
        lines = vec![]; // empty body: 200 queued 0
      } else if rng.chance(1, 25) {
        lines = vec![Line::Blank("".into()), Line::Blank("  ".into())];
      }
      Req::Add(lines, rng.chance(1, 5))
    }
    30..=49 => {
      // /bulk
      if bad {
        match rng.below(5) {
          0 => {
            let raw = rng.pick(&["not json", "{\"docs\": 5}", "{}", "[]", "{\"docs\": [", ""][..]).to_string();
            Req::Bulk(Err((raw, false)))
          }
          1 => Req::Bulk(Err((json!({"docs": [good_json(0, 999)]}).to_string(), true))),
          2 => Req::Bulk(Ok(vec![])),
          3 => {
            let also_invalid = rng.chance(1, 2);
            let mut items: Vec<BItem> = gen_docs(rng, ver, also_invalid).into_iter().map(BItem::Doc).collect();
            let pos = rng.below(items.len() as u64 + 1) as usize;
            items.insert(pos, BItem::NotObject(rng.pick(&[json!(3), json!("x"), json!([1]), json!(null)][..]).clone()));
            Req::Bulk(Ok(items))
          }
          _ => Req::Bulk(Ok(gen_docs(rng, ver, true).into_iter().map(BItem::Doc).collect())),
        }
      } else {
        Req::Bulk(Ok(gen_docs(rng, ver, false).into_iter().map(BItem::Doc).collect()))
      }
    }
    50..=61 => {
      // /delete
      let n = 1 + rng.below(3) as usize;
      let mut ids: Vec<DId> = (0..n).map(|_| DId::Ok(rng.below(NIDS + 1))).collect();
      if bad {
        match rng.below(4) {
          0 => {
            let raw = rng.pick(&["nope", "{\"ids\": \"d1\"}", "{\"ids\": [1]}", "{}"][..]).to_string();
            return Req::Delete(Err((raw, false)));
          }
          1 => return Req::Delete(Ok(vec![])),
          _ => {
            let pos = rng.below(ids.len() as u64 + 1) as usize;
            let s = rng.pick(&["", "  ", " d1", "d1 ", "d\u{0001}1", "\n"][..]).to_string();
            ids.insert(pos, DId::Bad(s));
          }
        }
      }
      Req::Delete(Ok(ids))
    }
    62..=76 => Req::Commit,
    77..=86 => Req::Search,
    87..=91 => Req::Refresh,
    _ => Req::Compact,
  }
}

fn vdoc_json(d: &VDoc) -> Value {
  match d {
    VDoc::Good(i, v) => good_json(*i, *v),
    VDoc::Invalid(j) => j.clone(),
  }
}

fn vdoc_coq(d: &VDoc) -> String {
  match d {
    VDoc::Good(i, v) => format!("VGood {i} {v}"),
    VDoc::Invalid(_) => "VInvalid".into(),
  }
}

/// (method, path, content type, body)
fn render(r: &Req) -> (&'static str, &'static str, Option<&'static str>, String) {
  match r {
    Req::Add(lines, crlf) => {
      let sep = if *crlf { "\r\n" } else { "\n" };
      let mut body = String::new();
      for l in lines {
        match l {
          Line::Blank(s) | Line::BadJson(s) | Line::NotObject(s) => body.push_str(s),
          Line::Doc(d) => body.push_str(&vdoc_json(d).to_string()),
        }
        body.push_str(sep);
      }
      ("POST", "/add", Some("application/x-ndjson"), body)
    }
    Req::Bulk(Ok(items)) => {
      let docs: Vec<Value> = items
        .iter()
        .map(|b| match b {
          BItem::NotObject(v) => v.clone(),
          BItem::Doc(d) => vdoc_json(d),
        })
        .collect();
      ("POST", "/bulk", Some("application/json"), json!({ "docs": docs }).to_string())
    }
    Req::Bulk(Err((raw, text))) => ("POST", "/bulk", Some(if *text { "text/plain" } else { "application/json" }), raw.clone()),
    Req::Delete(Ok(ids)) => {
      let v: Vec<String> = ids
        .iter()
        .map(|d| match d {
          DId::Ok(i) => format!("d{i}"),
          DId::Bad(s) => s.clone(),
        })
        .collect();
      ("POST", "/delete", Some("application/json"), json!({ "ids": v }).to_string())
    }
    Req::Delete(Err((raw, text))) => ("POST", "/delete", Some(if *text { "text/plain" } else { "application/json" }), raw.clone()),
    Req::Commit => ("POST", "/commit", None, String::new()),
    Req::Refresh => ("POST", "/refresh", None, String::new()),
    Req::Compact => ("POST", "/compact", None, String::new()),
    Req::Search => (
      "POST",
      "/search",
      Some("application/json"),
      json!({"query": {"type": "match_all"}, "limit": 1000, "return_stored": true}).to_string(),
    ),
  }
}

fn req_coq(r: &Req) -> String {
  match r {
    Req::Add(lines, _) => {
      let v: Vec<String> = lines
        .iter()
        .map(|l| match l {
          Line::Blank(_) => "LBlank".to_string(),
          Line::BadJson(_) => "LBadJson".to_string(),
          Line::NotObject(_) => "LNotObject".to_string(),
          Line::Doc(d) => format!("LDoc ({})", vdoc_coq(d)),
        })
        .collect();
      format!("RAdd {}", coq::list(&v))
    }
    Req::Bulk(Ok(items)) => {
      let v: Vec<String> = items
        .iter()
        .map(|b| match b {
          BItem::NotObject(_) => "BNotObject".to_string(),
          BItem::Doc(d) => format!("BDoc ({})", vdoc_coq(d)),
        })
        .collect();
      format!("RBulk (Some {})", coq::list(&v))
    }
    Req::Bulk(Err(_)) => "RBulk None".into(),
    Req::Delete(Ok(ids)) => {
      let v: Vec<String> = ids
        .iter()
        .map(|d| match d {
          DId::Ok(i) => format!("IdOk {i}"),
          DId::Bad(_) => "IdBad".to_string(),
        })
        .collect();
      format!("RDelete (Some {})", coq::list(&v))
    }
    Req::Delete(Err(_)) => "RDelete None".into(),
    Req::Commit => "RCommit".into(),
    Req::Refresh => "RRefresh".into(),
    Req::Compact => "RCompact".into(),
    Req::Search => "RSearch".into(),
  }
}

/// Canonical answer: (Gallina literal, short tag for statistics / JSON).
fn canon(reply: &Result<Reply, NoReply>) -> (String, String) {
  let r = match reply {
    Ok(r) => r,
    Err(e) => return ("Other 0".into(), format!("no-reply:{e:?}")),
  };
  let j = r.json();
  if (200..300).contains(&r.status) {
    if let Some(j) = &j {
      if let Some(n) = j.get("queued").and_then(|v| v.as_u64()) {
        return (format!("Queued {n}"), "queued".into());
      }
      if j.get("committed") == Some(&json!(true)) {
        return ("Committed".into(), "committed".into());
      }
      if j.get("refreshed") == Some(&json!(true)) {
        return ("Refreshed".into(), "refreshed".into());
      }
      if j.get("compacted") == Some(&json!(true)) {
        return ("Compacted".into(), "compacted".into());
      }
      if let Some(hits) = j.get("hits").and_then(|h| h.as_array()) {
        let mut m: Vec<(u64, u64)> = Vec::new();
        let mut ok = true;
        for h in hits {
          let id = h.get("doc_id").and_then(|v| v.as_str()).and_then(|s| s.strip_prefix('d')).and_then(|s| s.parse::<u64>().ok());
          let stored_id = h.pointer("/fields/_id").and_then(|v| v.as_str()).and_then(|s| s.strip_prefix('d')).and_then(|s| s.parse::<u64>().ok());
          let n = h.pointer("/fields/n").and_then(|v| v.as_u64());
          match (id, stored_id, n) {
            (Some(i), Some(si), Some(n)) if i == si => m.push((i, n)),
            _ => ok = false,
          }
        }
        let total = j.get("total_hits_estimate").and_then(|v| v.as_u64());
        if ok && total == Some(m.len() as u64) {
          m.sort();
          let v: Vec<String> = m.iter().map(|(i, n)| format!("({i}, {n})")).collect();
          return (format!("Hits {}", coq::list(&v)), format!("hits:{}", m.len()));
        }
      }
    }
    return (format!("Other {}", r.status), format!("unrecognised-2xx:{}", String::from_utf8_lossy(&r.body)));
  }
  if let Some(t) = j.as_ref().and_then(|j| j.pointer("/error/type")).and_then(|v| v.as_str()) {
    let has_reason = j.as_ref().and_then(|j| j.pointer("/error/reason")).map(|v| v.is_string()).unwrap_or(false);
    if has_reason {
      let k = match t {
        "invalid_document" => "EInvalidDocument",
        "add_failed" => "EAddFailed",
        "invalid_request" => "EInvalidRequest",
        "missing_documents" => "EMissingDocuments",
        "missing_ids" => "EMissingIds",
        "invalid_id" => "EInvalidId",
        _ => "EOtherKind",
      };
      return (format!("Rejected {} {k}", r.status), format!("rejected:{}:{t}", r.status));
    }
  }
  (format!("Other {}", r.status), format!("unstructured:{}", r.status))
}

fn main() {
  let args = parse_args();
  let mut rng = Rng::new(args.seed);
  let rt = http::runtime();
  let progress = args.out.join("progress.txt");
  let mut cases: Vec<String> = Vec::new();
  let mut meta: Vec<Value> = Vec::new();
  let mut dist: BTreeMap<String, u64> = BTreeMap::new();
  let bump = |k: &str, d: &mut BTreeMap<String, u64>| *d.entry(k.to_string()).or_insert(0) += 1;
  let mut n_nt = 0u64;
  for case_no in 0..args.n {
    let dir = slv::fixtures::scratch();
    let index = dir.path().join("idx");
    let srv = Server::start(&rt, &index, &[]);
    let init = http::post_json(srv.port, "/init", &http::schema_json().to_string());
    assert!(matches!(&init, Ok(r) if r.status == 200), "init failed: {init:?}");
    // the sequence
    let mut ver = 0u64;
    let len = 6 + rng.below(if args.tier == "thorough" { 24 } else { 14 }) as usize;
    let mut reqs: Vec<Req> = Vec::new();
    while reqs.len() < len {
      let r = gen_req(&mut rng, &mut ver);
      let is_commit = matches!(r, Req::Commit);
      reqs.push(r);
      if is_commit {
        reqs.push(Req::Search);
      }
    }
    reqs.push(Req::Commit);
    reqs.push(Req::Search);
    let mut obs: Vec<String> = Vec::new();
    let mut jreqs: Vec<Value> = Vec::new();
    // scenario tracking for the non-triviality rule
    let mut acked_uncommitted = false;
    let mut reject_after_ack = false;
    let mut scenario_committed = false;
    for (k, r) in reqs.iter().enumerate() {
      let (method, path, ct, body) = render(r);
      std::fs::write(&progress, format!("case {case_no} request {k}: {method} {path} {body:?}\n")).ok();
      let headers: Vec<(&str, &str)> = ct.iter().map(|c| ("Content-Type", *c)).collect();
      let reply = http::request(srv.port, method, path, &headers, body.as_bytes());
      let (lit, tag) = canon(&reply);
      bump(&format!("req:{path}"), &mut dist);
      let stat = if tag.starts_with("rejected:") { tag.clone() } else { tag.split(':').next().unwrap_or("").to_string() };
      bump(&format!("resp:{stat}"), &mut dist);
      if lit.starts_with("Queued") && !lit.ends_with(" 0") {
        acked_uncommitted = true;
      }
      if lit.starts_with("Rejected") && tag.ends_with("add_failed") && acked_uncommitted {
        reject_after_ack = true;
      }
      if lit == "Committed" {
        if reject_after_ack {
          scenario_committed = true;
        }
        acked_uncommitted = false;
        reject_after_ack = false;
      }
      jreqs.push(json!({"method": method, "path": path, "content_type": ct, "body": body, "class": req_coq(r), "answer": lit, "detail": tag}));
      obs.push(lit);
    }
    assert!(srv.alive(), "server task ended");
    srv.stop();
    if scenario_committed {
      n_nt += 1;
    }
    let rs: Vec<String> = reqs.iter().map(req_coq).collect();
    cases.push(coq::pair(&coq::list(&rs), &coq::list(&obs)));
    meta.push(json!({"requests": jreqs, "nt": scenario_committed}));
  }
  std::fs::remove_file(&progress).ok();
  let files = write_cases(&args.out, "From SL Require Import C23.Model.", "list req * list resp", "check_case", &cases, 50);
  let mut d = serde_json::Map::new();
  for (k, v) in dist {
    d.insert(k, json!(v));
  }
  d.insert("sequences".into(), json!(args.n));
  d.insert("sequences_with_rejected_write_after_uncommitted_ack_then_commit".into(), json!(n_nt));
  write_json(&args.out, "cases.json", &json!({"files": files, "cases": meta, "distribution": d}));
}
