//! C16 engine.
//!  (1) kernel tie: the real cursor codec (through the cfg hook `api::reader::verif_cursor`) on
//!      valid, mutated, non-ASCII and random cursor strings; observation = Ok(fields) / Err(class) /
//!      Panic, compared with the Coq model byte for byte;
//!  (2) limit arithmetic through `IndexReader::search`: extreme `limit` / `candidate_size` and
//!      cursors with a large `returned`, observation = the `returned` field of the next cursor;
//!  (3) fuzzing: structure-aware random SearchRequest JSON plus string/number/byte-level mutations
//!      against small random indexes, every search on a worker thread under `catch_unwind` with a
//!      5 s watchdog; observation = Ok / Err / Panic / Hang.  Requests that do not deserialize are
//!      not in scope (counted only).
use searchlite_core::api::reader::verif_cursor;
use searchlite_core::api::types::{SearchRequest, StorageType};
use serde_json::{json, Value};
use slv::{coq, parse_args, write_cases, write_json, Rng};
use std::collections::BTreeMap;
use std::path::{Path, PathBuf};
use std::sync::mpsc::{channel, Receiver, RecvTimeoutError, Sender};
use std::sync::Mutex;
use std::time::Duration;

static LAST_PANIC: Mutex<String> = Mutex::new(String::new());

fn install_hook() {
  std::panic::set_hook(Box::new(|info| {
    let loc = info
      .location()
      .map(|l| format!("{}:{}", l.file(), l.line()))
      .unwrap_or_default();
    let msg = if let Some(s) = info.payload().downcast_ref::<&str>() {
      s.to_string()
    } else if let Some(s) = info.payload().downcast_ref::<String>() {
      s.clone()
    } else {
      "?".into()
    };
    if let Ok(mut g) = LAST_PANIC.lock() {
      *g = format!("{loc}: {msg}");
    }
  }));
}

fn take_panic() -> String {
  LAST_PANIC.lock().map(|mut g| std::mem::take(&mut *g)).unwrap_or_default()
}

// ------------------------------------------------------------------------------------------------
// (1) cursor codec
// ------------------------------------------------------------------------------------------------

/// Err classes shared with the Coq model (C16/Model.v)
const E_LEN: u64 = 1;
const E_UTF8: u64 = 2;
const E_DIGIT: u64 = 3;
const E_VERSION: u64 = 4;
const E_ADVANCE: u64 = 5;

fn classify_cursor_err(msg: &str) -> u64 {
  if msg.contains("invalid cursor length") || msg.contains("expected even-length") {
    E_LEN
  } else if msg.contains("non-hex data") {
    E_UTF8
  } else if msg.contains("decoding cursor at byte index") {
    E_DIGIT
  } else if msg.contains("unsupported cursor version") {
    E_VERSION
  } else if msg.contains("exceeds max supported") {
    E_ADVANCE
  } else {
    99
  }
}

fn err_index(msg: &str) -> u64 {
  // "... at byte index {i}"
  msg
    .split("byte index ")
    .nth(1)
    .map(|t| t.chars().take_while(|c| c.is_ascii_digit()).collect::<String>())
    .and_then(|d| d.parse().ok())
    .unwrap_or(9999)
}

fn gen_cursor_string(rng: &mut Rng, valid: &[String]) -> String {
  let hexd = b"0123456789abcdefABCDEF";
  let mut base: String = if !valid.is_empty() && rng.chance(1, 2) {
    rng.pick(valid).clone()
  } else {
    // synthetic score cursor: version mostly 1, small returned
    let mut b = [0u8; 21];
    b[0] = if rng.chance(5, 6) { 1 } else { rng.below(256) as u8 };
    for x in b.iter_mut().skip(1) {
      *x = if rng.chance(1, 2) { 0 } else { rng.below(256) as u8 };
    }
    if rng.chance(3, 4) {
      // returned <= 50_000 most of the time
      let r = (rng.below(60_000) as u32).to_be_bytes();
      b[17..].copy_from_slice(&r);
    }
    verif_cursor::hex_encode(&b)
  };
  let nm = rng.below(4);
  for _ in 0..nm {
    let chars: Vec<char> = base.chars().collect();
    let pos = rng.below(chars.len() as u64 + 1) as usize;
    let mut v = chars.clone();
    match rng.below(9) {
      0 if !v.is_empty() => {
        v.remove(pos.min(v.len() - 1));
      }
      1 => v.insert(pos, *rng.pick(hexd) as char),
      2 if !v.is_empty() => v[pos.min(chars.len() - 1)] = *rng.pick(hexd) as char,
      3 if !v.is_empty() => v[pos.min(chars.len() - 1)] = *rng.pick(&['é', 'ß', '日', '😀', '+', '-', ' ', 'g', 'x', '\u{0}']),
      4 => v.insert(pos, *rng.pick(&['é', '日', '😀', '+', '-'])),
      5 if v.len() >= 2 => {
        // replace two hex chars by one 2-byte char: byte length unchanged
        let p = pos.min(v.len() - 2);
        v.splice(p..p + 2, ['é']);
      }
      6 => v.truncate(pos),
      7 => {
        let up: String = v.iter().collect::<String>().to_uppercase();
        v = up.chars().collect();
      }
      _ => {}
    }
    base = v.into_iter().collect();
  }
  match rng.below(30) {
    0 => format!("a{}a", "é".repeat(20)),
    1 => "é".repeat(21),
    2 => String::new(),
    3 => "+1".repeat(21),
    4 => "日".repeat(14),
    _ => base,
  }
}

fn cursor_case(raw: &str) -> (String, Value) {
  // score cursor
  let r = std::panic::catch_unwind(|| verif_cursor::decode_score_cursor(raw));
  let (obs_lit, obs_json) = match r {
    Ok(Ok((v, g, sb, so, d, ret))) => (
      format!("(DOk ({v}, {g}, {sb}, {so}, {d}, {ret}))"),
      json!({"ok": [v, g, sb, so, d, ret]}),
    ),
    Ok(Err(msg)) => {
      let c = classify_cursor_err(&msg);
      let idx = if c == E_UTF8 || c == E_DIGIT { err_index(&msg) } else { 0 };
      (format!("(DErr {c} {idx})"), json!({"err": msg}))
    }
    Err(_) => ("DPanic".to_string(), json!({"panic": take_panic()})),
  };
  // hex_decode
  let r = std::panic::catch_unwind(|| verif_cursor::hex_decode(raw));
  let (hex_lit, hex_json) = match r {
    Ok(Ok(bytes)) => (format!("(HOk {})", coq::bytes(&bytes)), json!({"ok_len": bytes.len()})),
    Ok(Err(msg)) => {
      let c = classify_cursor_err(&msg);
      let idx = if c == E_UTF8 || c == E_DIGIT { err_index(&msg) } else { 0 };
      (format!("(HErr {c} {idx})"), json!({"err": msg}))
    }
    Err(_) => ("HPanic".to_string(), json!({"panic": take_panic()})),
  };
  (
    format!("(CCursor {} {} {})", coq::bytes(raw.as_bytes()), obs_lit, hex_lit),
    json!({"kind": "cursor", "raw": raw, "decode": obs_json, "hex_decode": hex_json,
            "nt": !raw.is_ascii() || raw.len() == 42 || raw.len() % 2 == 0}),
  )
}

// ------------------------------------------------------------------------------------------------
// indexes
// ------------------------------------------------------------------------------------------------

const WORDS: &[&str] = &[
  "rust", "search", "engine", "fast", "naïve", "日本", "index", "wal", "hello", "a", "b", "ab", "abc", "café", "x1",
  "rusty", "rest", "bust", "seach", "the", "of",
];
const TAGS: &[&str] = &["x", "y", "z", "c++", "Ünï", "", "long tag value", "日本"];

fn schema() -> searchlite_core::Schema {
  serde_json::from_value(json!({
    "doc_id_field": "_id",
    "analyzers": [
      {"name":"en","tokenizer":"unicode","filters":[{"lowercase":true},{"stopwords":"en"},{"stemmer":"english"}]},
      {"name":"ws","tokenizer":"whitespace","filters":[]}
    ],
    "text_fields": [
      {"name":"body","analyzer":"default","stored":true,"indexed":true},
      {"name":"title","analyzer":"en","stored":true,"indexed":true},
      {"name":"raw","analyzer":"ws","stored":false,"indexed":true},
      {"name":"sayt","analyzer":"default","stored":true,"indexed":true,"search_as_you_type":{"min_gram":1,"max_gram":5}}
    ],
    "keyword_fields": [
      {"name":"tag","stored":true,"indexed":true,"fast":true},
      {"name":"cat","stored":false,"indexed":true,"fast":true,"nullable":true},
      {"name":"slow","stored":true,"indexed":true,"fast":false}
    ],
    "numeric_fields": [
      {"name":"n","i64":true,"fast":true,"stored":true},
      {"name":"price","i64":false,"fast":true,"stored":true},
      {"name":"ts","i64":true,"fast":true,"stored":false},
      {"name":"nofast","i64":true,"fast":false,"stored":true}
    ],
    "nested_fields": [
      {"name":"review","fields":[
        {"type":"keyword","name":"user","stored":true,"indexed":true,"fast":true},
        {"type":"numeric","name":"rating","i64":true,"fast":true,"stored":true}]}
    ],
    "vector_fields": [{"name":"vec","dim":3,"metric":"Cosine"}]
  }))
  .expect("fuzz schema")
}

fn build_index(rng: &mut Rng, dir: &Path, ndocs: usize) {
  let index = searchlite_core::Index::create(dir, schema(), slv::fixtures::opts(dir, StorageType::Filesystem))
    .expect("create index");
  let mut w = index.writer().expect("writer");
  let cut1 = rng.below(ndocs as u64 + 1) as usize;
  for d in 0..ndocs {
    let mut body = String::new();
    for _ in 0..(1 + rng.below(12)) {
      body.push_str(*rng.pick(WORDS));
      body.push(' ');
    }
    let mut doc = json!({
      "_id": format!("d{d}"),
      "body": body,
      "title": format!("{} {}", rng.pick(WORDS), rng.pick(WORDS)),
      "raw": format!("{} {}", rng.pick(WORDS), rng.pick(TAGS)),
      "sayt": rng.pick(WORDS),
      "tag": *rng.pick(TAGS),
      "slow": *rng.pick(TAGS),
      "n": rng.range(-5, 20),
      "price": (rng.below(10_000) as f64) / 100.0 - 10.0,
      "ts": 1_600_000_000_000i64 + rng.below(90 * 86_400_000) as i64,
      "nofast": rng.below(5),
      "review": [{"user": *rng.pick(&["u1", "u2", "u3"][..]), "rating": rng.below(6)}],
      "vec": [rng.below(100) as f64 / 100.0, rng.below(100) as f64 / 100.0, 0.5],
    });
    if rng.chance(1, 2) {
      doc["cat"] = json!(*rng.pick(&["k1", "k2", "k3"][..]));
    }
    if rng.chance(1, 4) {
      doc["review"] = json!([{"user":"u1","rating":1},{"user":"u2","rating":5}]);
    }
    if let Err(e) = w.add_document(&slv::fixtures::doc(doc.clone())) {
      panic!("engine bug: document rejected: {e:#}: {doc}");
    }
    if d == cut1 {
      w.commit().expect("commit");
    }
  }
  w.commit().expect("commit");
  if ndocs > 6 && rng.chance(1, 2) {
    let _ = w.delete_document("d1");
    let _ = w.commit();
  }
}

// ------------------------------------------------------------------------------------------------
// worker with watchdog
// ------------------------------------------------------------------------------------------------

enum Outcome {
  Ok(Option<String>, usize),
  Err(String),
  Panic(String),
  Hang,
}

struct Worker {
  tx: Sender<SearchRequest>,
  rx: Receiver<Outcome>,
}

fn spawn_worker(dir: PathBuf) -> Worker {
  let (tx, wrx) = channel::<SearchRequest>();
  let (wtx, rx) = channel::<Outcome>();
  std::thread::Builder::new()
    .name("c16-worker".into())
    .stack_size(8 << 20)
    .spawn(move || {
      let mut o = slv::fixtures::opts(&dir, StorageType::Filesystem);
      o.create_if_missing = false;
      let index = searchlite_core::Index::open(o).expect("open index");
      let reader = index.reader().expect("reader");
      while let Ok(req) = wrx.recv() {
        let r = std::panic::catch_unwind(std::panic::AssertUnwindSafe(|| reader.search(&req)));
        let out = match r {
          Ok(Ok(res)) => Outcome::Ok(res.next_cursor.clone(), res.hits.len()),
          Ok(Err(e)) => Outcome::Err(format!("{e:#}")),
          Err(_) => Outcome::Panic(take_panic()),
        };
        if wtx.send(out).is_err() {
          break;
        }
      }
    })
    .expect("spawn worker");
  Worker { tx, rx }
}

fn run_search(worker: &mut Worker, dir: &Path, req: SearchRequest) -> Outcome {
  if worker.tx.send(req).is_err() {
    *worker = spawn_worker(dir.to_path_buf());
    return Outcome::Panic("worker thread died".into());
  }
  match worker.rx.recv_timeout(Duration::from_secs(5)) {
    Ok(o) => o,
    Err(RecvTimeoutError::Timeout) => {
      // abandon the stuck thread, continue with a fresh one
      *worker = spawn_worker(dir.to_path_buf());
      Outcome::Hang
    }
    Err(RecvTimeoutError::Disconnected) => {
      *worker = spawn_worker(dir.to_path_buf());
      Outcome::Panic(format!("worker thread died: {}", take_panic()))
    }
  }
}

// ------------------------------------------------------------------------------------------------
// request generator
// ------------------------------------------------------------------------------------------------

const NASTY: &[&str] = &[
  "", " ", "a", "é", "日本", "😀", "a\u{301}", "\u{0}", "*", "?", "a*", "*a", "a?b", "r*t", "??", "[", "(", ")", "(?i)a",
  "a{1000}", "a{1000000}", "\\", ".*", "a|b", "(a+)+$", "^", "$", "\\b", "[[:alpha:]]", "\\p{Greek}", "[a-", "(?P<n>a)",
  "r.st", "ru.*", "-1", "1e309", "NaN", "null", "_score", "_id", "body", "review.user", "review", ".", "..", "a.b.c",
  "%", "100%", "-50%", "50%", "150%", "1d", "1M", "0s", "1h", "month", "yyyy-MM-dd", "2020-01-01", "2020-13-45T99:99:99Z",
  "now", "body^2", "\"unterminated", "\"a b\"", "a AND", "NOT", "a OR b", "field:value", "body:rust", "-a", "+a", "a~2",
  "a^", "(", "rust rust rust", "rust RUST Rust",
];
const FIELDS: &[&str] = &[
  "body", "title", "raw", "sayt", "tag", "cat", "slow", "n", "price", "ts", "nofast", "review", "review.user",
  "review.rating", "vec", "_id", "_score", "missing", "", "日本",
];
const TEXTF: &[&str] = &["body", "title", "raw", "sayt", "body", "body"];
const KWF: &[&str] = &["tag", "cat"];
const NUMF: &[&str] = &["n", "price", "ts"];
const SCRIPTS: &[&str] = &[
  "_score * 2", "n + 1", "a * price", "-(-_score)", "1/0", "((((", "1 +", "- - - 1", "n n", ".", "1e400", "1..2", "",
  "_score / (n - n)", "missing + 1", "a", "n * 1e308 * 1e308", "(_score)", ")(", "é",
];

struct Gen<'a> {
  rng: &'a mut Rng,
  cursors: Vec<String>,
  dist: BTreeMap<String, u64>,
}

impl<'a> Gen<'a> {
  fn bump(&mut self, k: &str) {
    *self.dist.entry(k.to_string()).or_insert(0) += 1;
  }
  fn word(&mut self) -> String {
    if self.rng.chance(1, 8) {
      self.rng.pick(NASTY).to_string()
    } else {
      self.rng.pick(WORDS).to_string()
    }
  }
  fn field(&mut self, pool: &[&str]) -> String {
    if self.rng.chance(1, 40) {
      self.rng.pick(FIELDS).to_string()
    } else {
      self.rng.pick(pool).to_string()
    }
  }
  fn f32v(&mut self) -> Value {
    match self.rng.below(30) {
      0 => json!(0.0),
      1 => json!(-1.0),
      2 => json!(1e39),  // +inf as f32
      3 => json!(3.4e38),
      4 => json!(1e-46), // denormal / 0 as f32
      5 => json!(-0.0),
      _ => json!(self.rng.below(500) as f64 / 100.0),
    }
  }
  fn unit(&mut self) -> Value {
    if self.rng.chance(1, 8) {
      self.f32v()
    } else {
      json!(self.rng.below(101) as f64 / 100.0)
    }
  }
  fn f64v(&mut self) -> Value {
    match self.rng.below(20) {
      0 => json!(0.0),
      1 => json!(-1.5),
      2 => json!(1e308),
      3 => json!(-1e308),
      4 => json!(5e-324),
      5 => json!(9007199254740993i64),
      _ => json!(self.rng.range(-20, 120) as f64 / 2.0),
    }
  }
  fn usz(&mut self) -> Value {
    match self.rng.below(24) {
      0 => json!(0),
      1 => json!(u64::MAX),
      2 => json!(u64::MAX - 1),
      3 => json!(1u64 << 32),
      4 => json!(20_001),
      5 => json!(1u64 << 63),
      _ => json!(1 + self.rng.below(12)),
    }
  }
  fn i64v(&mut self) -> Value {
    match self.rng.below(10) {
      0 => json!(i64::MIN),
      1 => json!(i64::MAX),
      2 => json!(0),
      _ => json!(self.rng.range(-10, 30)),
    }
  }
  fn boost(&mut self, m: &mut serde_json::Map<String, Value>) {
    if self.rng.chance(1, 5) {
      let v = self.f32v();
      m.insert("boost".into(), v);
    }
  }

  fn filter(&mut self, depth: u32) -> Value {
    let k = self.rng.below(if depth == 0 { 4 } else { 8 });
    match k {
      0 => json!({"KeywordEq": {"field": self.field(KWF), "value": self.rng.pick(TAGS)}}),
      1 => json!({"KeywordIn": {"field": self.field(KWF), "values": [self.rng.pick(TAGS), self.word()]}}),
      2 => json!({"I64Range": {"field": self.field(NUMF), "min": self.i64v(), "max": self.i64v()}}),
      3 => json!({"F64Range": {"field": self.field(NUMF), "min": self.f64v(), "max": self.f64v()}}),
      4 => json!({"Nested": {"path": *self.rng.pick(&["review", "review", "missing", "tag"]), "filter": self.filter(depth - 1)}}),
      5 => {
        let n = self.rng.below(4);
        json!({"And": (0..n).map(|_| self.filter(depth - 1)).collect::<Vec<_>>()})
      }
      6 => {
        let n = self.rng.below(4);
        json!({"Or": (0..n).map(|_| self.filter(depth - 1)).collect::<Vec<_>>()})
      }
      _ => json!({"Not": self.filter(depth - 1)}),
    }
  }

  fn function(&mut self) -> Value {
    let mut v = match self.rng.below(3) {
      0 => json!({"type":"weight","weight": self.f32v()}),
      1 => json!({"type":"field_value_factor","field": self.field(NUMF), "factor": self.f32v(),
                  "modifier": *self.rng.pick(&["none","log","log1p","log2p","sqrt","reciprocal"]),
                  "missing": self.f64v()}),
      _ => json!({"type":"decay","field": self.field(NUMF), "origin": self.f64v(), "scale": self.f64v(),
                  "offset": self.f64v(), "decay": self.f64v(),
                  "function": *self.rng.pick(&["exp","gauss","linear"])}),
    };
    if self.rng.chance(1, 4) {
      v["filter"] = self.filter(1);
    }
    v
  }

  fn query(&mut self, depth: u32) -> Value {
    let leaf_kinds = 10;
    let k = if depth == 0 { self.rng.below(leaf_kinds) } else { self.rng.below(leaf_kinds + 6) };
    let mut v = match k {
      0 => json!({"type":"match_all"}),
      1 => json!({"type":"term","field": self.field(TEXTF), "value": self.word()}),
      2 => json!({"type":"term","field": self.field(KWF), "value": self.rng.pick(TAGS)}),
      3 => json!({"type":"prefix","field": self.field(TEXTF), "value": self.word(), "max_expansions": self.usz()}),
      4 => json!({"type":"wildcard","field": self.field(TEXTF), "value": self.rng.pick(NASTY), "max_expansions": self.usz()}),
      5 => json!({"type":"regex","field": self.field(TEXTF), "value": self.rng.pick(NASTY)}),
      6 => {
        let n = self.rng.below(4);
        json!({"type":"phrase","field": self.field(TEXTF), "terms": (0..n).map(|_| self.word()).collect::<Vec<_>>(),
               "slop": self.usz()})
      }
      7 => json!({"type":"query_string","query": format!("{} {}", self.word(), self.word()),
                  "fields": [self.field(TEXTF), {"field": self.field(TEXTF), "boost": self.f32v()}]}),
      8 => json!({"type":"multi_match","query": format!("{} {}", self.word(), self.word()),
                  "fields": [self.field(TEXTF), self.field(TEXTF)],
                  "match_type": *self.rng.pick(&["best_fields","most_fields","cross_fields"]),
                  "tie_breaker": self.unit(),
                  "operator": *self.rng.pick(&["or","and"]),
                  "minimum_should_match": if self.rng.chance(1,2) { self.usz() } else { json!(*self.rng.pick(&["50%","-50%","150%","%","é%",""])) }}),
      9 => json!({"type":"rank_feature","field": self.field(NUMF),
                  "modifier": *self.rng.pick(&["none","log","log1p","sqrt","reciprocal"]), "missing": self.f32v()}),
      10 | 11 => {
        let mut m = serde_json::Map::new();
        m.insert("type".into(), json!("bool"));
        for key in ["must", "should", "must_not"] {
          let n = self.rng.below(3);
          if n > 0 {
            let xs: Vec<Value> = (0..n).map(|_| self.query(depth - 1)).collect();
            m.insert(key.into(), Value::Array(xs));
          }
        }
        if self.rng.chance(1, 3) {
          m.insert("filter".into(), json!([self.filter(1)]));
        }
        if self.rng.chance(1, 3) {
          let v = self.usz();
          m.insert("minimum_should_match".into(), v);
        }
        Value::Object(m)
      }
      12 => {
        let n = self.rng.below(3);
        json!({"type":"dis_max","queries": (0..n).map(|_| self.query(depth - 1)).collect::<Vec<_>>(),
               "tie_breaker": self.unit()})
      }
      13 => json!({"type":"constant_score","filter": self.filter(2)}),
      14 => {
        let n = self.rng.below(3);
        json!({"type":"function_score","query": self.query(depth - 1),
               "functions": (0..n).map(|_| self.function()).collect::<Vec<_>>(),
               "score_mode": *self.rng.pick(&["sum","multiply","max","min","avg"]),
               "boost_mode": *self.rng.pick(&["multiply","sum","replace","max","min"]),
               "max_boost": self.f32v(), "min_score": self.f32v()})
      }
      _ => json!({"type":"script_score","query": self.query(depth - 1), "script": *self.rng.pick(SCRIPTS),
                  "params": {"a": self.f64v()}}),
    };
    if let Some(m) = v.as_object_mut() {
      self.boost(m);
    }
    v
  }

  fn sort(&mut self) -> Value {
    let n = 1 + self.rng.below(3);
    let xs: Vec<Value> = (0..n)
      .map(|_| {
        let f = if self.rng.chance(1, 3) { "_score".to_string() } else { self.field(&["n", "price", "tag", "ts", "cat", "_score"]) };
        let mut v = json!({"field": f});
        if self.rng.chance(2, 3) {
          v["order"] = json!(*self.rng.pick(&["asc", "desc"]));
        }
        v
      })
      .collect();
    Value::Array(xs)
  }

  fn sampling(&mut self, m: &mut Value) {
    if self.rng.chance(1, 6) {
      m["sampling"] = json!({"size": self.usz(), "probability": self.f64v(), "seed": self.rng.below(5)});
    }
  }

  fn agg(&mut self, depth: u32, top: bool) -> Value {
    let mut k = self.rng.below(22);
    if top && k >= 16 && self.rng.chance(9, 10) {
      // pipeline aggregations are rejected at the top level: mostly generate them nested
      k = self.rng.below(9);
    }
    let missing = if self.rng.chance(1, 4) { json!(self.word()) } else if self.rng.chance(1, 3) { self.f64v() } else { Value::Null };
    let mut v = match k {
      0 => json!({"type":"terms","field": self.field(KWF), "size": self.usz(), "shard_size": self.usz(),
                  "min_doc_count": self.rng.below(3), "missing": missing}),
      1 => json!({"type":"significant_terms","field": self.field(KWF), "size": self.usz(), "min_doc_count": self.rng.below(3),
                  "background_filter": self.filter(1)}),
      2 => json!({"type":"rare_terms","field": self.field(KWF), "max_doc_count": self.rng.below(4), "size": self.usz()}),
      3 => json!({"type":"range","field": self.field(NUMF), "keyed": self.rng.chance(1,2),
                  "ranges": [{"key": null, "from": self.f64v(), "to": self.f64v()}, {"key": "k", "from": null, "to": self.f64v()}],
                  "missing": missing}),
      4 => json!({"type":"date_range","field": self.field(NUMF), "keyed": self.rng.chance(1,2), "format": self.rng.pick(NASTY),
                  "ranges": [{"key": null, "from": self.rng.pick(NASTY), "to": "2021-01-01"}], "missing": missing}),
      5 => json!({"type":"histogram","field": self.field(NUMF), "interval": self.f64v(), "offset": self.f64v(),
                  "min_doc_count": self.rng.below(2),
                  "extended_bounds": if self.rng.chance(1,3) { json!({"min": self.f64v(), "max": self.f64v()}) } else { Value::Null },
                  "hard_bounds": if self.rng.chance(1,4) { json!({"min": self.f64v(), "max": self.f64v()}) } else { Value::Null },
                  "missing": if self.rng.chance(1,4) { self.f64v() } else { Value::Null }}),
      6 => json!({"type":"date_histogram","field": self.field(&["ts","ts","n","price","tag"]),
                  "calendar_interval": if self.rng.chance(1,2) { json!(*self.rng.pick(&["day","week","month","quarter","year","1d","1M","x",""])) } else { Value::Null },
                  "fixed_interval": if self.rng.chance(1,2) { json!(*self.rng.pick(&["1d","12h","0s","1ms","-1d","999999999999d","é"," 1d","1","0.4ms","0.0001s","1.5d","0.5h","1e-3s","0.000001d","2ms"])) } else { Value::Null },
                  "offset": if self.rng.chance(1,4) { json!(*self.rng.pick(&["1h","-1h","x","+1d"])) } else { Value::Null },
                  "format": Value::Null, "min_doc_count": self.rng.below(2),
                  "extended_bounds": if self.rng.chance(1,4) { json!({"min": *self.rng.pick(&["2020-01-01","2020-01-01T00:00:00Z","0"]), "max": *self.rng.pick(&["2020-12-31","1900-01-01","x","9999-12-31","2020-12-31T00:00:00Z","9999-12-31T00:00:00Z","1000"])}) } else { Value::Null },
                  "hard_bounds": if self.rng.chance(1,5) { json!({"min": *self.rng.pick(&["2020-01-01T00:00:00Z","0"]), "max": *self.rng.pick(&["2020-01-02T00:00:00Z","2020-12-31T00:00:00Z","1999-01-01T00:00:00Z","50"])}) } else { Value::Null },
                  "missing": Value::Null}),
      7 => json!({"type":"filter","filter": self.filter(2)}),
      8 => json!({"type":"composite","size": self.usz(),
                  "sources": [{"type":"terms","name":"t","field": self.field(KWF)},
                              {"type":"histogram","name":"h","field": self.field(NUMF), "interval": self.f64v()}],
                  "after": if self.rng.chance(1,3) { json!({"t": self.word(), "h": self.f64v()}) } else { Value::Null }}),
      9 => json!({"type":"stats","field": self.field(NUMF), "missing": missing}),
      10 => json!({"type":"extended_stats","field": self.field(NUMF), "missing": missing}),
      11 => json!({"type":"value_count","field": self.field(NUMF), "missing": missing}),
      12 => json!({"type":"cardinality","field": self.field(KWF), "precision_threshold": self.usz(), "missing": missing}),
      13 => json!({"type":"percentiles","field": self.field(NUMF), "percents": [self.f64v(), 50.0, self.f64v()], "missing": missing}),
      14 => json!({"type":"percentile_ranks","field": self.field(NUMF), "values": [self.f64v(), self.f64v()], "missing": missing}),
      15 => json!({"type":"top_hits","size": self.usz(), "from": self.usz(), "fields": ["body", self.field(FIELDS)],
                   "sort": self.sort(), "highlight_field": self.field(TEXTF)}),
      16 => json!({"type":"bucket_sort","sort": [{ self.rng.pick(&["_count","_key","s","x.y",""]).to_string(): *self.rng.pick(&["asc","desc"]) }],
                   "from": self.usz(), "size": self.usz()}),
      17 => json!({"type":"avg_bucket","buckets_path": *self.rng.pick(&["h>s","h>s.avg","h","x>y","",">","h>_count","t>s.max"])}),
      18 => json!({"type":"sum_bucket","buckets_path": *self.rng.pick(&["h>s","h>s.sum","t>_count","x"])}),
      19 => json!({"type":"derivative","buckets_path": *self.rng.pick(&["s","s.avg","_count","x",""]),
                   "gap_policy": *self.rng.pick(&["skip","insert_zeros"]), "unit": self.f64v()}),
      20 => json!({"type":"moving_avg","buckets_path": *self.rng.pick(&["s","s.avg","_count","x"]), "window": self.usz(),
                   "predict": self.usz(), "gap_policy": *self.rng.pick(&["skip","insert_zeros"])}),
      _ => json!({"type":"bucket_script","buckets_path": {"a": *self.rng.pick(&["s","s.avg","_count","x"]), "n": "_count"},
                  "script": *self.rng.pick(SCRIPTS)}),
    };
    let bucket = matches!(k, 0..=8);
    if bucket {
      self.sampling(&mut v);
      if depth > 0 && self.rng.chance(2, 3) {
        let mut sub = serde_json::Map::new();
        sub.insert("s".into(), json!({"type":"stats","field": self.field(NUMF), "missing": null}));
        let n = self.rng.below(3);
        for i in 0..n {
          let a = self.agg(depth - 1, false);
          sub.insert(format!("a{i}"), a);
        }
        if self.rng.chance(1, 2) {
          let kinds = [
            json!({"type":"derivative","buckets_path": *self.rng.pick(&["s.avg","_count","s.sum","x"]), "unit": self.f64v()}),
            json!({"type":"moving_avg","buckets_path": *self.rng.pick(&["s.avg","_count"]), "window": self.usz(), "predict": self.usz()}),
            json!({"type":"bucket_sort","sort": [{ self.rng.pick(&["_count","_key","s.avg","s"]).to_string(): *self.rng.pick(&["asc","desc"]) }], "from": self.usz(), "size": self.usz()}),
            json!({"type":"bucket_script","buckets_path": {"a": "s.avg", "n": "_count"}, "script": *self.rng.pick(SCRIPTS)}),
            json!({"type":"avg_bucket","buckets_path": *self.rng.pick(&["s.avg","_count","a0>s.avg","a0>_count"])}),
            json!({"type":"sum_bucket","buckets_path": *self.rng.pick(&["s.sum","_count","a0>_count"])}),
          ];
          let pick = self.rng.below(kinds.len() as u64) as usize;
          sub.insert("p".into(), kinds[pick].clone());
        }
        v["aggs"] = Value::Object(sub);
      }
    }
    v
  }

  /// A well-formed request with one aggregation whose numeric / time parameters sit at the edges
  /// (tiny, zero-rounding, huge intervals; bounds near and far apart): fully random requests
  /// mostly die in validation, these reach the bucket-filling loops.
  /// A well-formed bucket aggregation of every kind with ONE questionable child (a top_hits
  /// ordered by an unknown / text field or with extreme paging, a metric on the wrong kind of
  /// field, a pipeline with a dangling path): whatever is checked when the request is planned has
  /// to be checked below every kind of parent.
  fn focused_nested(&mut self) -> Value {
    let q = if self.rng.chance(1, 2) { json!({"type":"match_all"}) } else { json!(self.word()) };
    let mut parent = match self.rng.below(9) {
      0 => json!({"type":"terms","field":"tag"}),
      1 => json!({"type":"significant_terms","field":"tag"}),
      2 => json!({"type":"rare_terms","field":"tag","max_doc_count":2}),
      3 => json!({"type":"range","field":"n","keyed":false,"ranges":[{"to":5.0},{"from":5.0}]}),
      4 => json!({"type":"date_range","field":"ts","keyed":false,"ranges":[{"to":"2020-06-01T00:00:00Z"},{"from":"0"}]}),
      5 => json!({"type":"histogram","field":"n","interval":5.0}),
      6 => json!({"type":"date_histogram","field":"ts","calendar_interval":"day"}),
      7 => json!({"type":"filter","filter":{"KeywordEq":{"field":"tag","value":"x"}}}),
      _ => json!({"type":"composite","size":5,"sources":[{"type":"terms","name":"t","field":"tag"}]}),
    };
    let child = match self.rng.below(8) {
      0 => json!({"type":"top_hits","size":2,"sort":[{"field":"nope"}]}),
      1 => json!({"type":"top_hits","size":2,"sort":[{"field":"body","order":"asc"}]}),
      2 => json!({"type":"top_hits","size": self.usz(),"from": self.usz()}),
      3 => json!({"type":"stats","field":"body"}),
      4 => json!({"type":"terms","field":"nope"}),
      5 => json!({"type":"bucket_script","buckets_path":{"a":"x.y"},"script":"a + 1"}),
      6 => json!({"type":"derivative","buckets_path":"nope"}),
      _ => json!({"type":"percentiles","field":"tag","percents":[50.0]}),
    };
    parent["aggs"] = json!({"c": child});
    self.bump("focused_nested_questionable_child");
    json!({"query": q, "limit": 1 + self.rng.below(3), "return_stored": false, "aggs": {"p": parent}})
  }

  fn focused(&mut self) -> Value {
    if self.rng.chance(1, 2) {
      return self.focused_nested();
    }
    let q = if self.rng.chance(1, 2) { json!({"type":"match_all"}) } else { json!(self.word()) };
    // bounds are RFC 3339 timestamps or epoch milliseconds as strings; a plain date is refused
    let dates = ["2020-01-01T00:00:00Z", "2020-01-02T00:00:00Z", "2020-01-01T00:00:01Z", "2020-12-31T00:00:00Z",
                 "1999-01-01T00:00:00Z", "0", "10", "1577836800000", "1577836800050", "2020-01-01"];
    let agg = match self.rng.below(3) {
      0 | 1 => {
        let mut a = json!({"type":"date_histogram","field":"ts","min_doc_count": self.rng.below(2)});
        if self.rng.chance(1, 4) {
          a["calendar_interval"] = json!(*self.rng.pick(&["day","week","month","quarter","year"]));
        } else {
          a["fixed_interval"] = json!(*self.rng.pick(&["1d","12h","1ms","2ms","0.4ms","0.0001s","0.5h","0.000001d","0.9ms","0","0s","30s","1000w","0.5ms","1.5ms"]));
        }
        if self.rng.chance(2, 3) {
          a["extended_bounds"] = json!({"min": *self.rng.pick(&dates), "max": *self.rng.pick(&dates)});
        }
        if self.rng.chance(1, 3) {
          a["hard_bounds"] = json!({"min": *self.rng.pick(&dates), "max": *self.rng.pick(&dates)});
        }
        if self.rng.chance(1, 5) {
          a["offset"] = json!(*self.rng.pick(&["1h","-1h","0.4ms","30s"]));
        }
        a
      }
      _ => {
        let mut a = json!({"type":"histogram","field": *self.rng.pick(&["n","price"]),
                           "interval": *self.rng.pick(&[1e-9, 0.001, 0.5, 1.0, 2.5, 1e9, 1e300]),
                           "min_doc_count": self.rng.below(2)});
        let edges = [-1e18, -1e6, -10.0, 0.0, 0.25, 10.0, 1e6, 1e18];
        if self.rng.chance(2, 3) {
          a["extended_bounds"] = json!({"min": *self.rng.pick(&edges), "max": *self.rng.pick(&edges)});
        }
        if self.rng.chance(1, 3) {
          a["hard_bounds"] = json!({"min": *self.rng.pick(&edges), "max": *self.rng.pick(&edges)});
        }
        if self.rng.chance(1, 4) {
          a["offset"] = json!(*self.rng.pick(&[0.5, -0.5, 1e-9, 1e9]));
        }
        a
      }
    };
    self.bump("focused_edge_aggregation");
    json!({"query": q, "limit": 1 + self.rng.below(3), "return_stored": false, "aggs": {"f": agg}})
  }

  fn request(&mut self) -> Value {
    if self.rng.chance(1, 8) {
      return self.focused();
    }
    let depth = match self.rng.below(20) {
      0 => 6 + self.rng.below(20) as u32,
      1..=8 => 0,
      _ => 1 + self.rng.below(3) as u32,
    };
    let query = if self.rng.chance(1, 5) {
      json!(format!("{} {}", self.word(), self.word()))
    } else {
      self.query(depth)
    };
    let mut r = json!({"query": query, "limit": 1 + self.rng.below(6), "return_stored": self.rng.chance(1, 2)});
    if self.rng.chance(1, 12) {
      r["limit"] = self.usz();
      self.bump("opt_extreme_limit");
    }
    if self.rng.chance(1, 6) {
      r["candidate_size"] = self.usz();
    }
    if self.rng.chance(1, 3) {
      r["sort"] = self.sort();
      self.bump("opt_sort");
    }
    if self.rng.chance(1, 4) {
      r["filter"] = self.filter(2);
      self.bump("opt_filter");
    }
    if self.rng.chance(1, 6) {
      r["fields"] = json!([self.field(TEXTF), self.field(TEXTF)]);
    }
    if self.rng.chance(1, 4) {
      r["execution"] = json!(*self.rng.pick(&["bm25", "wand", "bmw"]));
    }
    if self.rng.chance(1, 8) {
      r["bmw_block_size"] = self.usz();
    }
    if self.rng.chance(1, 6) {
      r["fuzzy"] = json!({"max_edits": self.rng.below(4), "prefix_length": self.usz(), "max_expansions": self.usz(),
                           "min_length": self.usz()});
      self.bump("opt_fuzzy");
    }
    if self.rng.chance(1, 8) {
      r["return_hits"] = json!(false);
    }
    if self.rng.chance(1, 5) {
      r["highlight_field"] = json!(self.field(TEXTF));
    }
    if self.rng.chance(1, 5) {
      r["highlight"] = json!({"fields": { self.field(TEXTF): {
        "pre_tag": *self.rng.pick(&["<em>","","é","**"]), "post_tag": *self.rng.pick(&["</em>","","»"]),
        "fragment_size": self.usz(), "number_of_fragments": self.usz() }}});
      self.bump("opt_highlight");
    }
    if self.rng.chance(1, 6) {
      let mut c = json!({"field": self.field(&["tag", "cat", "tag", "n", "slow"])});
      if self.rng.chance(1, 2) {
        c["inner_hits"] = json!({"size": self.usz(), "from": self.usz(), "sort": self.sort()});
      }
      r["collapse"] = c;
      self.bump("opt_collapse");
    }
    if self.rng.chance(1, 3) {
      let n = 1 + self.rng.below(3);
      let mut m = serde_json::Map::new();
      for i in 0..n {
        let name = *self.rng.pick(&["h", "t", "s", "x"]);
        let a = self.agg(2, true);
        m.insert(format!("{name}{}", if i == 0 { "".to_string() } else { i.to_string() }), a);
      }
      r["aggs"] = Value::Object(m);
      self.bump("opt_aggs");
    }
    if self.rng.chance(1, 8) {
      r["suggest"] = json!({"s": {"type":"completion","field": self.field(TEXTF), "prefix": self.word(), "size": self.usz(),
        "fuzzy": if self.rng.chance(1,2) { json!({"max_edits": self.rng.below(4), "prefix_length": self.usz(), "max_expansions": self.usz(), "min_length": self.usz()}) } else { Value::Null }}});
      self.bump("opt_suggest");
    }
    if self.rng.chance(1, 8) {
      r["rescore"] = json!({"window_size": self.usz(), "query": self.query(1),
                             "score_mode": *self.rng.pick(&["total","multiply","sum","max","min"])});
      self.bump("opt_rescore");
    }
    if self.rng.chance(1, 8) {
      let dim = *self.rng.pick(&[3usize, 3, 3, 0, 2, 4]);
      let vecv: Vec<Value> = (0..dim).map(|_| self.f32v()).collect();
      r["vector_query"] = if self.rng.chance(1, 4) {
        json!(["vec", vecv, self.unit()])
      } else {
        json!({"field": self.field(&["vec", "vec", "vec", "vec", "body"]), "vector": vecv, "k": self.usz(), "alpha": self.unit(),
               "ef_search": self.usz(), "candidate_size": self.usz()})
      };
      if self.rng.chance(1, 3) {
        r["vector_filter"] = self.filter(1);
      }
      self.bump("opt_vector");
    }
    if self.rng.chance(1, 6) {
      r["explain"] = json!(true);
    }
    if self.rng.chance(1, 8) {
      r["profile"] = json!(true);
    }
    if self.rng.chance(1, 10) {
      let c = gen_cursor_string(self.rng, &self.cursors.clone());
      r["cursor"] = json!(c);
      self.bump("opt_cursor");
    }
    r
  }

  /// replace a random string / number leaf
  fn mutate_leaf(&mut self, v: &mut Value) {
    let mut paths: Vec<Vec<String>> = Vec::new();
    fn walk(v: &Value, cur: &mut Vec<String>, out: &mut Vec<Vec<String>>) {
      match v {
        Value::Object(m) => {
          for (k, x) in m {
            cur.push(k.clone());
            walk(x, cur, out);
            cur.pop();
          }
        }
        Value::Array(a) => {
          for (i, x) in a.iter().enumerate() {
            cur.push(i.to_string());
            walk(x, cur, out);
            cur.pop();
          }
        }
        Value::String(_) | Value::Number(_) => out.push(cur.clone()),
        _ => {}
      }
    }
    walk(v, &mut Vec::new(), &mut paths);
    if paths.is_empty() {
      return;
    }
    let p = self.rng.pick(&paths).clone();
    const ENUM_KEYS: &[&str] = &[
      "type", "order", "match_type", "operator", "score_mode", "boost_mode", "modifier", "function", "gap_policy",
      "execution", "t",
    ];
    let last = p.last().cloned().unwrap_or_default();
    if ENUM_KEYS.contains(&last.as_str()) {
      return;
    }
    let signed = matches!(last.as_str(), "min" | "max" | "v" | "origin" | "offset" | "missing");
    let mut cur = v;
    for seg in p.iter() {
      cur = match cur {
        Value::Object(m) => m.get_mut(seg).unwrap(),
        Value::Array(a) => a.get_mut(seg.parse::<usize>().unwrap()).unwrap(),
        _ => return,
      };
    }
    *cur = match cur {
      Value::String(_) => json!(*self.rng.pick(NASTY)),
      Value::Number(n) if n.is_f64() => self.f64v(),
      Value::Number(_) => match self.rng.below(3) {
        0 => self.usz(),
        1 if signed => self.i64v(),
        1 => json!(u32::MAX as u64 + self.rng.below(3)),
        _ => json!(0),
      },
      _ => return,
    };
  }
}

/// char-level mutation of the serialized request
fn mutate_text(rng: &mut Rng, s: &str) -> String {
  let mut v: Vec<char> = s.chars().collect();
  if v.is_empty() {
    return String::new();
  }
  for _ in 0..(1 + rng.below(3)) {
    let pos = rng.below(v.len() as u64) as usize;
    match rng.below(6) {
      0 => {
        v.remove(pos);
      }
      1 => v.insert(pos, *rng.pick(&['0', '9', '-', 'e', '.', 'é', '"', '\\', '😀', '*', '[', '{'])),
      2 => v[pos] = *rng.pick(&['0', '9', '1', 'a', 'é', '-', '*']),
      3 if v[pos].is_ascii_digit() => v.insert(pos, '9'),
      4 if v[pos].is_ascii_digit() => {
        for _ in 0..18 {
          v.insert(pos, '9');
        }
      }
      _ => {
        let q = rng.below(v.len() as u64) as usize;
        v.swap(pos, q);
      }
    }
    if v.is_empty() {
      break;
    }
  }
  v.into_iter().collect()
}

fn sort_cursor_mutants(rng: &mut Rng, cur: &str) -> Vec<String> {
  let mut out = Vec::new();
  let Ok(bytes) = verif_cursor::hex_decode(cur) else { return out };
  let Ok(mut st) = serde_json::from_slice::<Value>(&bytes) else { return out };
  if !st.is_object() {
    return out;
  }
  let muts: Vec<(&str, Value)> = vec![
    ("version", json!(rng.below(4))),
    ("returned", json!(*rng.pick(&[0u64, 50_000, 50_001, u32::MAX as u64]))),
    ("doc_id", json!(u32::MAX)),
    ("segment_ord", json!(*rng.pick(&[0u64, 7, u32::MAX as u64]))),
    ("plan_hash", json!(rng.below(u32::MAX as u64))),
    ("generation", json!(rng.below(5))),
    ("values", json!([])),
    ("values", json!([{"t":"str","v":"é"},{"t":"missing"}])),
    ("values", json!([{"t":"f64","v":1e308},{"t":"i64","v":i64::MIN},{"t":"score","v":u32::MAX}])),
    ("values", json!([{"t":"i64","v":1}])),
    ("values", json!([{"t":"str","v":"x"}])),
    ("values", json!([{"t":"missing"}])),
  ];
  for _ in 0..3 {
    let (k, v) = rng.pick(&muts).clone();
    st[k] = v;
    out.push(verif_cursor::hex_encode(serde_json::to_vec(&st).unwrap().as_slice()));
  }
  out
}

// ------------------------------------------------------------------------------------------------

fn main() {
  let args = parse_args();
  install_hook();
  // slv::Rng::new(s) and Rng::new(s + 1) produce the same stream shifted by one draw; scramble the
  // seed so that different seeds give unrelated runs
  let mut rng = Rng::new((args.seed ^ 0x5DEECE66D).wrapping_mul(0xD6E8FEB86659FD93).rotate_left(29));
  let progress = args.out.join("progress.txt");
  let mut lits: Vec<String> = Vec::new();
  let mut metas: Vec<Value> = Vec::new();
  let mut dist: BTreeMap<String, u64> = BTreeMap::new();

  // corpus of past failing requests: replayed first on every index (each line one request JSON)
  let mut corpus: Vec<Value> = Vec::new();
  if let Some(dir) = args.extra.get("corpus") {
    if let Ok(text) = std::fs::read_to_string(Path::new(dir).join("requests.jsonl")) {
      for line in text.lines() {
        if let Ok(v) = serde_json::from_str::<Value>(line) {
          corpus.push(v);
        }
      }
    }
  }

  let n_fuzz = args.n;
  let n_cursor = (args.n / 4).max(200);
  let index_sizes: Vec<usize> = if args.tier == "thorough" { vec![0, 1, 7, 30, 120] } else { vec![0, 6, 40] };
  let per_index = n_fuzz / index_sizes.len();
  let mut valid_cursors: Vec<String> = Vec::new();
  let mut n_out = [0u64; 4];
  let mut n_undeser = 0u64;
  let mut err_classes: BTreeMap<String, u64> = BTreeMap::new();

  for (ix, &nd) in index_sizes.iter().enumerate() {
    let dir = slv::fixtures::scratch();
    build_index(&mut rng, dir.path(), nd);
    let mut worker = spawn_worker(dir.path().to_path_buf());

    // ---- (2) limit arithmetic through search ------------------------------------------------
    if nd >= 3 {
      for _ in 0..6 {
        let limit: u64 = *rng.pick(&[1u64, 2, 2, 3, 1]);
        let returned: u32 = *rng.pick(&[0u32, 1, 49_998, 50_000, 17, 49_999]);
        let cand = *rng.pick(&[None, Some(0u64), Some(u64::MAX), Some(20_001), Some(3)]);
        // a first page to obtain a real cursor
        let mut base = json!({"query": {"type":"match_all"}, "limit": limit, "return_stored": false});
        if let Some(c) = cand {
          base["candidate_size"] = json!(c);
        }
        let Ok(req0) = serde_json::from_str::<SearchRequest>(&base.to_string()) else { continue };
        let Outcome::Ok(Some(cur0), _) = run_search(&mut worker, dir.path(), req0) else { continue };
        valid_cursors.push(cur0.clone());
        // splice `returned` into the cursor (last 4 bytes of the 21)
        let Ok(mut bytes) = verif_cursor::hex_decode(&cur0) else { continue };
        if bytes.len() != 21 {
          continue;
        }
        bytes[17..].copy_from_slice(&returned.to_be_bytes());
        let cur1 = verif_cursor::hex_encode(&bytes);
        let mut r1 = base.clone();
        r1["cursor"] = json!(cur1);
        let Ok(req1) = serde_json::from_str::<SearchRequest>(&r1.to_string()) else { continue };
        std::fs::write(&progress, r1.to_string()).ok();
        let out = run_search(&mut worker, dir.path(), req1);
        let (code, next_ret) = match &out {
          Outcome::Ok(Some(c), _) => match verif_cursor::hex_decode(c) {
            Ok(b) if b.len() == 21 => (0u64, Some(u32::from_be_bytes([b[17], b[18], b[19], b[20]]))),
            _ => (0, None),
          },
          Outcome::Ok(None, _) => (0, None),
          Outcome::Err(_) => (1, None),
          Outcome::Panic(_) => (2, None),
          Outcome::Hang => (3, None),
        };
        lits.push(format!(
          "(CLimit {} {} {} {} {})",
          limit,
          match cand { Some(c) => format!("(Some {c})"), None => "None".into() },
          returned,
          code,
          match next_ret { Some(r) => format!("(Some {r})"), None => "None".into() }
        ));
        metas.push(json!({"kind":"limit","request": r1, "docs": nd, "outcome_code": code, "next_returned": next_ret,
                          "nt": next_ret.is_some()}));
        *dist.entry("limit_cases".into()).or_insert(0) += 1;
      }
    }

    // ---- (3) fuzz ------------------------------------------------------------------------------
    let mut g = Gen { rng: &mut rng, cursors: valid_cursors.clone(), dist: BTreeMap::new() };
    let mut queue: Vec<(Value, &'static str)> = corpus.iter().map(|v| (v.clone(), "corpus")).collect();
    let mut done = 0usize;
    while done < per_index {
      let (reqv, origin) = if let Some(x) = queue.pop() {
        x
      } else {
        let mut r = g.request();
        let mut origin = "generated";
        if g.rng.chance(1, 4) {
          let k = 1 + g.rng.below(3);
          for _ in 0..k {
            g.mutate_leaf(&mut r);
          }
          origin = "leaf_mutated";
        }
        (r, origin)
      };
      let mut text = reqv.to_string();
      let mut origin = origin;
      if origin == "generated" && g.rng.chance(1, 8) {
        text = mutate_text(g.rng, &text);
        origin = "text_mutated";
      }
      done += 1;
      let req: SearchRequest = match serde_json::from_str(&text) {
        Ok(r) => r,
        Err(_) => {
          n_undeser += 1;
          continue;
        }
      };
      std::fs::write(&progress, format!("index docs={nd} request={text}\n")).ok();
      let out = run_search(&mut worker, dir.path(), req);
      let (code, detail) = match &out {
        Outcome::Ok(cur, nh) => {
          if let Some(c) = cur {
            if g.cursors.len() < 64 {
              g.cursors.push(c.clone());
            }
            // follow-ups: the real next page, and structure-aware mutants of the cursor
            if queue.len() < 8 && g.rng.chance(1, 2) {
              let mut follow = serde_json::from_str::<Value>(&text).unwrap_or(Value::Null);
              if follow.is_object() {
                follow["cursor"] = json!(c);
                queue.push((follow.clone(), "next_page"));
                for m in sort_cursor_mutants(g.rng, c) {
                  let mut f2 = follow.clone();
                  f2["cursor"] = json!(m);
                  queue.push((f2, "sort_cursor_mutant"));
                }
                let mut f3 = follow.clone();
                f3["cursor"] = json!(gen_cursor_string(g.rng, &[c.clone()]));
                queue.push((f3, "cursor_mutant"));
              }
            }
          }
          (0u64, format!("hits={nh}"))
        }
        Outcome::Err(m) => {
          let key: String = m.split(|c: char| c.is_ascii_digit() || c == '`' || c == '\'' || c == '"').next().unwrap_or("").chars().take(48).collect();
          *err_classes.entry(key).or_insert(0) += 1;
          (1, m.chars().take(160).collect())
        }
        Outcome::Panic(m) => (2, m.clone()),
        Outcome::Hang => (3, "no answer within 5 s".to_string()),
      };
      n_out[code as usize] += 1;
      // known panic classes (known_findings.jsonl, property C16), decided from the panic message
      let pclass: u64 = if code == 2 {
        if detail.contains("Inconsistent leaf for term key") { 1 } else { 0 }
      } else {
        0
      };
      if pclass > 0 {
        *g.dist.entry(format!("fuzz_known_panic_class_{pclass}")).or_insert(0) += 1;
      }
      *g.dist.entry(format!("origin_{origin}")).or_insert(0) += 1;
      lits.push(format!("(CFuzz {code} {pclass})"));
      // keep the request only for failures and a sample (cases.json stays small)
      let keep = code >= 2 || metas.len() % 50 == 0;
      metas.push(json!({"kind":"fuzz","index": ix, "docs": nd, "origin": origin, "outcome_code": code, "panic_class": pclass,
                        "detail": if code >= 2 { json!(detail) } else { Value::Null },
                        "request": if keep { serde_json::from_str::<Value>(&text).unwrap_or(Value::Null) } else { Value::Null },
                        "id": metas.len(), "nt": code <= 1 && origin != "corpus"}));
    }
    for (k, v) in g.dist.iter() {
      *dist.entry(k.clone()).or_insert(0) += v;
    }
    valid_cursors = g.cursors.clone();
  }

  // ---- (1) cursor codec -------------------------------------------------------------------------
  for raw in [
    format!("a{}a", "é".repeat(20)),
    "é".repeat(21),
    "00".repeat(21),
    "01".to_string() + &"00".repeat(20),
    "+1".repeat(21),
    "0".repeat(41) + "é",
    String::new(),
    "zz".to_string(),
    "éé".to_string(),
    "aé".to_string() + "b",
  ] {
    let (l, m) = cursor_case(&raw);
    lits.push(l);
    metas.push(m);
  }
  for _ in 0..n_cursor {
    let raw = gen_cursor_string(&mut rng, &valid_cursors);
    std::fs::write(&progress, format!("cursor={raw:?}\n")).ok();
    let (l, m) = cursor_case(&raw);
    if m["decode"].get("ok").is_some() {
      *dist.entry("cursor_decode_ok".into()).or_insert(0) += 1;
    }
    if m["hex_decode"].get("ok_len").is_some() {
      *dist.entry("cursor_hex_ok".into()).or_insert(0) += 1;
    }
    if !raw.is_ascii() {
      *dist.entry("cursor_non_ascii".into()).or_insert(0) += 1;
    }
    if raw.len() == 42 {
      *dist.entry("cursor_len_42".into()).or_insert(0) += 1;
    }
    lits.push(l);
    metas.push(m);
  }
  dist.insert("cursor_cases".into(), n_cursor as u64 + 10);
  dist.insert("fuzz_ok".into(), n_out[0]);
  dist.insert("fuzz_err".into(), n_out[1]);
  dist.insert("fuzz_panic".into(), n_out[2]);
  dist.insert("fuzz_hang".into(), n_out[3]);
  dist.insert("fuzz_not_deserializable_out_of_scope".into(), n_undeser);
  let mut top: Vec<(String, u64)> = err_classes.into_iter().collect();
  top.sort_by(|a, b| b.1.cmp(&a.1));
  top.truncate(40);

  std::fs::remove_file(&progress).ok();
  let files = write_cases(&args.out, "From SL Require Import C16.Model.", "c16_case", "check_case", &lits, 2000);
  write_json(
    &args.out,
    "cases.json",
    &json!({"files": files, "cases": metas, "distribution": dist,
            "error_classes_top": top.into_iter().map(|(k, v)| json!([k, v])).collect::<Vec<_>>()}),
  );
}
