//! C30 engine: pages real composite aggregations (terms / histogram source lists over keyword and
//! numeric fields, single- and multi-valued, 1-4 segments) by sending each after_key back as
//! `after`, compares with the unpaged aggregation, and probes `after` with arbitrary keys.
use searchlite_core::api::types::{AggregationResponse, StorageType};
use serde_json::{json, Value};
use slv::qx::{self, World};
use slv::{coq, parse_args, write_cases, write_json, Rng};
use std::collections::BTreeMap;

#[derive(Clone, Debug, PartialEq)]
enum Part {
  Str(Vec<u8>),
  F64(u64),
}

#[derive(Clone)]
struct Src {
  name: String,
  hist: bool,
  json: Value,
}

fn parse_key(key: &Value, srcs: &[Src]) -> Option<Vec<Part>> {
  let o = key.as_object()?;
  let mut v = Vec::new();
  for s in srcs {
    let x = o.get(&s.name)?;
    if s.hist {
      v.push(Part::F64(x.as_f64()?.to_bits()));
    } else {
      v.push(Part::Str(x.as_str()?.as_bytes().to_vec()));
    }
  }
  Some(v)
}

fn coq_key(k: &[Part]) -> String {
  let xs: Vec<String> = k
    .iter()
    .map(|p| match p {
      Part::Str(b) => format!("KStr {}", coq::bytes(b)),
      Part::F64(b) => format!("KF64 {b}"),
    })
    .collect();
  coq::list(&xs)
}

struct Page {
  err: Option<String>,
  buckets: Vec<(u64, u64, u64)>,
  after: Option<u64>,
}

fn composite(
  reader: &searchlite_core::api::reader::IndexReader,
  base: &Value,
  agg: &Value,
) -> Result<(Vec<(Value, u64, String)>, Option<Value>), String> {
  let mut r = base.clone();
  r["aggs"] = json!({"c": agg});
  let res = qx::search(reader, &qx::request(r))?;
  match res.aggregations.get("c") {
    Some(AggregationResponse::Composite { buckets, after_key, .. }) => Ok((
      buckets
        .iter()
        .map(|b| (b.key.clone(), b.doc_count, serde_json::to_string(&b.aggregations).unwrap()))
        .collect(),
      after_key.clone(),
    )),
    _ => Err("no composite response".into()),
  }
}

fn main() {
  let args = parse_args();
  let mut rng = Rng::new(args.seed);
  let thorough = args.tier == "thorough";
  let progress = args.out.join("progress.txt");
  let mut lits: Vec<String> = Vec::new();
  let mut meta: Vec<Value> = Vec::new();
  let mut dist: BTreeMap<String, u64> = BTreeMap::new();
  let bump = |dist: &mut BTreeMap<String, u64>, k: &str, n: u64| {
    *dist.entry(k.to_string()).or_insert(0) += n;
  };
  for wi in 0..args.n {
    let nseg = 1 + rng.below(4) as usize;
    let storage = if rng.chance(1, 2) { StorageType::InMemory } else { StorageType::Filesystem };
    let max_docs = if rng.chance(1, 2) { 30 } else if thorough { 14 } else { 9 };
    let mut w = World::build(&mut rng, nseg, 3, max_docs, storage);
    if rng.chance(1, 3) {
      let ids: Vec<u64> = (0..1 + rng.below(3)).map(|_| rng.below(w.next_id)).collect();
      w.delete(&ids);
    }
    let reader = w.reader();
    let nconf = if thorough { 6 } else { 4 };
    for ci in 0..nconf {
      // source list: 1-3 sources, distinct names
      let nsrc = 1 + rng.below(3) as usize;
      let mut srcs: Vec<Src> = Vec::new();
      for si in 0..nsrc {
        let name = format!("s{si}");
        if rng.chance(1, 2) {
          let f = *rng.pick(&["tag", "tags"][..]);
          srcs.push(Src { name: name.clone(), hist: false, json: json!({"type":"terms","name":name,"field":f}) });
          bump(&mut dist, &format!("source_terms_{f}"), 1);
        } else {
          let f = *rng.pick(&["x", "y", "y", "x", "y", "x", "n"][..]); // i64 fields give no buckets (f64_values)
          let iv = *rng.pick(&[1.0, 2.0, 0.5, 0.1, 0.3, 3.0][..]);
          srcs.push(Src { name: name.clone(), hist: true, json: json!({"type":"histogram","name":name,"field":f,"interval":iv}) });
          bump(&mut dist, &format!("source_histogram_{f}"), 1);
        }
      }
      let query = if rng.chance(1, 2) { json!({"type":"match_all"}) } else { qx::gen_query(&mut rng).0 };
      let mut base = json!({"query": query, "limit": 1});
      if let Some(f) = qx::gen_filter(&mut rng) {
        base["filter"] = f;
      }
      let sub = rng.chance(1, 2);
      let mk = |size: usize, after: Option<&Value>| -> Value {
        let mut a = json!({"type":"composite","sources": srcs.iter().map(|s| s.json.clone()).collect::<Vec<_>>(), "size": size});
        if let Some(k) = after {
          a["after"] = k.clone();
        }
        if sub {
          a["aggs"] = json!({"st": {"type":"stats","field":"n"}, "vc": {"type":"value_count","field":"m"}});
        }
        a
      };
      std::fs::write(&progress, format!("world {wi} conf {ci} unpaged {}\n", mk(10_000, None))).ok();
      let (ub, uafter) = match composite(&reader, &base, &mk(10_000, None)) {
        Ok(x) => x,
        Err(e) => panic!("unpaged composite failed: {e}: {}", mk(10_000, None)),
      };
      let keys: Vec<Option<Vec<Part>>> = ub.iter().map(|b| parse_key(&b.0, &srcs)).collect();
      if keys.iter().any(|k| k.is_none()) {
        bump(&mut dist, "skipped_unparsable_keys", 1);
        continue;
      }
      let keys: Vec<Vec<Part>> = keys.into_iter().map(|k| k.unwrap()).collect();
      let keystr: Vec<String> = ub.iter().map(|b| serde_json::to_string(&b.0).unwrap()).collect();
      let rank_of = |k: &Value| -> u64 {
        let s = serde_json::to_string(k).unwrap();
        keystr.iter().position(|x| *x == s).map(|i| i as u64).unwrap_or(999_999)
      };
      // digests of sub-aggregations interned per case
      let mut digests: Vec<String> = Vec::new();
      let mut digest = |s: &str| -> u64 {
        if let Some(i) = digests.iter().position(|x| x == s) {
          i as u64
        } else {
          digests.push(s.to_string());
          (digests.len() - 1) as u64
        }
      };
      let unpaged: Vec<(u64, u64, u64)> =
        ub.iter().enumerate().map(|(i, b)| (i as u64, b.1, digest(&b.2))).collect();
      let neg_zero = keys.iter().flatten().any(|p| *p == Part::F64((-0.0f64).to_bits()));
      if neg_zero {
        bump(&mut dist, "cases_with_negative_zero_key", 1);
      }
      bump(&mut dist, "buckets_total", ub.len() as u64);
      bump(&mut dist, &format!("sources_{nsrc}"), 1);
      if ub.is_empty() {
        bump(&mut dist, "empty_bucket_lists", 1);
      }
      // probes: arbitrary keys as `after` (existing keys, perturbed keys)
      let mut probes: Vec<(Vec<Part>, Vec<u64>)> = Vec::new();
      for _ in 0..2 {
        let mut o = serde_json::Map::new();
        let mut parts = Vec::new();
        for s in &srcs {
          if s.hist {
            let v = *rng.pick(&[-3.0, -0.25, -0.0, 0.0, 0.05, 0.3, 1.0, 2.5, 1e9][..]);
            o.insert(s.name.clone(), json!(v));
            parts.push(Part::F64(f64::to_bits(v)));
          } else {
            let v = *rng.pick(&["", "a", "aa", "b", "bb", "c", "d", "zz"][..]);
            o.insert(s.name.clone(), json!(v));
            parts.push(Part::Str(v.as_bytes().to_vec()));
          }
        }
        let k = Value::Object(o);
        match composite(&reader, &base, &mk(10_000, Some(&k))) {
          Ok((b, _)) => probes.push((parts, b.iter().map(|x| rank_of(&x.0)).collect())),
          Err(e) => panic!("probe failed: {e}"),
        }
        bump(&mut dist, "probes", 1);
      }
      // walks
      let nsizes = if thorough { 3 } else { 2 };
      let mut sizes: Vec<usize> = Vec::new();
      while sizes.len() < nsizes {
        let s = 1 + rng.below(5) as usize;
        if !sizes.contains(&s) {
          sizes.push(s);
        }
      }
      for size in sizes {
        // half of the walks pass the after_key through its JSON text (as HTTP / CLI clients do)
        let via_text = rng.chance(1, 2);
        let mut pages: Vec<Page> = Vec::new();
        let mut after: Option<Value> = None;
        let mut overrun = false;
        loop {
          if pages.len() > ub.len() + 2 {
            overrun = true;
            break;
          }
          let a = mk(size, after.as_ref());
          std::fs::write(&progress, format!("world {wi} conf {ci} page {a}\n")).ok();
          match composite(&reader, &base, &a) {
            Ok((b, ak)) => {
              pages.push(Page {
                err: None,
                buckets: b.iter().map(|x| (rank_of(&x.0), x.1, digest(&x.2))).collect(),
                after: ak.as_ref().map(|k| rank_of(k)),
              });
              match ak {
                Some(k) => {
                  after = Some(if via_text {
                    serde_json::from_str(&serde_json::to_string(&k).unwrap()).unwrap()
                  } else {
                    k
                  })
                }
                None => break,
              }
            }
            Err(e) => {
              pages.push(Page { err: Some(e), buckets: vec![], after: None });
              break;
            }
          }
        }
        bump(&mut dist, &format!("page_size_{size}"), 1);
        bump(&mut dist, "pages_total", pages.len() as u64);
        bump(&mut dist, if via_text { "walks_after_key_via_json_text" } else { "walks_after_key_in_process" }, 1);
        if pages.len() >= 3 {
          bump(&mut dist, "walks_with_3_or_more_pages", 1);
        }
        let b3 = |v: &[(u64, u64, u64)]| -> String {
          coq::list(&v.iter().map(|(a, b, c)| format!("({a}, {b}, {c})")).collect::<Vec<_>>())
        };
        let srcs_l: Vec<String> = srcs
          .iter()
          .enumerate()
          .map(|(i, s)| format!("({}, {})", i, if s.hist { "SHist" } else { "STerms" }))
          .collect();
        let pages_l: Vec<String> = pages
          .iter()
          .map(|p| {
            format!(
              "{{| o_err := {}; o_buckets := {}; o_after := {} |}}",
              coq::b(p.err.is_some()),
              b3(&p.buckets),
              coq::opt(p.after.map(|a| a.to_string()))
            )
          })
          .collect();
        let probes_l: Vec<String> = probes
          .iter()
          .map(|(k, got)| format!("{{| pr_key := {}; pr_got := {} |}}", coq_key(k), coq::nlist(got)))
          .collect();
        lits.push(format!(
          "{{| sources := {}; keys := {}; unpaged := {}; unpaged_after := {}; size := {}; pages := {}; overrun := {}; probes := {} |}}",
          coq::list(&srcs_l),
          coq::list(&keys.iter().map(|k| coq_key(k)).collect::<Vec<_>>()),
          b3(&unpaged),
          coq::b(uafter.is_some()),
          size,
          coq::list(&pages_l),
          coq::b(overrun),
          coq::list(&probes_l)
        ));
        meta.push(json!({
          "request": base, "sources": srcs.iter().map(|s| s.json.clone()).collect::<Vec<_>>(), "size": size,
          "sub_aggs": sub, "buckets": ub.len(), "after_key_via_text": via_text,
          "pages": pages.iter().map(|p| json!({"err": p.err, "n": p.buckets.len(), "after": p.after})).collect::<Vec<_>>(),
          "keys": keystr, "nt": pages.len() >= 2,
        }));
      }
    }
  }
  std::fs::remove_file(&progress).ok();
  let files = write_cases(&args.out, "From SL Require Import C30.Model.", "case", "check_case", &lits, 40);
  write_json(&args.out, "cases.json", &json!({"files": files, "cases": meta, "distribution": dist}));
}
