//! C07 engine: random schemas / corpora / query trees; runs the real `IndexReader::search` for
//! the three execution modes (plus a field-sorted run), and writes (corpus, lowered query,
//! observed id sets) cases for the Coq model.  Every token handed to the model comes from the
//! REAL analyzers (`Schema::build_analyzers()`); the segment layout (ordinals, tombstones) is
//! read from the real reader.
use serde_json::{json, Value};
use slv::{coq, parse_args, write_json, Rng};
use std::collections::{BTreeMap, BTreeSet, HashMap};

use searchlite_core::api::query::parse_query;
use searchlite_core::api::types::{SearchRequest, StorageType};
use searchlite_core::util::regex::anchored_regex;
use searchlite_core::verif::manifest::{FieldKind, SchemaAnalyzers};
use searchlite_core::Schema;

const ERR_ID: u64 = 4294967295;

const WORDS: &[&str] = &[
  "rust", "rusty", "rustic", "ruby", "run", "running", "runs", "runner", "search", "searching",
  "engine", "engines", "index", "indexes", "fast", "quick", "big", "cat", "lion", "the", "of", "and",
  "a", "Rust", "SEARCH", "rust-lang", "foo.bar", "café", "naïve", "ｆｕｌｌ", "color", "colour", "colr",
  "data", "date", "dart", "x1", "42", "query", "quest",
];
const KW_VALUES: &[&str] = &["red", "green", "blue", "Red", "dark blue", "x"];

struct Intern {
  map: HashMap<String, u64>,
}
impl Intern {
  fn new() -> Self {
    Intern { map: HashMap::new() }
  }
  fn id(&mut self, s: &str) -> u64 {
    let n = self.map.len() as u64 + 1;
    *self.map.entry(s.to_string()).or_insert(n)
  }
}

#[derive(Clone)]
struct FieldInfo {
  name: String,
  text: bool,
}

struct Ctx<'a> {
  schema: &'a Schema,
  an: &'a SchemaAnalyzers,
  text_fields: Vec<String>,
  kw_fields: Vec<String>, // user keyword fields (without uid)
  dict: BTreeMap<String, BTreeSet<String>>, // field -> terms present in some segment
  fuzzy: Option<(u8, usize, usize, usize)>, // max_edits, prefix_length, max_expansions, min_length
  intern: Intern,
  over_cap: bool,
  kinds: BTreeMap<String, u64>,
  src_words: Vec<(String, String)>, // (field, raw word) of live docs
  src_seqs: Vec<(String, Vec<String>)>, // (field, raw words of all values in order) of live docs
}

fn lev(a: &str, b: &str) -> usize {
  let a: Vec<char> = a.chars().collect();
  let b: Vec<char> = b.chars().collect();
  let mut prev: Vec<usize> = (0..=b.len()).collect();
  for i in 1..=a.len() {
    let mut cur = vec![i; b.len() + 1];
    for j in 1..=b.len() {
      let c = if a[i - 1] == b[j - 1] { 0 } else { 1 };
      cur[j] = (prev[j] + 1).min(cur[j - 1] + 1).min(prev[j - 1] + c);
    }
    prev = cur;
  }
  prev[b.len()]
}

fn glob(p: &[char], t: &[char]) -> bool {
  match p.first() {
    None => t.is_empty(),
    Some('*') => (0..=t.len()).any(|k| glob(&p[1..], &t[k..])),
    Some('?') => !t.is_empty() && t[0] != '\n' && glob(&p[1..], &t[1..]),
    Some(c) => !t.is_empty() && t[0] == *c && glob(&p[1..], &t[1..]),
  }
}

impl<'a> Ctx<'a> {
  fn bump(&mut self, k: &str) {
    *self.kinds.entry(k.to_string()).or_insert(0) += 1;
  }
  fn key(&mut self, field: &str, term: &str) -> u64 {
    self.intern.id(&format!("{field}:{term}"))
  }
  /// expand_term_groups, Exact: tokens of the search analyzer (text) / ascii-lowercased term (keyword)
  fn exact_tokens(&self, field: &str, value: &str) -> Vec<String> {
    match self.schema.field_kind(field) {
      FieldKind::Text => {
        let mut seen = BTreeSet::new();
        let mut out = Vec::new();
        if let Some(a) = self.an.search_analyzer(field) {
          for t in a.analyze(value) {
            if seen.insert(t.text.clone()) {
              out.push(t.text);
            }
          }
        }
        out
      }
      FieldKind::Keyword => vec![value.to_ascii_lowercase()],
      _ => vec![],
    }
  }
  /// analyze_pattern_tokens
  fn pattern_token(&self, field: &str, value: &str) -> Option<String> {
    match self.schema.field_kind(field) {
      FieldKind::Text => {
        let a = self.an.search_analyzer(field)?;
        let toks = a.analyze(value);
        if toks.len() == 1 {
          Some(toks[0].text.clone())
        } else {
          Some(a.normalize_pattern(value))
        }
      }
      FieldKind::Keyword => Some(value.to_ascii_lowercase()),
      _ => None,
    }
  }
  fn dict_terms(&self, field: &str) -> Vec<String> {
    self.dict.get(field).map(|s| s.iter().filter(|t| !t.is_empty()).cloned().collect()).unwrap_or_default()
  }
  /// dictionary keys within the request's fuzzy options of one analyzed token (expand_term_fuzzy)
  fn fuzzy_terms(&mut self, field: &str, token: &str) -> Vec<String> {
    let mut out = vec![token.to_string()];
    let Some((max_edits, prefix_length, max_exp, min_len)) = self.fuzzy else { return out };
    let max_edits = max_edits.min(2) as usize;
    if max_edits == 0 {
      return out;
    }
    let tl = token.chars().count();
    if tl < min_len || max_exp == 0 {
      return out;
    }
    let pl = prefix_length.min(tl);
    let prefix: String = token.chars().take(pl).collect();
    let mut n = 0;
    for cand in self.dict_terms(field) {
      if cand == token || !cand.starts_with(&prefix) {
        continue;
      }
      let d = lev(token, &cand);
      if d >= 1 && d <= max_edits {
        out.push(cand);
        n += 1;
      }
    }
    if n + 1 >= max_exp {
      self.over_cap = true;
    }
    out
  }
  /// (exact keys, fuzzy keys) of one term over a list of fields
  fn term_keys(&mut self, fields: &[String], value: &str) -> (Vec<u64>, Vec<u64>) {
    let mut ex = Vec::new();
    let mut fz = Vec::new();
    for f in fields {
      for tok in self.exact_tokens(f, value) {
        let k = self.key(f, &tok);
        if !ex.contains(&k) {
          ex.push(k);
        }
        for t in self.fuzzy_terms(f, &tok) {
          let k = self.key(f, &t);
          if !fz.contains(&k) {
            fz.push(k);
          }
        }
      }
    }
    (ex, fz)
  }
  /// dictionary keys satisfying an expansion pattern; `cap` = per-segment cap of the node
  fn expansion_keys(&mut self, field: &str, value: &str, kind: &str, cap: usize) -> Vec<u64> {
    let Some(tok) = self.pattern_token(field, value) else { return vec![] };
    let re = if kind == "regex" { Some(anchored_regex(&tok).expect("generated regex is valid")) } else { None };
    let pat: Vec<char> = tok.chars().collect();
    let mut out = Vec::new();
    for t in self.dict_terms(field) {
      let ok = match kind {
        "prefix" => t.starts_with(&tok),
        "wildcard" => glob(&pat, &t.chars().collect::<Vec<_>>()),
        _ => re.as_ref().unwrap().is_match(&t),
      };
      if ok {
        out.push(self.key(field, &t));
      }
    }
    if out.len() + 1 >= cap {
      self.over_cap = true;
    }
    out
  }
  /// expand_phrase_fields: one variant per field that yields tokens
  fn phrase_variants(&mut self, fields: &[String], terms: &[String]) -> Vec<Vec<Vec<u64>>> {
    let joined = terms.join(" ");
    let mut out = Vec::new();
    for f in fields {
      match self.schema.field_kind(f) {
        FieldKind::Text => {
          let Some(a) = self.an.search_analyzer(f) else { continue };
          let toks = a.analyze(&joined);
          if toks.is_empty() {
            continue;
          }
          let mut positions: Vec<Vec<u64>> = Vec::new();
          for t in toks {
            let p = t.position as usize;
            if positions.len() <= p {
              positions.resize(p + 1, Vec::new());
            }
            let k = self.key(f, &t.text);
            if !positions[p].contains(&k) {
              positions[p].push(k);
            }
          }
          out.push(positions);
        }
        FieldKind::Keyword => {
          let j = joined.to_ascii_lowercase();
          if !j.is_empty() {
            let k = self.key(f, &j);
            out.push(vec![vec![k]]);
          }
        }
        _ => {}
      }
    }
    out
  }
}

fn nl(xs: &[u64]) -> String {
  coq::nlist(xs)
}
fn variants_lit(vs: &[Vec<Vec<u64>>]) -> String {
  let v: Vec<String> = vs
    .iter()
    .map(|v| coq::list(&v.iter().map(|alts| nl(alts)).collect::<Vec<_>>()))
    .collect();
  coq::list(&v)
}

fn pick_word(rng: &mut Rng, cx: &Ctx) -> String {
  if !cx.src_words.is_empty() && rng.chance(3, 4) {
    cx.src_words[rng.below(cx.src_words.len() as u64) as usize].1.clone()
  } else {
    rng.pick(WORDS).to_string()
  }
}
fn pick_field(rng: &mut Rng, cx: &Ctx) -> String {
  if !cx.kw_fields.is_empty() && rng.chance(1, 6) {
    rng.pick(&cx.kw_fields).clone()
  } else {
    rng.pick(&cx.text_fields).clone()
  }
}
fn pick_value_for(rng: &mut Rng, cx: &Ctx, field: &str) -> String {
  if cx.kw_fields.iter().any(|f| f == field) {
    rng.pick(KW_VALUES).to_string()
  } else {
    pick_word(rng, cx)
  }
}

/// words taken in order from one live document's field, skipping 0-2 words between picks
fn doc_phrase(rng: &mut Rng, cx: &Ctx) -> Option<(String, Vec<String>)> {
  if cx.src_seqs.is_empty() {
    return None;
  }
  let (f, seq) = &cx.src_seqs[rng.below(cx.src_seqs.len() as u64) as usize];
  let n = 2 + rng.below(3) as usize;
  let mut i = rng.below(seq.len() as u64) as usize;
  let mut terms = vec![seq[i].clone()];
  while terms.len() < n {
    i += 1 + rng.below(3) as usize;
    if i >= seq.len() {
      break;
    }
    terms.push(seq[i].clone());
  }
  if terms.len() < 2 {
    return None;
  }
  Some((f.clone(), terms))
}

fn gen_filter(rng: &mut Rng, cx: &mut Ctx, depth: u32) -> (Value, String) {
  let leaf = depth == 0 || cx.kw_fields.is_empty() || rng.chance(2, 3);
  if cx.kw_fields.is_empty() {
    // no keyword field: a filter on the always-present uid field that matches nothing / everything
    let (j, c) = (json!({"KeywordEq": {"field": "uid", "value": "nomatch"}}), "(FKw [])".to_string());
    return if rng.chance(1, 2) { (json!({"Not": j}), format!("(FNot {c})")) } else { (j, c) };
  }
  if leaf {
    let f = rng.pick(&cx.kw_fields).clone();
    if rng.chance(1, 2) {
      let v = rng.pick(KW_VALUES).to_string();
      let id = cx.intern.id(&format!("F{}:{}", f, v.to_lowercase()));
      (json!({"KeywordEq": {"field": f, "value": v}}), format!("(FKw [{id}])"))
    } else {
      let n = 1 + rng.below(3) as usize;
      let vs: Vec<String> = (0..n).map(|_| rng.pick(KW_VALUES).to_string()).collect();
      let ids: Vec<u64> = vs.iter().map(|v| cx.intern.id(&format!("F{}:{}", f, v.to_lowercase()))).collect();
      (json!({"KeywordIn": {"field": f, "values": vs}}), format!("(FKw {})", nl(&ids)))
    }
  } else {
    match rng.below(3) {
      0 => {
        let (j, c) = gen_filter(rng, cx, depth - 1);
        (json!({"Not": j}), format!("(FNot {c})"))
      }
      k => {
        let n = 1 + rng.below(2);
        let parts: Vec<(Value, String)> = (0..=n).map(|_| gen_filter(rng, cx, depth - 1)).collect();
        let js: Vec<Value> = parts.iter().map(|p| p.0.clone()).collect();
        let cs: Vec<String> = parts.iter().map(|p| p.1.clone()).collect();
        if k == 1 {
          (json!({"And": js}), format!("(FAnd {})", coq::list(&cs)))
        } else {
          (json!({"Or": js}), format!("(FOr {})", coq::list(&cs)))
        }
      }
    }
  }
}

/// query text for query_string / multi_match
fn gen_qtext(rng: &mut Rng, cx: &Ctx, allow_fields: bool) -> String {
  let mut parts = Vec::new();
  let n = rng.below(4);
  for _ in 0..n {
    let w = pick_word(rng, cx);
    let mut s = String::new();
    if rng.chance(1, 6) {
      s.push('-');
    }
    if allow_fields && rng.chance(1, 4) {
      let f = if rng.chance(1, 8) { "nosuch".to_string() } else { pick_field(rng, cx) };
      s.push_str(&f);
      s.push(':');
    }
    s.push_str(&w);
    parts.push(s);
  }
  if rng.chance(1, 4) {
    let mut a = pick_word(rng, cx);
    let mut b = pick_word(rng, cx);
    if rng.chance(1, 2) {
      if let Some((_, ts)) = doc_phrase(rng, cx) {
        a = ts[0].replace('"', "");
        b = ts[1].replace('"', "");
      }
    }
    if allow_fields && rng.chance(1, 3) {
      parts.push(format!("\"{}:{} {}\"", rng.pick(&cx.text_fields), a, b));
    } else {
      parts.push(format!("\"{a} {b}\""));
    }
  }
  parts.join(if rng.chance(1, 8) { "  " } else { " " })
}

/// lowers parsed query text: returns the Coq literal of a QString
fn lower_qstring(cx: &mut Ctx, text: &str, base_fields: &[String], explicit_fields: bool, msm: String) -> (String, usize) {
  let parsed = parse_query(text);
  let mut ts = Vec::new();
  for t in parsed.terms.iter() {
    let fields: Vec<String> = match (&t.field, explicit_fields) {
      (Some(f), true) => vec![f.clone()],
      _ => base_fields.to_vec(),
    };
    let (ex, fz) = cx.term_keys(&fields, &t.term);
    ts.push(format!("({}, {})", nl(&ex), nl(&fz)));
  }
  let mut ns = Vec::new();
  for t in parsed.not_terms.iter() {
    let fields: Vec<String> = match (&t.field, explicit_fields) {
      (Some(f), true) => vec![f.clone()],
      _ => base_fields.to_vec(),
    };
    let mut keys = Vec::new();
    for f in fields.iter() {
      for tok in cx.exact_tokens(f, &t.term) {
        let k = cx.key(f, &tok);
        if !keys.contains(&k) {
          keys.push(k);
        }
      }
    }
    ns.push(nl(&keys));
  }
  let mut ps = Vec::new();
  for p in parsed.phrases.iter() {
    let fields: Vec<String> = match (&p.field, explicit_fields) {
      (Some(f), true) => vec![f.clone()],
      _ => base_fields.to_vec(),
    };
    ps.push(variants_lit(&cx.phrase_variants(&fields, &p.terms)));
  }
  (
    format!("(QString {} {} {} {})", coq::list(&ts), coq::list(&ps), coq::list(&ns), msm),
    parsed.terms.len(),
  )
}

fn gen_query(rng: &mut Rng, cx: &mut Ctx, depth: u32) -> (Value, String) {
  let leaf = depth == 0 || rng.chance(2, 5);
  if leaf {
    match rng.below(20) {
      0 => {
        cx.bump("match_all");
        (json!({"type": "match_all"}), "QAll".into())
      }
      1 => {
        cx.bump("rank_feature");
        (json!({"type": "rank_feature", "field": "pop"}), "QAll".into())
      }
      2..=6 => {
        cx.bump("term");
        let f = pick_field(rng, cx);
        let v = pick_value_for(rng, cx, &f);
        let (ex, fz) = cx.term_keys(&[f.clone()], &v);
        (json!({"type": "term", "field": f, "value": v}), format!("(QTerm {} {})", nl(&ex), nl(&fz)))
      }
      7 | 8 => {
        cx.bump("prefix");
        let f = pick_field(rng, cx);
        let w = pick_value_for(rng, cx, &f);
        let n = 1 + rng.below(3) as usize;
        let v: String = w.chars().take(n).collect();
        let cap = if rng.chance(1, 3) { Some(40 + rng.below(30) as usize) } else { None };
        let keys = cx.expansion_keys(&f, &v, "prefix", cap.unwrap_or(50));
        let mut j = json!({"type": "prefix", "field": f, "value": v});
        if let Some(c) = cap {
          j["max_expansions"] = json!(c);
        }
        (j, format!("(QTerm {} {})", nl(&keys), nl(&keys)))
      }
      9 | 10 => {
        cx.bump("wildcard");
        let f = pick_field(rng, cx);
        let w = pick_value_for(rng, cx, &f);
        let cs: Vec<char> = w.chars().collect();
        let v: String = match rng.below(5) {
          0 => format!("{}*", cs.iter().take(2).collect::<String>()),
          1 => format!("*{}", cs.iter().skip(cs.len().saturating_sub(2)).collect::<String>()),
          2 => cs.iter().enumerate().map(|(i, c)| if i == 1 { '?' } else { *c }).collect(),
          3 => format!("{}*{}", cs.iter().take(1).collect::<String>(), cs.iter().skip(cs.len().saturating_sub(1)).collect::<String>()),
          _ => "*".to_string(),
        };
        let keys = cx.expansion_keys(&f, &v, "wildcard", 100);
        (json!({"type": "wildcard", "field": f, "value": v}), format!("(QTerm {} {})", nl(&keys), nl(&keys)))
      }
      11 | 12 => {
        cx.bump("regex");
        let f = pick_field(rng, cx);
        let w: String = pick_value_for(rng, cx, &f).chars().filter(|c| c.is_alphanumeric()).collect::<String>().to_lowercase();
        let w2: String = pick_value_for(rng, cx, &f).chars().filter(|c| c.is_alphanumeric()).collect::<String>().to_lowercase();
        let cs: Vec<char> = w.chars().collect();
        let head: String = cs.iter().take(2).collect();
        let v: String = match rng.below(7) {
          0 => format!("{head}.*"),
          1 => format!("{head}[a-z]+"),
          2 => format!("{}({}|{})", cs.iter().take(1).collect::<String>(), cs.iter().skip(1).collect::<String>(), w2),
          3 => format!("{w}|{w2}"),
          4 | 5 => {
            // a quantifier on the last character of the literal head: colou?r / colo*r
            let k = 1 + rng.below(cs.len().max(2) as u64 - 1) as usize;
            let qm = if rng.chance(1, 2) { "?" } else { "*" };
            format!("{}{}{}", cs.iter().take(k).collect::<String>(), qm, cs.iter().skip(k).collect::<String>())
          }
          _ => format!(".*{}", cs.iter().skip(cs.len().saturating_sub(2)).collect::<String>()),
        };
        if v.is_empty() || anchored_regex(&v).is_err() {
          return gen_query(rng, cx, depth);
        }
        let keys = cx.expansion_keys(&f, &v, "regex", 100);
        (json!({"type": "regex", "field": f, "value": v}), format!("(QTerm {} {})", nl(&keys), nl(&keys)))
      }
      13..=15 => {
        cx.bump("phrase");
        let n = 1 + rng.below(3) as usize;
        let mut terms: Vec<String> = (0..n).map(|_| pick_word(rng, cx)).collect();
        let slop = if rng.chance(2, 3) { Some(rng.below(4)) } else { None };
        let mut field = if rng.chance(3, 4) { Some(pick_field(rng, cx)) } else { None };
        if rng.chance(2, 3) {
          if let Some((f, ts)) = doc_phrase(rng, cx) {
            cx.bump("phrase_from_document");
            terms = ts;
            if field.is_some() {
              field = Some(f);
            }
          }
        }
        let fields = match &field {
          Some(f) => vec![f.clone()],
          None => cx.text_fields.clone(),
        };
        let vs = cx.phrase_variants(&fields, &terms);
        let mut j = json!({"type": "phrase", "terms": terms});
        if let Some(f) = field {
          j["field"] = json!(f);
        }
        if let Some(s) = slop {
          j["slop"] = json!(s);
        }
        (j, format!("(QPhrase {} {})", variants_lit(&vs), slop.unwrap_or(0)))
      }
      16 | 17 => {
        cx.bump("query_string");
        let text = gen_qtext(rng, cx, true);
        let fields: Option<Vec<String>> = if rng.chance(1, 3) {
          let mut fs = vec![pick_field(rng, cx)];
          if rng.chance(1, 2) {
            let g = pick_field(rng, cx);
            if !fs.contains(&g) {
              fs.push(g);
            }
          }
          Some(fs)
        } else {
          None
        };
        let base = fields.clone().unwrap_or_else(|| cx.text_fields.clone());
        let (lit, _) = lower_qstring(cx, &text, &base, true, "None".into());
        let mut j = json!({"type": "query_string", "query": text});
        if let Some(fs) = fields {
          j["fields"] = json!(fs);
        }
        (j, lit)
      }
      18 => {
        cx.bump("constant_score");
        let (fj, fc) = gen_filter(rng, cx, 2);
        (json!({"type": "constant_score", "filter": fj}), format!("(QConst {fc})"))
      }
      _ => {
        cx.bump("multi_match");
        let text = gen_qtext(rng, cx, false);
        let mut fs = vec![pick_field(rng, cx)];
        for _ in 0..rng.below(3) {
          let g = pick_field(rng, cx);
          if !fs.contains(&g) {
            fs.push(g);
          }
        }
        let mt = *rng.pick(&["best_fields", "most_fields", "cross_fields"]);
        let op_and = rng.chance(1, 3);
        let (mj, mc) = match rng.below(4) {
          0 => (Some(json!(1 + rng.below(3))), None),
          1 => {
            let p = *rng.pick(&[0u64, 25, 50, 75, 100]);
            (Some(json!(format!("{p}%"))), Some(p))
          }
          _ => (None, None),
        };
        let nterms = parse_query(&text).terms.len();
        let spec = match (&mj, mc) {
          (None, _) => "MsmDefault".to_string(),
          (Some(_), Some(p)) => format!("(MsmPct {p})"),
          (Some(v), None) => format!("(MsmCount {})", v.as_u64().unwrap()),
        };
        let msm = format!("(resolve_msm {spec} {nterms} {})", coq::b(op_and));
        let (lit, _) = lower_qstring(cx, &text, &fs, false, msm);
        let mut j = json!({"type": "multi_match", "query": text, "fields": fs, "match_type": mt,
                           "operator": if op_and { "and" } else { "or" }});
        if let Some(m) = mj {
          j["minimum_should_match"] = m;
        }
        (j, lit)
      }
    }
  } else {
    match rng.below(10) {
      0 | 1 => {
        cx.bump("dis_max");
        let n = rng.below(4);
        let parts: Vec<(Value, String)> = (0..n).map(|_| gen_query(rng, cx, depth - 1)).collect();
        let js: Vec<Value> = parts.iter().map(|p| p.0.clone()).collect();
        let cs: Vec<String> = parts.iter().map(|p| p.1.clone()).collect();
        (json!({"type": "dis_max", "queries": js, "tie_breaker": 0.3}), format!("(QDisMax {})", coq::list(&cs)))
      }
      2 => {
        cx.bump("function_score");
        let (j, c) = gen_query(rng, cx, depth - 1);
        (
          json!({"type": "function_score", "query": j, "functions": [{"type": "weight", "weight": 2.0}]}),
          format!("(QWrap {c})"),
        )
      }
      3 => {
        cx.bump("script_score");
        let (j, c) = gen_query(rng, cx, depth - 1);
        (json!({"type": "script_score", "query": j, "script": "_score + 1"}), format!("(QWrap {c})"))
      }
      _ => {
        cx.bump("bool");
        let mut lists: Vec<(Vec<Value>, Vec<String>)> = Vec::new();
        // must, should, must_not
        for (num, den, maxn) in [(1u64, 2u64, 2u64), (2, 3, 3), (1, 3, 2)] {
          let n = if rng.chance(num, den) { 1 + rng.below(maxn) } else { 0 };
          let parts: Vec<(Value, String)> = (0..n).map(|_| gen_query(rng, cx, depth - 1)).collect();
          lists.push((parts.iter().map(|p| p.0.clone()).collect(), parts.iter().map(|p| p.1.clone()).collect()));
        }
        let nf = if rng.chance(1, 4) { 1 + rng.below(2) } else { 0 };
        let fparts: Vec<(Value, String)> = (0..nf).map(|_| gen_filter(rng, cx, 1)).collect();
        let fj: Vec<Value> = fparts.iter().map(|p| p.0.clone()).collect();
        let fc: Vec<String> = fparts.iter().map(|p| p.1.clone()).collect();
        let msm = if rng.chance(1, 5) { Some(rng.below(3)) } else { None };
        if !lists[0].0.is_empty() || nf > 0 {
          if !lists[1].0.is_empty() && msm.is_none() {
            cx.bump("bool_optional_should");
          }
        }
        let mut j = json!({"type": "bool", "must": lists[0].0, "should": lists[1].0, "must_not": lists[2].0, "filter": fj});
        if let Some(m) = msm {
          j["minimum_should_match"] = json!(m);
        }
        (
          j,
          format!(
            "(QBool {} {} {} {} {})",
            coq::list(&lists[0].1),
            coq::list(&lists[1].1),
            coq::list(&lists[2].1),
            coq::list(&fc),
            coq::opt(msm.map(|m| m.to_string()))
          ),
        )
      }
    }
  }
}

struct SrcDoc {
  id: u64,
  json: Value,
}

/// Adds `boost` (0, 0.5 or 3) to some of the query nodes that take one; returns how many.
fn add_boosts(rng: &mut Rng, q: &mut Value) -> usize {
  let mut n = 0;
  if let Some(o) = q.as_object_mut() {
    let boostable = matches!(
      o.get("type").and_then(|t| t.as_str()),
      Some("term" | "prefix" | "wildcard" | "regex" | "phrase" | "query_string" | "multi_match" | "bool" | "dis_max" | "match_all")
    );
    if boostable && !o.contains_key("boost") && rng.chance(1, 2) {
      o.insert("boost".into(), json!(*rng.pick(&[0.0f32, 0.0, 0.5, 3.0][..])));
      n += 1;
    }
    for k in ["must", "should", "must_not", "queries", "query"] {
      if let Some(v) = o.get_mut(k) {
        match v {
          Value::Array(a) => {
            for x in a.iter_mut() {
              n += add_boosts(rng, x);
            }
          }
          Value::Object(_) => n += add_boosts(rng, v),
          _ => {}
        }
      }
    }
  }
  n
}

fn gen_text_value(rng: &mut Rng) -> String {
  match rng.below(12) {
    0 => String::new(),
    1 => "the of and".to_string(),
    _ => {
      let n = 1 + rng.below(7);
      let seps = [" ", " ", " ", ", ", " - ", "  "];
      let mut s = String::new();
      for i in 0..n {
        if i > 0 {
          s.push_str(*rng.pick(&seps));
        }
        s.push_str(*rng.pick(WORDS));
      }
      s
    }
  }
}

fn main() {
  let args = parse_args();
  let mut rng = Rng::new(args.seed);
  let progress = args.out.join("progress.txt");
  let per_corpus = 60usize;
  let n_corpora = (args.n / per_corpus).max(1);
  let mut files: Vec<String> = Vec::new();
  let mut n_cases = 0usize;
  let mut meta: Vec<Value> = Vec::new();
  let mut dist: BTreeMap<String, u64> = BTreeMap::new();
  let mut kinds_total: BTreeMap<String, u64> = BTreeMap::new();
  let analyzers_all = ["default", "whitespace", "unicode", "ws_lc", "en", "uni_syn", "ws_stop"];

  for ci in 0..n_corpora {
    // ---------------------------------------------------------------- schema
    let n_text = 1 + rng.below(3) as usize;
    let n_kw = rng.below(3) as usize;
    let mut text_fields = Vec::new();
    let mut tf_json = Vec::new();
    for i in 0..n_text {
      let name = format!("t{i}");
      let an = *rng.pick(&analyzers_all);
      let mut f = json!({"name": name, "analyzer": an, "stored": true, "indexed": true});
      if an == "uni_syn" && rng.chance(1, 3) {
        f["search_analyzer"] = json!("unicode");
      }
      *dist.entry(format!("analyzer_{an}")).or_insert(0) += 1;
      tf_json.push(f);
      text_fields.push(name);
    }
    let kw_fields: Vec<String> = (0..n_kw).map(|i| format!("k{i}")).collect();
    let mut kf_json: Vec<Value> =
      kw_fields.iter().map(|n| json!({"name": n, "stored": true, "indexed": true, "fast": true})).collect();
    kf_json.push(json!({"name": "uid", "stored": true, "indexed": true, "fast": true}));
    let schema: Schema = serde_json::from_value(json!({
      "doc_id_field": "_id",
      "analyzers": [
        {"name": "whitespace", "tokenizer": "whitespace", "filters": []},
        {"name": "unicode", "tokenizer": "unicode", "filters": []},
        {"name": "ws_lc", "tokenizer": "whitespace", "filters": ["lowercase"]},
        {"name": "en", "tokenizer": "default", "filters": [{"stopwords": "en"}, {"stemmer": "english"}]},
        {"name": "uni_syn", "tokenizer": "unicode", "filters": [{"synonyms": [
            {"from": ["quick"], "to": ["fast"]}, {"from": ["big", "cat"], "to": ["lion"]}]}]},
        {"name": "ws_stop", "tokenizer": "whitespace", "filters": [{"stopwords": ["the", "of"]}]}
      ],
      "text_fields": tf_json,
      "keyword_fields": kf_json,
      "numeric_fields": [{"name": "pop", "i64": true, "fast": true, "stored": true}],
      "nested_fields": [],
      "vector_fields": []
    }))
    .expect("schema");
    let an = schema.build_analyzers().expect("analyzers");
    let fields: Vec<FieldInfo> = text_fields
      .iter()
      .map(|n| FieldInfo { name: n.clone(), text: true })
      .chain(kw_fields.iter().map(|n| FieldInfo { name: n.clone(), text: false }))
      .collect();

    // ---------------------------------------------------------------- corpus history
    let dir = slv::fixtures::scratch();
    let index = searchlite_core::Index::create(dir.path(), schema.clone(), slv::fixtures::opts(dir.path(), StorageType::Filesystem))
      .expect("create index");
    let n_docs = 5 + rng.below(56) as usize;
    let n_commits = 1 + rng.below(4) as usize;
    let mut versions: HashMap<String, SrcDoc> = HashMap::new(); // uid -> source
    let mut next_uid = 0u64;
    let mut ids_added: Vec<u64> = Vec::new();
    let mut committed: Vec<u64> = Vec::new();
    let mut n_deleted = 0u64;
    let mut n_upserts = 0u64;
    let mut multi_valued = 0u64;
    {
      let mut w = index.writer().expect("writer");
      let mut next_id = 0u64;
      for c in 0..n_commits {
        let share = if c + 1 == n_commits { n_docs.saturating_sub(next_id as usize) } else { n_docs / n_commits };
        for _ in 0..share.max(1) {
          // mostly new ids, sometimes an upsert of an earlier id
          let id = if !committed.is_empty() && rng.chance(1, 8) {
            n_upserts += 1;
            *rng.pick(&committed)
          } else {
            next_id += 1;
            next_id
          };
          let uid = format!("u{next_uid}");
          next_uid += 1;
          let mut d = json!({"_id": format!("d{id}"), "uid": uid, "pop": rng.below(100)});
          for f in fields.iter() {
            if f.text {
              let nv = match rng.below(6) {
                0 => 0,
                1 | 2 => 2 + rng.below(2),
                _ => 1,
              };
              if nv == 1 {
                d[&f.name] = json!(gen_text_value(&mut rng));
              } else if nv > 1 {
                multi_valued += 1;
                d[&f.name] = json!((0..nv).map(|_| gen_text_value(&mut rng)).collect::<Vec<_>>());
              }
            } else {
              match rng.below(5) {
                0 => {}
                1 => {
                  d[&f.name] = json!([rng.pick(KW_VALUES).to_string(), rng.pick(KW_VALUES).to_string()]);
                }
                _ => {
                  d[&f.name] = json!(rng.pick(KW_VALUES).to_string());
                }
              }
            }
          }
          std::fs::write(&progress, format!("corpus {ci} add {d}\n")).ok();
          w.add_document(&slv::fixtures::doc(d.clone())).expect("add");
          if !ids_added.contains(&id) {
            ids_added.push(id);
          }
          versions.insert(uid, SrcDoc { id, json: d });
        }
        // deletions of earlier documents
        if rng.chance(2, 3) && !committed.is_empty() {
          for _ in 0..rng.below(2 + committed.len() as u64 / 4) {
            let id = *rng.pick(&committed);
            w.delete_document(&format!("d{id}")).expect("delete");
            n_deleted += 1;
          }
        }
        w.commit().expect("commit");
        committed = ids_added.clone();
      }
    }
    let reader = index.reader().expect("reader");

    // ---------------------------------------------------------------- model corpus from the real layout
    let mut cx = Ctx {
      schema: &schema,
      an: &an,
      text_fields: text_fields.clone(),
      kw_fields: kw_fields.clone(),
      dict: BTreeMap::new(),
      fuzzy: None,
      intern: Intern::new(),
      over_cap: false,
      kinds: BTreeMap::new(),
      src_words: Vec::new(),
      src_seqs: Vec::new(),
    };
    let mut seg_lits = Vec::new();
    let mut live_total = 0usize;
    let mut all_total = 0usize;
    for seg in reader.segments.iter() {
      let mut doc_lits = Vec::new();
      for ord in 0..seg.meta.doc_count {
        let stored = seg.get_doc(ord).expect("stored doc");
        let uid = stored.get("uid").and_then(|v| v.as_str()).expect("uid stored").to_string();
        let src = versions.get(&uid).expect("known uid");
        assert_eq!(seg.doc_id(ord), Some(format!("d{}", src.id).as_str()));
        let live = !seg.is_deleted(ord);
        all_total += 1;
        if live {
          live_total += 1;
        }
        let mut text_lits = Vec::new();
        for f in text_fields.iter() {
          let values: Vec<String> = match src.json.get(f) {
            None => vec![],
            Some(Value::String(s)) => vec![s.clone()],
            Some(Value::Array(a)) => a.iter().map(|v| v.as_str().unwrap().to_string()).collect(),
            _ => panic!("unexpected text value"),
          };
          if values.is_empty() {
            continue;
          }
          let ia = an.index_analyzer(f).expect("index analyzer");
          let mut val_lits = Vec::new();
          if live {
            let seq: Vec<String> = values.iter().flat_map(|v| v.split_whitespace().map(|w| w.to_string())).collect();
            if seq.len() >= 2 {
              cx.src_seqs.push((f.clone(), seq));
            }
          }
          for v in values.iter() {
            if live {
              for w in v.split_whitespace() {
                cx.src_words.push((f.clone(), w.to_string()));
              }
            }
            let toks = ia.analyze(v);
            let mut tl = Vec::new();
            for t in toks {
              cx.dict.entry(f.clone()).or_default().insert(t.text.clone());
              let k = cx.key(f, &t.text);
              tl.push(format!("({k}, {})", t.position));
            }
            val_lits.push(coq::list(&tl));
          }
          text_lits.push(coq::list(&val_lits));
        }
        let mut kws: Vec<u64> = Vec::new();
        let mut fast: Vec<u64> = Vec::new();
        for f in kw_fields.iter().cloned().chain(std::iter::once("uid".to_string())) {
          let values: Vec<String> = match src.json.get(&f) {
            None => vec![],
            Some(Value::String(s)) => vec![s.clone()],
            Some(Value::Array(a)) => a.iter().map(|v| v.as_str().unwrap().to_string()).collect(),
            _ => panic!("unexpected keyword value"),
          };
          for v in values {
            let lower = v.to_ascii_lowercase();
            cx.dict.entry(f.clone()).or_default().insert(lower.clone());
            let k = cx.key(&f, &lower);
            if !kws.contains(&k) {
              kws.push(k);
            }
            let fv = cx.intern.id(&format!("F{}:{}", f, v.to_lowercase()));
            if !fast.contains(&fv) {
              fast.push(fv);
            }
          }
        }
        doc_lits.push(format!(
          "{{| d_id := {}; d_live := {}; d_text := {}; d_kw := {}; d_fast := {} |}}",
          src.id,
          coq::b(live),
          coq::list(&text_lits),
          nl(&kws),
          nl(&fast)
        ));
      }
      seg_lits.push(coq::list(&doc_lits));
    }
    let header = format!(
      "From SL Require Import C07.Model.\nOpen Scope N_scope.\nDefinition corpus_{ci} : list (list doc) := {}.\n",
      coq::list(&seg_lits)
    );
    let mut cases: Vec<String> = Vec::new();
    *dist.entry("corpora".into()).or_insert(0) += 1;
    *dist.entry(format!("segments_{}", reader.segments.len())).or_insert(0) += 1;
    *dist.entry("docs_in_segments".into()).or_insert(0) += all_total as u64;
    *dist.entry("tombstoned_docs".into()).or_insert(0) += (all_total - live_total) as u64;
    *dist.entry("delete_calls".into()).or_insert(0) += n_deleted;
    *dist.entry("upserts".into()).or_insert(0) += n_upserts;
    *dist.entry("multi_valued_text_fields".into()).or_insert(0) += multi_valued;

    // ---------------------------------------------------------------- queries
    let mut qi = 0;
    let mut attempts = 0;
    while qi < per_corpus && attempts < per_corpus * 4 {
      attempts += 1;
      cx.over_cap = false;
      cx.fuzzy = if rng.chance(1, 4) {
        Some((1 + rng.below(2) as u8, rng.below(3) as usize, 40 + rng.below(20) as usize, 2 + rng.below(3) as usize))
      } else {
        None
      };
      let word_probe = rng.chance(1, 8) && !cx.src_words.is_empty();
      let (qj, qc) = if word_probe {
        // "every indexed word of a document finds that document"
        cx.bump("indexed_word_probe");
        let (f, w) = cx.src_words[rng.below(cx.src_words.len() as u64) as usize].clone();
        let (ex, fz) = cx.term_keys(&[f.clone()], &w);
        (json!({"type": "term", "field": f, "value": w}), format!("(QTerm {} {})", nl(&ex), nl(&fz)))
      } else {
        let depth = rng.below(5) as u32;
        gen_query(&mut rng, &mut cx, depth)
      };
      if cx.over_cap {
        *dist.entry("skipped_near_expansion_cap".into()).or_insert(0) += 1;
        continue;
      }
      // boosts never change which documents match (a boost of 0 "disables the scoring
      // contribution while still matching"): decorate a third of the queries with them
      let mut qj = qj;
      if rng.chance(1, 3) {
        let n = add_boosts(&mut rng, &mut qj);
        if n > 0 {
          cx.bump("query_with_boosts");
        }
      }
      let mut obs: Vec<Vec<u64>> = Vec::new();
      let mut skipped = false;
      let mut errors: Vec<String> = Vec::new();
      for mode in ["bm25", "wand", "bmw", "sorted"] {
        let mut rj = json!({
          "query": qj, "limit": all_total + 10, "return_stored": false,
          "execution": if mode == "sorted" { "wand" } else { mode },
        });
        if mode == "sorted" {
          rj["sort"] = json!([{"field": "pop", "order": "asc"}]);
        }
        if let Some((me, pl, mx, ml)) = cx.fuzzy {
          rj["fuzzy"] = json!({"max_edits": me, "prefix_length": pl, "max_expansions": mx, "min_length": ml});
        }
        std::fs::write(&progress, format!("corpus {ci} search {rj}\n")).ok();
        let req: SearchRequest = serde_json::from_value(rj).expect("request json");
        let res = std::panic::catch_unwind(std::panic::AssertUnwindSafe(|| reader.search(&req)));
        match res {
          Ok(Ok(r)) => {
            let mut ids: Vec<u64> = r.hits.iter().map(|h| h.doc_id[1..].parse::<u64>().expect("id")).collect();
            ids.sort();
            obs.push(ids);
          }
          Ok(Err(e)) => {
            errors.push(format!("{mode}: {e}"));
            obs.push(vec![ERR_ID]);
          }
          Err(p) => {
            let msg = p.downcast_ref::<String>().cloned().or_else(|| p.downcast_ref::<&str>().map(|s| s.to_string())).unwrap_or_default();
            if msg.contains("Inconsistent leaf") {
              // debug_assert on one term key under two scoring leaves: property C16's subject
              skipped = true;
              break;
            }
            errors.push(format!("{mode}: panic {msg}"));
            obs.push(vec![ERR_ID]);
          }
        }
      }
      if skipped {
        *dist.entry("skipped_duplicate_scored_key_debug_assert".into()).or_insert(0) += 1;
        continue;
      }
      let n_hits = obs[0].len();
      let nt = errors.is_empty() && n_hits > 0 && n_hits < live_total;
      if cx.fuzzy.is_some() {
        *dist.entry("requests_with_fuzzy".into()).or_insert(0) += 1;
      }
      *dist.entry(if n_hits == 0 { "result_empty" } else if n_hits >= live_total { "result_all" } else { "result_proper_subset" }.to_string()).or_insert(0) += 1;
      let obs_lit = coq::list(&obs.iter().map(|o| nl(o)).collect::<Vec<_>>());
      cases.push(format!("(corpus_{ci}, {qc}, {obs_lit})"));
      meta.push(json!({
        "corpus": ci, "schema_text_fields": tf_json_names(&schema), "query": qj,
        "fuzzy": cx.fuzzy.map(|f| json!({"max_edits": f.0, "prefix_length": f.1, "max_expansions": f.2, "min_length": f.3})),
        "hits": obs[0], "live_docs": live_total, "segments": reader.segments.len(), "errors": errors,
        "lowered": qc, "nt": nt,
      }));
      qi += 1;
    }
    for (k, v) in cx.kinds.iter() {
      *kinds_total.entry(k.clone()).or_insert(0) += v;
    }
    // one shard per corpus (the corpus literal is parsed once), indices continue across shards
    let name = format!("cases_{ci}.v");
    let mut body = String::from("From Coq Require Import List NArith ZArith Bool.\nImport ListNotations.\nFrom SL Require Import Base.Tie.\n");
    body.push_str(&header);
    body.push_str("Definition cases : list (list (list doc) * query * list (list N)) := [\n");
    body.push_str(&cases.join(";\n"));
    body.push_str(&format!("\n].\nEval vm_compute in (report_from check_case {n_cases} cases).\n"));
    std::fs::write(args.out.join(&name), body).expect("write cases");
    files.push(name);
    n_cases += cases.len();
  }
  std::fs::remove_file(&progress).ok();
  let mut d = serde_json::Map::new();
  for (k, v) in dist {
    d.insert(k, json!(v));
  }
  d.insert("node_kinds".into(), json!(kinds_total));
  write_json(&args.out, "cases.json", &json!({"files": files, "cases": meta, "distribution": d}));
}

fn tf_json_names(schema: &Schema) -> Vec<String> {
  schema
    .text_fields
    .iter()
    .map(|f| format!("{}:{}{}", f.name, f.analyzer, f.search_analyzer.as_ref().map(|s| format!("/{s}")).unwrap_or_default()))
    .collect()
}
