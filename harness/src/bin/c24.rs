//! C24 engine: fuzzed / mutated requests (paths, methods, content types, bodies, declared and
//! streamed oversize, stalled bodies, non-HTTP bytes, requests that make the core return errors
//! or panic) against a live searchlite-http server; after every request /healthz must answer.
//! Writes (request class, observed answer) cases for C24/Model.v.
//!
//! The class of a request is computed from the bytes actually sent by an oracle that mirrors the
//! handlers' own parsing (serde on the same types) and runs the core call through the library
//! (schema validation, IndexBuilder::create in a scratch directory, IndexReader::search).
use serde_json::{json, Value};
use slv::http::{self, NoReply, Reply, Server};
use slv::{parse_args, write_cases, write_json, Rng};
use std::collections::{BTreeMap, BTreeSet};
use std::path::Path;
use std::time::Duration;

use searchlite_core::api::builder::IndexBuilder;
use searchlite_core::api::types::{Document, IndexOptions, SearchRequest, StorageType};
use searchlite_core::{Index, Manifest, Schema};

const MAX_BODY: usize = 4096;
const TIMEOUT_SECS: u64 = 3;
const MARKER: &str = "__slv_panic__";

const ROUTES: [(&str, &str); 11] = [
  ("/healthz", "GET"),
  ("/init", "POST"),
  ("/add", "POST"),
  ("/bulk", "POST"),
  ("/delete", "POST"),
  ("/commit", "POST"),
  ("/refresh", "POST"),
  ("/compact", "POST"),
  ("/search", "POST"),
  ("/inspect", "GET"),
  ("/stats", "GET"),
];
const METHODS: [(&str, &str); 7] = [
  ("GET", "MGet"),
  ("POST", "MPost"),
  ("HEAD", "MHead"),
  ("PUT", "MPut"),
  ("DELETE", "MDelete"),
  ("PATCH", "MPatch"),
  ("OPTIONS", "MOptions"),
];

fn opts(path: &Path) -> IndexOptions {
  IndexOptions {
    path: path.to_path_buf(),
    create_if_missing: false,
    enable_positions: true,
    bm25_k1: 0.9,
    bm25_b: 0.4,
    storage: StorageType::Filesystem,
    vector_defaults: None,
  }
}

#[derive(Clone, Copy, PartialEq, Debug)]
enum BClass {
  None,
  Ok,
  Unparsable,
  BadUtf8,
  EmptyList,
  BadElem,
  NoDocs,
  ZeroLimit,
}
impl BClass {
  fn coq(self) -> &'static str {
    match self {
      BClass::None => "BNone",
      BClass::Ok => "BOk",
      BClass::Unparsable => "BUnparsable",
      BClass::BadUtf8 => "BBadUtf8",
      BClass::EmptyList => "BEmptyList",
      BClass::BadElem => "BBadElem",
      BClass::NoDocs => "BNoDocs",
      BClass::ZeroLimit => "BZeroLimit",
    }
  }
}

#[derive(Clone, Copy, PartialEq, Debug)]
enum Core {
  Ok,
  Err,
  Panic,
}
impl Core {
  fn coq(self) -> &'static str {
    match self {
      Core::Ok => "CoreOk",
      Core::Err => "CoreErr",
      Core::Panic => "CorePanic",
    }
  }
}

#[derive(Clone, Copy, PartialEq, Debug)]
enum Size {
  Ok,
  Declared,
  Streamed,
  Slow,
}
impl Size {
  fn coq(self) -> &'static str {
    match self {
      Size::Ok => "SzOk",
      Size::Declared => "SzDeclared",
      Size::Streamed => "SzStreamed",
      Size::Slow => "SzSlow",
    }
  }
}

fn is_json_ct(ct: Option<&str>) -> bool {
  // mirrors axum's json_content_type: application/json or application/*+json, parameters ignored
  let Some(ct) = ct else { return false };
  let main = ct.split(';').next().unwrap_or("").trim().to_ascii_lowercase();
  let Some((ty, sub)) = main.split_once('/') else { return false };
  ty == "application" && (sub == "json" || sub.ends_with("+json"))
}

#[derive(serde::Deserialize)]
struct BulkMirror {
  docs: Vec<Value>,
}
#[derive(serde::Deserialize)]
struct DeleteMirror {
  ids: Vec<String>,
}

/// axum 0.7's `Json` extractor deserializes one value from the front of the body and does not
/// look at what follows it (no `Deserializer::end`): trailing bytes are ignored.
fn json_prefix<T: serde::de::DeserializeOwned>(body: &[u8]) -> Result<T, ()> {
  let mut de = serde_json::Deserializer::from_slice(body);
  T::deserialize(&mut de).map_err(|_| ())
}

fn to_doc(v: &Value) -> Option<Document> {
  let o = v.as_object()?;
  Some(Document { fields: o.iter().map(|(k, v)| (k.clone(), v.clone())).collect::<BTreeMap<_, _>>() })
}

/// The add_document loop through the library: validation first, then the injected panic.
fn docs_core(schema: Option<&Schema>, docs: &[Document]) -> Core {
  let Some(schema) = schema else { return Core::Ok };
  for d in docs {
    if schema.validate_document(d).is_err() {
      return Core::Err;
    }
    let id = d.fields.get(schema.doc_id_field()).and_then(|v| v.as_str()).unwrap_or("");
    if id.contains(MARKER) {
      return Core::Panic;
    }
  }
  Core::Ok
}

fn id_ok(id: &str) -> bool {
  let t = id.trim();
  !t.is_empty() && t.len() == id.len() && !id.chars().any(|c| c.is_control())
}

struct Oracle<'a> {
  index: &'a Path,
}

impl<'a> Oracle<'a> {
  fn idx(&self) -> bool {
    Manifest::manifest_path(self.index).exists()
  }
  fn schema(&self) -> Option<Schema> {
    if !self.idx() {
      return None;
    }
    Index::open(opts(self.index)).ok().map(|i| i.manifest().schema.clone())
  }

  /// (body class, core outcome) of `body` sent with content type `ct` to `path`.
  fn classify(&self, path: &str, ct: Option<&str>, body: &[u8]) -> (BClass, Core) {
    match path {
      "/init" => {
        if !is_json_ct(ct) {
          return (BClass::Unparsable, Core::Ok);
        }
        match json_prefix::<Schema>(body) {
          Err(_) => (BClass::Unparsable, Core::Ok),
          Ok(schema) => {
            if self.idx() {
              return (BClass::Ok, Core::Ok); // 409 before the core is reached
            }
            let dir = slv::fixtures::scratch();
            let p = dir.path().join("i");
            let mut o = opts(&p);
            o.create_if_missing = true;
            let r = std::panic::catch_unwind(std::panic::AssertUnwindSafe(|| IndexBuilder::create(&p, schema, o)));
            match r {
              Ok(Ok(_)) => (BClass::Ok, Core::Ok),
              Ok(Err(_)) => (BClass::Ok, Core::Err),
              Err(_) => (BClass::Ok, Core::Panic),
            }
          }
        }
      }
      "/add" => {
        // the handler reads line by line (read_line): a line that is not valid UTF-8 fails the
        // read when it is reached, after earlier lines have been parsed and checked
        let mut docs = Vec::new();
        for raw in body.split_inclusive(|b| *b == b'\n') {
          let Ok(line) = std::str::from_utf8(raw) else { return (BClass::BadUtf8, Core::Ok) };
          let t = line.trim();
          if t.is_empty() {
            continue;
          }
          match serde_json::from_str::<Value>(t) {
            Err(_) => return (BClass::Unparsable, Core::Ok),
            Ok(v) => match to_doc(&v) {
              None => return (BClass::BadElem, Core::Ok),
              Some(d) => docs.push(d),
            },
          }
        }
        if docs.is_empty() {
          return (BClass::NoDocs, Core::Ok);
        }
        (BClass::Ok, docs_core(self.schema().as_ref(), &docs))
      }
      "/bulk" => {
        if !is_json_ct(ct) {
          return (BClass::Unparsable, Core::Ok);
        }
        match json_prefix::<BulkMirror>(body) {
          Err(_) => (BClass::Unparsable, Core::Ok),
          Ok(b) => {
            if b.docs.is_empty() {
              return (BClass::EmptyList, Core::Ok);
            }
            let mut docs = Vec::new();
            for v in &b.docs {
              match to_doc(v) {
                None => return (BClass::BadElem, Core::Ok),
                Some(d) => docs.push(d),
              }
            }
            (BClass::Ok, docs_core(self.schema().as_ref(), &docs))
          }
        }
      }
      "/delete" => {
        if !is_json_ct(ct) {
          return (BClass::Unparsable, Core::Ok);
        }
        match json_prefix::<DeleteMirror>(body) {
          Err(_) => (BClass::Unparsable, Core::Ok),
          Ok(d) => {
            if d.ids.is_empty() {
              return (BClass::EmptyList, Core::Ok);
            }
            if !d.ids.iter().all(|i| id_ok(i)) {
              return (BClass::BadElem, Core::Ok);
            }
            let core = if self.idx() && d.ids.iter().any(|i| i.contains(MARKER)) { Core::Panic } else { Core::Ok };
            (BClass::Ok, core)
          }
        }
      }
      "/search" => {
        if !is_json_ct(ct) {
          return (BClass::Unparsable, Core::Ok);
        }
        match json_prefix::<SearchRequest>(body) {
          Err(_) => (BClass::Unparsable, Core::Ok),
          Ok(req) => {
            if req.limit == 0 {
              return (BClass::ZeroLimit, Core::Ok);
            }
            if !self.idx() {
              return (BClass::Ok, Core::Ok);
            }
            let index = self.index.to_path_buf();
            let r = std::panic::catch_unwind(std::panic::AssertUnwindSafe(move || {
              let idx = Index::open(opts(&index))?;
              let reader = idx.reader()?;
              reader.search(&req)
            }));
            match r {
              Ok(Ok(_)) => (BClass::Ok, Core::Ok),
              Ok(Err(_)) => (BClass::Ok, Core::Err),
              Err(_) => (BClass::Ok, Core::Panic),
            }
          }
        }
      }
      _ => (BClass::None, Core::Ok),
    }
  }
}

// ------------------------------------------------------------------------------------ generators

fn schema_variants(rng: &mut Rng) -> Value {
  match rng.below(10) {
    0..=5 => http::schema_json(),
    6 => {
      let mut s = http::schema_json();
      s["keyword_fields"].as_array_mut().unwrap().push(json!({"name":"extra","stored":true,"indexed":true,"fast":false}));
      s
    }
    7 => {
      // analyzer that does not exist
      let mut s = http::schema_json();
      s["text_fields"][0]["analyzer"] = json!("no_such_analyzer");
      s
    }
    8 => {
      let mut s = http::schema_json();
      s["doc_id_field"] = json!("");
      s
    }
    _ => {
      // the same field name twice
      let mut s = http::schema_json();
      s["keyword_fields"].as_array_mut().unwrap().push(json!({"name":"body","stored":true,"indexed":true,"fast":true}));
      s
    }
  }
}

/// A long string of multi-byte characters behind a short ASCII pad of random length: error
/// reasons that quote request content and are cut or capped at some byte length must respect
/// character boundaries wherever the cut falls.
fn long_weird(rng: &mut Rng) -> String {
  let mut s = String::new();
  for _ in 0..rng.below(8) {
    s.push(*rng.pick(&['a', 'b', 'x', '_'][..]));
  }
  let target = *rng.pick(&[90usize, 140, 270, 300, 520, 530, 700, 1030, 1100][..]) + rng.below(24) as usize;
  let alphabet: &[char] = match rng.below(3) {
    0 => &['é', 'ü', 'ß', 'ñ'],
    1 => &['日', '本', '語', '字'],
    _ => &['é', '日', '😀', 'x', 'ü'],
  };
  while s.len() < target {
    s.push(*rng.pick(alphabet));
  }
  s
}

fn doc_variant(rng: &mut Rng, k: &mut u64) -> Value {
  *k += 1;
  let i = rng.below(6);
  match rng.below(22) {
    20 => {
      // unknown field with a long non-ASCII name (the core's error quotes it)
      let mut d = json!({"_id": format!("d{i}"), "body": "x"});
      d[long_weird(rng)] = json!(1);
      d
    }
    21 => json!({"_id": format!("d{i}"), "n": long_weird(rng)}),
    0 => json!({"body": "no id"}),
    1 => json!({"_id": "", "body": "x"}),
    2 => json!({"_id": format!("d{i}"), "n": "x"}),
    3 => json!({"_id": format!("d{i}"), "body": 5}),
    4 => json!({"_id": format!("d{i}"), "n": 1.5}),
    5 | 6 => json!({"_id": format!("{MARKER}{i}"), "body": "boom"}),
    _ => json!({"_id": format!("d{i}"), "body": format!("w{k} common rust"), "tag": "t", "n": *k}),
  }
}

fn gen_body(rng: &mut Rng, path: &str, k: &mut u64) -> Vec<u8> {
  let s: String = match path {
    "/init" => match rng.below(10) {
      0 => "{}".into(),
      1 => "[]".into(),
      2 => "".into(),
      _ => schema_variants(rng).to_string(),
    },
    "/add" => {
      let n = rng.below(5);
      let mut out = String::new();
      for _ in 0..n {
        match rng.below(14) {
          0 => out.push_str("   "),
          1 => out.push_str("{\"_id\": \"d1\""),
          3 | 4 | 5 => {
            // a long malformed line with multi-byte characters at a random byte offset (error
            // messages that quote or cut the offending line must respect char boundaries)
            let pad = if rng.chance(1, 2) { 20 + rng.below(120) as usize } else { 8 * (2 + rng.below(8) as usize) - rng.below(4) as usize };
            let mut line = String::from("{\"_id\": \"");
            while line.len() < pad {
              line.push(*rng.pick(&['a', 'b', ' ', 'x'][..]));
            }
            for _ in 0..(1 + rng.below(6)) {
              line.push(*rng.pick(&['é', 'ß', '日', '本', '😀', 'ü'][..]));
            }
            line.push_str(" unterminated");
            out.push_str(&line);
          }
          2 => out.push_str(*rng.pick(&["[1,2]", "\"str\"", "42", "null"][..])),
          _ => out.push_str(&doc_variant(rng, k).to_string()),
        }
        out.push_str(if rng.chance(1, 6) { "\r\n" } else { "\n" });
      }
      out
    }
    "/bulk" => match rng.below(12) {
      0 => "{}".into(),
      1 => json!({"docs": []}).to_string(),
      2 => json!({"docs": 5}).to_string(),
      3 => json!({"docs": [doc_variant(rng, k), 7]}).to_string(),
      4 => "".into(),
      _ => {
        let n = 1 + rng.below(4);
        let docs: Vec<Value> = (0..n).map(|_| doc_variant(rng, k)).collect();
        json!({"docs": docs, "ignored": true}).to_string()
      }
    },
    "/delete" => match rng.below(12) {
      0 => "{}".into(),
      1 => json!({"ids": []}).to_string(),
      2 => json!({"ids": [1, 2]}).to_string(),
      3 => json!({"ids": ["d1", rng.pick(&["", "  ", " d1", "d\u{0001}1"][..])]}).to_string(),
      4 => json!({"ids": [format!("{MARKER}")]}).to_string(),
      5 => json!({"ids": ["d0", format!("x{MARKER}")]}).to_string(),
      _ => {
        let n = 1 + rng.below(3);
        let ids: Vec<String> = (0..n).map(|_| format!("d{}", rng.below(7))).collect();
        json!({"ids": ids}).to_string()
      }
    },
    "/search" => match rng.below(26) {
      0 => json!({"query": "rust", "limit": 0, "return_stored": true}).to_string(),
      1 => json!({"query": "rust", "return_stored": true}).to_string(),
      2 => json!({"query": "rust", "limit": "x", "return_stored": true}).to_string(),
      3 => json!({"query": "rust", "limit": 3}).to_string(),
      4 => json!({"query": MARKER, "limit": 3, "return_stored": false}).to_string(),
      5 => json!({"query": format!("rust {MARKER}"), "limit": 3, "return_stored": true}).to_string(),
      6 => json!({"query": "rust", "limit": 3, "return_stored": true, "cursor": "zz"}).to_string(),
      7 => json!({"query": "rust", "limit": 3, "return_stored": true, "sort": [{"field": "nope"}]}).to_string(),
      8 => json!({"query": "rust", "limit": 3, "return_stored": true, "return_hits": false, "cursor": "00"}).to_string(),
      9 => json!({"query": "rust", "limit": 3, "return_stored": true, "collapse": {"field": "body"}}).to_string(),
      10 => json!({"query": {"type": "match_all"}, "limit": 5, "return_stored": true, "sort": [{"field": "n", "order": "desc"}]}).to_string(),
      11 => json!({"query": {"type": "term", "field": "tag", "value": "t"}, "limit": 5, "return_stored": false,
                   "aggs": {"c": {"type": "terms", "field": "tag"}}}).to_string(),
      12 => json!({"query": {"type": "nonsense"}, "limit": 5, "return_stored": true}).to_string(),
      13 => json!({"query": "body:(", "limit": 5, "return_stored": true}).to_string(),
      14 => json!({"query": "rust", "limit": 5, "return_stored": true, "aggs": {"c": {"type": "terms", "field": "body"}}}).to_string(),
      15 => json!({"query": "rust", "limit": 5, "return_stored": true, "fields": ["nope"]}).to_string(),
      // a repeated term trips a debug assertion of the core in builds with debug assertions: a real core panic
      16 => json!({"query": "common rust common", "limit": 5, "return_stored": true}).to_string(),
      17 => json!({"query": {"type": long_weird(rng)}, "limit": 5, "return_stored": true}).to_string(),
      18 => json!({"query": "rust", "limit": 3, "return_stored": true, "sort": [{"field": long_weird(rng)}]}).to_string(),
      19 => json!({"query": {"type": "term", "field": long_weird(rng), "value": "t"}, "limit": 3, "return_stored": true}).to_string(),
      _ => json!({"query": rng.pick(&["rust", "common", "w3", "zzz"][..]), "limit": 1 + rng.below(5), "return_stored": rng.chance(1, 2)}).to_string(),
    },
    _ => match rng.below(4) {
      0 => "{\"x\":1}".into(),
      _ => "".into(),
    },
  };
  s.into_bytes()
}

/// ASCII-only mutations (so that /add bodies stay UTF-8, see notes).
fn mutate(rng: &mut Rng, body: &mut Vec<u8>) {
  let n = 1 + rng.below(3);
  for _ in 0..n {
    if body.is_empty() {
      body.extend_from_slice(*rng.pick(&[&b"{"[..], &b"x"[..], &b"\n"[..], &b"[]"[..]][..]));
      continue;
    }
    let pos = rng.below(body.len() as u64) as usize;
    match rng.below(6) {
      0 => {
        body.remove(pos);
      }
      1 => body.insert(pos, *rng.pick(&b"{}[]\",:0 \n\\x"[..])),
      2 => body[pos] = *rng.pick(&b"{}[]\",:0 \nx"[..]),
      3 => body.truncate(pos),
      4 => {
        let end = (pos + 1 + rng.below(8) as usize).min(body.len());
        let piece: Vec<u8> = body[pos..end].to_vec();
        for (j, b) in piece.into_iter().enumerate() {
          body.insert(pos + j, b);
        }
      }
      _ => {
        // swap a digit / letter
        if body[pos].is_ascii_digit() {
          body[pos] = b'0' + rng.below(10) as u8;
        } else if body[pos].is_ascii_lowercase() {
          body[pos] = b'a' + rng.below(26) as u8;
        }
      }
    }
  }
}

fn pad_body(path: &str, target: usize, k: &mut u64) -> Vec<u8> {
  // an otherwise valid body, larger than `target` bytes
  let filler = "lorem ipsum ".repeat(40);
  match path {
    "/init" => {
      let mut s = http::schema_json();
      s["keyword_fields"].as_array_mut().unwrap().extend((0..target / 40 + 2).map(|i| json!({"name": format!("extra_field_number_{i}"), "stored": true, "indexed": true, "fast": false})));
      s.to_string().into_bytes()
    }
    "/add" => {
      let mut out = String::new();
      while out.len() <= target {
        *k += 1;
        out.push_str(&json!({"_id": format!("d{}", *k % 6), "body": filler, "n": *k}).to_string());
        out.push('\n');
      }
      out.into_bytes()
    }
    "/bulk" => {
      let mut docs = Vec::new();
      let mut sz = 0;
      while sz <= target {
        *k += 1;
        let d = json!({"_id": format!("d{}", *k % 6), "body": filler, "n": *k});
        sz += d.to_string().len();
        docs.push(d);
      }
      json!({ "docs": docs }).to_string().into_bytes()
    }
    "/delete" => {
      let ids: Vec<String> = (0..target / 8 + 2).map(|i| format!("pad-id-{i}")).collect();
      json!({ "ids": ids }).to_string().into_bytes()
    }
    _ => json!({"query": filler.repeat(target / filler.len() + 1), "limit": 3, "return_stored": true}).to_string().into_bytes(),
  }
}

// ------------------------------------------------------------------------------------ observation

fn doc_shape_ok(path: &str, j: &Value) -> bool {
  let u = |k: &str| j.get(k).map(|v| v.is_u64()).unwrap_or(false);
  let s = |k: &str| j.get(k).map(|v| v.is_string()).unwrap_or(false);
  match path {
    "/healthz" => j == &json!({"status": "ok"}),
    "/init" => j == &json!({"created": true}),
    "/add" | "/bulk" | "/delete" => j.as_object().map(|o| o.len() == 1).unwrap_or(false) && u("queued"),
    "/commit" => j == &json!({"committed": true}),
    "/refresh" => j == &json!({"refreshed": true}),
    "/compact" => j == &json!({"compacted": true}),
    "/search" => u("total_hits_estimate") && j.get("hits").map(|h| h.is_array()).unwrap_or(false),
    "/inspect" => j.get("manifest").map(|m| m.is_object()).unwrap_or(false),
    "/stats" => u("documents") && u("deleted_documents") && u("segments") && s("committed_at") && s("index_uuid") && s("index_path"),
    _ => false,
  }
}

fn route_coq(path: &str) -> String {
  format!("R_{}", path.trim_start_matches('/'))
}

/// (Gallina response literal, status or 0, tag)
fn observe(reply: &Result<Reply, NoReply>, path: Option<&str>, is_head: bool, kinds: &BTreeSet<String>) -> (String, u16, String) {
  let r = match reply {
    Ok(r) => r,
    Err(e) => return ("NoAnswer".into(), 0, format!("no-answer:{e:?}")),
  };
  let shape = if r.body.is_empty() || is_head {
    if r.body.is_empty() { "SBare".to_string() } else { "SOtherBody".to_string() }
  } else {
    match r.json() {
      None => "SOtherBody".to_string(),
      Some(j) => {
        let et = j.pointer("/error/type").and_then(|v| v.as_str());
        let er = j.pointer("/error/reason").and_then(|v| v.as_str());
        let only_error = j.as_object().map(|o| o.len() == 1).unwrap_or(false)
          && j.get("error").and_then(|e| e.as_object()).map(|o| o.len() == 2).unwrap_or(false);
        if let (Some(t), Some(_), true) = (et, er, only_error) {
          if (200..300).contains(&r.status) {
            "SOtherBody".to_string()
          } else if kinds.contains(t) {
            format!("SErr K_{t}")
          } else {
            "SErr K_other".to_string()
          }
        } else if (200..300).contains(&r.status) && path.map(|p| doc_shape_ok(p, &j)).unwrap_or(false) {
          format!("SDoc {}", route_coq(path.unwrap()))
        } else {
          "SOtherBody".to_string()
        }
      }
    }
  };
  (format!("Answer {} ({})", r.status, shape), r.status, shape)
}

fn main() {
  let args = parse_args();
  let mut rng = Rng::new(args.seed);
  let thorough = args.tier == "thorough";
  let kinds: BTreeSet<String> = match args.extra.get("kinds") {
    Some(p) => std::fs::read_to_string(p).expect("kinds file").lines().filter_map(|l| l.split_whitespace().next().map(|s| s.to_string())).collect(),
    None => BTreeSet::new(),
  };
  let rt = http::runtime();
  let progress = args.out.join("progress.txt");
  let mut cases: Vec<String> = Vec::new();
  let mut meta: Vec<Value> = Vec::new();
  let mut dist: BTreeMap<String, u64> = BTreeMap::new();
  let per_session = 70usize;
  let sessions = (args.n + per_session - 1) / per_session;
  let mut slow_budget = if thorough { 24 } else { 3 };
  // the injected panics print through the default hook; keep the log readable
  let default_hook = std::panic::take_hook();
  std::panic::set_hook(Box::new(move |info| {
    let msg = info.payload().downcast_ref::<&str>().map(|s| s.to_string()).or_else(|| info.payload().downcast_ref::<String>().cloned()).unwrap_or_default();
    if !msg.contains("injected core panic") {
      default_hook(info);
    }
  }));
  let mut k = 0u64;
  for session in 0..sessions {
    let dir = slv::fixtures::scratch();
    let index = dir.path().join("idx");
    let max_body = MAX_BODY.to_string();
    let timeout = TIMEOUT_SECS.to_string();
    let srv = Server::start(&rt, &index, &["--max-body-bytes", &max_body, "--request-timeout-secs", &timeout]);
    let oracle = Oracle { index: &index };
    let init_at = rng.below(30) as usize;
    for step in 0..per_session {
      if cases.len() >= args.n {
        break;
      }
      // ---- choose the request
      let forced_init = step == init_at && !oracle.idx();
      let tsel = rng.below(100);
      let (target_coq, path): (String, Option<String>) = if forced_init {
        ("Known R_init".into(), Some("/init".into()))
      } else if tsel < 82 {
        // half of the routed requests go to the five body-reading routes
        let (p, _) = if rng.chance(1, 2) { *rng.pick(&ROUTES[1..5]) } else { *rng.pick(&ROUTES[..]) };
        let p = if p == "/init" && rng.chance(1, 2) { "/search" } else { p };
        (format!("Known {}", route_coq(p)), Some(p.to_string()))
      } else if tsel < 96 {
        let p = rng.pick(&["/", "/nope", "/add/", "/ADD", "/search/x", "/healthz2", "/v1/search", "/init/", "/stats.json"][..]);
        ("UnknownPath".into(), Some(p.to_string()))
      } else {
        ("Garbage".into(), None)
      };
      let known = target_coq.starts_with("Known");
      let route_path: Option<&str> = if known { path.as_deref() } else { None };
      let right_method = route_path.map(|p| ROUTES.iter().find(|r| r.0 == p).unwrap().1);
      let (method, method_coq) = if forced_init {
        ("POST", "MPost")
      } else if let (Some(m), true) = (right_method, rng.chance(78, 100)) {
        *METHODS.iter().find(|x| x.0 == m).unwrap()
      } else {
        *rng.pick(&METHODS[..])
      };
      let reads_body = matches!(route_path, Some("/init" | "/add" | "/bulk" | "/delete" | "/search"));
      let method_ok = known && (right_method == Some(method) || (right_method == Some("GET") && method == "HEAD"));
      // ---- body and content type
      let body_path = route_path.unwrap_or("");
      let mut body: Vec<u8> = if forced_init { http::schema_json().to_string().into_bytes() } else { gen_body(&mut rng, body_path, &mut k) };
      if !forced_init && rng.chance(30, 100) {
        mutate(&mut rng, &mut body);
      }
      let ct: Option<&str> = if forced_init || rng.chance(85, 100) {
        Some(if body_path == "/add" { "application/x-ndjson" } else { "application/json" })
      } else {
        *rng.pick(&[Some("application/json; charset=utf-8"), Some("text/plain"), None, Some("application/x-www-form-urlencoded"),
                    Some("application/vnd.api+json"), Some("APPLICATION/JSON"), Some("application/jsonx"), Some("text/json")][..])
      };
      // ---- size class
      let ssel = rng.below(100);
      let mut size = if forced_init || target_coq == "Garbage" {
        Size::Ok
      } else if ssel < 7 {
        Size::Declared
      } else if ssel < 11 && reads_body && method_ok {
        Size::Streamed
      } else if ssel < 14 && reads_body && method_ok && slow_budget > 0 {
        Size::Slow
      } else {
        Size::Ok
      };
      if size == Size::Streamed || size == Size::Declared && reads_body && rng.chance(1, 2) {
        body = pad_body(body_path, MAX_BODY + 200 + rng.below(3000) as usize, &mut k);
      }
      if size == Size::Slow {
        body = pad_body(body_path, 64, &mut k);
      }
      let idx_before = oracle.idx();
      let (bclass, core) = if known { oracle.classify(body_path, ct, &body) } else { (BClass::None, Core::Ok) };
      if matches!(size, Size::Streamed | Size::Slow) && (bclass != BClass::Ok || (size == Size::Streamed && body.len() <= MAX_BODY)) {
        size = Size::Ok;
      }
      if size == Size::Ok && body.len() > MAX_BODY {
        // sent with its true Content-Length: a declared oversize
        size = Size::Declared;
      }
      if size == Size::Slow {
        slow_budget -= 1;
      }
      if size == Size::Declared && body.len() <= MAX_BODY {
        // declare more than is allowed and send exactly that many bytes (padding with spaces)
        let want = MAX_BODY + 1 + rng.below(2000) as usize;
        body.resize(want, b' ');
      }
      // ---- raw bytes
      let mut raw: Vec<u8> = Vec::new();
      let garbage_kind;
      if target_coq == "Garbage" {
        let g: &[u8] = *rng.pick(&[
          &b"GARBAGE\r\n\r\n"[..],
          &b"\x00\x01\x02\x03\r\n\r\n"[..],
          &b"GET /healthz HTTP/1.1\r\nbad header line\r\n\r\n"[..],
          &b"POST /add HTTP/1.1\r\nHost: x\r\nContent-Length: abc\r\n\r\n"[..],
          &b"GET  /healthz  HTTP/1.1\r\n\r\n"[..],
          &b"G\x7fT /healthz HTTP/1.1\r\nHost: x\r\n\r\n"[..],
        ][..]);
        raw.extend_from_slice(g);
        garbage_kind = String::from_utf8_lossy(g).to_string();
      } else {
        garbage_kind = String::new();
        let p = path.as_deref().unwrap();
        raw.extend_from_slice(format!("{method} {p} HTTP/1.1\r\nHost: localhost\r\nConnection: close\r\n").as_bytes());
        if let Some(ct) = ct {
          raw.extend_from_slice(format!("Content-Type: {ct}\r\n").as_bytes());
        }
        match size {
          Size::Streamed => {
            raw.extend_from_slice(b"Transfer-Encoding: chunked\r\n\r\n");
            for ch in body.chunks(700) {
              raw.extend_from_slice(format!("{:x}\r\n", ch.len()).as_bytes());
              raw.extend_from_slice(ch);
              raw.extend_from_slice(b"\r\n");
            }
            raw.extend_from_slice(b"0\r\n\r\n");
          }
          Size::Slow => {
            raw.extend_from_slice(format!("Content-Length: {}\r\n\r\n", body.len() + 50).as_bytes());
            raw.extend_from_slice(&body);
          }
          _ => {
            raw.extend_from_slice(format!("Content-Length: {}\r\n\r\n", body.len()).as_bytes());
            raw.extend_from_slice(&body);
          }
        }
      }
      std::fs::write(
        &progress,
        format!("case {} (session {session} step {step}): {method} {:?} size {:?} body {:?}\n", cases.len(), path, size, String::from_utf8_lossy(&body[..body.len().min(600)])),
      )
      .ok();
      let is_head = method == "HEAD" && target_coq != "Garbage";
      let reply = http::exchange(srv.port, &raw, Duration::from_secs(TIMEOUT_SECS + 20), is_head);
      let (resp_lit, status, shape) = observe(&reply, route_path, is_head, &kinds);
      // ---- liveness
      let health = http::request(srv.port, "GET", "/healthz", &[], b"");
      let alive = srv.alive() && matches!(&health, Ok(h) if h.status == 200 && h.json() == Some(json!({"status": "ok"})));
      let q = format!(
        "{{| q_target := {}; q_meth := {}; q_size := {}; q_body := {}; q_idx := {}; q_core := {} |}}",
        target_coq, method_coq, size.coq(), bclass.coq(), idx_before, core.coq()
      );
      let o = format!("{{| o_resp := {}; o_alive := {} |}}", resp_lit, alive);
      cases.push(format!("({q}, {o})"));
      let failure = !(200..300).contains(&status);
      *dist.entry(format!("target:{}", target_coq.split(' ').next().unwrap())).or_insert(0) += 1;
      *dist.entry(format!("size:{}", size.coq())).or_insert(0) += 1;
      *dist.entry(format!("body:{}", bclass.coq())).or_insert(0) += 1;
      *dist.entry(format!("core:{}", core.coq())).or_insert(0) += 1;
      *dist.entry(format!("status:{status}")).or_insert(0) += 1;
      *dist.entry(format!("method_matches:{method_ok}")).or_insert(0) += 1;
      *dist.entry(format!("index_present:{idx_before}")).or_insert(0) += 1;
      if shape.starts_with("SErr") {
        *dist.entry(format!("kind:{}", &shape[5..])).or_insert(0) += 1;
      }
      meta.push(json!({
        "method": method, "path": path, "garbage": garbage_kind, "content_type": ct, "size": size.coq(),
        "body": String::from_utf8_lossy(&body[..body.len().min(400)]), "body_len": body.len(),
        "class": q, "answer": resp_lit, "alive": alive,
        "no_answer_detail": reply.as_ref().err().map(|e| format!("{e:?}")),
        "reason": reply.as_ref().ok().and_then(|r| r.json()).and_then(|j| j.pointer("/error/reason").and_then(|v| v.as_str()).map(|s| s.chars().take(300).collect::<String>())),
        "nt": failure,
      }));
      if !alive {
        // the server is gone or wedged: stop this session
        break;
      }
      // keep some data flowing: commit now and then so that searches see documents
      if oracle.idx() && rng.chance(1, 12) {
        let _ = http::request(srv.port, "POST", "/commit", &[], b"");
      }
    }
    srv.stop();
    if cases.len() >= args.n {
      break;
    }
  }
  std::fs::remove_file(&progress).ok();
  let files = write_cases(&args.out, "From SL Require Import C24.Table C24.Model.", "request * obs", "check_case", &cases, 500);
  let mut d = serde_json::Map::new();
  for (k, v) in dist {
    d.insert(k, json!(v));
  }
  write_json(&args.out, "cases.json", &json!({"files": files, "cases": meta, "distribution": d}));
}
