//! C08 engine: random schemas (keyword / i64 / f64 fields, nested objects to three levels),
//! random documents (arrays of parent objects each holding child arrays, nulls, empties,
//! multi-valued fields, junk array elements where the schema validation tolerates them),
//! random And/Or/Not/Nested filter trees.  Observation: ascending ids of
//! `IndexReader::search(match_all, filter)`.  The Coq model evaluates `passes (flatten sch d) f`
//! and `fsem f d` for every document and compares both with the observation.
use searchlite_core::api::types::{
  Document, ExecutionStrategy, Filter, KeywordField, NestedField, NestedProperty, NumericField,
  Query, QueryNode, SearchRequest, StorageType,
};
use searchlite_core::api::IndexBuilder;
use serde_json::{json, Value};
use slv::{coq, parse_args, write_json, Rng};
use std::collections::BTreeMap;

// ---------------------------------------------------------------- schema
#[derive(Clone, Copy, PartialEq, Debug)]
enum Kind {
  Kw,
  I64,
  F64,
}

#[derive(Clone, Debug)]
enum Prop {
  Leaf { name: String, kind: Kind, nullable: bool },
  Obj { name: String, nullable: bool, fields: Vec<Prop> },
}

impl Prop {
  fn name(&self) -> &str {
    match self {
      Prop::Leaf { name, .. } | Prop::Obj { name, .. } => name,
    }
  }
}

const KW_NAMES: [&str; 3] = ["a", "b", "k"];
const I_NAMES: [&str; 2] = ["n", "m"];
const F_NAMES: [&str; 2] = ["x", "y"];
const O_NAMES: [&str; 3] = ["c", "r", "s"];

fn gen_props(rng: &mut Rng, depth: usize) -> Vec<Prop> {
  // names are reused across levels on purpose (path qualification); distinct inside one level
  let mut out = Vec::new();
  let nkw = 1 + rng.below(2) as usize;
  let mut kws: Vec<&str> = KW_NAMES.to_vec();
  for _ in 0..nkw {
    let i = rng.below(kws.len() as u64) as usize;
    out.push(Prop::Leaf { name: kws.remove(i).into(), kind: Kind::Kw, nullable: rng.chance(1, 2) });
  }
  if rng.chance(2, 3) {
    out.push(Prop::Leaf { name: rng.pick(&I_NAMES).to_string(), kind: Kind::I64, nullable: rng.chance(1, 2) });
  }
  if rng.chance(1, 2) {
    out.push(Prop::Leaf { name: rng.pick(&F_NAMES).to_string(), kind: Kind::F64, nullable: rng.chance(1, 2) });
  }
  if depth < 3 {
    let nobj = match depth {
      0 => 1 + rng.below(2),
      1 => rng.below(3),
      _ => rng.below(2),
    } as usize;
    let mut os: Vec<&str> = O_NAMES.to_vec();
    for _ in 0..nobj {
      let i = rng.below(os.len() as u64) as usize;
      out.push(Prop::Obj { name: os.remove(i).into(), nullable: rng.chance(1, 2), fields: gen_props(rng, depth + 1) });
    }
  }
  // shuffle
  for i in (1..out.len()).rev() {
    let j = rng.below(i as u64 + 1) as usize;
    out.swap(i, j);
  }
  out
}

fn nested_prop(p: &Prop) -> NestedProperty {
  match p {
    Prop::Leaf { name, kind: Kind::Kw, nullable } => NestedProperty::Keyword(KeywordField {
      name: name.clone(),
      stored: false,
      indexed: true,
      fast: true,
      nullable: *nullable,
    }),
    Prop::Leaf { name, kind, nullable } => NestedProperty::Numeric(NumericField {
      name: name.clone(),
      i64: *kind == Kind::I64,
      fast: true,
      stored: false,
      nullable: *nullable,
    }),
    Prop::Obj { name, nullable, fields } => NestedProperty::Object(NestedField {
      name: name.clone(),
      fields: fields.iter().map(nested_prop).collect(),
      nullable: *nullable,
    }),
  }
}

fn real_schema(props: &[Prop]) -> searchlite_core::Schema {
  let mut s: searchlite_core::Schema = serde_json::from_value(json!({
    "doc_id_field": "_id", "text_fields": [], "keyword_fields": [], "numeric_fields": [],
    "nested_fields": [], "vector_fields": []
  }))
  .expect("schema");
  for p in props {
    match p {
      Prop::Leaf { name, kind: Kind::Kw, nullable } => s.keyword_fields.push(KeywordField {
        name: name.clone(),
        stored: false,
        indexed: true,
        fast: true,
        nullable: *nullable,
      }),
      Prop::Leaf { name, kind, nullable } => s.numeric_fields.push(NumericField {
        name: name.clone(),
        i64: *kind == Kind::I64,
        fast: true,
        stored: false,
        nullable: *nullable,
      }),
      Prop::Obj { name, nullable, fields } => s.nested_fields.push(NestedField {
        name: name.clone(),
        fields: fields.iter().map(nested_prop).collect(),
        nullable: *nullable,
      }),
    }
  }
  s
}

// ---------------------------------------------------------------- values
const STRS: [&str; 16] = [
  "alice", "Alice", "ALICE", "bob", "BoB", "p", "P", "q", "Ünï", "ünï", "ÜNÏ", "\u{212A}", "k", "K",
  "straße", "STRASSE",
];
const INTS: [i64; 9] = [-3, -1, 0, 1, 2, 3, 5, i64::MAX, i64::MIN];

fn gen_str(rng: &mut Rng) -> Value {
  Value::String(rng.pick(&STRS).to_string())
}
fn gen_int(rng: &mut Rng) -> Value {
  if rng.chance(1, 12) {
    json!(*rng.pick(&INTS))
  } else {
    json!(rng.range(-3, 6))
  }
}
fn gen_flt(rng: &mut Rng) -> Value {
  match rng.below(8) {
    0 => json!(-0.0),
    1 => json!(0.0),
    2 => json!(1),
    3 => json!(1e300),
    4 => json!(u64::MAX),
    _ => json!((rng.range(-6, 12) as f64) * 0.5),
  }
}
fn gen_scalar(rng: &mut Rng, kind: Kind) -> Value {
  match kind {
    Kind::Kw => gen_str(rng),
    Kind::I64 => gen_int(rng),
    Kind::F64 => gen_flt(rng),
  }
}
/// junk element tolerated inside arrays of nested leaf properties (collect_* skips them)
fn gen_junk(rng: &mut Rng) -> Value {
  match rng.below(6) {
    0 => Value::Null,
    1 => json!(true),
    2 => gen_str(rng),
    3 => json!(2.5),
    4 => json!([1]),
    _ => json!(rng.range(-3, 6)),
  }
}

struct Stats {
  junk_allowed: bool,
  multi_parent_docs: usize,
  null_slots: usize,
  single_objects: usize,
  empty_arrays: usize,
  multi_valued: usize,
  junk: usize,
  depth3_objects: usize,
}

fn gen_leaf(rng: &mut Rng, kind: Kind, nullable: bool, top: bool, st: &mut Stats) -> Option<Value> {
  // None = key absent
  match rng.below(10) {
    0 if nullable || top => None,
    1 if nullable => Some(Value::Null),
    2 | 3 | 4 => {
      let n = rng.below(4) as usize;
      let mut v: Vec<Value> = (0..n).map(|_| gen_scalar(rng, kind)).collect();
      if !top && st.junk_allowed && rng.chance(1, 4) {
        v.push(gen_junk(rng));
        st.junk += 1;
      }
      if v.len() > 1 {
        st.multi_valued += 1
      }
      Some(Value::Array(v))
    }
    _ => Some(gen_scalar(rng, kind)),
  }
}

fn gen_obj(rng: &mut Rng, fields: &[Prop], depth: usize, st: &mut Stats) -> Value {
  let mut m = serde_json::Map::new();
  for p in fields {
    match p {
      Prop::Leaf { name, kind, nullable } => {
        if let Some(v) = gen_leaf(rng, *kind, *nullable, false, st) {
          m.insert(name.clone(), v);
        }
      }
      Prop::Obj { name, nullable, fields } => {
        if let Some(v) = gen_nested(rng, fields, *nullable, false, depth + 1, st) {
          m.insert(name.clone(), v);
        }
      }
    }
  }
  Value::Object(m)
}

fn gen_nested(rng: &mut Rng, fields: &[Prop], nullable: bool, top: bool, depth: usize, st: &mut Stats) -> Option<Value> {
  match rng.below(12) {
    0 if nullable || top => None,
    1 if nullable => Some(Value::Null),
    2 => {
      st.single_objects += 1;
      if depth >= 3 {
        st.depth3_objects += 1
      }
      Some(gen_obj(rng, fields, depth, st))
    }
    _ => {
      let n = match rng.below(8) {
        0 => 0,
        1 | 2 => 1,
        3 | 4 | 5 => 2,
        _ => 3,
      };
      if n == 0 {
        st.empty_arrays += 1
      }
      let mut v = Vec::new();
      for _ in 0..n {
        if nullable && rng.chance(1, 8) {
          st.null_slots += 1;
          v.push(Value::Null);
        } else {
          if depth >= 3 {
            st.depth3_objects += 1
          }
          v.push(gen_obj(rng, fields, depth, st));
        }
      }
      Some(Value::Array(v))
    }
  }
}

fn gen_doc(rng: &mut Rng, props: &[Prop], st: &mut Stats) -> BTreeMap<String, Value> {
  let mut m = BTreeMap::new();
  for p in props {
    match p {
      Prop::Leaf { name, kind, nullable } => {
        if let Some(v) = gen_leaf(rng, *kind, *nullable, true, st) {
          m.insert(name.clone(), v);
        }
      }
      Prop::Obj { name, nullable, fields } => {
        if let Some(v) = gen_nested(rng, fields, *nullable, true, 1, st) {
          m.insert(name.clone(), v);
        }
      }
    }
  }
  m
}

/// does some nested path have child arrays/objects under two or more distinct parent objects?
fn multi_parent(v: &Value) -> bool {
  fn objs(v: &Value) -> Vec<&serde_json::Map<String, Value>> {
    match v {
      Value::Object(m) => vec![m],
      Value::Array(a) => a.iter().filter_map(|x| x.as_object()).collect(),
      _ => vec![],
    }
  }
  fn walk(parents: &[&serde_json::Map<String, Value>]) -> bool {
    let mut keys: Vec<&String> = parents.iter().flat_map(|m| m.keys()).collect();
    keys.sort();
    keys.dedup();
    for k in keys {
      let with: Vec<Vec<&serde_json::Map<String, Value>>> =
        parents.iter().filter_map(|m| m.get(k)).map(objs).filter(|o| !o.is_empty()).collect();
      if with.len() >= 2 {
        return true;
      }
      let all: Vec<&serde_json::Map<String, Value>> = with.into_iter().flatten().collect();
      if !all.is_empty() && walk(&all) {
        return true;
      }
    }
    false
  }
  match v {
    Value::Object(m) => m.values().any(|top| {
      let o = objs(top);
      !o.is_empty() && walk(&o)
    }),
    _ => false,
  }
}

// ---------------------------------------------------------------- filters
struct FStats {
  nested: usize,
  nested_in_nested: usize,
  sibling_same_path: usize,
  not: usize,
  or: usize,
  ill_typed: usize,
}

fn gen_filter(rng: &mut Rng, props: &[Prop], depth: usize, nest_depth: usize, fst: &mut FStats, ill: &mut bool) -> Filter {
  let objs: Vec<&Prop> = props.iter().filter(|p| matches!(p, Prop::Obj { .. })).collect();
  let leaves: Vec<&Prop> = props.iter().filter(|p| matches!(p, Prop::Leaf { .. })).collect();
  let choice = if depth >= 4 { rng.below(5) } else { rng.below(12) };
  match choice {
    0..=4 => {
      // leaf; occasionally on a wrong-typed or unknown field
      let bad = rng.chance(1, 40);
      let (name, kind) = if bad || leaves.is_empty() {
        *ill = true;
        let k = *rng.pick(&[Kind::Kw, Kind::I64, Kind::F64]);
        let nm = match rng.below(3) {
          0 => "zz".to_string(),
          _ => props[rng.below(props.len() as u64) as usize].name().to_string(),
        };
        (nm, k)
      } else {
        match rng.pick(&leaves) {
          Prop::Leaf { name, kind, .. } => (name.clone(), *kind),
          _ => unreachable!(),
        }
      };
      match kind {
        Kind::Kw => {
          if rng.chance(1, 2) {
            Filter::KeywordEq { field: name, value: rng.pick(&STRS).to_string() }
          } else {
            let n = rng.below(4) as usize;
            Filter::KeywordIn { field: name, values: (0..n).map(|_| rng.pick(&STRS).to_string()).collect() }
          }
        }
        Kind::I64 => {
          let a = if rng.chance(1, 10) { *rng.pick(&INTS) } else { rng.range(-3, 6) };
          let b = if rng.chance(1, 10) { *rng.pick(&INTS) } else { a.saturating_add(rng.range(-1, 3)) };
          Filter::I64Range { field: name, min: a, max: b }
        }
        Kind::F64 => {
          let pick = |rng: &mut Rng| match rng.below(10) {
            0 => f64::NEG_INFINITY,
            1 => f64::INFINITY,
            2 => -0.0,
            3 => 1e300,
            _ => (rng.range(-6, 12) as f64) * 0.5,
          };
          let a = pick(rng);
          let b = if rng.chance(1, 3) { a } else { pick(rng) };
          Filter::F64Range { field: name, min: a, max: b }
        }
      }
    }
    5 | 6 | 7 if !objs.is_empty() || rng.chance(1, 30) => {
      let (path, fields): (String, Vec<Prop>) = if objs.is_empty() || rng.chance(1, 60) {
        *ill = true;
        ("zz".into(), vec![Prop::Leaf { name: "a".into(), kind: Kind::Kw, nullable: true }])
      } else {
        match rng.pick(&objs) {
          Prop::Obj { name, fields, .. } => (name.clone(), fields.clone()),
          _ => unreachable!(),
        }
      };
      fst.nested += 1;
      if nest_depth > 0 {
        fst.nested_in_nested += 1;
      }
      Filter::Nested { path, filter: Box::new(gen_filter(rng, &fields, depth + 1, nest_depth + 1, fst, ill)) }
    }
    8 | 9 => {
      // And, biased towards sibling Nested clauses on the same path
      let n = rng.below(4) as usize;
      let mut v = Vec::new();
      if !objs.is_empty() && rng.chance(2, 3) {
        if let Prop::Obj { name, fields, .. } = rng.pick(&objs) {
          let k = 2 + rng.below(2) as usize;
          for _ in 0..k {
            fst.nested += 1;
            if nest_depth > 0 {
              fst.nested_in_nested += 1;
            }
            v.push(Filter::Nested {
              path: name.clone(),
              filter: Box::new(gen_filter(rng, fields, depth + 2, nest_depth + 1, fst, ill)),
            });
          }
          fst.sibling_same_path += 1;
        }
      }
      for _ in 0..n {
        v.push(gen_filter(rng, props, depth + 1, nest_depth, fst, ill));
      }
      for i in (1..v.len()).rev() {
        let j = rng.below(i as u64 + 1) as usize;
        v.swap(i, j);
      }
      Filter::And(v)
    }
    10 => {
      fst.or += 1;
      let n = rng.below(4) as usize;
      Filter::Or((0..n).map(|_| gen_filter(rng, props, depth + 1, nest_depth, fst, ill)).collect())
    }
    _ => {
      fst.not += 1;
      Filter::Not(Box::new(gen_filter(rng, props, depth + 1, nest_depth, fst, ill)))
    }
  }
}

// ---------------------------------------------------------------- Gallina printing
struct Intern {
  names: BTreeMap<String, u64>,
  strs: BTreeMap<String, u64>,
}

impl Intern {
  fn name(&mut self, s: &str) -> u64 {
    let n = self.names.len() as u64;
    *self.names.entry(s.to_string()).or_insert(n)
  }
  fn sid(&mut self, s: &str) -> u64 {
    let n = self.strs.len() as u64;
    *self.strs.entry(s.to_string()).or_insert(n)
  }
  /// (id of the exact string, id of its to_lowercase())
  fn str(&mut self, s: &str) -> String {
    let a = self.sid(s);
    let b = self.sid(&s.to_lowercase());
    format!("({a}, {b})")
  }
}

fn rank(fl: &[f64], x: f64) -> i64 {
  // fl is sorted ascending and deduplicated under ==
  fl.iter().position(|y| *y == x).expect("ranked float") as i64
}

fn p_props(ps: &[Prop], it: &mut Intern) -> String {
  let v: Vec<String> = ps
    .iter()
    .map(|p| match p {
      Prop::Leaf { name, kind, nullable } => format!(
        "PLeaf {} {} {}",
        it.name(name),
        match kind {
          Kind::Kw => "KKw",
          Kind::I64 => "KI64",
          Kind::F64 => "KF64",
        },
        coq::b(*nullable)
      ),
      Prop::Obj { name, nullable, fields } => {
        format!("PObj {} {} {}", it.name(name), coq::b(*nullable), p_props(fields, it))
      }
    })
    .collect();
  coq::list(&v)
}

fn p_jval(v: &Value, it: &mut Intern, fl: &[f64]) -> String {
  match v {
    Value::Null => "JNull".into(),
    Value::Bool(b) => format!("(JBool {})", coq::b(*b)),
    Value::String(s) => format!("(JStr {})", it.str(s)),
    Value::Number(n) => format!(
      "(JNum {} {})",
      coq::opt(n.as_i64().map(coq::z)),
      coq::z(rank(fl, n.as_f64().expect("as_f64")))
    ),
    Value::Array(a) => {
      let xs: Vec<String> = a.iter().map(|x| p_jval(x, it, fl)).collect();
      format!("(JArr {})", coq::list(&xs))
    }
    Value::Object(m) => format!("(JObj {})", p_obj(m.iter(), it, fl)),
  }
}

fn p_obj<'a>(m: impl Iterator<Item = (&'a String, &'a Value)>, it: &mut Intern, fl: &[f64]) -> String {
  let xs: Vec<String> = m.map(|(k, v)| format!("({}, {})", it.name(k), p_jval(v, it, fl))).collect();
  coq::list(&xs)
}

fn p_filter(f: &Filter, it: &mut Intern, fl: &[f64]) -> String {
  match f {
    Filter::KeywordEq { field, value } => format!("(FKwEq {} {})", it.name(field), it.str(value)),
    Filter::KeywordIn { field, values } => {
      let xs: Vec<String> = values.iter().map(|v| it.str(v)).collect();
      format!("(FKwIn {} {})", it.name(field), coq::list(&xs))
    }
    Filter::I64Range { field, min, max } => format!("(FI64 {} {} {})", it.name(field), coq::z(*min), coq::z(*max)),
    Filter::F64Range { field, min, max } => {
      format!("(FF64 {} {} {})", it.name(field), coq::z(rank(fl, *min)), coq::z(rank(fl, *max)))
    }
    Filter::Nested { path, filter } => format!("(FNested {} {})", it.name(path), p_filter(filter, it, fl)),
    Filter::And(v) => {
      let xs: Vec<String> = v.iter().map(|x| p_filter(x, it, fl)).collect();
      format!("(FAnd {})", coq::list(&xs))
    }
    Filter::Or(v) => {
      let xs: Vec<String> = v.iter().map(|x| p_filter(x, it, fl)).collect();
      format!("(FOr {})", coq::list(&xs))
    }
    Filter::Not(g) => format!("(FNot {})", p_filter(g, it, fl)),
  }
}

fn floats_in(v: &Value, out: &mut Vec<f64>) {
  match v {
    Value::Number(n) => out.push(n.as_f64().expect("as_f64")),
    Value::Array(a) => a.iter().for_each(|x| floats_in(x, out)),
    Value::Object(m) => m.values().for_each(|x| floats_in(x, out)),
    _ => {}
  }
}
fn floats_in_filter(f: &Filter, out: &mut Vec<f64>) {
  match f {
    Filter::F64Range { min, max, .. } => {
      out.push(*min);
      out.push(*max)
    }
    Filter::Nested { filter, .. } => floats_in_filter(filter, out),
    Filter::Not(g) => floats_in_filter(g, out),
    Filter::And(v) | Filter::Or(v) => v.iter().for_each(|x| floats_in_filter(x, out)),
    _ => {}
  }
}

fn request(f: &Filter) -> SearchRequest {
  SearchRequest {
    query: Query::Node(QueryNode::MatchAll { boost: None }),
    fields: None,
    filter: Some(f.clone()),
    limit: 1000,
    return_hits: true,
    candidate_size: None,
    sort: Vec::new(),
    cursor: None,
    execution: ExecutionStrategy::Wand,
    bmw_block_size: None,
    fuzzy: None,
    vector_query: None,
    vector_filter: None,
    return_stored: false,
    highlight_field: None,
    highlight: None,
    collapse: None,
    aggs: BTreeMap::new(),
    suggest: BTreeMap::new(),
    rescore: None,
    explain: false,
    profile: false,
  }
}

/// the README's "deeply nested hierarchy" world, with several parent objects holding child arrays
fn corpus_world() -> (Vec<Prop>, Vec<BTreeMap<String, Value>>, Vec<Filter>) {
  let kw = |n: &str| Prop::Leaf { name: n.into(), kind: Kind::Kw, nullable: true };
  let props = vec![
    kw("k"),
    Prop::Obj {
      name: "c".into(),
      nullable: true,
      fields: vec![kw("a"), Prop::Obj { name: "r".into(), nullable: true, fields: vec![kw("b")] }],
    },
  ];
  let docs: Vec<BTreeMap<String, Value>> = vec![
    json!({"c": [{"a": "alice", "r": [{"b": "p"}]}, {"a": "bob", "r": [{"b": "q"}]}]}),
    json!({"c": [{"a": "alice", "r": [{"b": "q"}]}, {"a": "bob", "r": [{"b": "p"}]}]}),
    json!({"c": [{"a": "alice", "r": [{"b": "p"}, {"b": "q"}]}, {"a": "bob", "r": []}]}),
    json!({"c": [{"a": "bob"}, {"a": "Alice", "r": {"b": "P"}}], "k": "x"}),
    json!({"c": [null, {"a": "bob", "r": [null]}]}),
    json!({"c": {"a": ["alice", "bob"], "r": [{"b": ["p", "q"]}]}}),
  ]
  .into_iter()
  .map(|v| v.as_object().unwrap().iter().map(|(k, v)| (k.clone(), v.clone())).collect())
  .collect();
  let eq = |f: &str, v: &str| Filter::KeywordEq { field: f.into(), value: v.into() };
  let nest = |p: &str, f: Filter| Filter::Nested { path: p.into(), filter: Box::new(f) };
  let mut fs = Vec::new();
  for a in ["alice", "bob"] {
    for b in ["p", "q"] {
      fs.push(Filter::And(vec![nest("c", eq("a", a)), nest("c", nest("r", eq("b", b)))]));
      fs.push(nest("c", Filter::And(vec![eq("a", a), nest("r", eq("b", b))])));
      fs.push(Filter::And(vec![nest("c", nest("r", eq("b", b))), nest("c", nest("r", eq("b", "p")))]));
    }
  }
  for a in ["alice", "bob"] {
    for b in ["p", "q"] {
      // a Nested directly inside a Nested (nested_filter_passes), under Or / Not
      fs.push(nest("c", Filter::And(vec![eq("a", a), Filter::Or(vec![nest("r", eq("b", b))])])));
      fs.push(nest("c", Filter::And(vec![eq("a", a), Filter::Not(Box::new(nest("r", eq("b", b))))])));
      fs.push(nest("c", Filter::Or(vec![Filter::And(vec![eq("a", a), Filter::Or(vec![nest("r", eq("b", b))])])])));
    }
  }
  fs.push(nest("c", Filter::Not(Box::new(eq("a", "alice")))));
  fs.push(nest("c", nest("r", Filter::Not(Box::new(eq("b", "p"))))));
  fs.push(nest("c", Filter::And(vec![])));
  fs.push(Filter::Not(Box::new(nest("c", nest("r", Filter::Or(vec![]))))));
  (props, docs, fs)
}

fn main() {
  let args = parse_args();
  let mut rng = Rng::new(args.seed);
  let thorough = args.tier == "thorough";
  let worlds = args.n.max(1);
  let filters_per_world = if thorough { 160 } else { 70 };

  // does add_document accept a number inside the array of a nested keyword property?  (It did
  // before nested leaves were type-checked; the model handles such elements either way.)
  let junk_allowed = {
    let props = vec![Prop::Obj {
      name: "c".into(),
      nullable: true,
      fields: vec![Prop::Leaf { name: "a".into(), kind: Kind::Kw, nullable: true }],
    }];
    let dir = slv::fixtures::scratch();
    let idx = IndexBuilder::create(dir.path(), real_schema(&props), slv::fixtures::opts(dir.path(), StorageType::Filesystem))
      .expect("create probe index");
    let mut w = idx.writer().expect("writer");
    let d = json!({"_id": "probe", "c": [{"a": ["x", 1]}]});
    let ok = w.add_document(&slv::fixtures::doc(d)).is_ok();
    w.rollback().ok();
    ok
  };
  let mut st = Stats {
    junk_allowed,
    multi_parent_docs: 0,
    null_slots: 0,
    single_objects: 0,
    empty_arrays: 0,
    multi_valued: 0,
    junk: 0,
    depth3_objects: 0,
  };
  let mut fst = FStats { nested: 0, nested_in_nested: 0, sibling_same_path: 0, not: 0, or: 0, ill_typed: 0 };
  let mut header = String::from("From SL Require Import C08.Model.\nOpen Scope N_scope.\n");
  let mut cases: Vec<String> = Vec::new();
  let mut meta: Vec<Value> = Vec::new();
  let mut it = Intern { names: BTreeMap::new(), strs: BTreeMap::new() };
  let mut total_docs = 0usize;
  let mut hits_some = 0usize;
  let mut hits_all = 0usize;
  let progress = args.out.join("progress.txt");

  for w in 0..=worlds {
    let (props, docs, filters): (Vec<Prop>, Vec<BTreeMap<String, Value>>, Vec<Filter>) = if w == 0 {
      corpus_world()
    } else {
      let mut wr = rng.fork();
      let props = gen_props(&mut wr, 0);
      let nd = 8 + wr.below(if thorough { 30 } else { 14 }) as usize;
      let docs: Vec<_> = (0..nd).map(|_| gen_doc(&mut wr, &props, &mut st)).collect();
      let mut filters = Vec::new();
      for _ in 0..filters_per_world {
        let mut ill = false;
        let f = gen_filter(&mut wr, &props, 0, 0, &mut fst, &mut ill);
        if ill {
          fst.ill_typed += 1;
        }
        filters.push(f);
      }
      (props, docs, filters)
    };
    total_docs += docs.len();
    for d in docs.iter() {
      if multi_parent(&Value::Object(d.iter().map(|(k, v)| (k.clone(), v.clone())).collect())) {
        st.multi_parent_docs += 1;
      }
    }

    // ---- the real index: documents committed in one to three batches (several segments)
    let dir = slv::fixtures::scratch();
    let idx = IndexBuilder::create(dir.path(), real_schema(&props), slv::fixtures::opts(dir.path(), StorageType::Filesystem))
      .expect("create index");
    {
      let mut wtr = idx.writer().expect("writer");
      let cut1 = rng.below(docs.len() as u64 + 1) as usize;
      let cut2 = rng.below(docs.len() as u64 + 1) as usize;
      for (i, d) in docs.iter().enumerate() {
        let mut fields = d.clone();
        fields.insert("_id".into(), Value::String(format!("d{i:04}")));
        std::fs::write(&progress, format!("world {w} add doc {i}: {}\n", json!(fields))).ok();
        wtr.add_document(&Document { fields }).expect("add_document of a schema-valid document");
        if i + 1 == cut1 || i + 1 == cut2 {
          wtr.commit().expect("commit");
        }
      }
      wtr.commit().expect("commit");
    }
    let reader = idx.reader().expect("reader");

    // ---- float ranks of this world
    let mut fl: Vec<f64> = Vec::new();
    for d in docs.iter() {
      d.values().for_each(|v| floats_in(v, &mut fl));
    }
    filters.iter().for_each(|f| floats_in_filter(f, &mut fl));
    fl.sort_by(|a, b| a.partial_cmp(b).expect("no NaN"));
    fl.dedup_by(|a, b| *a == *b);

    header.push_str(&format!("Definition w{w}_sch : schema := {}.\n", p_props(&props, &mut it)));
    let ds: Vec<String> = docs.iter().enumerate().map(|(i, d)| format!("({i}, {})", p_obj(d.iter(), &mut it, &fl))).collect();
    header.push_str(&format!("Definition w{w}_docs : list (N * obj) := {}.\n", coq::list(&ds)));

    for (fi, f) in filters.iter().enumerate() {
      std::fs::write(&progress, format!("world {w} filter {fi}: {}\n", serde_json::to_string(f).unwrap_or_default())).ok();
      let res = reader.search(&request(f)).expect("search");
      let mut ids: Vec<u64> = res.hits.iter().map(|h| h.doc_id[1..].parse::<u64>().expect("doc id")).collect();
      ids.sort();
      let before = ids.len();
      ids.dedup();
      assert_eq!(before, ids.len(), "duplicate hit ids");
      if !ids.is_empty() {
        hits_some += 1;
      }
      if ids.len() == docs.len() {
        hits_all += 1;
      }
      cases.push(format!("(mkcase w{w}_sch w{w}_docs {}, {})", p_filter(f, &mut it, &fl), coq::nlist(&ids)));
      meta.push(json!({
        "world": w, "filter_index": fi, "filter": serde_json::to_value(f).unwrap_or(Value::Null),
        "schema": format!("{props:?}"), "docs": docs, "hits": ids,
        "nt": !ids.is_empty() && ids.len() < docs.len(),
      }));
    }
  }
  std::fs::remove_file(&progress).ok();

  // shards (own writer: the header carries the world definitions)
  let shard = 120usize;
  let mut files = Vec::new();
  for (k, chunk) in cases.chunks(shard).enumerate() {
    let name = format!("cases_{k}.v");
    let mut s = String::from("From Coq Require Import List NArith ZArith Bool.\nImport ListNotations.\nFrom SL Require Import Base.Tie.\n");
    s.push_str(&header);
    s.push_str("Definition cases : list (case_in * list N) := [\n");
    s.push_str(&chunk.join(";\n"));
    s.push_str("\n].\n");
    s.push_str(&format!("Eval vm_compute in (report_from check_case {} cases).\n", k * shard));
    std::fs::write(args.out.join(&name), s).expect("write cases");
    files.push(name);
  }
  // keep cases.json small: documents are repeated per case only for the first filter of a world
  let mut last_world = u64::MAX;
  for m in meta.iter_mut() {
    let w = m["world"].as_u64().unwrap();
    if w == last_world {
      m.as_object_mut().unwrap().remove("docs");
      m.as_object_mut().unwrap().remove("schema");
    }
    last_world = w;
  }
  write_json(
    &args.out,
    "cases.json",
    &json!({
      "files": files, "cases": meta,
      "distribution": {
        "worlds": worlds + 1, "documents": total_docs, "filters": cases.len(),
        "docs_with_child_arrays_under_several_parents": st.multi_parent_docs,
        "null_entries_in_nested_arrays": st.null_slots, "single_object_nested_values": st.single_objects,
        "empty_nested_arrays": st.empty_arrays, "multi_valued_leaves": st.multi_valued,
        "junk_array_elements": st.junk, "junk_elements_accepted_by_validation": st.junk_allowed, "objects_at_depth_3": st.depth3_objects,
        "nested_clauses": fst.nested, "nested_inside_nested": fst.nested_in_nested,
        "and_with_sibling_nested_same_path": fst.sibling_same_path, "not_nodes": fst.not, "or_nodes": fst.or,
        "ill_typed_filters": fst.ill_typed,
        "filters_with_some_hit": hits_some, "filters_hitting_every_doc": hits_all,
      },
    }),
  );
}
