//! C20 engine: every generated request is run through the real `IndexReader::search` under the
//! four explain / profile combinations; hits (ids, f32 score bits), total_hits_estimate,
//! next_cursor, aggregations (+ inner hits), total_groups and the explanations' final scores are
//! recorded.  The candidates (matching documents per segment with their sort values and their
//! real scores from one exhaustive score-ordered request) are exported so that C20/Model.v can
//! predict the hits of the plain requests (no rescore / collapse / cursor) for every combination.
use searchlite_core::api::types::StorageType;
use serde_json::{json, Value};
use slv::qx;
use slv::sortworld::{self as sw, QGen, SWorld};
use slv::{coq, parse_args, write_cases, write_json, Rng};
use std::collections::BTreeMap;

fn intern(table: &mut Vec<String>, s: String) -> usize {
  if let Some(i) = table.iter().position(|x| *x == s) {
    i
  } else {
    table.push(s);
    table.len() - 1
  }
}

fn inner_digest(res: &searchlite_core::api::reader::SearchResult) -> String {
  let mut s = String::new();
  for h in &res.hits {
    if let Some(inner) = &h.inner_hits {
      s.push('[');
      for ih in inner {
        s.push_str(&ih.doc_id);
        s.push(',');
      }
      s.push(']');
    } else {
      s.push('-');
    }
  }
  s
}

fn main() {
  let args = parse_args();
  let mut rng = Rng::new(args.seed);
  let thorough = args.tier == "thorough";
  let progress = args.out.join("progress.txt");
  let mut cases: Vec<String> = Vec::new();
  let mut meta: Vec<Value> = Vec::new();
  let mut dist: BTreeMap<String, u64> = BTreeMap::new();
  let bump = |dist: &mut BTreeMap<String, u64>, k: &str, n: u64| {
    *dist.entry(k.to_string()).or_insert(0) += n;
  };
  let combos = [(false, false), (false, true), (true, false), (true, true)];

  for wi in 0..args.n {
    let nseg = 1 + rng.below(4) as usize;
    let storage = if rng.chance(1, 2) { StorageType::InMemory } else { StorageType::Filesystem };
    let max_docs = if rng.chance(1, 4) { 30 } else if thorough { 14 } else { 10 };
    let mut w = SWorld::build(&mut rng, nseg, 3, max_docs, storage);
    if rng.chance(1, 3) {
      let k = 1 + rng.below(3);
      let ids: Vec<u64> = (0..k).map(|_| rng.below(w.next_id)).collect();
      w.delete(&ids);
      bump(&mut dist, "worlds_with_deletes", 1);
    }
    bump(&mut dist, &format!("worlds_segments_{nseg}"), 1);
    let reader = w.reader();
    let table = sw::doc_table(&reader);
    let ndocs = table.len();
    let nconf = if thorough { 10 } else { 6 };
    for ci in 0..nconf {
      let mut g = QGen::new(&mut rng);
      let depth = rng.below(3) as usize;
      let q = g.node(&mut rng, depth);
      let filter = if rng.chance(1, 4) { Some(sw::filter_json(rng.below(sw::NFILTERS as u64) as usize)) } else { None };
      let sort = qx::gen_sort(&mut rng);
      let fast = qx::is_fast_path(&sort);
      // on the score fast path no collector is attached and WAND prunes by term upper bounds, which a
      // score-modifying node (function_score, constant_score) can exceed: pruning then loses hits
      // (C09's business, reported there) — such requests run exhaustively here
      let execution = if fast && q.has_custom() {
        "bm25"
      } else if fast {
        *rng.pick(&["wand", "bm25"][..])
      } else {
        *rng.pick(&["wand", "bmw", "bm25"][..])
      };
      let limit = 1 + rng.below(6) as usize;
      let cand: Option<usize> = if rng.chance(1, 4) { Some(limit + rng.below(4) as usize) } else { None };
      let topk = cand.unwrap_or(limit).max(limit) + 1;
      let mut base = json!({"query": q.json(), "sort": sort, "execution": execution, "limit": limit});
      if let Some(f) = &filter {
        base["filter"] = f.clone();
      }
      if let Some(c) = cand {
        base["candidate_size"] = json!(c);
      }
      // extras
      // the post-ranking phases are where the candidate list shows: more of them off the fast path
      let rescore = if fast { rng.chance(1, 5) } else { rng.chance(1, 3) };
      let collapse = !rescore && if fast { rng.chance(1, 6) } else { rng.chance(1, 3) };
      let mut aggs_score = false;
      if rescore {
        let mode = *rng.pick(&["total", "multiply", "max", "min"][..]);
        base["rescore"] = json!({"window_size": 1 + rng.below(12), "score_mode": mode,
          "query": {"type":"term","field": *rng.pick(&sw::TEXT_FIELDS[..]), "value": *rng.pick(&sw::WORDS[..])}});
        bump(&mut dist, "with_rescore", 1);
      }
      if collapse {
        base["collapse"] = if rng.chance(1, 2) { json!({"field":"tag"}) } else { json!({"field":"tag","inner_hits":{"size":2}}) };
        bump(&mut dist, "with_collapse", 1);
      }
      match rng.below(6) {
        0 => {
          base["aggs"] = json!({"t": {"type":"terms","field":"tag"}, "s": {"type":"stats","field":"n"}});
          bump(&mut dist, "with_aggs", 1);
        }
        1 => {
          base["aggs"] = json!({"t": {"type":"terms","field":"tag","aggs":{"top":{"type":"top_hits","size":2}}}});
          aggs_score = true;
          bump(&mut dist, "with_top_hits_agg", 1);
        }
        _ => {}
      }
      // the candidates with their real scores: exhaustive, ordered by score, no flags
      let mut all = json!({"query": q.json(), "execution": "bm25", "limit": ndocs + 5});
      if sort.iter().any(|k| k["field"] == "_score") {
        // the plan compares scores: take them from the request's own execution and plan (an f32
        // sum can differ in the last bit between executors, which decides ties on the score key)
        all["execution"] = json!(execution);
        all["sort"] = json!(sort);
      }
      if let Some(f) = &filter {
        all["filter"] = f.clone();
      }
      std::fs::write(&progress, format!("world {wi} conf {ci} all {all}\n")).ok();
      let allres = match qx::search(&reader, &qx::request(all.clone())) {
        Ok(r) => r,
        Err(e) if e.contains("Inconsistent leaf") => {
          bump(&mut dist, "skipped_debug_assert", 1);
          continue;
        }
        Err(e) => panic!("exhaustive request failed: {e} for {all}"),
      };
      let sort_fields: Vec<String> = sort.iter().map(|s| s["field"].as_str().unwrap().to_string()).collect();
      let mut segs: Vec<Vec<(u32, String)>> = vec![Vec::new(); reader.segments.len()];
      for h in &allres.hits {
        let id = qx::parse_id(&h.doc_id);
        let info = table.iter().find(|d| d.id == id && !d.deleted).expect("hit is a live document");
        let vals: Vec<String> = if sort_fields.is_empty() {
          vec!["RNone".to_string()]
        } else {
          sort_fields.iter().map(|f| sw::rvals(&reader, info.seg, info.doc, f)).collect()
        };
        segs[info.seg as usize].push((
          info.doc,
          format!(
            "{{| c_id := {}; c_seg := {}; c_doc := {}; c_vals := {}; c_score := {} |}}",
            id,
            info.seg,
            info.doc,
            coq::list(&vals),
            h.score.to_bits()
          ),
        ));
      }
      let segs_coq: Vec<String> = segs
        .iter_mut()
        .map(|s| {
          s.sort_by_key(|(d, _)| *d); // the executor feeds a segment's documents in doc order
          coq::list(&s.iter().map(|(_, c)| c.clone()).collect::<Vec<_>>())
        })
        .collect();
      // optional cursor: page 2 of the flag-free walk
      let mut cursor: Option<String> = None;
      if !collapse && rng.chance(1, 4) {
        std::fs::write(&progress, format!("world {wi} conf {ci} page1 {base}\n")).ok();
        if let Ok(p1) = qx::search(&reader, &qx::request(base.clone())) {
          cursor = p1.next_cursor.clone();
        }
        if cursor.is_some() {
          bump(&mut dist, "with_cursor", 1);
        }
      }
      if let Some(c) = &cursor {
        base["cursor"] = json!(c);
      }
      let plain = !rescore && !collapse && cursor.is_none();
      let mut strings: Vec<String> = Vec::new();
      let mut obs: Vec<String> = Vec::new();
      let mut obs_json: Vec<Value> = Vec::new();
      let mut failed = false;
      for (e, p) in combos {
        let mut r = base.clone();
        r["explain"] = json!(e);
        r["profile"] = json!(p);
        std::fs::write(&progress, format!("world {wi} conf {ci} req {r}\n")).ok();
        let res = match qx::search(&reader, &qx::request(r.clone())) {
          Ok(res) => res,
          Err(err) => {
            // an error must be the same error under every combination
            let i = intern(&mut strings, format!("error: {err}"));
            obs.push(format!(
              "({{| f_explain := {}; f_profile := {} |}}, {{| o_hits := []; o_total := 0; o_cursor := None; o_aggs := {}; o_groups := None; o_finals := []; o_inner := 0 |}})",
              coq::b(e), coq::b(p), i));
            obs_json.push(json!({"explain": e, "profile": p, "error": err}));
            failed = true;
            continue;
          }
        };
        assert_eq!(res.profile.is_some(), p, "profile section present iff requested");
        let hits: Vec<String> =
          res.hits.iter().map(|h| format!("({}, {})", qx::parse_id(&h.doc_id), h.score.to_bits())).collect();
        let finals: Vec<String> = res
          .hits
          .iter()
          .map(|h| coq::opt(h.explanation.as_ref().map(|x| format!("{}", x.final_score.to_bits()))))
          .collect();
        if !e {
          assert!(res.hits.iter().all(|h| h.explanation.is_none()), "explanation without explain");
        }
        let cur = res.next_cursor.clone().map(|c| intern(&mut strings, c));
        let aggs = intern(&mut strings, serde_json::to_string(&res.aggregations).unwrap());
        let inner = intern(&mut strings, format!("inner:{}", inner_digest(&res)));
        obs.push(format!(
          "({{| f_explain := {}; f_profile := {} |}}, {{| o_hits := {}; o_total := {}; o_cursor := {}; o_aggs := {}; o_groups := {}; o_finals := {}; o_inner := {} |}})",
          coq::b(e),
          coq::b(p),
          coq::list(&hits),
          res.total_hits_estimate,
          coq::opt(cur.map(|c| format!("{c}"))),
          aggs,
          coq::opt(res.total_groups.map(|g| format!("{g}"))),
          coq::list(&finals),
          inner
        ));
        obs_json.push(json!({"explain": e, "profile": p, "inner_hits": inner_digest(&res),
          "hits": res.hits.iter().map(|h| json!([h.doc_id, h.score, h.explanation.as_ref().map(|x| x.final_score)])).collect::<Vec<_>>(),
          "total": res.total_hits_estimate, "next_cursor": res.next_cursor, "total_groups": res.total_groups,
          "aggregations": serde_json::to_value(&res.aggregations).unwrap()}));
      }
      let class1 = !sw::sort_uses_score(&sort) && !q.has_custom() && !aggs_score;
      bump(&mut dist, if fast { "plan_score_fast_path" } else { "plan_sort_path" }, 1);
      bump(&mut dist, &format!("execution_{execution}"), 1);
      bump(&mut dist, &format!("sort_keys_{}", sort.len()), 1);
      bump(&mut dist, if class1 { "class1_requests" } else { "scoring_requests" }, 1);
      bump(&mut dist, if plain { "plain_requests" } else { "non_plain_requests" }, 1);
      if q.has_custom() {
        bump(&mut dist, "custom_scoring", 1);
      }
      if cand.is_some() {
        bump(&mut dist, "with_candidate_size", 1);
      }
      if failed {
        bump(&mut dist, "error_responses", 1);
      }
      bump(&mut dist, "matching_docs_total", allres.hits.len() as u64);
      let plan = if sort.is_empty() { "[{| pf_kind := FScore; pf_order := Desc |}]".to_string() } else { sw::plan_coq(&sort) };
      cases.push(format!(
        "({}, {{| c_req := {{| r_plan := {}; r_limit := {}%nat; r_topk := {}%nat; r_custom := {}; r_aggs_score := {} |}}; \
         c_plain := {}; c_segs := {}; c_obs := {} |}})",
        coq::b(execution != "bm25"),
        plan,
        limit,
        topk,
        coq::b(q.has_custom()),
        coq::b(aggs_score),
        coq::b(plain && !failed),
        coq::list(&segs_coq),
        coq::list(&obs)
      ));
      meta.push(json!({"world": wi, "conf": ci, "segments": nseg, "request": base, "matching": allres.hits.len(),
        "class1": class1, "plain": plain, "responses": obs_json, "nt": allres.hits.len() >= 2}));
    }
  }
  let files = write_cases(&args.out, "From Coq Require Import QArith.\nFrom SL Require Import C10.Model C20.Model.\n", "bool * C20.Model.case", "C20.Model.check_case2", &cases, 12);
  write_json(&args.out, "cases.json", &json!({"files": files, "cases": meta, "distribution": dist}));
}
