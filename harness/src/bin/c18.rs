//! C18 engine: real collapsed searches compared with an independent recomputation from the
//! uncollapsed big request (main ranking), a big request under the inner sort plan (inner ranking)
//! and the documents' own field values (groups).
use searchlite_core::api::types::{SortSpec, StorageType};
use searchlite_core::query::sort::SortPlan;
use serde_json::{json, Value};
use slv::qx::{self, World};
use slv::{coq, parse_args, write_cases, write_json, Rng};
use std::collections::{BTreeMap, HashMap};

fn ids_of(r: &searchlite_core::api::reader::SearchResult) -> Vec<u64> {
  r.hits.iter().map(|h| qx::parse_id(&h.doc_id)).collect()
}

fn uses_score(sort: &[Value]) -> bool {
  sort.is_empty() || sort.iter().any(|s| s["field"] == "_score")
}

fn plan_hash(sort: &[Value]) -> u32 {
  let specs: Vec<SortSpec> = serde_json::from_value(json!(sort)).unwrap();
  SortPlan::from_request(&qx::schema(), &specs).unwrap().hash()
}

fn main() {
  let args = parse_args();
  let mut rng = Rng::new(args.seed);
  let thorough = args.tier == "thorough";
  let progress = args.out.join("progress.txt");
  let mut lits: Vec<String> = Vec::new();
  let mut meta: Vec<Value> = Vec::new();
  let mut dist: BTreeMap<String, u64> = BTreeMap::new();
  let bump = |dist: &mut BTreeMap<String, u64>, k: &str, n: u64| {
    *dist.entry(k.to_string()).or_insert(0) += n;
  };
  let mut tag_ids: HashMap<String, u64> = HashMap::new();
  for (i, t) in qx::TAGS.iter().enumerate() {
    tag_ids.insert(t.to_string(), i as u64);
  }
  for wi in 0..args.n {
    let nseg = 1 + rng.below(4) as usize;
    let storage = if rng.chance(1, 2) { StorageType::InMemory } else { StorageType::Filesystem };
    let max_docs = if rng.chance(1, 2) { 20 } else { 9 };
    let mut w = if wi == 0 {
      // fixed scenario of known finding 1: the best document of group "b" (d3) is cut by segment
      // 0's top_k = limit+1 = 3 before grouping; segment 1 contributes d4 as representative of "b"
      let mut w = World::build(&mut rng, 0, 3, 3, StorageType::InMemory);
      w.commit_batch(&[
        json!({"body": "rust", "tag": "a"}),
        json!({"body": "rust", "tag": "a"}),
        json!({"body": "rust", "tag": "a"}),
        json!({"body": "rust", "tag": "b"}),
      ]);
      w.commit_batch(&[json!({"body": "rust", "tag": "b"})]);
      w
    } else {
      World::build(&mut rng, nseg, 3, max_docs, storage)
    };
    if wi > 0 && rng.chance(1, 4) {
      let ids: Vec<u64> = (0..1 + rng.below(3)).map(|_| rng.below(w.next_id)).collect();
      w.delete(&ids);
    }
    let reader = w.reader();
    let big = w.docs.len() + 5;
    let all = qx::search(&reader, &qx::request(json!({"query": {"type":"match_all"}, "limit": big}))).expect("match_all");
    let docord: HashMap<u64, u64> = ids_of(&all).iter().enumerate().map(|(i, id)| (*id, i as u64)).collect();
    let nconf = if thorough { 10 } else { 6 };
    for ci in 0..nconf {
      let fixed_case = wi == 0 && ci == 0;
      let (mut query, _) = qx::gen_query(&mut rng);
      let mut filter = qx::gen_filter(&mut rng);
      let mut sort = qx::gen_sort(&mut rng);
      if fixed_case {
        query = json!({"type":"match_all"});
        filter = None;
        sort = vec![];
      }
      let fast = qx::is_fast_path(&sort);
      let execution = *rng.pick(&["wand", "bmw", "bm25"][..]);
      let field = if !fixed_case && rng.chance(1, 6) { "tags" } else { "tag" };
      let mut base = json!({"query": query, "sort": sort, "execution": execution});
      if let Some(f) = &filter {
        base["filter"] = f.clone();
      }
      // main ranking
      let mut b = base.clone();
      b["limit"] = json!(big);
      std::fs::write(&progress, format!("world {wi} conf {ci} big {b}\n")).ok();
      let bres = qx::search(&reader, &qx::request(b.clone())).unwrap_or_else(|e| panic!("big request: {e}: {b}"));
      let bids = ids_of(&bres);
      // inner_hits configuration and inner ranking
      let inner: Option<(Option<usize>, Option<usize>, Vec<Value>)> = if rng.chance(2, 3) {
        let size = if rng.chance(1, 4) { None } else { Some(rng.below(4) as usize) };
        let from = if rng.chance(1, 2) { None } else { Some(rng.below(3) as usize) };
        let isort = match rng.below(4) {
          0 => sort.clone(),
          1 => vec![],
          _ => qx::gen_sort(&mut rng),
        };
        Some((size, from, isort))
      } else {
        None
      };
      let mut same = true;
      let mut irank: HashMap<u64, u64> = bids.iter().enumerate().map(|(i, id)| (*id, i as u64)).collect();
      if let Some((_, _, isort)) = &inner {
        same = plan_hash(isort) == plan_hash(&sort);
        if !same {
          // the inner key is built from the hit's score in the main request: constant when the main
          // plan does not use _score (match-only execution), so _score keys of the inner plan drop out
          let eff: Vec<Value> = if uses_score(&sort) {
            if isort.is_empty() { vec![json!({"field":"_score","order":"desc"})] } else { isort.clone() }
          } else {
            isort.iter().filter(|s| s["field"] != "_score").cloned().collect()
          };
          if eff.is_empty() {
            irank = bids.iter().map(|id| (*id, docord[id])).collect();
          } else {
            let mut ib = base.clone();
            ib["sort"] = json!(eff);
            ib["limit"] = json!(big);
            let ires = qx::search(&reader, &qx::request(ib.clone())).unwrap_or_else(|e| panic!("inner big: {e}: {ib}"));
            irank = ids_of(&ires).iter().enumerate().map(|(i, id)| (*id, i as u64)).collect();
          }
        }
      }
      // groups from the documents themselves
      let gval = |id: u64| -> String {
        match w.fields_of(id).get(field) {
          None | Some(Value::Null) => "GMissing".into(),
          Some(Value::String(s)) => format!("(GOne {})", tag_ids[s]),
          Some(Value::Array(a)) => {
            // repeated values count separately (["a","a"] is two values for collapse_value)
            let v: Vec<&str> = a.iter().filter_map(|x| x.as_str()).collect();
            match v.len() {
              0 => "GMissing".into(),
              1 => format!("(GOne {})", tag_ids[v[0]]),
              _ => "GMulti".into(),
            }
          }
          _ => "GMissing".into(),
        }
      };
      let hit = |i: usize| -> String {
        let id = bids[i];
        format!(
          "{{| h_id := {}; h_key := {}; h_grp := {}; h_ikey := {} |}}",
          id, i, gval(id), irank.get(&id).copied().unwrap_or(999_999)
        )
      };
      // the request with collapse
      let mut limit = 1 + rng.below(6) as usize;
      let mut cand = if rng.chance(1, 4) { big } else if rng.chance(1, 5) { limit + rng.below(4) as usize } else { 0 };
      if fixed_case {
        limit = 2;
        cand = 0;
      }
      let top_k = limit.max(cand) + 1;
      let ranked: Vec<usize> = if fast {
        let mut cnt: HashMap<usize, usize> = HashMap::new();
        (0..bids.len())
          .filter(|&i| {
            let c = cnt.entry(w.batch_of(bids[i])).or_insert(0);
            *c += 1;
            *c <= top_k
          })
          .collect()
      } else {
        (0..bids.len().min(top_k)).collect()
      };
      let mut r = base.clone();
      r["limit"] = json!(limit);
      if cand > 0 {
        r["candidate_size"] = json!(cand);
      }
      let mut collapse = json!({"field": field});
      if let Some((size, from, isort)) = &inner {
        let mut ih = json!({"sort": isort});
        if let Some(s) = size {
          ih["size"] = json!(s);
        }
        if let Some(f) = from {
          ih["from"] = json!(f);
        }
        collapse["inner_hits"] = ih;
      }
      r["collapse"] = collapse;
      std::fs::write(&progress, format!("world {wi} conf {ci} collapse {r}\n")).ok();
      let res = qx::search(&reader, &qx::request(r.clone()));
      let (oerr, total_groups, ohits): (bool, u64, Vec<(u64, Vec<u64>)>) = match &res {
        Ok(x) => (
          false,
          x.total_groups.unwrap_or(999_999),
          x.hits
            .iter()
            .map(|h| {
              (
                qx::parse_id(&h.doc_id),
                h.inner_hits.as_ref().map(|v| v.iter().map(|i| qx::parse_id(&i.doc_id)).collect()).unwrap_or_default(),
              )
            })
            .collect(),
        ),
        Err(_) => (true, 0, vec![]),
      };
      let cfg = match &inner {
        None => "None".to_string(),
        Some((size, from, _)) => format!(
          "(Some {{| i_from := {}%nat; i_size := {}; i_same := {} |}})",
          from.unwrap_or(0),
          coq::opt(size.map(|s| format!("{s}%nat"))),
          coq::b(same)
        ),
      };
      let isize_bound = inner.as_ref().and_then(|x| x.0);
      let full_l: Vec<String> = (0..bids.len()).map(|i| hit(i)).collect();
      let ranked_l: Vec<String> = ranked.iter().map(|&i| hit(i)).collect();
      let ohits_l: Vec<String> =
        ohits.iter().map(|(id, inn)| format!("{{| o_id := {}; o_inner := {} |}}", id, coq::nlist(inn))).collect();
      lits.push(format!(
        "{{| full := {}; ranked := {}; cfg := {}; isize_bound := {}; limit := {}; o_err := {}; o_total_groups := {}; o_hits := {} |}}",
        coq::list(&full_l), coq::list(&ranked_l), cfg, coq::opt(isize_bound.map(|s| s.to_string())), limit,
        coq::b(oerr), total_groups, coq::list(&ohits_l)
      ));
      let n_inner: usize = ohits.iter().map(|h| h.1.len()).sum();
      bump(&mut dist, &format!("collapse_field_{field}"), 1);
      bump(&mut dist, if fast { "fast_path" } else { "sort_path" }, 1);
      bump(&mut dist, if inner.is_some() { "with_inner_hits" } else { "without_inner_hits" }, 1);
      if inner.is_some() {
        bump(&mut dist, if same { "inner_same_sort" } else { "inner_other_sort" }, 1);
      }
      if oerr {
        bump(&mut dist, "error_responses", 1);
      }
      bump(&mut dist, "inner_hits_returned", n_inner as u64);
      bump(&mut dist, "groups_returned", ohits.len() as u64);
      if ranked.len() < bids.len() {
        bump(&mut dist, "candidates_truncated", 1);
      }
      if cand >= big {
        bump(&mut dist, "candidate_size_covers_all", 1);
      }
      meta.push(json!({"fixed_scenario": fixed_case, "request": r, "matches": bids.len(), "ranked": ranked.len(), "err": res.as_ref().err(),
        "groups": ohits.len(), "inner": n_inner, "total_groups": total_groups,
        "nt": !oerr && ohits.len() >= 2 && bids.len() > ohits.len()}));
    }
  }
  std::fs::remove_file(&progress).ok();
  let files = write_cases(&args.out, "From SL Require Import C18.Model.", "case", "check_case", &lits, 60);
  write_json(&args.out, "cases.json", &json!({"files": files, "cases": meta, "distribution": dist}));
}
