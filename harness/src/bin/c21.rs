//! C21 engine: drives the real `highlight_fragments` / `make_snippet` (directly and through
//! `IndexReader::search` with the `highlight` / `highlight_field` request options) on random
//! Unicode texts and writes (input + regex oracle, observed fragments) cases for the Coq model.
//!
//! The regex engine is an oracle for the model: this engine rebuilds the highlighter's pattern
//! (same crate, re-exported by the cfg facade), replays the `find_at` loop and the matches inside
//! every fragment window, and hands those positions to the model.  If this mirror is wrong the
//! model's output differs from the implementation's and the check reports a broken
//! correspondence; it cannot hide a malformed fragment, because the executable specification is
//! evaluated on the implementation's output alone.
use searchlite_core::api::types::{SearchRequest, StorageType};
use searchlite_core::verif::highlight::{
  highlight_fragments, make_snippet, verif_trace, HighlightOptions,
};
use searchlite_core::verif::regex_crate::{Regex, RegexBuilder};
use slv::{coq, parse_args, write_cases, write_json, Rng};
use std::collections::BTreeMap;
use std::sync::atomic::Ordering;

const ASCII: &[&str] = &[
  "rust", "search", "engine", "fast", "index", "a", "Rust", "SEARCH", "x", "go", "segment", "wal", "k",
];
const LATIN: &[&str] = &["naïve", "café", "über", "señor", "Émile", "CAFÉ", "ß", "straße", "ÿ"];
const CJK: &[&str] = &["日本", "検索", "東京", "語", "エンジン", "한국"];
const ODD: &[&str] = &["x½", "½x", "𝐚𝐛", "\u{212A}", "a²", "①"]; // non-\w edges, 4-byte word chars, Kelvin sign
const SEPS: &[&str] = &[
  " ", " ", " ", ", ", ". ", " — ", "😀", " 🎉 ", "、", "。", "\n", "é ", "👩‍👩‍👧 ", "; ", " (", ") ",
];
/// separators that look like highlight tags (only used in one text out of eight)
const TAGGY_SEPS: &[&str] = &[" * ", "<", " <em>", "</em> ", "**", " [", "] ", " «", "» "];
const TAGS: &[(&str, &str)] = &[
  ("<em>", "</em>"), ("<em>", "</em>"), ("**", "**"), ("[", "]"), ("", ""), ("«", "»"), ("<b>", "</b>"),
  ("\u{1}", "\u{2}"), ("<", ""), ("→", "←"),
];

fn word(rng: &mut Rng, odd: bool) -> String {
  let r = rng.below(100);
  let w = if odd && r < 12 {
    *rng.pick(ODD)
  } else if r < 45 {
    *rng.pick(ASCII)
  } else if r < 70 {
    *rng.pick(LATIN)
  } else {
    *rng.pick(CJK)
  };
  w.to_string()
}

fn gen_text(rng: &mut Rng, odd: bool) -> String {
  let mut s = String::new();
  // optional multi-byte padding in front so that matches sit far from the start
  match rng.below(5) {
    0 => s.push_str(&"é".repeat(rng.below(12) as usize)),
    1 => s.push_str(&"😀".repeat(rng.below(6) as usize)),
    2 => s.push_str(&"日".repeat(rng.below(8) as usize)),
    _ => {}
  }
  if !s.is_empty() && rng.chance(2, 3) {
    s.push(' ');
  }
  let long = rng.chance(1, 6);
  let taggy = rng.chance(1, 8);
  let n = 1 + rng.below(if long { 40 } else { 10 });
  for k in 0..n {
    if k > 0 {
      if taggy && rng.chance(1, 3) {
        s.push_str(*rng.pick(TAGGY_SEPS));
      } else {
        s.push_str(*rng.pick(SEPS));
      }
    }
    let w = word(rng, odd);
    s.push_str(&w);
    if odd && rng.chance(1, 10) {
      // glue another word directly (non-\w edge next to a word char)
      s.push_str(&word(rng, odd));
    }
  }
  if rng.chance(1, 5) {
    s.push_str(*rng.pick(SEPS));
  }
  s
}

/// the highlighter's pattern, rebuilt (mirror of highlight.rs)
fn build_regex(terms: &[String], phrases: &[Vec<String>]) -> Option<Regex> {
  let esc = searchlite_core::verif::regex_crate::escape;
  let mut patterns: Vec<String> = Vec::new();
  for phrase in phrases {
    if phrase.is_empty() {
      continue;
    }
    let joined = phrase.iter().map(|p| esc(p)).collect::<Vec<_>>().join(r"\W+");
    patterns.push(format!(r"\b{joined}\b"));
  }
  for t in terms {
    if t.is_empty() {
      continue;
    }
    patterns.push(format!(r"\b{}\b", esc(t)));
  }
  if patterns.is_empty() {
    return None;
  }
  RegexBuilder::new(&patterns.join("|")).case_insensitive(true).build().ok()
}

fn boundaries(text: &str) -> Vec<bool> {
  // independent of `is_char_boundary`: from char_indices
  let mut b = vec![false; text.len() + 1];
  for (i, _) in text.char_indices() {
    b[i] = true;
  }
  b[text.len()] = true;
  b
}

struct Oracle {
  ms: Vec<(usize, usize)>,
  fms: Vec<(usize, usize, Vec<(usize, usize)>)>,
  off_start: usize,
  off_end: usize,
  saturated: usize,
  clipped: usize,
  tight_end: usize,
  hyp: bool,
  a1_fail: bool,
}

fn oracle(text: &str, terms: &[String], phrases: &[Vec<String>], size: usize, nfrag: usize) -> Oracle {
  let mut o = Oracle {
    ms: vec![], fms: vec![], off_start: 0, off_end: 0, saturated: 0, clipped: 0, tight_end: 0, hyp: true,
    a1_fail: false,
  };
  if text.is_empty() {
    return o;
  }
  let Some(re) = build_regex(terms, phrases) else { return o };
  let b = boundaries(text);
  let mut offset = 0usize;
  // two more matches than the loop can use, so that the model's cut is exercised
  for k in 0..nfrag.saturating_add(2).min(64) {
    let Some(m) = re.find_at(text, offset) else { break };
    o.ms.push((m.start(), m.end()));
    offset = m.end();
    if k >= nfrag {
      continue;
    }
    if 2 * (m.end() - m.start()) > size {
      o.hyp = false;
    }
    let st0 = m.start().saturating_sub(size / 2);
    if st0 != m.start().wrapping_sub(size / 2) {
      o.saturated += 1;
    }
    let mut st = st0;
    while st < text.len() && !b[st] {
      st += 1;
    }
    if st != st0 {
      o.off_start += 1;
    }
    let en0 = usize::min(text.len(), st.saturating_add(size));
    if en0 == text.len() {
      o.clipped += 1;
    }
    let mut en = en0;
    while en > 0 && !b[en] {
      en -= 1;
    }
    if en != en0 {
      o.off_end += 1;
    }
    if en == m.end() {
      o.tight_end += 1;
    }
    let frag = if st <= en { &text[st..en] } else { "" };
    let fm: Vec<(usize, usize)> = re.find_iter(frag).map(|x| (x.start(), x.end())).collect();
    if st <= m.start() && m.end() <= en && fm.is_empty() {
      o.a1_fail = true;
    }
    o.fms.push((st, en, fm));
  }
  o
}

fn pairs(v: &[(usize, usize)]) -> String {
  let xs: Vec<String> = v.iter().map(|(a, b)| format!("({a}, {b})")).collect();
  coq::list(&xs)
}

struct Case {
  lit: String,
  meta: serde_json::Value,
}

#[allow(clippy::too_many_arguments)]
fn mk_case(
  kind: &str,
  text: &str,
  terms: &[String],
  phrases: &[Vec<String>],
  pre: &str,
  post: &str,
  size: usize,
  nfrag: usize,
  observed: &[String],
  dist: &mut BTreeMap<String, u64>,
  extra: serde_json::Value,
) -> Case {
  let o = oracle(text, terms, phrases, size, nfrag);
  let fms: Vec<String> = o
    .fms
    .iter()
    .map(|(a, b, fm)| format!("({a}, {b}, {})", pairs(fm)))
    .collect();
  let input = format!(
    "{{| text := {}; size := {}; nfrag := {}; pre := {}; post := {}; ms := {}; fms := {} |}}",
    coq::bytes(text.as_bytes()),
    size,
    nfrag,
    coq::bytes(pre.as_bytes()),
    coq::bytes(post.as_bytes()),
    pairs(&o.ms),
    coq::list(&fms)
  );
  let obs: Vec<String> = observed.iter().map(|f| coq::bytes(f.as_bytes())).collect();
  let tags_in_text = pre.is_empty()
    || post.is_empty()
    || text.as_bytes().contains(&pre.as_bytes()[0])
    || text.as_bytes().contains(&post.as_bytes()[0]);
  let mut bump = |k: &str, c: bool| {
    if c {
      *dist.entry(k.to_string()).or_insert(0) += 1;
    }
  };
  bump(&format!("kind_{kind}"), true);
  bump("with_fragments", !observed.is_empty());
  bump("no_match", o.ms.is_empty());
  bump("start_snapped_up", o.off_start > 0);
  bump("end_snapped_down", o.off_end > 0);
  bump("start_saturated_at_0", o.saturated > 0);
  bump("end_clipped_at_len", o.clipped > 0);
  bump("window_end_equals_match_end", o.tight_end > 0);
  bump("several_fragments", observed.len() > 1);
  bump("more_matches_than_number_of_fragments", o.ms.len() > nfrag);
  bump("size_hypothesis_false", !o.hyp);
  bump("tags_not_clean", tags_in_text);
  bump("known_class_1_refind_fails", o.a1_fail);
  bump("non_ascii_text", !text.is_ascii());
  bump("match_length_differs_from_term", {
    o.ms.iter().any(|(a, b)| !terms.iter().any(|t| t.len() == b - a)) && phrases.is_empty()
  });
  let nt = !observed.is_empty();
  Case {
    lit: coq::pair(&input, &coq::list(&obs)),
    meta: serde_json::json!({
      "kind": kind, "text": text, "terms": terms, "phrases": phrases, "pre_tag": pre, "post_tag": post,
      "fragment_size": size, "number_of_fragments": nfrag, "observed": observed, "nt": nt,
      "size_hypothesis": o.hyp, "extra": extra,
    }),
  }
}

fn gen_size(rng: &mut Rng, term_len: usize) -> usize {
  match rng.below(10) {
    0 => rng.below(3) as usize,                                // 0,1,2: mostly outside the hypothesis
    1..=4 => 2 * term_len + rng.below(6) as usize,              // tight: window barely contains the match
    5..=6 => 2 + rng.below(30) as usize,
    7 => 2 * term_len.saturating_sub(1) + rng.below(2) as usize, // just below the hypothesis
    8 => 40 + rng.below(100) as usize,
    _ => 160,
  }
}

fn pick_terms(rng: &mut Rng, text: &str, odd: bool) -> (Vec<String>, Vec<Vec<String>>) {
  // mostly words of the text (lower-cased as an analyzer would), sometimes absent words
  let toks: Vec<String> = text
    .split(|c: char| !c.is_alphanumeric())
    .filter(|t| !t.is_empty())
    .map(|t| t.chars().map(|c| c.to_ascii_lowercase()).collect())
    .collect();
  let mut terms = Vec::new();
  let n = 1 + rng.below(3);
  for _ in 0..n {
    if !toks.is_empty() && rng.chance(5, 6) {
      terms.push(rng.pick(&toks).clone());
    } else {
      terms.push(word(rng, odd).to_lowercase());
    }
  }
  if rng.chance(1, 15) {
    terms.push(String::new());
  }
  let mut phrases = Vec::new();
  if toks.len() >= 2 && rng.chance(1, 4) {
    let i = rng.below(toks.len() as u64 - 1) as usize;
    phrases.push(vec![toks[i].clone(), toks[i + 1].clone()]);
    if rng.chance(1, 3) {
      terms.clear();
    }
  }
  (terms, phrases)
}

fn main() {
  let args = parse_args();
  // slv::Rng::new(s) and Rng::new(s + 1) produce the same stream shifted by one draw; scramble the
  // seed so that different seeds give unrelated runs
  let mut rng = Rng::new((args.seed ^ 0x5DEECE66D).wrapping_mul(0xD6E8FEB86659FD93).rotate_left(29));
  let mut dist: BTreeMap<String, u64> = BTreeMap::new();
  let mut cases: Vec<Case> = Vec::new();
  let n_direct = args.n;
  let n_api_requests = (args.n / 6).max(4);

  // ---- stream A: the kernel itself (highlight_fragments, make_snippet) ------------------------
  // fixed regression inputs first: the minimal inputs of the char-boundary defect
  for (text, term, size) in [
    ("éééé rust", "rust", 8usize),
    ("éééé rust", "rust", 9),
    ("日本語日本語 検索 エンジン", "検索", 12),
    ("日本語日本語 検索 エンジン", "検索", 13),
    ("😀😀 go", "go", 5),
    ("x½ x½a", "x½", 6),      // known-finding class 1: \\b fails at the fragment end next to a non-\\w character
    ("𝐚½x ½x", "½x", 6),    // class 1 at the fragment start (the window start is snapped up to the match)
  ] {
    let terms = vec![term.to_string()];
    let out = highlight_fragments(
      text,
      &terms,
      &[],
      HighlightOptions { pre_tag: "<em>", post_tag: "</em>", fragment_size: size, number_of_fragments: 2 },
    );
    cases.push(mk_case("kernel", text, &terms, &[], "<em>", "</em>", size, 2, &out, &mut dist,
      serde_json::json!({"fixed": true})));
  }
  for k in 0..n_direct {
    let odd = k % 25 == 24; // a thin stream with non-\w-edged terms (known-finding class 1 lives here)
    let text = if rng.chance(1, 40) { String::new() } else { gen_text(&mut rng, odd) };
    let (terms, phrases) = pick_terms(&mut rng, &text, odd);
    let tl = terms.first().map(|t| t.len()).unwrap_or(4).max(1);
    if rng.chance(1, 8) {
      let out: Vec<String> = make_snippet(&text, &terms, &phrases).into_iter().collect();
      cases.push(mk_case("snippet", &text, &terms, &phrases, "**", "**", 120, 1, &out, &mut dist,
        serde_json::json!({})));
      continue;
    }
    let size = if odd && rng.chance(1, 2) { 2 * tl } else { gen_size(&mut rng, tl) };
    let nfrag = *rng.pick(&[0usize, 1, 1, 2, 3, 5]);
    let (pre, post) = *rng.pick(TAGS);
    let out = highlight_fragments(
      &text,
      &terms,
      &phrases,
      HighlightOptions { pre_tag: pre, post_tag: post, fragment_size: size, number_of_fragments: nfrag },
    );
    cases.push(mk_case("kernel", &text, &terms, &phrases, pre, post, size, nfrag, &out, &mut dist,
      serde_json::json!({})));
  }

  // ---- stream B: through IndexReader::search ---------------------------------------------------
  let dir = slv::fixtures::scratch();
  let schema: searchlite_core::Schema = serde_json::from_value(serde_json::json!({
    "doc_id_field": "_id",
    "text_fields": [
      {"name":"body","analyzer":"default","stored":true,"indexed":true},
      {"name":"title","analyzer":"default","stored":true,"indexed":true}],
    "keyword_fields": [{"name":"tag","stored":true,"indexed":true,"fast":true}],
    "numeric_fields": [], "nested_fields": [], "vector_fields": []
  }))
  .expect("schema");
  let index = searchlite_core::Index::create(
    dir.path(),
    schema,
    slv::fixtures::opts(dir.path(), StorageType::Filesystem),
  )
  .expect("create index");
  let ndocs = 8 + rng.below(8);
  let mut bodies: Vec<String> = Vec::new();
  {
    let mut w = index.writer().expect("writer");
    for d in 0..ndocs {
      let body = gen_text(&mut rng, d % 7 == 6);
      let title = gen_text(&mut rng, false);
      let body = if d == 1 { "x½ x½a".to_string() } else { body };
      w.add_document(&slv::fixtures::doc(serde_json::json!({
        "_id": format!("d{d}"), "body": body, "title": title, "tag": *rng.pick(&["x", "y"][..])
      })))
      .expect("add");
      bodies.push(body);
      if d == ndocs / 2 {
        w.commit().expect("commit");
      }
    }
    w.commit().expect("commit");
  }
  let reader = index.reader().expect("reader");
  let mut api_hits = 0u64;
  let mut api_errors = 0u64;
  let mut api_panics = 0u64;
  std::panic::set_hook(Box::new(|info| {
    let msg = info.payload().downcast_ref::<String>().cloned().unwrap_or_default();
    if msg.starts_with("engine bug") {
      eprintln!("{msg}");
    }
  }));
  for rq in 0..n_api_requests {
    let src = rng.pick(&bodies).clone();
    let toks: Vec<String> = src
      .split(|c: char| !c.is_alphanumeric())
      .filter(|t| !t.is_empty())
      .map(|t| t.to_string())
      .collect();
    if toks.is_empty() {
      continue;
    }
    let w1 = rng.pick(&toks).clone();
    let w2 = rng.pick(&toks).clone();
    let query = match rng.below(6) {
      0 => serde_json::json!(w1),
      1 => serde_json::json!(format!("{w1} {w2}")),
      2 => serde_json::json!({"type":"term","field":"body","value": w1.to_lowercase()}),
      3 => serde_json::json!({"type":"phrase","field":"body","terms":[w1, w2]}),
      4 => {
        let p: String = w1.chars().take(2).collect();
        serde_json::json!({"type":"prefix","field":"body","value": p.to_lowercase()})
      }
      _ => serde_json::json!({"type":"bool","should":[
        {"type":"term","field":"body","value": w1.to_lowercase()},
        {"type":"term","field":"title","value": w2.to_lowercase()}]}),
    };
    let tl = w1.len().max(1);
    let mut fields = serde_json::Map::new();
    for f in ["body", "title"] {
      if f == "body" || rng.chance(1, 2) {
        let (pre, post) = *rng.pick(TAGS);
        let mut spec = serde_json::Map::new();
        if rng.chance(3, 4) {
          spec.insert("pre_tag".into(), serde_json::json!(pre));
          spec.insert("post_tag".into(), serde_json::json!(post));
        }
        if rng.chance(5, 6) {
          spec.insert("fragment_size".into(), serde_json::json!(gen_size(&mut rng, tl)));
        }
        if rng.chance(3, 4) {
          spec.insert("number_of_fragments".into(), serde_json::json!(*rng.pick(&[0usize, 1, 2, 3])));
        }
        fields.insert(f.to_string(), serde_json::Value::Object(spec));
      }
    }
    let mut req = serde_json::json!({
      "query": query, "limit": 10, "return_stored": true, "highlight": {"fields": fields}
    });
    if rng.chance(1, 2) {
      req["highlight_field"] = serde_json::json!(*rng.pick(&["body", "title"][..]));
    }
    if rng.chance(1, 4) {
      req["fields"] = serde_json::json!(["body", "title"]);
    }
    if rq == 0 {
      // fixed request: the public-API witness of known-finding class 1 (document d1 = "x½ x½a")
      req = serde_json::json!({
        "query": {"type":"term","field":"body","value":"x½"}, "limit": 10, "return_stored": true,
        "highlight": {"fields": {"body": {"fragment_size": 6, "number_of_fragments": 1}}}
      });
    }
    let request: SearchRequest = match serde_json::from_value(req.clone()) {
      Ok(r) => r,
      Err(e) => panic!("engine bug: request does not deserialize: {e}: {req}"),
    };
    verif_trace::CALLS.lock().unwrap().clear();
    verif_trace::ENABLED.store(true, Ordering::SeqCst);
    // a panic here is C16's business (e.g. the debug assertion on duplicate query terms), not C21's:
    // the request is skipped and counted
    let res = std::panic::catch_unwind(std::panic::AssertUnwindSafe(|| reader.search(&request)));
    verif_trace::ENABLED.store(false, Ordering::SeqCst);
    let res = match res {
      Ok(r) => r,
      Err(_) => {
        api_panics += 1;
        verif_trace::CALLS.lock().map(|mut c| c.clear()).ok();
        continue;
      }
    };
    let calls: Vec<verif_trace::Call> = verif_trace::CALLS.lock().unwrap().drain(..).collect();
    let res = match res {
      Ok(r) => r,
      Err(_) => {
        api_errors += 1;
        continue;
      }
    };
    // every traced kernel call belongs to one (hit, field): find it by the stored text + tags; the
    // case carries the options of the REQUEST (what the caller asked for), not those the kernel received
    let mut used = vec![false; calls.len()];
    for hit in res.hits.iter() {
      api_hits += 1;
      let stored = hit.fields.clone().unwrap_or(serde_json::Value::Null);
      // legacy snippet (materialize_hit computes it before the highlights)
      if let Some(field) = request.highlight_field.as_ref() {
        if let Some(text) = stored.get(field).and_then(|v| v.as_str()) {
          let observed: Vec<String> = hit.snippet.clone().into_iter().collect();
          let idx = (0..calls.len()).find(|&c| {
            !used[c]
              && calls[c].text == text
              && calls[c].pre_tag == "**"
              && calls[c].post_tag == "**"
              && calls[c].fragment_size == 120
              && calls[c].number_of_fragments == 1
          });
          let Some(c) = idx else {
            panic!("engine bug: no traced snippet call for hit {} field {field}", hit.doc_id)
          };
          used[c] = true;
          cases.push(mk_case("api_snippet", text, &calls[c].terms, &calls[c].phrases, "**", "**", 120, 1,
            &observed, &mut dist, serde_json::json!({"request": req, "doc_id": hit.doc_id, "field": field})));
        }
      }
      // highlights
      if let Some(cfg) = request.highlight.as_ref() {
        for (field, fo) in cfg.fields.iter() {
          let Some(text) = stored.get(field).and_then(|v| v.as_str()) else { continue };
          let observed: Vec<String> =
            hit.highlights.as_ref().and_then(|m| m.get(field)).cloned().unwrap_or_default();
          let idx = (0..calls.len()).find(|&c| {
            !used[c]
              && calls[c].text == text
              && calls[c].pre_tag == fo.pre_tag
              && calls[c].post_tag == fo.post_tag
          });
          let Some(c) = idx else {
            panic!("engine bug: no traced highlight call for hit {} field {field}", hit.doc_id)
          };
          used[c] = true;
          cases.push(mk_case("api_highlight", text, &calls[c].terms, &calls[c].phrases, &fo.pre_tag,
            &fo.post_tag, fo.fragment_size, fo.number_of_fragments, &observed, &mut dist,
            serde_json::json!({"request": req, "doc_id": hit.doc_id, "field": field})));
        }
      }
    }
  }
  dist.insert("api_requests".into(), n_api_requests as u64);
  dist.insert("api_hits".into(), api_hits);
  dist.insert("api_request_errors".into(), api_errors);
  dist.insert("api_request_panics_skipped_see_C16".into(), api_panics);

  let lits: Vec<String> = cases.iter().map(|c| c.lit.clone()).collect();
  let metas: Vec<serde_json::Value> = cases.iter().map(|c| c.meta.clone()).collect();
  let files = write_cases(
    &args.out,
    "From SL Require Import C21.Model.",
    "hl_in * list (list N)",
    "check_case",
    &lits,
    150,
  );
  write_json(
    &args.out,
    "cases.json",
    &serde_json::json!({"files": files, "cases": metas, "distribution": dist}),
  );
}
