//! C04 engine: random histories of add/delete/commit/rollback/compact/reopen over 1-3 writer
//! handles on the real index (filesystem or in-memory storage); after every call a fresh reader's
//! contents are recorded.  Ids are "a".."f" (string order = interned order), `n` carries the version.
use searchlite_core::api::types::{IndexOptions, StorageType};
use searchlite_core::storage::{InMemoryStorage, Storage};
use searchlite_core::Index;
use slv::{coq, parse_args, write_cases, write_json, Rng};
use std::collections::BTreeMap;
use std::sync::Arc;

use slv::hist::{apply, gen_history, Api, Sys, IDS};

fn main() {
  let args = parse_args();
  let mut rng = Rng::new(args.seed);
  let thorough = args.tier == "thorough";
  let mut cases = Vec::new();
  let mut meta = Vec::new();
  let (mut n_multi, mut n_mem, mut n_calls, mut n_err) = (0usize, 0usize, 0usize, 0usize);
  let mut kinds: BTreeMap<&'static str, usize> = BTreeMap::new();
  for case_no in 0..args.n {
    let in_mem = rng.chance(1, 3);
    // in-memory log files keep a private write position per handle, so simultaneously live
    // handles are generated on the filesystem only (see DESIGN.md C04)
    let max_live = if in_mem { 1 } else { 1 + rng.below(3) as usize };
    let len = if thorough { 20 + rng.below(280) as usize } else { 10 + rng.below(50) as usize };
    let hist = gen_history(&mut rng, len, max_live);
    let dir = slv::fixtures::scratch();
    let storage = if in_mem { StorageType::InMemory } else { StorageType::Filesystem };
    let mut opts = slv::fixtures::opts(dir.path(), storage);
    let positions = rng.chance(2, 3);
    opts.enable_positions = positions;
    let mem: Option<Arc<dyn Storage>> =
      if in_mem { Some(Arc::new(InMemoryStorage::new(dir.path().to_path_buf()))) } else { None };
    let idx = match &mem {
      Some(st) => Index::create_with_storage(dir.path(), slv::fixtures::basic_schema(), opts.clone(), st.clone()),
      None => Index::create(dir.path(), slv::fixtures::basic_schema(), opts.clone()),
    }
    .expect("create");
    let mut sys = Sys { idx: Some(idx), writers: BTreeMap::new(), opts, mem };
    let mut obs: Vec<String> = Vec::new();
    let mut obs_json = Vec::new();
    let mut errs = Vec::new();
    for a in &hist {
      n_calls += 1;
      *kinds
        .entry(match a {
          Api::NewWriter(_) => "new_writer",
          Api::Add(..) => "add",
          Api::Del(..) => "delete",
          Api::Commit(_) => "commit",
          Api::Rollback(_) => "rollback",
          Api::Drop(_) => "drop",
          Api::Compact => "compact",
          Api::Reopen => "reopen",
        })
        .or_insert(0) += 1;
      if let Err(e) = apply(&mut sys, a) {
        n_err += 1;
        errs.push(format!("{}: {e}", a.coq()));
      }
      let c = slv::fixtures::contents(sys.idx.as_ref().unwrap()).expect("search");
      let lits: Vec<String> = c
        .iter()
        .map(|(id, v)| {
          let i = IDS.iter().position(|x| x == id).map(|x| x as u64).unwrap_or(999);
          coq::pair(&i.to_string(), &(if *v < 0 { 999_999 } else { *v as u64 }).to_string())
        })
        .collect();
      obs.push(coq::list(&lits));
      obs_json.push(c);
    }
    let multi = max_live > 1;
    if multi {
      n_multi += 1;
    }
    if in_mem {
      n_mem += 1;
    }
    let hl: Vec<String> = hist.iter().map(|a| a.coq()).collect();
    cases.push(coq::pair(&coq::list(&hl), &coq::list(&obs)));
    meta.push(serde_json::json!({
      "case": case_no, "storage": if in_mem {"memory"} else {"fs"}, "positions": positions, "max_live_handles": max_live,
      "history": hl, "final_contents": obs_json.last(), "errors": errs,
      "nt": hist.iter().filter(|a| matches!(a, Api::Commit(_))).count() >= 2,
    }));
  }
  let files = write_cases(&args.out, "From SL Require Import Core.Model C04.Model.", "case04", "check_case", &cases, 40);
  write_json(
    &args.out,
    "cases.json",
    &serde_json::json!({"files": files, "cases": meta,
      "distribution": {"histories": args.n, "calls": n_calls, "multi_handle_histories": n_multi,
                        "in_memory_histories": n_mem, "calls_returning_err": n_err, "call_kinds": kinds}}),
  );
}
