//! Reusable WAL codec engine (model: coq/theories/Wal/Model.v, `check_codec_case`).
//! CLI: c02codec --seed N --n N --out DIR [--tier quick|thorough]
//! Writes cases_*.v (type `codec_case`, checker `check_codec_case`) and cases.json.
use slv::{parse_args, walcodec, write_cases, write_json, Rng};

fn main() {
  let args = parse_args();
  std::panic::set_hook(Box::new(|_| {}));
  let mut rng = Rng::new(args.seed);
  let dir = slv::fixtures::scratch();
  let cc = walcodec::generate(&mut rng, args.n, dir.path());
  let files = write_cases(
    &args.out,
    walcodec::HEADER,
    walcodec::CASE_TYPE,
    "check_codec_case",
    &cc.cases,
    40,
  );
  write_json(
    &args.out,
    "cases.json",
    &serde_json::json!({"files": files, "cases": cc.meta, "distribution": cc.distribution}),
  );
}
