//! C17 engine: corrupts every file of small generated on-disk indexes (single-byte xor with
//! several masks, every truncation length; sampled in the quick tier), then runs the real
//! `Index::open` + `reader()` + several searches under `catch_unwind` and classifies the outcome
//! {error, same results, different results, panic}.  For `wal.log` the observation is the real
//! `Wal::replay` / `Wal::last_pending_ops` (and `Index::writer()` must not panic).
//! Also emits the WAL codec cases of `slv::walcodec` (model Wal/Model.v).
//!
//! CLI: c17 --seed N --n N --out DIR [--tier quick|thorough]
//!   --n = number of corruption probes per index in the quick tier (thorough: exhaustive).
use searchlite_core::api::types::{SearchRequest, StorageType};
use searchlite_core::storage::FsStorage;
use searchlite_core::wal::Wal;
use searchlite_core::Index;
use slv::walcodec::{self, Rec};
use slv::{coq, parse_args, write_json, Rng};
use std::collections::BTreeMap;
use std::path::{Path, PathBuf};

const MASKS: [u8; 3] = [0x01, 0x80, 0xFF];

fn build_index(rng: &mut Rng, dir: &Path, variant: u64) {
  let schema = slv::fixtures::basic_schema();
  let idx = Index::create(dir, schema, slv::fixtures::opts(dir, StorageType::Filesystem)).expect("create");
  let words = ["rust", "search", "engine", "fast", "naïve", "index", "wal", "hello", "日本"];
  let tags = ["x", "y", "z"];
  let mut next = 0u64;
  let mut mk = |rng: &mut Rng| {
    let mut body = String::new();
    for _ in 0..(1 + rng.below(5)) {
      body.push_str(*rng.pick(&words[..]));
      body.push(' ');
    }
    if next == 0 {
      body.push_str("rust");
    }
    let d = serde_json::json!({"_id": format!("d{next}"), "body": body,
      "tag": *rng.pick(&tags[..]), "n": rng.range(-5, 40)});
    next += 1;
    slv::fixtures::doc(d)
  };
  {
    let mut w = idx.writer().expect("writer");
    for _ in 0..(3 + rng.below(3)) {
      w.add_document(&mk(rng)).expect("add");
    }
    w.commit().expect("commit 1");
  }
  {
    let mut w = idx.writer().expect("writer");
    for _ in 0..(1 + rng.below(3)) {
      w.add_document(&mk(rng)).expect("add");
    }
    w.delete_document("d1").expect("delete");
    w.commit().expect("commit 2");
  }
  if variant % 2 == 1 {
    let mut w = idx.writer().expect("writer");
    w.add_document(&mk(rng)).expect("add");
    w.delete_document("d0").expect("delete");
    w.commit().expect("commit 3");
  }
  {
    // uncommitted operations: they stay in wal.log (the writer syncs the log when dropped)
    let mut w = idx.writer().expect("writer");
    w.add_document(&mk(rng)).expect("add");
    w.delete_document("d2").expect("delete");
    if rng.chance(1, 2) {
      w.add_document(&mk(rng)).expect("add");
    }
    drop(w);
  }
  drop(idx);
}

fn requests() -> Vec<SearchRequest> {
  let reqs = [
    serde_json::json!({"query": {"type":"match_all"}, "limit": 100, "return_stored": true, "highlight_field": null}),
    serde_json::json!({"query": {"type":"term","field":"body","value":"rust"}, "limit": 100, "return_stored": true, "highlight_field": null}),
    serde_json::json!({"query": {"type":"match_all"}, "filter": {"KeywordEq": {"field":"tag","value":"x"}}, "limit": 100, "return_stored": true, "highlight_field": null}),
    serde_json::json!({"query": {"type":"match_all"}, "filter": {"I64Range": {"field":"n","min":0,"max":20}}, "sort":[{"field":"n","order":"asc"}], "limit": 100, "return_stored": false, "highlight_field": null}),
    serde_json::json!({"query": "search engine", "limit": 100, "return_stored": false, "highlight_field": null}),
  ];
  reqs.iter().map(|r| serde_json::from_value(r.clone()).expect("search request")).collect()
}

#[derive(PartialEq, Debug, Clone)]
enum Probe {
  Err(String),
  Results(serde_json::Value),
  Panic,
}

fn canon(v: serde_json::Value) -> serde_json::Value {
  // hits sorted by doc id (ties in score may come in hash order)
  let mut v = v;
  if let Some(h) = v.get_mut("hits").and_then(|h| h.as_array_mut()) {
    h.sort_by(|a, b| a["doc_id"].as_str().cmp(&b["doc_id"].as_str()));
  }
  v
}

fn probe(dir: &Path, reqs: &[SearchRequest]) -> Probe {
  let mut opts = slv::fixtures::opts(dir, StorageType::Filesystem);
  opts.create_if_missing = false;
  let r = std::panic::catch_unwind(std::panic::AssertUnwindSafe(|| -> anyhow::Result<serde_json::Value> {
    let idx = Index::open(opts)?;
    let reader = idx.reader()?;
    let mut out = Vec::new();
    for q in reqs {
      let res = reader.search(q)?;
      out.push(canon(serde_json::to_value(&res)?));
    }
    Ok(serde_json::Value::Array(out))
  }));
  match r {
    Ok(Ok(v)) => Probe::Results(v),
    Ok(Err(e)) => Probe::Err(format!("{e:#}").chars().take(160).collect()),
    Err(_) => Probe::Panic,
  }
}

fn writer_panics(dir: &Path) -> bool {
  let mut opts = slv::fixtures::opts(dir, StorageType::Filesystem);
  opts.create_if_missing = false;
  std::panic::catch_unwind(std::panic::AssertUnwindSafe(|| {
    if let Ok(idx) = Index::open(opts) {
      let w = idx.writer();
      // do not let Drop append/sync anything surprising: a fresh writer with replayed ops only
      drop(w);
    }
  }))
  .is_err()
}

fn class_of(name: &str) -> u8 {
  if name == "MANIFEST.json" {
    0
  } else if name.ends_with(".meta") {
    1
  } else if name.ends_with(".terms") {
    2
  } else if name.ends_with(".post") {
    3
  } else if name.ends_with(".docs") {
    4
  } else if name.ends_with(".fast") {
    5
  } else if name == "wal.log" {
    6
  } else {
    9
  }
}

struct FileInfo {
  path: PathBuf,
  name: String,
  class: u8,
  bytes: Vec<u8>,
  sum: u32,
  table_idx: usize,
}

fn main() {
  let args = parse_args();
  std::panic::set_hook(Box::new(|_| {}));
  let thorough = args.tier == "thorough";
  let mut rng = Rng::new(args.seed);
  let reqs = requests();
  let n_indexes = 2;
  let mut table: Vec<Vec<u8>> = Vec::new();
  let mut cases: Vec<String> = Vec::new();
  let mut meta: Vec<serde_json::Value> = Vec::new();
  let mut dist: BTreeMap<String, u64> = BTreeMap::new();
  let progress = args.out.join("progress.txt");

  for ix in 0..n_indexes {
    let dir = slv::fixtures::scratch();
    build_index(&mut rng, dir.path(), ix as u64);
    let base = probe(dir.path(), &reqs);
    let base_v = match &base {
      Probe::Results(v) => v.clone(),
      other => panic!("baseline index does not open: {other:?}"),
    };
    assert_eq!(probe(dir.path(), &reqs), base, "baseline results are not deterministic");
    let manifest: serde_json::Value =
      serde_json::from_slice(&std::fs::read(dir.path().join("MANIFEST.json")).unwrap()).unwrap();
    // recorded checksum of every segment file, by file name
    let mut sums: BTreeMap<String, u32> = BTreeMap::new();
    for seg in manifest["segments"].as_array().unwrap() {
      for (key, label) in [("meta", "meta"), ("terms", "terms"), ("postings", "postings"), ("docstore", "docstore"), ("fast", "fast")] {
        let p = seg["paths"][key].as_str().unwrap();
        let fname = Path::new(p).file_name().unwrap().to_string_lossy().to_string();
        let s = seg["checksums"][label].as_u64().expect("checksum recorded") as u32;
        sums.insert(fname, s);
      }
    }
    let mut files: Vec<FileInfo> = Vec::new();
    let mut names: Vec<String> = std::fs::read_dir(dir.path())
      .unwrap()
      .map(|e| e.unwrap().file_name().to_string_lossy().to_string())
      .collect();
    names.sort();
    for name in names {
      let class = class_of(&name);
      if class == 9 {
        continue;
      }
      let path = dir.path().join(&name);
      let bytes = std::fs::read(&path).unwrap();
      let sum = sums.get(&name).copied().unwrap_or(0);
      table.push(bytes.clone());
      files.push(FileInfo { path, name, class, bytes, sum, table_idx: table.len() - 1 });
    }
    let wal_path = dir.path().join("wal.log");
    let storage = FsStorage::new(dir.path().to_path_buf());
    let wal_orig: Vec<Rec> =
      Wal::replay(&storage, &wal_path).expect("replay").iter().map(walcodec::entry_to_rec).collect();
    assert!(wal_orig.len() >= 2, "wal.log should hold the uncommitted operations");

    // the probes: (file, kind, pos, mask)
    let mut probes: Vec<(usize, u8, usize, u8)> = Vec::new();
    for (fi, f) in files.iter().enumerate() {
      for pos in 0..f.bytes.len() {
        for m in MASKS {
          probes.push((fi, 0, pos, m));
        }
      }
      for len in 0..f.bytes.len() {
        probes.push((fi, 1, len, 0));
      }
    }
    if !thorough || ix > 0 {
      // sample: every file gets its share, positions uniform
      // (thorough: index 0 is swept exhaustively, the other index gets 6000 sampled probes)
      let want = if thorough { 6000 } else { args.n.max(50) };
      let mut picked: Vec<(usize, u8, usize, u8)> = Vec::new();
      // MANIFEST.json is the largest file and the only one without a checksum: triple share
      let shares: Vec<usize> = files.iter().map(|f| if f.class == 0 { 3 } else { 1 }).collect();
      let total_shares: usize = shares.iter().sum::<usize>().max(1);
      for fi in 0..files.len() {
        let mine: Vec<&(usize, u8, usize, u8)> = probes.iter().filter(|p| p.0 == fi).collect();
        let per_file = want * shares[fi] / total_shares;
        for _ in 0..per_file.min(mine.len()) {
          picked.push(**rng.pick(&mine[..]));
        }
      }
      // headers and trailers (counts, lengths, magic numbers, trailing checksums) are where a
      // format keeps what its inner checks do not cover: every file gets flips in its first and
      // last 12 bytes whatever the sample says
      for (fi, f) in files.iter().enumerate() {
        let n = f.bytes.len();
        let edge: Vec<usize> = (0..n.min(12)).chain(n.saturating_sub(12)..n).collect();
        for pos in edge {
          for _ in 0..2 {
            picked.push((fi, 0, pos, *rng.pick(&MASKS[..])));
          }
        }
      }
      picked.sort();
      picked.dedup();
      probes = picked;
    }

    for (pi, &(fi, kind, pos, mask)) in probes.iter().enumerate() {
      let f = &files[fi];
      let mut damaged = f.bytes.clone();
      if kind == 0 {
        damaged[pos] ^= mask;
      } else {
        damaged.truncate(pos);
      }
      std::fs::write(&progress, format!("index {ix} file {} kind {kind} pos {pos} mask {mask}", f.name)).ok();
      std::fs::write(&f.path, &damaged).unwrap();
      let kname = if kind == 0 { "flip" } else { "trunc" };
      let (obs, wal_obs, detail): (u8, Option<walcodec::Observed>, String) = if f.class == 6 {
        let mut o = walcodec::observe(dir.path(), &f.path);
        if writer_panics(dir.path()) {
          o.panic = true;
        }
        // the reader must not care about the log at all
        let p = probe(dir.path(), &reqs);
        let cls = match &p {
          Probe::Results(v) if *v == base_v => 1,
          Probe::Results(_) => 2,
          Probe::Err(_) => 0,
          Probe::Panic => 3,
        };
        (cls, Some(o), String::new())
      } else {
        match probe(dir.path(), &reqs) {
          Probe::Err(e) => (0, None, e),
          Probe::Results(v) => {
            if v == base_v {
              (1, None, String::new())
            } else {
              (2, None, String::new())
            }
          }
          Probe::Panic => (3, None, String::new()),
        }
      };
      std::fs::write(&f.path, &f.bytes).unwrap();
      let oname = ["error", "same", "different", "panic"][obs as usize];
      *dist.entry(format!("class{}_{}_{}", f.class, kname, oname)).or_insert(0) += 1;
      let (wp, we, wpend) = match &wal_obs {
        Some(o) => (o.panic, o.entries.clone(), o.pending.clone()),
        None => (false, vec![], vec![]),
      };
      if f.class == 6 {
        *dist.entry(format!("wal_recovered_{}_of_{}", we.len(), wal_orig.len())).or_insert(0) += 1;
      }
      cases.push(format!(
        "CCorrupt {{| k_index := {ix}; k_file := {}; k_class := {}; k_kind := {kind}; k_pos := {pos}; k_mask := {mask}; k_sum := {}; k_obs := {obs}; k_wal_panic := {}; k_wal_entries := {}; k_wal_pending := {}; k_wal_orig := {} |}}",
        f.table_idx, f.class, f.sum, coq::b(wp), walcodec::recs_lit(&we), walcodec::recs_lit(&wpend),
        if f.class == 6 { walcodec::recs_lit(&wal_orig) } else { "[]".to_string() }
      ));
      let mut m = serde_json::json!({"index": ix, "file": f.name, "class": f.class, "kind": kname,
        "pos": pos, "mask": mask, "file_len": f.bytes.len(), "obs": oname, "nt": true, "probe": pi});
      if !detail.is_empty() && (obs != 0 || pi % 97 == 0) {
        m["detail"] = serde_json::json!(detail);
      }
      if f.class == 6 {
        m["wal_recovered"] = serde_json::json!(we.len());
        m["wal_panic"] = serde_json::json!(wp);
      }
      if f.class == 0 && obs == 2 {
        // where in the manifest: a short excerpt around the byte
        let lo = pos.saturating_sub(24);
        let hi = (pos + 8).min(f.bytes.len());
        m["excerpt"] = serde_json::json!(String::from_utf8_lossy(&f.bytes[lo..hi]).to_string());
      }
      meta.push(m);
    }
    // the intact files must still give the baseline (restoration check)
    assert_eq!(probe(dir.path(), &reqs), base, "restored index differs from the baseline");
  }

  // WAL codec cases (kind 0 / kind 1 of Wal/Model.v)
  let ncodec = if thorough { 240 } else { 60 };
  let dir = slv::fixtures::scratch();
  let cc = walcodec::generate(&mut rng, ncodec, dir.path());
  for (c, m) in cc.cases.iter().zip(cc.meta.iter()) {
    cases.push(format!("CCodec {c}"));
    meta.push(m.clone());
  }
  for (k, v) in cc.distribution {
    dist.insert(format!("codec_{k}"), v);
  }

  // the table of intact files goes into the header of every shard
  let mut header = String::from("From SL Require Import Base.Bytes Base.Varint Wal.Model C17.Model.\nImport ListNotations.\nOpen Scope N_scope.\n");
  header.push_str("Definition files : list (list N) := [\n");
  let t: Vec<String> = table.iter().map(|b| coq::bytes(b)).collect();
  header.push_str(&t.join(";\n"));
  header.push_str("\n].\n");
  let shard = (cases.len() / 8).max(60) + 1;
  let files = slv::write_cases(&args.out, &header, "c17_case", "(check_case files)", &cases, shard);
  write_json(
    &args.out,
    "cases.json",
    &serde_json::json!({"files": files, "cases": meta, "distribution": dist}),
  );
}
