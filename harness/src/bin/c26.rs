//! C26 engine: drives the real `searchlite_search` with canary-surrounded buffers of every
//! capacity and with null pointers, and writes (input, observation) cases for the Coq model.
use slv::{coq, parse_args, write_cases, write_json, Rng};
use std::ffi::CString;
use std::os::raw::c_char;

use searchlite_ffi::{
  searchlite_add_json, searchlite_commit, searchlite_index_close, searchlite_index_open,
  searchlite_search, IndexHandle,
};

const CANARY: u8 = 0xAA;

struct Call {
  query: String,
  limit: usize,
  cursor: Option<String>,
  aggs: Option<(String, usize)>, // text, aggs_len passed
}

unsafe fn call(
  h: *mut IndexHandle,
  c: &Call,
  cap: usize,
  slack: usize,
  null_handle: bool,
  null_query: bool,
  null_out: bool,
) -> (usize, Vec<u8>) {
  let mut buf = vec![CANARY; cap + slack];
  let q = CString::new(c.query.clone()).unwrap();
  let cur = c.cursor.as_ref().map(|s| CString::new(s.clone()).unwrap());
  let aggs = c.aggs.as_ref().map(|(s, _)| CString::new(s.clone()).unwrap());
  let ret = searchlite_search(
    if null_handle { std::ptr::null_mut() } else { h },
    if null_query { std::ptr::null() } else { q.as_ptr() },
    c.limit,
    cur.as_ref().map(|c| c.as_ptr()).unwrap_or(std::ptr::null()),
    aggs.as_ref().map(|c| c.as_ptr()).unwrap_or(std::ptr::null()),
    c.aggs.as_ref().map(|(_, l)| *l).unwrap_or(0),
    if null_out { std::ptr::null_mut() } else { buf.as_mut_ptr() as *mut c_char },
    cap,
  );
  (ret, buf)
}

fn main() {
  let args = parse_args();
  let mut rng = Rng::new(args.seed);
  let thorough = args.tier == "thorough";
  let dir = slv::fixtures::scratch();
  let path = CString::new(dir.path().to_string_lossy().to_string()).unwrap();
  {
    use searchlite_core::api::types::StorageType;
    searchlite_core::Index::create(
      dir.path(),
      slv::fixtures::basic_schema(),
      slv::fixtures::opts(dir.path(), StorageType::Filesystem),
    )
    .expect("create index");
  }
  let h = unsafe { searchlite_index_open(path.as_ptr(), false) };
  assert!(!h.is_null(), "index open");
  let words = ["rust", "search", "engine", "fast", "naïve", "日本", "index", "wal", "hello"];
  let ndocs = 3 + rng.below(6);
  for i in 0..ndocs {
    let mut body = String::new();
    for _ in 0..(1 + rng.below(6)) {
      body.push_str(*rng.pick(&words[..]));
      body.push(' ');
    }
    // ids and tags with multi-byte characters: they appear in every response (hit ids, terms
    // buckets), so truncating capacities fall inside characters, not only between them
    let id = match i % 3 {
      0 => format!("d{i}"),
      1 => format!("dé{i}ü"),
      _ => format!("日本{i}😀"),
    };
    let d = serde_json::json!({"_id": id, "body": body, "tag": *rng.pick(&["x", "ÿ", "日本"][..]), "n": rng.below(10)});
    let c = CString::new(d.to_string()).unwrap();
    let r = unsafe { searchlite_add_json(h, c.as_ptr(), c.as_bytes().len()) };
    assert!(r >= 0, "add_json {r}");
  }
  assert_eq!(unsafe { searchlite_commit(h) }, 0);

  // call shapes: string queries, JSON query nodes, cursors (valid / garbage), aggs (valid / invalid / cut)
  let mut calls: Vec<Call> = Vec::new();
  let ncalls = if thorough { 10 } else { 8 };
  for _ in 0..ncalls {
    let q = match rng.below(4) {
      0 => rng.pick(&words).to_string(),
      1 => {
        // two different words: the same term under two scoring leaves trips a debug assertion in
        // search_segment (known finding C16/1), which aborts the process across the C boundary
        let a = rng.below(words.len() as u64) as usize;
        let b = (a + 1 + rng.below(words.len() as u64 - 1) as usize) % words.len();
        format!("{} {}", words[a], words[b])
      }
      2 => serde_json::json!({"type":"match_all"}).to_string(),
      _ => serde_json::json!({"type":"term","field":"body","value": rng.pick(&words)}).to_string(),
    };
    let cursor = match rng.below(12) {
      0 => Some("zz".to_string()),
      1 => Some("00".repeat(21)),
      _ => None,
    };
    let good_aggs = r#"{"c":{"type":"terms","field":"tag"},"s":{"type":"stats","field":"n"}}"#;
    let aggs = match rng.below(12) {
      0 => Some(("not json".to_string(), 8)),
      1 => Some((good_aggs.to_string(), 5)), // aggs_len shorter than the text: parse error expected
      2..=5 => Some((good_aggs.to_string(), good_aggs.len())),
      _ => None,
    };
    calls.push(Call { query: q, limit: 1 + rng.below(5) as usize, cursor, aggs });
  }

  let mut cases: Vec<String> = Vec::new();
  let mut meta: Vec<serde_json::Value> = Vec::new();
  let mut n_err = 0usize;
  let mut n_trunc = 0usize;
  let mut n_full = 0usize;
  let mut n_null = 0usize;
  let progress = args.out.join("progress.txt");
  for (ci, c) in calls.iter().enumerate() {
    // the full response, through a buffer certainly large enough; twice, to make sure the
    // response is a function of the call (no timestamps)
    let (r1, b1) = unsafe { call(h, c, 1 << 16, 0, false, false, false) };
    let (r2, b2) = unsafe { call(h, c, 1 << 16, 0, false, false, false) };
    assert!(r1 == r2 && b1[..r1] == b2[..r2], "response is not deterministic");
    let core_err = r1 == 0;
    let json: Vec<u8> = b1[..r1].to_vec();
    if core_err {
      n_err += 1;
    }
    let slack = json.len() + 64;
    let maxcap = json.len() + 8;
    let mut caps: Vec<usize> = if thorough || maxcap <= 48 {
      (0..=maxcap).collect()
    } else {
      let mut v: Vec<usize> = vec![0, 1, 2, 3, json.len().saturating_sub(1), json.len(), json.len() + 1, json.len() + 2, maxcap];
      for _ in 0..24 {
        v.push(rng.below(maxcap as u64 + 1) as usize);
      }
      // every capacity whose last byte falls inside a multi-byte character of the response
      if let Ok(text) = std::str::from_utf8(&json) {
        for i in 0..json.len() {
          if !text.is_char_boundary(i) {
            v.push(i + 1);
            v.push(i);
          }
        }
      }
      v.sort();
      v.dedup();
      v
    };
    if core_err {
      caps = vec![0, 1, 16];
    }
    for cap in caps {
      for variant in 0..4u8 {
        // variant 0: ordinary; 1..3: a null pointer in one argument (only at a few capacities)
        if variant > 0 && !(cap == 16 || cap == 0 || cap == maxcap) {
          continue;
        }
        let (nh, nq, no) = (variant == 1, variant == 2, variant == 3);
        std::fs::write(&progress, format!("call {ci} cap {cap} variant {variant}\n")).ok();
        let (ret, buf) = unsafe { call(h, c, cap, slack, nh, nq, no) };
        if variant > 0 {
          n_null += 1;
        } else if !core_err {
          if cap > json.len() {
            n_full += 1
          } else {
            n_trunc += 1
          }
        }
        let input = format!(
          "{{| json := {}; cap := {}; slack := {}; canary := {}; null_handle := {}; null_query := {}; null_out := {}; core_err := {} |}}",
          coq::bytes(&json), cap, slack, CANARY, coq::b(nh), coq::b(nq), coq::b(no), coq::b(core_err)
        );
        let obs = format!("{{| ret := {}; buf := {} |}}", ret, coq::bytes(&buf));
        cases.push(coq::pair(&input, &obs));
        meta.push(serde_json::json!({
          "query": c.query, "limit": c.limit, "cursor": c.cursor, "aggs": c.aggs.as_ref().map(|a| a.0.clone()),
          "aggs_len": c.aggs.as_ref().map(|a| a.1), "cap": cap, "json_len": json.len(),
          "null_handle": nh, "null_query": nq, "null_out": no, "core_err": core_err, "ret": ret,
          "nt": variant == 0 && !core_err && cap <= json.len() && cap > 0,
        }));
      }
    }
  }
  unsafe { searchlite_index_close(h) };
  std::fs::remove_file(&progress).ok();
  let files = write_cases(
    &args.out,
    "From SL Require Import C26.Model.",
    "ffi_in * ffi_obs",
    "check_case",
    &cases,
    200,
  );
  write_json(
    &args.out,
    "cases.json",
    &serde_json::json!({
      "files": files, "cases": meta,
      "distribution": {"calls": calls.len(), "core_err_calls": n_err, "truncating_caps": n_trunc,
                        "fitting_caps": n_full, "null_argument_cases": n_null},
      "nontrivial": n_trunc,
    }),
  );
}
